(* C03 -- lemmas about the integer, string, memory and bit checks; the double lemmas are in C03_DblProofs.v *)
From Coq Require Import ZArith NArith Bool List Lia ZifyBool.
From CppUVerif Require Import lib.CInt lib.Dbl lib.Str C03_Model.
Import ListNotations.
Local Open Scope Z_scope.

(* ------------------------------------------------------------------ conversions *)
Ltac pows :=
  change (2 ^ 8) with 256 in *; change (2 ^ (8 - 1)) with 128 in *;
  change (2 ^ 16) with 65536 in *; change (2 ^ (16 - 1)) with 32768 in *;
  change (2 ^ 32) with 4294967296 in *; change (2 ^ (32 - 1)) with 2147483648 in *;
  change (2 ^ 64) with 18446744073709551616 in *; change (2 ^ (64 - 1)) with 9223372036854775808 in *.

Lemma cast_wcast t z : cast t z = wcast (width t) (signed t) z.
Proof. reflexivity. Qed.

Definition std_width (w : Z) : Prop := w = 8 \/ w = 16 \/ w = 32 \/ w = 64.

Lemma wcast_wrap w sg z : std_width w -> wcast w sg z = wrap w sg z.
Proof.
  intros [H|[H|[H|H]]]; subst w; unfold wcast, wrap; destruct sg; cbn [andb]; pows; try reflexivity.
  all: match goal with |- context [?a <=? ?b] => destruct (Z.leb_spec a b) end.
  all: Z.div_mod_to_equations; lia.
Qed.

Lemma owidth_std t : std_width (owidth t).
Proof. unfold std_width. destruct t as [ | | | | []]; cbn; tauto. Qed.

Lemma ocast_owrap t z : ocast t z = owrap t z.
Proof.
  unfold owrap. rewrite <- wcast_wrap by apply owidth_std.
  destruct t; try reflexivity.
Qed.

Lemma o_in_range_iff t z : o_in_range t z = true <-> olo t <= z <= ohi t.
Proof. unfold o_in_range. rewrite andb_true_iff, !Z.leb_le. tauto. Qed.

Lemma owrap_id t z : o_in_range t z = true -> owrap t z = z.
Proof.
  intro H. apply o_in_range_iff in H. unfold owrap, wrap.
  destruct t as [ | | | | []]; cbn [owidth osigned olo ohi width signed] in *; pows.
  all: try (rewrite Z.mod_small by lia; lia).
Qed.

Lemma ocast_id t z : o_in_range t z = true -> ocast t z = z.
Proof. intro H. rewrite ocast_owrap. apply owrap_id. exact H. Qed.

Lemma owrap_range t z : o_in_range t (owrap t z) = true.
Proof.
  apply o_in_range_iff. unfold owrap, wrap.
  destruct t as [ | | | | []]; cbn [owidth osigned olo ohi width signed]; pows.
  all: Z.div_mod_to_equations; lia.
Qed.

Lemma cast_owrap t z : cast t z = owrap (OI t) z.
Proof. rewrite <- ocast_owrap. reflexivity. Qed.

(* an operand in range of its type is in range of the promoted type *)
Lemma promote_range t z : o_in_range t z = true -> in_range (promote t) z = true.
Proof.
  intro H. apply o_in_range_iff in H. apply in_range_iff.
  destruct t as [ | | | | []]; cbn [owidth osigned olo ohi width signed promote lo hi] in *; pows; lia.
Qed.

(* usual arithmetic conversions: converting an in-range operand to the common type *)
Lemma cast_common_l a b z : in_range a z = true -> cast (common a b) z = conv (common a b) z.
Proof.
  intro H. apply in_range_iff in H. unfold conv.
  destruct a, b; cbn [lo hi] in H;
    match goal with |- context [common ?a ?b] => let v := eval vm_compute in (common a b) in change (common a b) with v end;
    cbn [signed width]; try reflexivity; apply cast_id'; cbn [lo hi]; lia.
Qed.
Lemma cast_common_r a b z : in_range b z = true -> cast (common a b) z = conv (common a b) z.
Proof.
  intro H. apply in_range_iff in H. unfold conv.
  destruct a, b; cbn [lo hi] in H;
    match goal with |- context [common ?a ?b] => let v := eval vm_compute in (common a b) in change (common a b) with v end;
    cbn [signed width]; try reflexivity; apply cast_id'; cbn [lo hi]; lia.
Qed.

Lemma c_rel_lang op ta za tb zb :
  o_in_range ta za = true -> o_in_range tb zb = true ->
  c_rel op (promote ta) za (promote tb) zb = lang_rel op ta za tb zb.
Proof.
  intros Ha Hb. unfold c_rel, lang_rel.
  rewrite cast_common_l by (apply promote_range; exact Ha).
  rewrite cast_common_r by (apply promote_range; exact Hb). reflexivity.
Qed.
Lemma c_eq_lang ta za tb zb :
  o_in_range ta za = true -> o_in_range tb zb = true ->
  c_eq (promote ta) za (promote tb) zb = lang_rel REq ta za tb zb.
Proof. intros Ha Hb. rewrite <- c_rel_lang by assumption. reflexivity. Qed.

(* when the language converts nothing away the comparison is the mathematical one *)
Definition math_compare_ok (ta : oty) (za : Z) (tb : oty) (zb : Z) : bool :=
  Bool.eqb (signed (promote ta)) (signed (promote tb)) || ((0 <=? za) && (0 <=? zb)).
Lemma lang_rel_math op ta za tb zb :
  o_in_range ta za = true -> o_in_range tb zb = true -> math_compare_ok ta za tb zb = true ->
  lang_rel op ta za tb zb = rel op za zb.
Proof.
  intros Ha Hb Hm. apply promote_range in Ha. apply promote_range in Hb.
  apply in_range_iff in Ha. apply in_range_iff in Hb. unfold lang_rel, conv, math_compare_ok in *.
  destruct (promote ta), (promote tb); cbn [lo hi signed] in *;
    match goal with |- context [common ?a ?b] => let v := eval vm_compute in (common a b) in change (common a b) with v end;
    cbn [signed width Bool.eqb orb] in *; pows; try reflexivity.
  all: try (rewrite !Z.mod_small by lia; reflexivity).
Qed.

(* (x) & 0xff *)
Lemma and_ff_mod t z : o_in_range t z = true -> snd (and_ff t z) = z mod 256.
Proof.
  intro H. apply promote_range in H. unfold and_ff. cbn [snd].
  assert (Hc : cast (common (promote t) TInt) z = z).
  { apply in_range_iff in H. destruct (promote t); cbn [lo hi] in H;
      match goal with |- context [common ?a ?b] => let v := eval vm_compute in (common a b) in change (common a b) with v end;
      apply cast_id'; cbn [lo hi]; lia. }
  rewrite Hc.
  assert (H255 : cast (common (promote t) TInt) 255 = 255) by (destruct (promote t); reflexivity).
  rewrite H255. change 255 with (Z.ones 8). rewrite Z.land_ones by lia. reflexivity.
Qed.

Lemma cast_long_small z : -9223372036854775808 <= z <= 9223372036854775807 -> cast TLong z = z.
Proof. intro H. apply cast_id'. exact H. Qed.

(* ------------------------------------------------------------------ two-operand integer checks *)
Lemma eqb_negb_iff (a b : bool) : Bool.eqb (negb a) (negb b) = Bool.eqb a b.
Proof. destruct a, b; reflexivity. Qed.

Lemma run_k2_holds k ta za tb zb :
  o_in_range ta za = true -> o_in_range tb zb = true ->
  run_k2 k ta za tb zb = (negb (holds_int2 k ta za tb zb), 1%N).
Proof.
  intros Ha Hb. unfold holds_int2.
  destruct k; cbn [named run_k2];
    unfold assertLongsEqual, assertUnsignedLongsEqual, assertLongLongsEqual, assertUnsignedLongLongsEqual,
           assertSignedBytesEqual, assertEquals.
  - (* CHECK_EQUAL *)
    rewrite c_eq_lang by assumption. destruct (lang_rel REq ta za tb zb); reflexivity.
  - rewrite !cast_owrap. reflexivity.
  - rewrite !cast_owrap. reflexivity.
  - rewrite !cast_owrap. reflexivity.
  - rewrite !cast_owrap. reflexivity.
  - (* BYTES_EQUAL *)
    rewrite !and_ff_mod by assumption.
    rewrite !cast_long_small by (Z.div_mod_to_equations; lia). reflexivity.
  - rewrite !ocast_owrap. reflexivity.
  - (* C_BOOL *)
    rewrite !cast_owrap, eqb_negb_iff. reflexivity.
  - (* C_INT *)
    rewrite (cast_owrap TInt za), (cast_owrap TInt zb).
    pose proof (owrap_range (OI TInt) za) as R1. pose proof (owrap_range (OI TInt) zb) as R2.
    apply o_in_range_iff in R1. apply o_in_range_iff in R2. cbn [olo ohi owidth osigned width signed] in R1, R2. pows.
    rewrite !cast_long_small by lia. reflexivity.
  - (* C_UINT *)
    rewrite (cast_owrap TUInt za), (cast_owrap TUInt zb).
    pose proof (owrap_range (OI TUInt) za) as R1. pose proof (owrap_range (OI TUInt) zb) as R2.
    apply o_in_range_iff in R1. apply o_in_range_iff in R2. cbn [olo ohi owidth osigned width signed] in R1, R2. pows.
    rewrite !(cast_id' TULong) by (cbn [lo hi]; lia). reflexivity.
  - rewrite !cast_owrap. reflexivity.
  - rewrite !cast_owrap. reflexivity.
  - rewrite !cast_owrap. reflexivity.
  - rewrite !cast_owrap. reflexivity.
  - (* C_CHAR *)
    rewrite !ocast_owrap. unfold c_eq. change (common TInt TInt) with TInt.
    pose proof (owrap_range OSChar za) as R1. pose proof (owrap_range OSChar zb) as R2.
    apply o_in_range_iff in R1. apply o_in_range_iff in R2. cbn [olo ohi owidth osigned] in R1, R2. pows.
    rewrite !(cast_id' TInt) by (cbn [lo hi]; lia). reflexivity.
  - (* C_UBYTE *)
    rewrite !ocast_owrap. unfold c_eq. change (common TInt TInt) with TInt.
    pose proof (owrap_range OUChar za) as R1. pose proof (owrap_range OUChar zb) as R2.
    apply o_in_range_iff in R1. apply o_in_range_iff in R2. cbn [olo ohi owidth osigned] in R1, R2. pows.
    rewrite !(cast_id' TInt) by (cbn [lo hi]; lia). reflexivity.
  - (* C_SBYTE *)
    rewrite !ocast_owrap. unfold c_eq. change (common TInt TInt) with TInt.
    pose proof (owrap_range OSChar za) as R1. pose proof (owrap_range OSChar zb) as R2.
    apply o_in_range_iff in R1. apply o_in_range_iff in R2. cbn [olo ohi owidth osigned] in R1, R2. pows.
    rewrite !(cast_id' TInt) by (cbn [lo hi]; lia). reflexivity.
Qed.

(* ------------------------------------------------------------------ one-operand, compare, enums, pointers, bits *)
Lemma run_k1_holds k t z : o_in_range t z = true -> run_k1 k t z = (negb (holds_bool1 k z), 1%N).
Proof.
  intros _. destruct k; cbn [run_k1 holds_bool1]; unfold assertTrue, to_bool; rewrite ?cast_owrap, ?negb_involutive; reflexivity.
Qed.

Lemma in_range_int_0 : o_in_range (OI TInt) 0 = true. Proof. reflexivity. Qed.

Lemma run_equal_zero_holds t z : o_in_range t z = true -> run_equal_zero t z = (negb (lang_rel REq (OI TInt) 0 t z), 1%N).
Proof.
  intro H. unfold run_equal_zero. rewrite run_k2_holds by (try exact in_range_int_0; exact H). reflexivity.
Qed.

Lemma run_compare_holds op ta za tb zb :
  o_in_range ta za = true -> o_in_range tb zb = true ->
  run_compare op ta za tb zb =
  (negb (lang_rel op ta za tb zb), if lang_rel op ta za tb zb then 0%N else 1%N).
Proof.
  intros Ha Hb. unfold run_compare. rewrite c_rel_lang by assumption.
  destruct (lang_rel op ta za tb zb); reflexivity.
Qed.

Lemma run_enums_holds u za zb : run_enums u za zb = (negb (owrap u za =? owrap u zb), 1%N).
Proof.
  unfold run_enums.
  rewrite c_eq_lang by (rewrite ocast_owrap; apply owrap_range).
  rewrite lang_rel_math; try (rewrite ocast_owrap; apply owrap_range).
  - cbn [rel]. rewrite !ocast_owrap. destruct (owrap u za =? owrap u zb); reflexivity.
  - unfold math_compare_ok. rewrite eqb_reflx. reflexivity.
Qed.

Lemma run_ptr_holds k e a : run_ptr k e a = (negb (e =? a), 1%N).
Proof. destruct k; reflexivity. Qed.

Lemma cast_u64 z : cast TULong z = z mod 2 ^ 64. Proof. reflexivity. Qed.
Lemma cast_u32 z : cast TUInt z = z mod 2 ^ 32. Proof. reflexivity. Qed.
Lemma run_bits_holds c te ze ta za zm : run_bits c te ze ta za zm = (negb (holds_bits c ze za zm), 1%N).
Proof.
  unfold run_bits, assertBitsEqual, holds_bits. destruct c.
  - rewrite !cast_u32. rewrite !(cast_id' TULong) by (cbn [lo hi]; pows; Z.div_mod_to_equations; lia). reflexivity.
  - rewrite !cast_u64. reflexivity.
Qed.

Lemma run_throws_holds w : run_throws w = (negb (holds_throws w), 1%N).
Proof. destruct w; reflexivity. Qed.

(* ------------------------------------------------------------------ strings *)
Lemma zb_sub_0 (a b : N) : (zb a - zb b =? 0) = (a =? b)%N.
Proof. unfold zb. destruct (N.eqb_spec a b); lia. Qed.
Lemma hd0_cut_nul s : (hd0 s =? 0)%N = true -> cut_nul s = [].
Proof. destruct s as [|c r]; cbn; intro H; [reflexivity|]. rewrite H. reflexivity. Qed.
Lemma bytes_eqb_nil_r a : bytes_eqb a [] = match a with [] => true | _ => false end.
Proof. destruct a; reflexivity. Qed.

Lemma cut_nul_hd s : cut_nul s = [] <-> hd0 s = 0%N.
Proof.
  destruct s as [|c r]; cbn; [tauto|]. destruct (N.eqb_spec c 0); split; intro H; try reflexivity; try assumption; try discriminate H; congruence.
Qed.

Lemma nil_eq_cut s : bytes_eqb [] (cut_nul s) = (hd0 s =? 0)%N.
Proof. destruct s as [|c r]; [reflexivity|]. cbn [cut_nul hd0]. destruct (c =? 0)%N; reflexivity. Qed.
Lemma cons_eq_cut c r s : c <> 0%N -> c <> hd0 s -> bytes_eqb (c :: r) (cut_nul s) = false.
Proof.
  intros Hc Hs. destruct s as [|c2 r2]; [reflexivity|]. cbn [cut_nul hd0] in *. destruct (c2 =? 0)%N; [reflexivity|].
  cbn [bytes_eqb]. replace (c =? c2)%N with false by (symmetry; apply N.eqb_neq; exact Hs). reflexivity.
Qed.
Lemma hd_tl s c : c <> 0%N -> c = hd0 s -> cut_nul s = c :: cut_nul (tl s).
Proof.
  intros Hc Hs. destruct s as [|c2 r2]; cbn [hd0] in Hs; [congruence|]. subst c2. cbn [cut_nul tl].
  replace (c =? 0)%N with false by (symmetry; apply N.eqb_neq; exact Hc). reflexivity.
Qed.

Lemma StrCmp_spec s1 : forall s2, (StrCmp s1 s2 =? 0) = bytes_eqb (cut_nul s1) (cut_nul s2).
Proof.
  induction s1 as [|c1 r1 IH]; intro s2; cbn [StrCmp cut_nul].
  - change (0 - zb (hd0 s2)) with (zb 0 - zb (hd0 s2)). rewrite zb_sub_0, nil_eq_cut. apply N.eqb_sym.
  - destruct (N.eqb_spec c1 0) as [E0|N0]; cbn [negb andb].
    + subst c1. rewrite zb_sub_0, nil_eq_cut. apply N.eqb_sym.
    + destruct (N.eqb_spec c1 (hd0 s2)) as [E|NE].
      * rewrite (hd_tl s2 c1 N0 E). cbn [bytes_eqb]. rewrite N.eqb_refl. cbn [andb]. apply IH.
      * rewrite zb_sub_0. rewrite cons_eq_cut by assumption. apply N.eqb_neq. exact NE.
Qed.

Lemma take_0 l : take 0 l = []. Proof. destruct l; reflexivity. Qed.
Lemma take_firstn l : forall n, take n l = firstn (N.to_nat n) l.
Proof.
  induction l as [|c r IH]; intro n; cbn [take].
  - rewrite firstn_nil. reflexivity.
  - destruct (N.eqb_spec n 0) as [E|NE]; [subst; reflexivity|].
    replace (N.to_nat n) with (S (N.to_nat (N.pred n))) by lia. cbn [firstn]. rewrite IH. reflexivity.
Qed.

Lemma StrNCmp_spec s1 : forall s2 n, (StrNCmp s1 s2 n =? 0) = bytes_eqb (take n (cut_nul s1)) (take n (cut_nul s2)).
Proof.
  induction s1 as [|c1 r1 IH]; intros s2 n.
  - cbn [StrNCmp cut_nul take]. destruct (N.eqb_spec n 0) as [E|NE]; [subst; rewrite take_0; reflexivity|].
    change (0 - zb (hd0 s2)) with (zb 0 - zb (hd0 s2)). rewrite zb_sub_0.
    destruct (N.eqb_spec 0 (hd0 s2)) as [E|NE2].
    + symmetry in E. apply cut_nul_hd in E. rewrite E. reflexivity.
    + destruct (cut_nul s2) as [|x l] eqn:Ec; [apply cut_nul_hd in Ec; congruence|].
      cbn [take]. replace (n =? 0)%N with false by (symmetry; apply N.eqb_neq; exact NE). reflexivity.
  - cbn [StrNCmp]. destruct (N.eqb_spec n 0) as [E|NE]; [subst; rewrite !take_0; reflexivity|].
    assert (Hn : (n =? 0)%N = false) by (apply N.eqb_neq; exact NE).
    cbn [cut_nul]. destruct (N.eqb_spec c1 0) as [E0|N0]; cbn [negb andb].
    + subst c1. rewrite zb_sub_0. cbn [take].
      destruct (N.eqb_spec 0 (hd0 s2)) as [E|NE2].
      * symmetry in E. apply cut_nul_hd in E. rewrite E. reflexivity.
      * destruct (cut_nul s2) as [|x l] eqn:Ec; [apply cut_nul_hd in Ec; congruence|].
        cbn [take]. rewrite Hn. reflexivity.
    + cbn [take]. rewrite Hn.
      destruct (N.eqb_spec c1 (hd0 s2)) as [E|NE2].
      * rewrite (hd_tl s2 c1 N0 E). cbn [take]. rewrite Hn. cbn [bytes_eqb]. rewrite N.eqb_refl. cbn [andb]. apply IH.
      * rewrite zb_sub_0. replace (c1 =? hd0 s2)%N with false by (symmetry; apply N.eqb_neq; exact NE2).
        symmetry. destruct (cut_nul s2) as [|x l] eqn:Ec; [reflexivity|].
        cbn [take]. rewrite Hn. cbn [bytes_eqb].
        assert (Hx : x = hd0 s2).
        { destruct s2 as [|c2 r2]; [discriminate Ec|]. cbn [cut_nul hd0] in *. destruct (c2 =? 0)%N; [discriminate Ec|]. congruence. }
        replace (c1 =? x)%N with false by (symmetry; apply N.eqb_neq; congruence). reflexivity.
Qed.

Lemma StrLen_spec s : StrLen s = N.of_nat (length (cut_nul s)).
Proof.
  induction s as [|c r IH]; cbn [StrLen cut_nul]; [reflexivity|].
  destruct (c =? 0)%N; [reflexivity|]. cbn [length]. rewrite IH. lia.
Qed.

(* comparing the first |t| bytes with t is the prefix test *)
Lemma take_len_prefix t : forall s, bytes_eqb (take (N.of_nat (length t)) s) (take (N.of_nat (length t)) t) = is_prefix t s.
Proof.
  induction t as [|x t IH]; intro s.
  - cbn. rewrite take_0. reflexivity.
  - cbn [length]. assert (Hn : (N.of_nat (S (length t)) =? 0)%N = false) by (apply N.eqb_neq; lia).
    replace (N.pred (N.of_nat (S (length t)))) with (N.of_nat (length t)) in * by lia.
    destruct s as [|y s]; cbn [take is_prefix]; rewrite Hn; [reflexivity|].
    replace (N.pred (N.of_nat (S (length t)))) with (N.of_nat (length t)) by lia.
    cbn [bytes_eqb]. rewrite IH. rewrite (N.eqb_sym y x). reflexivity.
Qed.

Lemma StrStr_loop_spec s2 : hd0 s2 <> 0%N ->
  forall s1, StrStr_loop s1 s2 (StrLen s2) = contains (cut_nul s1) (cut_nul s2).
Proof.
  intros Hne s1. assert (Ht : cut_nul s2 <> []) by (intro E; apply Hne; apply cut_nul_hd; exact E).
  rewrite StrLen_spec.
  induction s1 as [|c r IH]; cbn [StrStr_loop cut_nul contains].
  - destruct (cut_nul s2); [contradiction|reflexivity].
  - destruct (N.eqb_spec c 0) as [E0|N0].
    + cbn [contains]. destruct (cut_nul s2); [contradiction|reflexivity].
    + rewrite StrNCmp_spec, take_len_prefix. cbn [cut_nul].
      replace (c =? 0)%N with false by (symmetry; apply N.eqb_neq; exact N0).
      cbn [contains]. rewrite IH. destruct (is_prefix (cut_nul s2) (c :: cut_nul r)); reflexivity.
Qed.

Lemma contains_nil s : contains s [] = true.
Proof. destruct s; reflexivity. Qed.

Lemma StrStr_spec s1 s2 : StrStr_found s1 s2 = contains (cut_nul s1) (cut_nul s2).
Proof.
  unfold StrStr_found. destruct (N.eqb_spec (hd0 s2) 0) as [E|NE].
  - apply cut_nul_hd in E. rewrite E, contains_nil. reflexivity.
  - apply StrStr_loop_spec. exact NE.
Qed.

Lemma to_lower_nz c : c <> 0%N -> to_lower c <> 0%N.
Proof. unfold to_lower. destruct ((65 <=? c) && (c <=? 90))%N; lia. Qed.
Lemma lower_no_nul s : ~ In 0%N s -> ~ In 0%N (lower s).
Proof.
  unfold lower. intros H Hin. apply in_map_iff in Hin. destruct Hin as [c [Hc Hi]].
  destruct (N.eq_dec c 0) as [->|Hn]; [contradiction|]. apply to_lower_nz in Hn. contradiction.
Qed.
Lemma cut_nul_lower s : cut_nul (lowerCase (cut_nul s)) = lower (cut_nul s).
Proof. apply cut_nul_id. apply lower_no_nul. apply cut_nul_no_nul. Qed.

Lemma run_str_holds k e a n : run_str k e a n = (negb (holds_str k e a n), 1%N).
Proof.
  unfold holds_str.
  destruct k; cbn [run_str]; unfold assertCstrEqual, assertCstrNEqual, assertCstrNoCaseEqual, assertCstrContains,
    assertCstrNoCaseContains, passed1, failed1, ss_equal, ss_contains;
    destruct e as [e|], a as [a|]; try reflexivity; cbn [SimpleString_of].
  - rewrite StrCmp_spec. destruct (bytes_eqb (cut_nul e) (cut_nul a)); reflexivity.
  - rewrite StrNCmp_spec. destruct (bytes_eqb (take n (cut_nul e)) (take n (cut_nul a))); reflexivity.
  - rewrite StrCmp_spec, !cut_nul_lower. destruct (bytes_eqb (lower (cut_nul e)) (lower (cut_nul a))); reflexivity.
  - rewrite StrStr_spec, !(cut_nul_id (cut_nul _)) by apply cut_nul_no_nul.
    destruct (contains (cut_nul a) (cut_nul e)); reflexivity.
  - rewrite StrStr_spec, !cut_nul_lower. destruct (contains (lower (cut_nul a)) (lower (cut_nul e))); reflexivity.
  - rewrite StrCmp_spec. destruct (bytes_eqb (cut_nul e) (cut_nul a)); reflexivity.
Qed.

(* ------------------------------------------------------------------ memory blocks *)
Lemma MemCmp_spec p1 : forall p2 n, (n <= N.of_nat (length p1))%N -> (n <= N.of_nat (length p2))%N ->
  (MemCmp p1 p2 n =? 0) = bytes_eqb (take n p1) (take n p2).
Proof.
  induction p1 as [|c1 r1 IH]; intros p2 n H1 H2.
  - cbn [length] in H1. assert (n = 0%N) by lia. subst. cbn. rewrite take_0. reflexivity.
  - cbn [MemCmp]. destruct (N.eqb_spec n 0) as [E|NE]; [subst; rewrite !take_0; reflexivity|].
    assert (Hn : (n =? 0)%N = false) by (apply N.eqb_neq; exact NE).
    destruct p2 as [|c2 r2]; [cbn [length] in H2; lia|].
    cbn [take]. rewrite Hn. cbn [bytes_eqb]. cbn [length] in H1, H2.
    destruct (N.eqb_spec c1 c2) as [E|NE2]; cbn [andb].
    + apply IH; lia.
    + rewrite zb_sub_0. apply N.eqb_neq. exact NE2.
Qed.

Lemma run_mem_holds e a n : block_ok e n = true -> block_ok a n = true ->
  assertBinaryEqual e a n = (negb (holds_mem e a n), 1%N).
Proof.
  intros He Ha. unfold assertBinaryEqual, holds_mem. destruct (n =? 0)%N; [reflexivity|]. cbn [orb].
  destruct e as [e|], a as [a|]; try reflexivity. cbn [block_ok] in He, Ha.
  rewrite MemCmp_spec by (apply N.leb_le; assumption).
  destruct (bytes_eqb (take n e) (take n a)); reflexivity.
Qed.
