From Coq Require Import ExtrOcamlBasic ZArith.
From CppUVerif Require Import C12_Model C12_Apply.
Extraction "c12_model.ml" C12_Apply.xrun C12_Apply.xspec C12_Model.valid C12_Model.render BinInt.Z.of_N.
