From Coq Require Import ExtrOcamlBasic ZArith.
From CppUVerif Require Import C12_Model C12_Apply C12_Seq.
Extraction "c12_model.ml" C12_Seq.yrun C12_Seq.yspec C12_Seq.yvalid C12_Apply.xrun C12_Apply.xspec C12_Model.valid C12_Model.render BinInt.Z.of_N.
