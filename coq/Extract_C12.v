From Coq Require Import ExtrOcamlBasic ZArith.
From CppUVerif Require Import C12_Model.
Extraction "c12_model.ml" C12_Model.run C12_Model.spec C12_Model.valid C12_Model.render BinInt.Z.of_N.
