From Coq Require Import ExtrOcamlBasic NArith.
From CppUVerif Require Import C11_Model.
Extraction "c11_model.ml" C11_Model.run_m C11_Model.spec_m C11_Model.valid_m C11_Model.embed.
