From Coq Require Import ExtrOcamlBasic NArith.
From CppUVerif Require Import C11_Model.
Extraction "c11_model.ml" C11_Model.run C11_Model.spec C11_Model.valid.
