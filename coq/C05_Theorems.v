(* C05 -- the statements Properties_C05.v exports, proved from C05_Proofs.v / C05_History.v *)
From Coq Require Import NArith PeanoNat Bool List Lia Permutation ZifyBool.
From CppUVerif Require Import gen.Gen_Common gen.Gen_C05 lib.Str C05_Model C05_Proofs C05_History.
Import ListNotations.
Local Open Scope N_scope.

(* ------------------------------------------------------------------ layout *)
(* a size that leaves room (n + guard + 8 + record < 2^64; with the guard bytes compiled out the record is always separate):
   the request is the mathematical sum (no wrap), the record offset is the next multiple of 8 strictly above n + G,
   and user bytes [0,n), guard [n,n+G), record [node,node+ns) lie in this order inside the region [0,req) *)
Lemma layout_sound c sep n :
  valid_cfg c = true -> n + G c + 8 + node_size c < W -> (sep = false -> guard_on c = true) ->
  let req := request c sep n in let node := with_guard c n in
  req < W /\ (if sep then req = node else req = node + node_size c) /\
  (guard_on c = true -> node = n + G c + (8 - (n + G c) mod 8) /\ node mod 8 = 0) /\ (guard_on c = false -> node = n) /\
  n + G c <= node /\ node <= n + G c + 8 /\ n + G c <= req /\ n <= req /\ (sep = false -> node + node_size c <= req) /\
  layout_fine c sep n req = true.
Proof.
  intros Hc Hn Hs. cbv zeta. pose proof (valid_cfg_spec c Hc) as Hns. pose proof W_val as HW.
  assert (Hf : fits c n = true) by (apply fits_spec; lia).
  destruct (layout_fine_fits c sep n Hc Hf Hs) as (HL & HWr & Hlay). cbv zeta in HL, HWr, Hlay.
  destruct (G_cases c) as [[Hg E]|[Hg E]].
  - destruct (with_guard_on c n Hg ltac:(lia)) as (E1 & E2 & E3).
    assert (Hreq : if sep then request c sep n = with_guard c n else request c sep n = with_guard c n + node_size c).
    { unfold request. destruct sep; [reflexivity|]. apply wrap_small. lia. }
    repeat split; try assumption; try (intro; congruence); try lia; destruct sep; try lia; try (intro; lia).
  - assert (sep = true) by (destruct sep; [reflexivity|specialize (Hs eq_refl); congruence]). subst sep.
    pose proof (with_guard_off c n Hg ltac:(lia)) as E1. unfold request in *.
    repeat split; try assumption; try (intro; congruence); try lia; try (intro; discriminate).
Qed.

(* every block of every reachable state has this layout, and as many content bytes as were asked for *)
Lemma blocks_sound c f ops : valid_cfg c = true -> forallb valid_op ops = true ->
  let s := fst (steps fixed c f st0 0 ops) in
  s_err s = false /\
  Forall (fun b => block_layout_ok c b /\ N.of_nat (length (b_data b)) = b_size b /\ b_size b <= b_req b) (s_blocks s).
Proof.
  intros Hc Hv. cbv zeta. pose proof (history_inv c f ops Hc Hv) as H. split; [exact (i_err _ _ _ H)|].
  pose proof (i_layout _ _ _ H) as H1. pose proof (i_len _ _ _ H) as H2. rewrite Forall_forall in *. intros b Hb.
  specialize (H1 b Hb). specialize (H2 b Hb). cbv beta in H2. split; [exact H1|]. split; [exact H2|].
  destruct H1 as (_ & H1). destruct (b_sep b); lia.
Qed.

(* ------------------------------------------------------------------ overflow *)
Lemma fits_false c n : valid_cfg c = true -> W <= n + G c + 8 + node_size c -> fits c n = false.
Proof.
  intros Hc Hn. pose proof (valid_cfg_spec c Hc) as Hns. destruct (fits c n) eqn:E; [|reflexivity].
  apply fits_spec in E; lia.
Qed.

Lemma overflow_rejected c f s idx : valid_cfg c = true ->
  (forall fam ws n data, W <= n + G c + 8 + node_size c -> alloc_mem fixed c f s idx fam ws n data = (ANull, s, [])) /\
  (forall ob n, W <= n + G c + 8 + node_size c -> realloc_mem fixed c f s idx ob n = (ANull, s, [])) /\
  (forall num size, W <= num * size -> calloc_mem fixed c f s idx num size = (ANull, s, [])) /\
  (forall num size, W <= num * size + G c + 8 + node_size c -> calloc_mem fixed c f s idx num size = (ANull, s, [])).
Proof.
  intro Hc.
  assert (A : forall fam ws n data, W <= n + G c + 8 + node_size c -> alloc_mem fixed c f s idx fam ws n data = (ANull, s, [])).
  { intros fam ws n data Hn. unfold alloc_mem. cbn [v_fits fixed andb]. rewrite (fits_false c n Hc Hn). reflexivity. }
  assert (C : forall num size, W <= num * size -> calloc_mem fixed c f s idx num size = (ANull, s, [])).
  { intros num size Hn. unfold calloc_mem. cbn [v_calloc fixed andb].
    destruct (negb (size =? 0) && ((W - 1) / size <? num)) eqn:Ho; [reflexivity|]. apply calloc_no_overflow in Ho. lia. }
  split; [exact A|]. split; [|split; [exact C|]].
  - intros ob n Hn. change (realloc_mem fixed) with (realloc_new fixed). unfold realloc_new. cbn [v_fits fixed andb].
    rewrite (fits_false c n Hc Hn). reflexivity.
  - intros num size Hn. destruct (N.le_gt_cases W (num * size)) as [Hw|Hw]; [apply C; exact Hw|].
    unfold calloc_mem. cbn [v_calloc fixed andb].
    destruct (negb (size =? 0) && ((W - 1) / size <? num)) eqn:Ho; [reflexivity|]. rewrite (wrap_small _ Hw). apply A. exact Hn.
Qed.

(* at the level of the entry points: the mathematical size of the request *)
Definition op_request (o : op) : option (bool * N) :=
  match o with
  | OMalloc n | ODetAlloc n | ORealloc None n => Some (false, n)
  | OCalloc a b => Some (false, a * b)
  | ONew _ thr n => Some (thr, n)
  | _ => None
  end.

Lemma overflow_rejected_op c f s idx o thr n : valid_cfg c = true -> op_request o = Some (thr, n) ->
  W <= n + G c + 8 + node_size c ->
  step fixed c f s idx o = (s, mk_oobs (if thr then K_BAD else K_NULL) [] 0 0 0 [] (total s) 0).
Proof.
  intros Hc Ho Hn. destruct (overflow_rejected c f s idx Hc) as (A & R & _ & C).
  destruct o as [k|k|num size|[i|] k|str|str k|arr t k|i|i off bytes]; cbn [op_request] in Ho; try discriminate Ho;
    injection Ho as <- <-; cbn [step].
  - rewrite A by exact Hn. reflexivity.
  - rewrite A by exact Hn. reflexivity.
  - rewrite C by exact Hn. reflexivity.
  - rewrite R by exact Hn. reflexivity.
  - rewrite A by exact Hn. reflexivity.
Qed.

(* ------------------------------------------------------------------ what every operation is, seen from outside *)
Definition throws (o : op) : bool := match o with ONew _ t _ => t | _ => false end.

(* the mathematical size an allocation-like operation asks for *)
Definition op_size (o : op) : N :=
  match o with
  | OMalloc n | ODetAlloc n | ORealloc _ n | ONew _ _ n => n
  | OCalloc a b => a * b
  | OStrdup str => N.of_nat (length (cut_nul str)) + 1
  | OStrndup str k => N.min (N.of_nat (length (cut_nul str))) k + 1
  | _ => 0
  end.

Inductive shape (c : cfg) (s : st) (idx : N) : op -> st * oobs -> Prop :=
| sh_alloc o r fd fam d : alloc_post c s idx fam (op_size o) d r -> shape c s idx o (obs_of_alloc c (throws o) r fd)
| sh_realloc i n b0 r : In b0 (s_blocks s) -> b_id b0 = i -> realloc_post c s idx (Some b0) n r ->
    shape c s idx (ORealloc (Some i) n) (obs_of_alloc c false r (digest (b_data b0)))
| sh_other o s' ob : any_failed (o_calls ob) = false -> s_blocks s' = s_blocks s \/ (exists i, o = OFree i) \/ (exists i off bs, o = OWrite i off bs) ->
    o_kind ob = K_SKIP \/ o_kind ob = K_VOID -> shape c s idx o (s', ob).

Lemma calloc_post c f s idx num size : valid_cfg c = true ->
  alloc_post c s idx 0 (num * size) (repeat 0 (N.to_nat (num * size))) (calloc_mem fixed c f s idx num size).
Proof.
  intro Hc. unfold calloc_mem. cbn [v_calloc fixed andb].
  destruct (negb (size =? 0) && ((W - 1) / size <? num)) eqn:Ho.
  - apply calloc_overflow in Ho. unfold alloc_post. repeat split; try reflexivity; try lia.
    right. unfold too_big. apply N.leb_le. lia.
  - apply calloc_no_overflow in Ho. rewrite (wrap_small _ Ho).
    apply (alloc_mem_post c f s idx 0 true (num * size) (fun _ => repeat 0 (N.to_nat (num * size))) Hc Ho).
Qed.

Lemma strdup_post c f s idx str : valid_cfg c = true -> N.of_nat (length str) < 4294967296 ->
  alloc_post c s idx 0 (N.of_nat (length (cut_nul str)) + 1) (cut_nul str ++ [0]) (strdup_mem fixed c f s idx str).
Proof.
  intros Hc Hl. pose proof (cut_nul_length str) as Hcl. unfold strdup_mem. rewrite strdup_alloc_fixed. unfold strlen.
  assert (Hw : 1 + N.of_nat (length (cut_nul str)) < W) by (rewrite W_val; lia).
  rewrite (wrap_small _ Hw). replace (N.of_nat (length (cut_nul str)) + 1) with (1 + N.of_nat (length (cut_nul str))) by lia.
  rewrite strdup_content.
  apply (alloc_mem_post c f s idx 0 true (1 + N.of_nat (length (cut_nul str))) (fun _ => cut_nul str ++ [0]) Hc Hw).
Qed.

Lemma strndup_post c f s idx str k : valid_cfg c = true -> N.of_nat (length str) < 4294967296 ->
  let m := N.min (N.of_nat (length (cut_nul str))) k in
  alloc_post c s idx 0 (m + 1) (firstn (N.to_nat m) (cut_nul str) ++ [0]) (strndup_mem fixed c f s idx str k).
Proof.
  intros Hc Hl m. pose proof (cut_nul_length str) as Hcl. unfold strndup_mem. rewrite strdup_alloc_fixed. unfold strlen.
  assert (Em : (if N.of_nat (length (cut_nul str)) <? k then N.of_nat (length (cut_nul str)) else k) = m).
  { subst m. destruct (N.ltb_spec (N.of_nat (length (cut_nul str))) k); lia. }
  rewrite Em.
  assert (Hm : m <= N.of_nat (length (cut_nul str))) by (subst m; lia).
  assert (Hw : m + 1 < W) by (rewrite W_val; lia).
  rewrite (wrap_small _ Hw). rewrite (strndup_content _ _ Hm).
  apply (alloc_mem_post c f s idx 0 true (m + 1) (fun _ => firstn (N.to_nat m) (cut_nul str) ++ [0]) Hc Hw).
Qed.

Lemma step_shape c f s idx o : valid_cfg c = true -> valid_op o = true -> inv c idx s -> shape c s idx o (step fixed c f s idx o).
Proof.
  intros Hc Hv H. destruct o as [n|n|num size|[i|] n|str|str k|arr throwing n|i|i off bytes]; cbn [valid_op] in Hv; cbn [step].
  - apply ltb_W in Hv. apply (sh_alloc c s idx (OMalloc n) _ [] 0 _ (alloc_mem_post c f s idx 0 true n _ Hc Hv)).
  - apply ltb_W in Hv. apply (sh_alloc c s idx (ODetAlloc n) _ [] 0 _ (alloc_mem_post c f s idx 0 false n _ Hc Hv)).
  - apply (sh_alloc c s idx (OCalloc num size) _ [] 0 _ (calloc_post c f s idx num size Hc)).
  - apply ltb_W in Hv. destruct (find_block i (s_blocks s)) as [b0|] eqn:Hfind.
    + apply find_block_some in Hfind. destruct Hfind as [Hin Hid].
      destruct (b_fam b0 =? 0).
      * change (realloc_mem fixed) with (realloc_new fixed). apply sh_realloc; [exact Hin|exact Hid|]. apply realloc_new_post; assumption.
      * apply sh_other; [reflexivity|left; reflexivity|left; reflexivity].
    + apply sh_other; [reflexivity|left; reflexivity|left; reflexivity].
  - apply ltb_W in Hv. change (realloc_mem fixed) with (realloc_new fixed).
    apply (sh_alloc c s idx (ORealloc None n) _ [] 0 _ (realloc_post_none c s idx n _ (realloc_new_post c f s idx None n Hc Hv))).
  - apply andb_true_iff in Hv. destruct Hv as [_ Hl]. apply N.ltb_lt in Hl.
    apply (sh_alloc c s idx (OStrdup str) _ [] 0 _ (strdup_post c f s idx str Hc Hl)).
  - apply andb_true_iff in Hv. destruct Hv as [Hv _]. apply andb_true_iff in Hv. destruct Hv as [_ Hl]. apply N.ltb_lt in Hl.
    apply (sh_alloc c s idx (OStrndup str k) _ [] 0 _ (strndup_post c f s idx str k Hc Hl)).
  - apply ltb_W in Hv.
    apply (sh_alloc c s idx (ONew arr throwing n) _ [] (if arr then 2 else 1) _ (alloc_mem_post c f s idx _ false n _ Hc Hv)).
  - destruct (find_block i (s_blocks s)) as [b|] eqn:Hfind.
    + unfold release. destruct (mem (b_id b) (s_table s)); cbn [fst snd]; destruct (b_sep b);
        (apply sh_other; [reflexivity|right; left; eexists; reflexivity|right; reflexivity]).
    + apply sh_other; [reflexivity|left; reflexivity|left; reflexivity].
  - destruct (find_block i (s_blocks s)) as [b|] eqn:Hfind.
    + destruct ((off <=? b_size b) && (N.of_nat (length bytes) <=? b_size b - off)).
      * apply sh_other; [reflexivity|right; right; do 3 eexists; reflexivity|right; reflexivity].
      * apply sh_other; [reflexivity|left; reflexivity|left; reflexivity].
    + apply sh_other; [reflexivity|left; reflexivity|left; reflexivity].
Qed.

(* ------------------------------------------------------------------ clean failure *)
(* whenever an underlying call of an operation fails -- at any point of any history, for every entry point -- the result
   is NULL (bad_alloc exactly for the throwing operator new), no block appears or disappears, the table tracks the same
   blocks as before (at most rearranged), every region obtained meanwhile has been given back, no out-of-bounds access
   happened, and the invariant goes on holding *)
Lemma oom_clean c f s idx o : valid_cfg c = true -> valid_op o = true -> inv c idx s ->
  let s' := fst (step fixed c f s idx o) in let ob := snd (step fixed c f s idx o) in
  any_failed (o_calls ob) = true ->
  o_kind ob = (if throws o then K_BAD else K_NULL) /\ s_blocks s' = s_blocks s /\ Permutation (s_table s') (s_table s) /\
  (forall b, In b (s_blocks s) -> In (b_id b) (s_table s')) /\
  balanced (o_calls ob) = true /\ o_total ob = total s /\ s_err s' = false /\ inv c (idx + 1) s'.
Proof.
  intros Hc Hv H. cbv zeta. pose proof (step_ok false c f s idx o Hc Hv H) as [Hinv _].
  pose proof (step_shape c f s idx o Hc Hv H) as Hsh. revert Hinv.
  destruct Hsh as [o r fd fam d Hp | i n b0 r Hin _ Hp | o s' ob Hnf _ _]; intros Hinv Hf.
  - destruct r as [[a s'] cs]. unfold alloc_post in Hp. destruct Hp as (_ & _ & Herr & Hp).
    destruct a as [| |b]; [|destruct Hp|cbn [obs_of_alloc snd mk_oobs o_calls] in Hf; destruct Hp as (Hp & _); congruence].
    destruct Hp as (_ & Hb & Ht & _ & Hbal). cbn [obs_of_alloc fst snd mk_oobs o_kind o_calls o_total] in *.
    repeat match goal with |- _ /\ _ => split end; try assumption; try reflexivity.
    + rewrite Ht. apply Permutation_refl.
    + intros b Hb'. rewrite Ht. apply (inv_in_table c idx s b H Hb').
    + unfold total. rewrite Ht. reflexivity.
    + rewrite Herr. exact (i_err _ _ _ H).
  - destruct r as [[a s'] cs]. unfold realloc_post in Hp. destruct Hp as (_ & _ & Herr & Hp).
    destruct a as [| |b]; [|destruct Hp|cbn [obs_of_alloc snd mk_oobs o_calls] in Hf; destruct Hp as (Hp & _); congruence].
    destruct Hp as (_ & Hb & Ht & _ & Hbal). cbn [obs_of_alloc fst snd mk_oobs o_kind o_calls o_total throws] in *.
    assert (Hperm : Permutation (s_table s') (s_table s)).
    { destruct Ht as [Ht|(b & E & Ht)]; [rewrite Ht; apply Permutation_refl|]. injection E as E. subst b. rewrite Ht.
      apply perm_readd; [exact (inv_table_nodup c idx s H)|exact (inv_in_table c idx s b0 H Hin)]. }
    repeat match goal with |- _ /\ _ => split end; try assumption; try reflexivity.
    + intros b Hb'. eapply Permutation_in; [apply Permutation_sym; exact Hperm|]. apply (inv_in_table c idx s b H Hb').
    + unfold total. rewrite (Permutation_length Hperm). reflexivity.
    + rewrite Herr. exact (i_err _ _ _ H).
  - cbn [snd] in Hf. congruence.
Qed.

(* the converse direction of "fails cleanly": NULL / bad_alloc is never produced without a cause -- an underlying call was
   refused, or the size cannot be served once the bookkeeping is added *)
Lemma null_has_cause c f s idx o : valid_cfg c = true -> valid_op o = true -> inv c idx s ->
  let ob := snd (step fixed c f s idx o) in
  o_kind ob = K_NULL \/ o_kind ob = K_BAD ->
  any_failed (o_calls ob) = true \/ W <= op_size o + G c + 8 + node_size c.
Proof.
  intros Hc Hv H. cbv zeta. pose proof (step_shape c f s idx o Hc Hv H) as Hsh.
  assert (Htb : forall n, too_big c n = true -> W <= n + G c + 8 + node_size c).
  { intros n Hn. unfold too_big in Hn. apply N.leb_le in Hn. exact Hn. }
  destruct Hsh as [o r fd fam d Hp | i n b0 r Hin _ Hp | o s' ob Hnf _ Hk]; intro Hk'.
  - destruct r as [[a s'] cs]. destruct Hp as (_ & _ & _ & Hp). destruct a as [| |b].
    + destruct Hp as ([Hf|Hf] & _); [left; exact Hf|right; exact (Htb _ Hf)].
    + destruct Hp.
    + destruct Hk' as [Hk'|Hk']; discriminate Hk'.
  - destruct r as [[a s'] cs]. destruct Hp as (_ & _ & _ & Hp). destruct a as [| |b].
    + destruct Hp as ([Hf|Hf] & _); [left; exact Hf|right; exact (Htb _ Hf)].
    + destruct Hp.
    + destruct Hk' as [Hk'|Hk']; discriminate Hk'.
  - cbn [snd] in Hk'. destruct Hk as [Hk|Hk]; rewrite Hk in Hk'; destruct Hk' as [Hk'|Hk']; discriminate Hk'.
Qed.

(* ------------------------------------------------------------------ live blocks never overlap *)
Lemma nodup_app_l {A} (a b : list A) : NoDup (a ++ b) -> NoDup a.
Proof.
  induction a as [|x a IH]; cbn [app]; intro H; [constructor|]. inversion H as [|? ? Hx Hn]; subst. constructor.
  - intro Hin. apply Hx. apply in_app_iff. left. exact Hin.
  - apply IH. exact Hn.
Qed.
Lemma nodup_app_disj {A} (a b : list A) x y : NoDup (a ++ b) -> In x a -> In y b -> x <> y.
Proof.
  induction a as [|z a IH]; cbn [app]; intros H Hx Hy; [destruct Hx|]. inversion H as [|? ? Hz Hn]; subst.
  destruct Hx as [Hx|Hx].
  - subst z. intro E. subst y. apply Hz. apply in_app_iff. right. exact Hy.
  - apply IH; assumption.
Qed.
Lemma regions_own_nodup bs b : NoDup (flat_map regions_of bs) -> In b bs -> NoDup (regions_of b).
Proof.
  induction bs as [|x bs IH]; cbn [flat_map]; intros H Hb; [destruct Hb|]. destruct Hb as [Hb|Hb].
  - subst x. exact (nodup_app_l _ _ H).
  - apply IH; [exact (nodup_app_r _ _ H)|exact Hb].
Qed.
Lemma regions_distinct bs b1 b2 r1 r2 : NoDup (flat_map regions_of bs) -> In b1 bs -> In b2 bs -> b1 <> b2 ->
  In r1 (regions_of b1) -> In r2 (regions_of b2) -> r1 <> r2.
Proof.
  induction bs as [|x bs IH]; cbn [flat_map]; intros H H1 H2 Hne Hr1 Hr2; [destruct H1|].
  destruct H1 as [H1|H1], H2 as [H2|H2]; subst.
  - congruence.
  - apply (nodup_app_disj _ _ r1 r2 H Hr1). apply in_flat_map. exists b2. split; assumption.
  - intro E. symmetry in E. revert E. apply (nodup_app_disj _ _ r2 r1 H Hr2). apply in_flat_map. exists b1. split; assumption.
  - apply IH; try assumption. exact (nodup_app_r _ _ H).
Qed.

Section Placement.
  (* where the underlying allocator put the region its k-th call returned *)
  Variable base : N -> N.
  Variable c : cfg.
  (* the regions a block occupies, with their sizes *)
  Definition extents (b : block) : list (N * N) := (b_region b, b_req b) :: (if b_sep b then [(b_node b, node_size c)] else []).
  (* address intervals [a, a+la) and [b, b+lb) share no byte *)
  Definition apart (a la b lb : N) : Prop := forall x, ~ (a <= x < a + la /\ b <= x < b + lb).
  (* the oracle's promise: distinct regions that are live at the same time do not overlap *)
  Definition oracle_disjoint (bs : list block) : Prop :=
    forall r1 z1 r2 z2, In (r1, z1) (flat_map extents bs) -> In (r2, z2) (flat_map extents bs) -> r1 <> r2 -> apart (base r1) z1 (base r2) z2.
  Definition user_start (b : block) : N := base (b_region b).                      (* the pointer handed out *)
  Definition record_start (b : block) : N := if b_sep b then base (b_node b) else base (b_region b) + b_node b.

  Lemma in_extents b bs r z : In b bs -> In (r, z) (extents b) -> In (r, z) (flat_map extents bs).
  Proof. intros Hb Hr. apply in_flat_map. exists b. split; assumption. Qed.

  Lemma live_disjoint_inv idx s : inv c idx s -> oracle_disjoint (s_blocks s) ->
    (forall b1 b2, In b1 (s_blocks s) -> In b2 (s_blocks s) -> b_id b1 <> b_id b2 ->
       apart (user_start b1) (b_size b1 + G c) (user_start b2) (b_size b2 + G c) /\
       apart (record_start b1) (node_size c) (record_start b2) (node_size c)) /\
    (forall b1 b2, In b1 (s_blocks s) -> In b2 (s_blocks s) ->
       apart (user_start b1) (b_size b1 + G c) (record_start b2) (node_size c)).
  Proof.
    intros H Ho.
    pose proof (i_layout _ _ _ H) as Hlay. rewrite Forall_forall in Hlay.
    assert (Huser : forall b, In b (s_blocks s) -> In (b_region b, b_req b) (flat_map extents (s_blocks s)) /\ b_size b + G c <= b_req b).
    { intros b Hb. split; [apply (in_extents b); [exact Hb|left; reflexivity]|].
      destruct (Hlay b Hb) as (_ & Hl). destruct (b_sep b); lia. }
    assert (Hrec : forall b, In b (s_blocks s) ->
              (b_sep b = true /\ In (b_node b, node_size c) (flat_map extents (s_blocks s)) /\ record_start b = base (b_node b)) \/
              (b_sep b = false /\ record_start b = base (b_region b) + b_node b /\ b_size b + G c <= b_node b /\ b_node b + node_size c <= b_req b)).
    { intros b Hb. unfold record_start. destruct (Hlay b Hb) as (_ & Hl). destruct (b_sep b) eqn:Hs.
      - left. split; [reflexivity|]. split; [|reflexivity]. apply (in_extents b); [exact Hb|]. unfold extents. rewrite Hs. right. left. reflexivity.
      - right. repeat split; lia. }
    assert (Hdist : forall b1 b2 r1 r2, In b1 (s_blocks s) -> In b2 (s_blocks s) -> b_id b1 <> b_id b2 ->
              In r1 (regions_of b1) -> In r2 (regions_of b2) -> r1 <> r2).
    { intros b1 b2 r1 r2 H1 H2 Hne. apply (regions_distinct (s_blocks s)); try assumption; [exact (i_regs _ _ _ H)|congruence]. }
    assert (Hreg : forall b, In (b_region b) (regions_of b)) by (intro b; left; reflexivity).
    assert (Hnode : forall b, b_sep b = true -> In (b_node b) (regions_of b)).
    { intros b Hs. unfold regions_of. rewrite Hs. right. left. reflexivity. }
    split.
    - intros b1 b2 H1 H2 Hne. split.
      + destruct (Huser b1 H1) as [E1 L1]. destruct (Huser b2 H2) as [E2 L2].
        pose proof (Ho _ _ _ _ E1 E2 (Hdist b1 b2 _ _ H1 H2 Hne (Hreg b1) (Hreg b2))) as Hap.
        unfold user_start. intros x Hx. apply (Hap x). lia.
      + destruct (Huser b1 H1) as [E1 L1]. destruct (Huser b2 H2) as [E2 L2].
        destruct (Hrec b1 H1) as [(S1 & N1 & R1)|(S1 & R1 & A1 & B1)]; destruct (Hrec b2 H2) as [(S2 & N2 & R2)|(S2 & R2 & A2 & B2)]; rewrite R1, R2.
        * exact (Ho _ _ _ _ N1 N2 (Hdist b1 b2 _ _ H1 H2 Hne (Hnode b1 S1) (Hnode b2 S2))).
        * pose proof (Ho _ _ _ _ N1 E2 (Hdist b1 b2 _ _ H1 H2 Hne (Hnode b1 S1) (Hreg b2))) as Hap. intros x Hx. apply (Hap x). lia.
        * pose proof (Ho _ _ _ _ E1 N2 (Hdist b1 b2 _ _ H1 H2 Hne (Hreg b1) (Hnode b2 S2))) as Hap. intros x Hx. apply (Hap x). lia.
        * pose proof (Ho _ _ _ _ E1 E2 (Hdist b1 b2 _ _ H1 H2 Hne (Hreg b1) (Hreg b2))) as Hap. intros x Hx. apply (Hap x). lia.
    - intros b1 b2 H1 H2. destruct (Huser b1 H1) as [E1 L1]. destruct (Huser b2 H2) as [E2 L2]. unfold user_start.
      destruct (N.eq_dec (b_id b1) (b_id b2)) as [Eid|Hne].
      + assert (b1 = b2) by (apply (same_id_same_block (s_blocks s)); try assumption; exact (i_nodup _ _ _ H)). subst b2.
        destruct (Hrec b1 H1) as [(S1 & N1 & R1)|(S1 & R1 & A1 & B1)]; rewrite R1.
        * pose proof (regions_own_nodup _ b1 (i_regs _ _ _ H) H1) as Hown. unfold regions_of in Hown. rewrite S1 in Hown.
          assert (Hd : b_region b1 <> b_node b1) by (inversion Hown as [|? ? Hx _]; subst; intro E; apply Hx; left; symmetry; exact E).
          pose proof (Ho _ _ _ _ E1 N1 Hd) as Hap. intros x Hx. apply (Hap x). lia.
        * intros x Hx. lia.
      + destruct (Hrec b2 H2) as [(S2 & N2 & R2)|(S2 & R2 & A2 & B2)]; rewrite R2.
        * pose proof (Ho _ _ _ _ E1 N2 (Hdist b1 b2 _ _ H1 H2 Hne (Hreg b1) (Hnode b2 S2))) as Hap. intros x Hx. apply (Hap x). lia.
        * pose proof (Ho _ _ _ _ E1 E2 (Hdist b1 b2 _ _ H1 H2 Hne (Hreg b1) (Hreg b2))) as Hap. intros x Hx. apply (Hap x). lia.
  Qed.

  (* all histories: user areas (with their guard bytes) of different live blocks are apart, records of different live blocks
     are apart, and every user area is apart from every record, its own included *)
  Lemma live_disjoint f ops : valid_cfg c = true -> forallb valid_op ops = true ->
    let s := fst (fold_left (fun (a : st * N) o => (fst (step fixed c f (fst a) (snd a) o), snd a + 1)) ops (st0, 0)) in
    oracle_disjoint (s_blocks s) ->
    (forall b1 b2, In b1 (s_blocks s) -> In b2 (s_blocks s) -> b_id b1 <> b_id b2 ->
       apart (user_start b1) (b_size b1 + G c) (user_start b2) (b_size b2 + G c) /\
       apart (record_start b1) (node_size c) (record_start b2) (node_size c)) /\
    (forall b1 b2, In b1 (s_blocks s) -> In b2 (s_blocks s) ->
       apart (user_start b1) (b_size b1 + G c) (record_start b2) (node_size c)).
  Proof.
    intros Hc Hv. cbv zeta.
    assert (Hgen : forall ops s idx, forallb valid_op ops = true -> inv c idx s ->
              inv c (idx + N.of_nat (length ops))
                  (fst (fold_left (fun (a : st * N) o => (fst (step fixed c f (fst a) (snd a) o), snd a + 1)) ops (s, idx)))).
    { clear ops Hv. induction ops as [|o r IH]; intros s idx Hv H.
      - cbn [fold_left fst length N.of_nat]. rewrite N.add_0_r. exact H.
      - cbn [forallb] in Hv. apply andb_true_iff in Hv. destruct Hv as [Hv Hr]. cbn [fold_left fst snd].
        replace (idx + N.of_nat (length (o :: r))) with (idx + 1 + N.of_nat (length r)) by (cbn [length]; lia).
        apply IH; [exact Hr|]. exact (proj1 (step_ok false c f s idx o Hc Hv H)). }
    apply (live_disjoint_inv _ _ (Hgen ops st0 0 Hv (inv_st0 c))).
  Qed.
End Placement.

(* the state the fold reaches is the state [run] works with *)
Lemma fold_is_steps c f ops : forall s idx,
  fst (fold_left (fun (a : st * N) o => (fst (step fixed c f (fst a) (snd a) o), snd a + 1)) ops (s, idx)) = fst (steps fixed c f s idx ops).
Proof.
  induction ops as [|o r IH]; intros s idx; [reflexivity|]. cbn [fold_left steps fst snd]. rewrite IH.
  destruct (step fixed c f s idx o) as [s1 ob]. cbn [fst]. destruct (steps fixed c f s1 (idx + 1) r). reflexivity.
Qed.

(* ------------------------------------------------------------------ contents *)
Lemma realloc_prefix c f s idx b0 n b s' cs : valid_cfg c = true -> n < W -> N.of_nat (length (b_data b0)) = b_size b0 ->
  realloc_mem fixed c f s idx (Some b0) n = (ABlock b, s', cs) ->
  b_size b = n /\ N.of_nat (length (b_data b)) = n /\
  firstn (N.to_nat (N.min (b_size b0) n)) (b_data b) = firstn (N.to_nat (N.min (b_size b0) n)) (b_data b0).
Proof.
  intros Hc Hn Hl E. pose proof (realloc_new_post c f s idx (Some b0) n Hc Hn) as Hp.
  change (realloc_mem fixed) with (realloc_new fixed) in E. rewrite E in Hp.
  destruct Hp as (_ & _ & _ & _ & Hb & _ & (Hid & _ & Hsz & Hd & _)).
  split; [exact Hsz|]. rewrite Hd. split; [apply realloc_data_length|].
  rewrite <- Hl. apply realloc_data_prefix.
Qed.

Lemma calloc_zero c f s idx num size b s' cs : valid_cfg c = true ->
  calloc_mem fixed c f s idx num size = (ABlock b, s', cs) ->
  num * size < W /\ b_size b = num * size /\ b_data b = repeat 0 (N.to_nat (num * size)) /\ num * size + G c <= b_req b.
Proof.
  intros Hc E. pose proof (calloc_post c f s idx num size Hc) as Hp. rewrite E in Hp.
  destruct Hp as (_ & _ & _ & _ & _ & _ & (_ & _ & Hsz & Hd & (Hreq & Hlay) & _)).
  assert (Hw : num * size < W).
  { unfold calloc_mem in E. cbn [v_calloc fixed andb] in E.
    destruct (negb (size =? 0) && ((W - 1) / size <? num)) eqn:Ho; [discriminate E|]. apply calloc_no_overflow. exact Ho. }
  repeat split; try assumption. rewrite Hsz in Hlay. destruct (b_sep b); lia.
Qed.

Lemma strdup_exact c f s idx str b s' cs : valid_cfg c = true -> N.of_nat (length str) < 4294967296 ->
  strdup_mem fixed c f s idx str = (ABlock b, s', cs) ->
  b_data b = cut_nul str ++ [0] /\ b_size b = N.of_nat (length (cut_nul str)) + 1.
Proof.
  intros Hc Hl E. pose proof (strdup_post c f s idx str Hc Hl) as Hp. rewrite E in Hp.
  destruct Hp as (_ & _ & _ & _ & _ & _ & (_ & _ & Hsz & Hd & _)). split; assumption.
Qed.

Lemma strndup_exact c f s idx str k b s' cs : valid_cfg c = true -> N.of_nat (length str) < 4294967296 ->
  strndup_mem fixed c f s idx str k = (ABlock b, s', cs) ->
  let m := N.min (N.of_nat (length (cut_nul str))) k in
  b_data b = firstn (N.to_nat m) (cut_nul str) ++ [0] /\ b_size b = m + 1.
Proof.
  intros Hc Hl E. pose proof (strndup_post c f s idx str k Hc Hl) as Hp. cbv zeta in Hp. rewrite E in Hp.
  destruct Hp as (_ & _ & _ & _ & _ & _ & (_ & _ & Hsz & Hd & _)). split; assumption.
Qed.

(* ------------------------------------------------------------------ the code as it was: each of the repaired defects violates the oracle *)
Definition ex_cfg : cfg := {| guard_on := true; node_size := 64 |}.
Definition mk_sc (f : list N) (ops : list op) : scenario := {| sc_cfg := ex_cfg; sc_wrap := false; sc_fail := f; sc_ops := ops |}.
(* D2: a size whose bookkeeping wraps is served from a 72-byte region *)
Definition witness_D2 := mk_sc [] [ODetAlloc (W - 3)].
(* D3: calloc(2^63 + 1, 2) returns a block for the wrapped product *)
Definition witness_D3 := mk_sc [] [OCalloc (9223372036854775808 + 1) 2].
(* D4: the underlying realloc fails; the still valid old block is no longer tracked *)
Definition witness_D4 := mk_sc [2] [OMalloc 5; ORealloc (Some 0) 100].
(* D5: strdup copies into the NULL a failed malloc returned *)
Definition witness_D5 := mk_sc [0] [OStrdup [97; 98]].
(* D20: the separately allocated record is NULL and gets initialised *)
Definition witness_D20 := mk_sc [1] [OMalloc 5].

Lemma D2_old_refuted : valid witness_D2 = true /\ spec witness_D2 (run_v old_D2 witness_D2) = false.
Proof. split; lazy; reflexivity. Qed.
Lemma D3_old_refuted : valid witness_D3 = true /\ spec witness_D3 (run_v old_D3 witness_D3) = false.
Proof. split; lazy; reflexivity. Qed.
Lemma D4_old_refuted : valid witness_D4 = true /\ spec witness_D4 (run_v old_D4 witness_D4) = false.
Proof. split; lazy; reflexivity. Qed.
Lemma D5_old_refuted : valid witness_D5 = true /\ spec witness_D5 (run_v old_D5 witness_D5) = false.
Proof. split; lazy; reflexivity. Qed.
Lemma D20_old_refuted : valid witness_D20 = true /\ spec witness_D20 (run_v old_D20 witness_D20) = false.
Proof. split; lazy; reflexivity. Qed.
Lemma old_refuted :
  (valid witness_D2 = true /\ spec witness_D2 (run_v old_D2 witness_D2) = false) /\
  (valid witness_D3 = true /\ spec witness_D3 (run_v old_D3 witness_D3) = false) /\
  (valid witness_D4 = true /\ spec witness_D4 (run_v old_D4 witness_D4) = false) /\
  (valid witness_D5 = true /\ spec witness_D5 (run_v old_D5 witness_D5) = false) /\
  (valid witness_D20 = true /\ spec witness_D20 (run_v old_D20 witness_D20) = false).
Proof. exact (conj D2_old_refuted (conj D3_old_refuted (conj D4_old_refuted (conj D5_old_refuted D20_old_refuted)))). Qed.

(* ------------------------------------------------------------------ the hypotheses of the theorems can be met *)
Example ex_layout : valid_cfg ex_cfg = true /\ 12 + G ex_cfg + 8 + node_size ex_cfg < W /\
  request ex_cfg false 12 = 80 /\ with_guard ex_cfg 12 = 16 /\ request ex_cfg true 13 = 24.
Proof. lazy. repeat split. Qed.
Example ex_layout_top : let n := W - 76 in n + G ex_cfg + 8 + node_size ex_cfg < W /\ request ex_cfg false n = W - 8 /\ fits ex_cfg (n + 1) = false.
Proof. lazy. repeat split. Qed.
Example ex_overflow : W <= (W - 70) + G ex_cfg + 8 + node_size ex_cfg /\ W <= 4294967296 * 4294967296 /\
  op_request (ONew true true (W - 70)) = Some (true, W - 70) /\
  o_kind (snd (step fixed ex_cfg [] st0 0 (ONew true true (W - 70)))) = K_BAD.
Proof. lazy. repeat split; discriminate. Qed.
Example ex_oom : let r := step fixed ex_cfg [3] (fst (step fixed ex_cfg [] st0 0 (OMalloc 5))) 1 (ORealloc (Some 0) 100) in
  valid_op (ORealloc (Some 0) 100) = true /\ any_failed (o_calls (snd r)) = true /\ o_kind (snd r) = K_NULL /\ s_table (fst r) = [0].
Proof. lazy. repeat split. Qed.
Example ex_oom_inv : inv ex_cfg 1 (fst (step fixed ex_cfg [] st0 0 (OMalloc 5))).
Proof. exact (proj1 (step_ok false ex_cfg [] st0 0 (OMalloc 5) eq_refl eq_refl (inv_st0 ex_cfg))). Qed.

Definition ex_ops : list op := [OMalloc 5; ONew false true 9].
Definition ex_base (r : N) : N := r * 2097152.
Example ex_live_disjoint :
  let s := fst (fold_left (fun (a : st * N) o => (fst (step fixed ex_cfg [] (fst a) (snd a) o), snd a + 1)) ex_ops (st0, 0)) in
  valid_cfg ex_cfg = true /\ forallb valid_op ex_ops = true /\ length (s_blocks s) = 2%nat /\ oracle_disjoint ex_base ex_cfg (s_blocks s).
Proof.
  cbv zeta. split; [reflexivity|]. split; [reflexivity|]. split; [reflexivity|].
  intros r1 z1 r2 z2 H1 H2 Hne. vm_compute in H1, H2. unfold apart, ex_base.
  repeat match goal with
         | H : _ \/ _ |- _ => destruct H
         | H : False |- _ => destruct H
         | H : (_, _) = (_, _) |- _ => injection H as <- <-
         end; try congruence; intros x Hx; lia.
Qed.

Example ex_realloc :
  let s := fst (step fixed ex_cfg [] (fst (step fixed ex_cfg [] st0 0 (OMalloc 3))) 1 (OWrite 0 0 [1; 2; 3])) in
  exists b0 b s' cs, find_block 0 (s_blocks s) = Some b0 /\ b_data b0 = [1; 2; 3] /\ N.of_nat (length (b_data b0)) = b_size b0 /\
    realloc_mem fixed ex_cfg [] s 2 (Some b0) 2 = (ABlock b, s', cs) /\ b_data b = [1; 2].
Proof. cbv zeta. do 4 eexists. lazy. repeat split. Qed.
Example ex_calloc : exists b s' cs, calloc_mem fixed ex_cfg [] st0 0 3 2 = (ABlock b, s', cs) /\ b_data b = [0; 0; 0; 0; 0; 0].
Proof. do 3 eexists. lazy. repeat split. Qed.
Example ex_strdup : exists b s' cs, strdup_mem fixed ex_cfg [] st0 0 [104; 105; 0; 120] = (ABlock b, s', cs) /\ b_data b = [104; 105; 0].
Proof. do 3 eexists. lazy. repeat split. Qed.
Example ex_strndup : exists b s' cs, strndup_mem fixed ex_cfg [] st0 0 [104; 105; 33] 2 = (ABlock b, s', cs) /\ b_data b = [104; 105; 0] /\ b_size b = 3.
Proof. do 3 eexists. lazy. repeat split. Qed.

Definition ex_scenario : scenario :=
  mk_sc [4] [OMalloc 5; OWrite 0 1 [7; 8]; ORealloc (Some 0) 9; OCalloc 2 3; OStrndup [97; 98; 99] 2; ONew true true (W - 10); ORealloc (Some 2) 200;
             ONew false false 4; OFree 4; OCalloc 4294967296 4294967296].
Example ex_run : valid ex_scenario = true /\ spec ex_scenario (run ex_scenario) = true /\
  map o_kind (ob_ops (run ex_scenario)) = [K_PTR; K_VOID; K_PTR; K_NULL; K_PTR; K_BAD; K_PTR; K_PTR; K_VOID; K_NULL].
Proof. lazy. repeat split. Qed.
