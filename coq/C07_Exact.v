(* C07 -- proofs, part 5: the oracle `spec` accepts an observation (whose reports were not cut short by the text buffer)
   exactly when it is the observation the program text demands *)
From Coq Require Import NArith List Bool Lia Permutation Arith.
From CppUVerif Require Import gen.Gen_Common C04_Model C07_Model C07_Proofs C07_Tests C07_Main.
Import ListNotations.
Local Open Scope N_scope.

Lemma leaked_above : forall l base e, In e (leaked base l) -> base <= fst e.
Proof. intros l base e H. apply leaked_range in H. lia. Qed.

Lemma leaked_nodup : forall l base, NoDup (leaked base l).
Proof.
  induction l as [|s r IH]; intros base; [constructor|].
  destruct s; cbn [leaked]; try apply IH;
    (destruct (existsb (frees id) r); [apply IH|]; constructor; [|apply IH]; intros H; apply leaked_above in H; cbn in H; lia).
Qed.

Lemma pair_eqb_eq x y : pair_eqb x y = true -> x = y.
Proof. destruct x, y. unfold pair_eqb. cbn. rewrite andb_true_iff, !N.eqb_eq. intros [-> ->]. reflexivity. Qed.
Lemma subset_p_incl l m : subset_p l m = true -> incl l m.
Proof.
  unfold subset_p, mem_p. rewrite forallb_forall. intros H x Hx. specialize (H x Hx). apply existsb_exists in H.
  destruct H as (y & Hy & E). apply pair_eqb_eq in E. subst. assumption.
Qed.

Lemma is_nil_true {A} (l : list A) : is_nil l = true -> l = [].
Proof. destruct l; [reflexivity|discriminate]. Qed.

Ltac bools := repeat match goal with
  | H : _ && _ = true |- _ => apply andb_true_iff in H; destruct H
  | H : negb _ = true |- _ => apply negb_true_iff in H
  | H : N.eqb _ _ = true |- _ => apply N.eqb_eq in H
  | H : Nat.eqb _ _ = true |- _ => apply Nat.eqb_eq in H
  | H : Bool.eqb _ _ = true |- _ => apply eqb_prop in H
  | H : is_nil _ = true |- _ => apply is_nil_true in H
  | H : subset_p _ _ = true |- _ => apply subset_p_incl in H
  end.

Lemma check_report_exact want noleaks total ents : NoDup want ->
  check_report want noleaks false total ents = true ->
  Permutation ents want /\ total = len want /\ noleaks = is_nil want.
Proof.
  intros ND H. unfold check_report in H. bools.
  split; [|auto]. apply NoDup_Permutation; [|assumption|intros x; split; auto].
  apply (NoDup_incl_NoDup ND); [lia|assumption].
Qed.

Lemma check_test_exact base t o : ti_many o = false -> check_test base t o = true -> item_good base t o.
Proof.
  intros HM. unfold check_test, item_good. destruct (verdict _ _).
  - intros H. apply andb_true_iff in H. destruct H as [H Hc]. rewrite HM in Hc. bools.
    destruct (check_report_exact _ _ _ _ (leaked_nodup _ _) Hc) as (P & T & NL). auto 10.
  - intros H. bools. auto 10.
Qed.

Lemma spec_tests_exact : forall ts os base, Forall (fun o => ti_many o = false) os ->
  spec_tests base ts os = true -> items_good base ts os.
Proof.
  induction ts as [|t ts IH]; intros [|o os] base HF H; cbn in *; try discriminate; [exact I|].
  apply andb_true_iff in H. destruct H as [H1 H2]. inversion HF; subst.
  split; [apply check_test_exact; assumption|apply IH; assumption].
Qed.

Lemma good_spec s o : o_err o = false -> o_stray o = 0 ->
  items_good (1 + allocs (s_pre s)) (s_tests s) (o_tests o) -> final_good s o -> spec s o = true.
Proof.
  intros E1 E2 HG HF. unfold spec. rewrite E1, E2, (items_good_spec _ _ _ HG). cbn [negb N.eqb andb].
  unfold final_good in HF. destruct (len (leaked (1 + allocs (s_pre s)) (trace s)) =? s_tbd s).
  - destruct HF as (-> & -> & -> & -> & ->). reflexivity.
  - destruct HF as (-> & -> & -> & -> & P). cbn [Bool.eqb]. apply check_report_perm. assumption.
Qed.

Lemma spec_exact s o : Forall (fun i => ti_many i = false) (o_tests o) -> o_many o = false ->
  (spec s o = true <->
   o_err o = false /\ o_stray o = 0 /\ items_good (1 + allocs (s_pre s)) (s_tests s) (o_tests o) /\ final_good s o).
Proof.
  intros HF HM. split; [|intros (A & B & C & D); apply good_spec; assumption].
  unfold spec. intros H. apply andb_true_iff in H. destruct H as [H Hfin]. apply andb_true_iff in H. destruct H as [H He].
  apply andb_true_iff in H. destruct H as [H Hts]. apply andb_true_iff in H. destruct H as [Herr Hstray].
  apply negb_true_iff in Herr. apply N.eqb_eq in Hstray. apply eqb_prop in He.
  split; [assumption|]. split; [assumption|]. split; [apply spec_tests_exact; assumption|].
  unfold final_good. rewrite <- He. destruct (o_empty o).
  - bools. auto 10.
  - rewrite HM in Hfin. destruct (check_report_exact _ _ _ _ (leaked_nodup _ _) Hfin) as (P & T & NL). auto 10.
Qed.

(* satisfiable and discriminating: the model's observation of the example passes, a changed verdict does not *)
Example spec_example :
  spec example_s (run example_s) = true /\
  let o := run example_s in
  spec example_s (mkO (o_err o) (mkTI 0 0 false false 0 [] :: tl (o_tests o)) (o_stray o) (o_empty o) (o_noleaks o) (o_many o) (o_total o) (o_entries o)) = false.
Proof. vm_compute. split; reflexivity. Qed.

(* the hypotheses of the named theorems are met by the example program *)
Example hypotheses_example :
  (* a leak of test 0 that a later test (1) must not be charged with *)
  In (4, 8) (leaks_of example_s 0) /\ (0 < 1 < length (s_tests example_s))%nat /\
  (* test 2 failed on its own and still holds a block *)
  own_failures (executed (nth 2 (s_tests example_s) no_test)) <> 0 /\ leaks_of example_s 2 <> [] /\
  (* test 1 releases block 2, which it did not allocate *)
  existsb (allocates 2) [] = false /\
  (* no report of the example is cut short *)
  Forall (fun i => ti_many i = false) (o_tests (run example_s)) /\ o_many (run example_s) = false.
Proof. vm_compute. repeat split; auto; try discriminate; try lia. repeat constructor. Qed.
