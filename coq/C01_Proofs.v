(* C01 -- lemmas.  The machine of C01_Model.v is reduced, layer by layer, to a closed form written with the declarative
   vocabulary of the spec (executed / completes / phases); everything else follows from the closed form. *)
From Coq Require Import NArith ZArith Bool List Lia ZifyBool.
From CppUVerif Require Import gen.Gen_Common lib.CInt C01_Model.
Import ListNotations.
Local Open Scope Z_scope.

(* ------------------------------------------------------------------ counters *)
Lemma cadd_assoc a b c : cadd (cadd a b) c = cadd a (cadd b c).
Proof. destruct a, b, c; unfold cadd; cbn. f_equal; lia. Qed.
Lemma cadd_zero_r a : cadd a czero = a.
Proof. destruct a; unfold cadd, czero; cbn. f_equal; lia. Qed.
Lemma cadd_zero_l a : cadd czero a = a.
Proof. destruct a; unfold cadd, czero; cbn. f_equal; lia. Qed.

(* the normal form of a state: [upd s d ov c k its] *)
Definition upd (s : st) (d : Z) (ov : bool) (c : option N) (k : cnt) (its : list item) : st :=
  mkSt d ov c (cadd (cn s) k) (out s ++ its).
Lemma upd_upd s d1 o1 c1 k1 i1 d2 o2 c2 k2 i2 :
  upd (upd s d1 o1 c1 k1 i1) d2 o2 c2 k2 i2 = upd s d2 o2 c2 (cadd k1 k2) (i1 ++ i2).
Proof. unfold upd; cbn. rewrite cadd_assoc, app_assoc. reflexivity. Qed.
Lemma upd_id s : upd s (depth s) (overflow s) (cur s) czero [] = s.
Proof. destruct s; unfold upd; cbn. rewrite cadd_zero_r, app_nil_r. reflexivity. Qed.
Lemma emit_upd x s : emit x s = upd s (depth s) (overflow s) (cur s) czero [x].
Proof. unfold emit, upd. rewrite cadd_zero_r. reflexivity. Qed.
Lemma count_upd k s : count k s = upd s (depth s) (overflow s) (cur s) k [].
Proof. unfold count, upd. rewrite app_nil_r. reflexivity. Qed.
Lemma set_depth_upd d s : set_depth d s = upd s d (overflow s) (cur s) czero [].
Proof. unfold set_depth, upd. rewrite cadd_zero_r, app_nil_r. reflexivity. Qed.
Lemma set_cur_upd c s : set_cur c s = upd s (depth s) (overflow s) c czero [].
Proof. unfold set_cur, upd. rewrite cadd_zero_r, app_nil_r. reflexivity. Qed.
Lemma mark_slot_upd k s : mark_slot k s = upd s (depth s) (overflow s || negb (slot_ok k)) (cur s) czero [].
Proof. unfold mark_slot, upd. rewrite cadd_zero_r, app_nil_r. reflexivity. Qed.
Lemma add_failure_upd f s : add_failure f s = upd s (depth s) (overflow s) (cur s) one_fail [IFail f].
Proof. unfold add_failure. rewrite count_upd, emit_upd. cbn [depth overflow cur upd]. rewrite upd_upd, cadd_zero_l. reflexivity. Qed.
Lemma depth_upd s d o c k i : depth (upd s d o c k i) = d. Proof. reflexivity. Qed.
Lemma overflow_upd s d o c k i : overflow (upd s d o c k i) = o. Proof. reflexivity. Qed.
Lemma cur_upd s d o c k i : cur (upd s d o c k i) = c. Proof. reflexivity. Qed.

(* ------------------------------------------------------------------ one phase *)
Fixpoint ending (l : list stmt) : option stmt :=
  match l with [] => None | x :: r => if is_pass x then ending r else Some x end.
Lemma completes_ending l : completes l = is_none (ending l).
Proof. induction l as [|x r IH]; cbn; [reflexivity|]. destruct (is_pass x); cbn; [exact IH | reflexivity]. Qed.

Lemma nb_cons {A} (f : A -> bool) x l : nb f (x :: l) = ((if f x then 1 else 0) + nb f l)%N.
Proof. unfold nb; cbn. destruct (f x); cbn [length]; lia. Qed.
Lemma sumN_cons {A} (f : A -> N) x l : sumN f (x :: l) = (f x + sumN f l)%N. Proof. reflexivity. Qed.
Lemma sumN_app {A} (f : A -> N) a b : sumN f (a ++ b) = (sumN f a + sumN f b)%N.
Proof. induction a as [|x a IH]; cbn [app sumN fold_right]; [reflexivity|]. fold (sumN f (a ++ b)). fold (sumN f a). rewrite IH. lia. Qed.

Ltac norm := repeat progress (rewrite ?emit_upd, ?count_upd, ?add_failure_upd, ?set_depth_upd, ?set_cur_upd, ?mark_slot_upd,
                                       ?depth_upd, ?overflow_upd, ?cur_upd, ?upd_upd).
(* case analysis of a check statement: does it pass, is it C-style *)
Ltac dk := repeat match goal with
                  | |- context [if passes ?k ?a then _ else _] => destruct (passes k a) eqn:?
                  | |- context [if c_style ?k || _ then _ else _] => destruct (c_style k) eqn:?; cbn [orb negb]
                  | |- context [if c_style ?k then _ else _] => destruct (c_style k) eqn:?
                  end.
Ltac cnt_eq := unfold cadd, czero, one_check, one_fail, one_run, one_test, one_filt, one_ign;
               cbn [k_tests k_run k_checks k_fail k_filt k_ign]; f_equal; lia.
(* two normal forms [upd s d o c k its] that differ in how the counter increment is written *)
Ltac upd_eq := match goal with |- upd ?s ?d ?o ?c ?k1 ?i1 = upd ?s ?d ?o ?c ?k2 ?i2 =>
                 replace k1 with k2 by cnt_eq; reflexivity end.

Ltac fin := first [reflexivity | f_equal; first [reflexivity | upd_eq]].

(* how a statement list is left, on the machine: completes / longjmp to the innermost setjmp / C++ exception.  A failing
   C++-style check throws in a build with exceptions and jumps in a build without. *)
Definition jump_st (s : st) : st * outcome := (upd s (depth s - 1) (overflow s) (cur s) czero [], OJump (depth s - 1)).
Definition leave_how (exc : bool) (w : how) (s : st) : st * outcome :=
  match w with
  | HowDone => (s, ONormal)
  | HowJump => jump_st s
  | HowThrow XFailed => if exc then (s, OThrow XFailed) else jump_st s
  | HowThrow e => (s, OThrow e)
  end.
Lemma long_jmp_st s : long_jmp s = jump_st s.
Proof. unfold long_jmp, jump_st. rewrite set_depth_upd. reflexivity. Qed.

(* ---- inside a try block *)
Definition b_nfail (b : base) : N :=
  match b with BFailX _ _ | BFailC _ _ => 1%N | BCheckK k a _ _ => if passes k a then 0%N else 1%N | _ => 0%N end.
Definition base_items (i ph k : N) (jb : N * base) : list item :=
  ISub (mkSub i ph k (fst jb)) :: map IFail (b_failure i (snd jb)).
Definition bases_items (i ph k j : N) (l : list base) : list item := flat_map (base_items i ph k) (number j (b_executed l)).
Definition bases_cnt (l : list base) : cnt := mkCnt 0 0 (sumN b_counts (b_executed l)) (sumN b_nfail (b_executed l)) 0 0.

Lemma b_how_pass b : b_pass b = how_done (b_how b).
Proof. destruct b; cbn; try reflexivity. destruct (passes k agree); [reflexivity|]. destruct (c_style k); reflexivity. Qed.

Lemma exec_base_closed exc i ph k j b s :
  exec_base exc i ph k j b s =
  leave_how exc (b_how b) (upd s (depth s) (overflow s) (cur s) (mkCnt 0 0 (b_counts b) (b_nfail b) 0 0) (base_items i ph k (j, b))).
Proof.
  unfold exec_base, base_items. cbn [fst snd].
  destruct b as [| | f l | f l | | | kd a f l]; cbn [b_how b_counts b_nfail b_failure map leave_how]; rewrite ?long_jmp_st; norm.
  - fin.
  - fin.
  - destruct exc; unfold jump_st; norm; cbn [app]; rewrite ?cadd_zero_r; fin.
  - unfold jump_st; norm; cbn [app]; rewrite ?cadd_zero_r; fin.
  - fin.
  - fin.
  - assert (P : passes kd a = negb (called kd a) || fn_passes kd a) by reflexivity.
    assert (Cn : counted kd a = if called kd a then 1%N else 0%N) by reflexivity.
    rewrite P, Cn. destruct (called kd a), (fn_passes kd a); cbn [negb orb map leave_how]; rewrite ?long_jmp_st; norm; try fin.
    destruct (c_style kd); [|destruct exc]; cbn [leave_how]; unfold jump_st; norm; cbn [app]; rewrite ?cadd_zero_r; fin.
Qed.

Lemma exec_bases_closed exc i ph k : forall l j s,
  exec_bases exc i ph k j l s =
  leave_how exc (bases_how l) (upd s (depth s) (overflow s) (cur s) (bases_cnt l) (bases_items i ph k j l)).
Proof.
  induction l as [|b r IH]; intros j s.
  - cbn. unfold bases_cnt, bases_items; cbn. change (mkCnt 0 0 0 0 0 0) with czero. rewrite upd_id. reflexivity.
  - cbn [exec_bases]. rewrite exec_base_closed. unfold bases_how, bases_cnt, bases_items in *. cbn [b_ending b_executed].
    rewrite (b_how_pass b). destruct (b_how b) as [| |e] eqn:H; cbn [how_done leave_how]; rewrite ?H.
    + rewrite IH. norm. cbn [number flat_map]. rewrite !sumN_cons. destruct (b_ending r) as [y|]; [destruct (b_how y) as [| |[]]; try destruct exc|];
        cbn [leave_how]; unfold jump_st; norm; rewrite ?cadd_zero_r, ?app_nil_r; fin.
    + unfold jump_st. cbn [number flat_map leave_how]. rewrite !sumN_cons, app_nil_r. unfold jump_st. norm. rewrite ?cadd_zero_r, ?app_nil_r. cbn [sumN fold_right]. fin.
    + cbn [number flat_map]. rewrite !sumN_cons, app_nil_r. cbn [sumN fold_right].
      destruct e; [destruct exc|..]; cbn [leave_how]; unfold jump_st; norm; rewrite ?cadd_zero_r, ?app_nil_r; fin.
Qed.

(* ---- one statement of a phase *)
Definition n_checkfails (x : stmt) : N :=
  match x with
  | SFailX _ _ | SFailC _ _ => 1%N
  | SCheckK k a _ _ => if passes k a then 0%N else 1%N
  | STry blk h hd => (sumN b_nfail (b_executed blk) + (if handler_entered blk h then sumN b_nfail (b_executed hd) else 0))%N
  | SThrows ex blk _ _ =>
      (sumN b_nfail (b_executed blk) + (match bases_how blk with HowJump => 0 | HowThrow e => if catches_type ex e then 0 else 1 | HowDone => 1 end))%N
  | _ => 0%N
  end.
Definition stmt_inner (i ph k : N) (x : stmt) : list item :=
  match x with
  | SFailX f l | SFailC f l => [IFail (mkF i f l 0)]
  | SCheckK kd a f l => if passes kd a then [] else [IFail (mkF i f l 0)]
  | STry blk h hd => bases_items i ph k 0 blk ++ (if handler_entered blk h then bases_items i ph k (N.of_nat (length blk)) hd else [])
  | SThrows ex blk f l =>
      bases_items i ph k 0 blk
      ++ (match bases_how blk with HowJump => [] | HowThrow e => if catches_type ex e then [] else [IFail (mkF i f l 0)] | HowDone => [IFail (mkF i f l 0)] end)
  | _ => []
  end.
Definition stmt_items (i ph : N) (d : Z) (kx : N * stmt) : list item := IEv (mkEv i ph (fst kx) d) :: stmt_inner i ph (fst kx) (snd kx).
Definition stmt_cnt (x : stmt) : cnt := mkCnt 0 0 (n_checks x) (n_checkfails x) 0 0.
(* a statement that can be written in a build without exceptions too *)
Definition plain (x : stmt) : bool := match x with STry _ _ _ | SThrows _ _ _ _ => false | _ => true end.

Lemma is_pass_how x : is_pass x = how_done (stmt_how x).
Proof. destruct x; cbn; try reflexivity. destruct (passes k agree); [reflexivity|]. destruct (c_style k); reflexivity. Qed.

Lemma exec_stmt_closed exc i ph k x s :
  exc = true \/ plain x = true ->
  exec_stmt exc i ph k x s =
  leave_how exc (stmt_how x) (upd s (depth s) (overflow s) (cur s) (stmt_cnt x) (stmt_items i ph (depth s) (k, x))).
Proof.
  intro H. unfold exec_stmt, stmt_items, stmt_cnt. cbn [fst snd].
  destruct x as [| | f l | f l | | | kd a f l | blk h hd | ex blk f l];
    cbn [stmt_how n_checks n_checkfails stmt_inner leave_how]; rewrite ?long_jmp_st; norm.
  - fin.
  - fin.
  - destruct exc; unfold jump_st; norm; cbn [app]; rewrite ?cadd_zero_r; fin.
  - unfold jump_st; norm; cbn [app]; rewrite ?cadd_zero_r; fin.
  - fin.
  - fin.
  - assert (P : passes kd a = negb (called kd a) || fn_passes kd a) by reflexivity.
    assert (Cn : counted kd a = if called kd a then 1%N else 0%N) by reflexivity.
    rewrite P, Cn. destruct (called kd a), (fn_passes kd a); cbn [negb orb map leave_how]; rewrite ?long_jmp_st; norm; try fin.
    destruct (c_style kd); [|destruct exc]; cbn [leave_how]; unfold jump_st; norm; cbn [app]; rewrite ?cadd_zero_r; fin.
  - destruct H as [-> | H]; [|discriminate H].
    rewrite exec_bases_closed. norm. unfold try_how, handler_entered, bases_cnt.
    destruct (bases_how blk) as [| |[]]; cbn [leave_how]; unfold jump_st; norm; rewrite ?cadd_zero_r, ?cadd_zero_l, ?app_nil_r; cbn [app]; try fin;
      destruct h as [[]|]; cbn [catches catches_type]; rewrite ?exec_bases_closed; norm; rewrite ?cadd_zero_r, ?cadd_zero_l, ?app_nil_r; cbn [app]; try fin;
      destruct (bases_how hd) as [| |[]]; cbn [leave_how]; unfold jump_st; norm; rewrite ?cadd_zero_r, ?cadd_zero_l, ?app_nil_r; cbn [app]; fin.
  - destruct H as [-> | H]; [|discriminate H].
    rewrite exec_bases_closed. norm. unfold throws_how, fail_here, bases_cnt.
    destruct (bases_how blk) as [| |[]]; cbn [leave_how]; unfold jump_st; norm; rewrite ?cadd_zero_r, ?cadd_zero_l, ?app_nil_r; cbn [app]; try fin;
      destruct ex; cbn [catches_type leave_how]; norm; rewrite ?cadd_zero_r, ?cadd_zero_l, ?app_nil_r; cbn [app]; fin.
Qed.

Definition phase_items (i ph : N) (d : Z) (k : N) (l : list stmt) : list item := flat_map (stmt_items i ph d) (number k (executed l)).
Definition phase_cnt (l : list stmt) : cnt := mkCnt 0 0 (sumN n_checks (executed l)) (sumN n_checkfails (executed l)) 0 0.
(* how a phase leaves: decided by the first statement that does not pass *)
Definition leave (exc : bool) (e : option stmt) (s : st) : st * outcome :=
  match e with None => (s, ONormal) | Some x => leave_how exc (stmt_how x) s end.

Lemma plain_cons exc x r : exc = true \/ forallb plain (x :: r) = true -> (exc = true \/ plain x = true) /\ (exc = true \/ forallb plain r = true).
Proof. intros [H|H]; [tauto|]. cbn in H. apply andb_true_iff in H. tauto. Qed.

Lemma exec_stmts_closed exc i ph : forall l k s,
  exc = true \/ forallb plain l = true ->
  exec_stmts exc i ph k l s =
  leave exc (ending l) (upd s (depth s) (overflow s) (cur s) (phase_cnt l) (phase_items i ph (depth s) k l)).
Proof.
  induction l as [|x r IH]; intros k s HP.
  - cbn. unfold phase_cnt, phase_items; cbn. change (mkCnt 0 0 0 0 0 0) with czero. rewrite upd_id. reflexivity.
  - apply plain_cons in HP. destruct HP as [HX HR].
    cbn [exec_stmts]. rewrite (exec_stmt_closed exc i ph k x s HX). unfold phase_cnt, phase_items, stmt_cnt in *. cbn [ending executed].
    rewrite (is_pass_how x). destruct (stmt_how x) as [| |e] eqn:H; cbn [how_done leave_how leave]; rewrite ?H.
    + rewrite (IH _ _ HR). norm. cbn [number flat_map]. rewrite !sumN_cons.
      destruct (ending r) as [y|]; [destruct (stmt_how y) as [| |[]]; try destruct exc|];
        cbn [leave leave_how]; unfold jump_st; norm; rewrite ?cadd_zero_r, ?app_nil_r; fin.
    + cbn [number flat_map leave_how]. rewrite !sumN_cons, app_nil_r. unfold jump_st. norm. rewrite ?cadd_zero_r, ?app_nil_r. cbn [sumN fold_right]. fin.
    + cbn [number flat_map]. rewrite !sumN_cons, app_nil_r. cbn [sumN fold_right].
      destruct e; [destruct exc|..]; cbn [leave_how]; unfold jump_st; norm; rewrite ?cadd_zero_r, ?app_nil_r; fin.
Qed.

Lemma ending_not_pass l x : ending l = Some x -> is_pass x = false.
Proof.
  induction l as [|y r IH]; cbn; [discriminate|]. destruct (is_pass y) eqn:E; [exact IH|]. intro H; inversion H; subst; exact E.
Qed.

(* ------------------------------------------------------------------ PlatformSpecificSetJmp around one phase *)
Definition in_phase (i ph : N) (l : list stmt) (s : st) (d : Z) : st :=
  upd s d (overflow s || negb (slot_ok (depth s))) (cur s) (phase_cnt l) (phase_items i ph (depth s + 1) 0 l).
(* the statement leaves by a longjmp to the setjmp of its phase *)
Definition jumps (exc : bool) (w : how) : bool := match w with HowJump => true | HowThrow XFailed => negb exc | _ => false end.
Definition how_exn (w : how) : exn := match w with HowThrow e => e | _ => XFailed end.

Lemma setjmp_phase exc i ph l s :
  exc = true \/ forallb plain l = true ->
  setjmp_call (exec_stmts exc i ph 0 l) s =
  match ending l with
  | None => (in_phase i ph l s (depth s), true, ONormal)
  | Some x =>
      match stmt_how x with
      | HowDone => (in_phase i ph l s (depth s), true, ONormal)
      | w => if jumps exc w then (in_phase i ph l s (depth s), false, ONormal)
             else (in_phase i ph l s (depth s + 1), false, OThrow (how_exn w))
      end
  end.
Proof.
  intro HP. unfold setjmp_call, in_phase. rewrite (exec_stmts_closed exc i ph l 0 _ HP). norm.
  rewrite !cadd_zero_l. cbn [app].
  destruct (ending l) as [x|]; cbn [leave]; [destruct (stmt_how x) as [| |[]]|]; cbn [leave leave_how jumps how_exn negb]; try destruct exc; cbn [negb];
    unfold jump_st; norm; rewrite ?Z.add_simpl_r, ?Z.eqb_refl, ?cadd_zero_r, ?app_nil_r; reflexivity.
Qed.

(* what one guarded phase (setjmp + the catch handlers, no rethrow) adds *)
Definition thrown (l : list stmt) : bool := match ending l with Some x => how_escapes (stmt_how x) | None => false end.
Definition guard_items (i : N) (t : test) (ph : N) (d : Z) (l : list stmt) : list item :=
  phase_items i ph d 0 l ++ (if thrown l then [IFail (exc_failure i t)] else []).
Definition guard_cnt (l : list stmt) : cnt := cadd (phase_cnt l) (if thrown l then one_fail else czero).
Definition guarded (i : N) (t : test) (ph : N) (l : list stmt) (s : st) : st :=
  upd s (depth s) (overflow s || negb (slot_ok (depth s))) (cur s) (guard_cnt l) (guard_items i t ph (depth s + 1) l).

Lemma no_throw_ending l : existsb is_throw l = false -> forall x, ending l = Some x -> is_throw x = false.
Proof.
  intro NT. induction l as [|y r IH]; cbn in *; [discriminate|]. apply orb_false_iff in NT. destruct NT as [A B].
  destruct (is_pass y); [exact (IH B)|]. intros x E; inversion E; subst; exact A.
Qed.
Lemma not_throw_how x : is_throw x = false -> plain x = true /\ how_escapes (stmt_how x) = false.
Proof. destruct x; cbn; try discriminate; intros _; split; try reflexivity. destruct (passes k agree); [reflexivity|]. destruct (c_style k); reflexivity. Qed.
Lemma no_throw_plain l : existsb is_throw l = false -> forallb plain l = true.
Proof.
  induction l as [|x r IH]; cbn; [reflexivity|]. intro H. apply orb_false_iff in H. destruct H as [A B].
  rewrite (proj1 (not_throw_how x A)), (IH B). reflexivity.
Qed.

Lemma guard_exc r i t ph l s :
  r = false \/ existsb is_throw l = false ->
  handlers r i t (drop_ret (setjmp_call (exec_stmts true i ph 0 l) s)) = (guarded i t ph l s, ONormal).
Proof.
  intro H. rewrite setjmp_phase by (left; reflexivity). unfold guarded, guard_items, guard_cnt, thrown, in_phase.
  destruct H as [-> | NT].
  - destruct (ending l) as [x|]; [destruct (stmt_how x) as [| |[]]|]; cbn [jumps negb how_exn how_escapes drop_ret handlers];
      unfold restore_jump_buffer; norm; rewrite ?Z.add_simpl_r, ?cadd_zero_r, ?app_nil_r; reflexivity.
  - pose proof (no_throw_ending l NT) as H.
    destruct (ending l) as [x|]; [pose proof (proj2 (not_throw_how x (H _ eq_refl))) as NE; destruct (stmt_how x) as [| |[]]|];
      cbn [jumps negb how_exn how_escapes drop_ret handlers] in *; try discriminate NE;
      unfold restore_jump_buffer; norm; rewrite ?Z.add_simpl_r, ?cadd_zero_r, ?app_nil_r; reflexivity.
Qed.
Lemma guard_noexc i t ph l s :
  existsb is_throw l = false ->
  drop_ret (setjmp_call (exec_stmts false i ph 0 l) s) = (guarded i t ph l s, ONormal).
Proof.
  intro NT. rewrite setjmp_phase by (right; exact (no_throw_plain l NT)). unfold guarded, guard_items, guard_cnt, thrown, in_phase.
  pose proof (no_throw_ending l NT) as H.
  destruct (ending l) as [x|]; [pose proof (proj2 (not_throw_how x (H _ eq_refl))) as NE; destruct (stmt_how x) as [| |[]]|];
    cbn [jumps negb how_exn how_escapes drop_ret] in *; try discriminate NE;
    rewrite ?cadd_zero_r, ?app_nil_r; reflexivity.
Qed.

(* ------------------------------------------------------------------ Utest::run, both variants, without rethrow *)
Definition utest_final (i : N) (t : test) (s : st) : st :=
  let s1 := guarded i t 0 (t_setup t) s in
  let s2 := if completes (t_setup t) then guarded i t 1 (t_body t) s1 else s1 in
  guarded i t 2 (t_teardown t) s2.

Lemma in_phase_guarded i t ph l s : thrown l = false -> in_phase i ph l s (depth s) = guarded i t ph l s.
Proof. intro H. unfold in_phase, guarded, guard_cnt, guard_items. rewrite H, cadd_zero_r, app_nil_r. reflexivity. Qed.

Lemma has_throw_parts t : has_throw t = false ->
  existsb is_throw (t_setup t) = false /\ existsb is_throw (t_body t) = false /\ existsb is_throw (t_teardown t) = false.
Proof. unfold has_throw. rewrite !existsb_app, !orb_false_iff. tauto. Qed.

Lemma utest_run_exc_closed r i t s :
  r = false \/ has_throw t = false -> utest_run_exc r i t s = (utest_final i t s, ONormal).
Proof.
  intro H.
  assert (H0 : r = false \/ existsb is_throw (t_setup t) = false) by (destruct H as [H|H]; [left; exact H | right; apply has_throw_parts in H; tauto]).
  assert (H1 : r = false \/ existsb is_throw (t_body t) = false) by (destruct H as [H|H]; [left; exact H | right; apply has_throw_parts in H; tauto]).
  assert (H2 : r = false \/ existsb is_throw (t_teardown t) = false) by (destruct H as [H|H]; [left; exact H | right; apply has_throw_parts in H; tauto]).
  unfold utest_run_exc, utest_final.
  pose proof (guard_exc r i t 0 (t_setup t) s H0) as G. rewrite setjmp_phase in G by (left; reflexivity). rewrite setjmp_phase by (left; reflexivity).
  rewrite completes_ending. pose proof (ending_not_pass (t_setup t)) as NP.
  destruct (ending (t_setup t)) as [x|] eqn:E.
  - pose proof (NP _ eq_refl) as NP'. rewrite is_pass_how in NP'.
    destruct (stmt_how x) as [| |[]]; try discriminate NP'; cbn [jumps negb is_none drop_ret] in *; rewrite G; apply guard_exc; assumption.
  - cbn [is_none]. rewrite (in_phase_guarded i t) by (unfold thrown; rewrite E; reflexivity).
    rewrite guard_exc by assumption. apply guard_exc; assumption.
Qed.

Lemma utest_run_noexc_closed i t s : has_throw t = false -> utest_run_noexc i t s = (utest_final i t s, ONormal).
Proof.
  intro NT. apply has_throw_parts in NT. destruct NT as [N0 [N1 N2]].
  unfold utest_run_noexc, utest_final.
  pose proof (guard_noexc i t 0 (t_setup t) s N0) as G.
  rewrite setjmp_phase in G by (right; exact (no_throw_plain _ N0)). rewrite setjmp_phase by (right; exact (no_throw_plain _ N0)).
  rewrite completes_ending. pose proof (ending_not_pass (t_setup t)) as NP.
  destruct (ending (t_setup t)) as [x|] eqn:E.
  - pose proof (NP _ eq_refl) as NP'. rewrite is_pass_how in NP'.
    destruct (stmt_how x) as [| |[]]; try discriminate NP'; cbn [jumps negb is_none drop_ret] in *;
      try discriminate G; pose proof (f_equal fst G) as G'; cbn [fst] in G'; rewrite G'; apply guard_noexc; assumption.
  - cbn [is_none]. rewrite (in_phase_guarded i t) by (unfold thrown; rewrite E; reflexivity).
    rewrite (guard_noexc i t 1) by assumption. apply guard_noexc; assumption.
Qed.
Definition utest_cnt (t : test) : cnt :=
  cadd (guard_cnt (t_setup t)) (cadd (if completes (t_setup t) then guard_cnt (t_body t) else czero) (guard_cnt (t_teardown t))).
Definition utest_items (i : N) (t : test) (d : Z) : list item :=
  guard_items i t 0 d (t_setup t) ++ (if completes (t_setup t) then guard_items i t 1 d (t_body t) else []) ++ guard_items i t 2 d (t_teardown t).
Lemma utest_final_upd i t s :
  utest_final i t s = upd s (depth s) (overflow s || negb (slot_ok (depth s))) (cur s) (utest_cnt t) (utest_items i t (depth s + 1)).
Proof.
  unfold utest_final, utest_cnt, utest_items, guarded. destruct (completes (t_setup t)); norm;
    rewrite <- ?orb_assoc, ?orb_diag, ?cadd_zero_l; cbn [app]; reflexivity.
Qed.

(* a test the closed form is about: it cannot throw, or the build has exceptions and they are not rethrown *)
Definition ok_test (exc r : bool) (t : test) : bool := negb (has_throw t) || (exc && negb r).
Lemma utest_run_closed exc r i t s :
  ok_test exc r t = true ->
  utest_run exc r i t s = (upd s (depth s) (overflow s || negb (slot_ok (depth s))) (cur s) (utest_cnt t) (utest_items i t (depth s + 1)), ONormal).
Proof.
  intro V. rewrite <- utest_final_upd. unfold utest_run. unfold ok_test in V. destruct exc.
  - apply utest_run_exc_closed. destruct r; [right | left; reflexivity]. destruct (has_throw t); [discriminate V | reflexivity].
  - apply utest_run_noexc_closed. destruct (has_throw t); [discriminate V | reflexivity].
Qed.

(* ------------------------------------------------------------------ runOneTestInCurrentProcess / runOneTest *)
Definition pl_items (i : N) (lines : list N) : list item := map (fun l => IFail (mkF i 2 l 3)) lines.
Definition pl_cnt (lines : list N) : cnt := mkCnt 0 0 0 (N.of_nat (length lines)) 0 0.
Lemma plugin_fails_upd i lines : forall s,
  plugin_fails i lines s = upd s (depth s) (overflow s) (cur s) (pl_cnt lines) (pl_items i lines).
Proof.
  unfold plugin_fails. induction lines as [|l r IH]; intro s.
  - cbn. change (pl_cnt []) with czero. rewrite upd_id. reflexivity.
  - cbn [fold_left]. rewrite IH. norm. f_equal. unfold pl_cnt. cbn [length]. cnt_eq.
Qed.

Definition test_items (i : N) (t : test) (d : Z) : list item := pl_items i (t_pre t) ++ utest_items i t d ++ pl_items i (t_post t).
Definition test_cnt (t : test) : cnt := cadd one_run (cadd (pl_cnt (t_pre t)) (cadd (utest_cnt t) (pl_cnt (t_post t)))).

Lemma run_in_process_closed exc r i t s :
  ok_test exc r t = true ->
  run_in_process exc r i t s =
  (upd s (depth s) (overflow s || negb (slot_ok (depth s))) (cur s)
       (cadd (pl_cnt (t_pre t)) (cadd (utest_cnt t) (pl_cnt (t_post t)))) (test_items i t (depth s + 1)), ONormal).
Proof.
  intro V. unfold run_in_process. rewrite plugin_fails_upd. norm. rewrite (utest_run_closed exc r i t _ V). norm.
  rewrite plugin_fails_upd. norm. rewrite ?cadd_zero_l, ?cadd_zero_r, ?app_nil_r, ?cadd_assoc, <- ?app_assoc.
  unfold test_items. reflexivity.
Qed.

Definition bad_slot (k : Z) : bool := negb (slot_ok k).
Lemma run_one_test_closed exc r i t s :
  ok_test exc r t = true ->
  run_one_test exc r i t s =
  (upd s (depth s) (overflow s || bad_slot (depth s) || bad_slot (depth s + 1)) (cur s) (test_cnt t) (test_items i t (depth s + 2)), ONormal).
Proof.
  intro V. unfold run_one_test, setjmp_call. norm. rewrite (run_in_process_closed exc r i t _ V). norm. cbn [drop_ret].
  rewrite ?cadd_zero_l, ?cadd_zero_r, ?app_nil_r, ?cadd_assoc, <- ?app_assoc. cbn [app].
  replace (depth s + 1 + 1) with (depth s + 2) by lia. rewrite Z.add_simpl_r. reflexivity.
Qed.

(* ------------------------------------------------------------------ TestRegistry::runAllTests *)
Definition step_items (cfg : config) (d : Z) (c : bool) (i : N) (t : test) : list item :=
  if selected cfg t then (if runs cfg t then test_items i t (d + 2) else []) ++ [IAfter d c] else [].
Definition step_cnt (cfg : config) (t : test) : cnt :=
  cadd one_test (if selected cfg t then (if runs cfg t then test_cnt t else one_ign) else one_filt).
Definition step_ov (cfg : config) (d : Z) (ov : bool) (t : test) : bool :=
  if selected cfg t && runs cfg t then ov || bad_slot d || bad_slot (d + 1) else ov.
Fixpoint tests_items (cfg : config) (d : Z) (c : bool) (i : N) (l : list test) : list item :=
  match l with [] => [] | t :: r => step_items cfg d c i t ++ tests_items cfg d c (i + 1)%N r end.
Fixpoint tests_cnt (cfg : config) (l : list test) : cnt :=
  match l with [] => czero | t :: r => cadd (step_cnt cfg t) (tests_cnt cfg r) end.

Definition throws_ok (exc : bool) (cfg : config) (l : list test) : bool := forallb (ok_test exc (c_rethrow cfg)) l.
Lemma throws_ok_cons exc cfg t r : throws_ok exc cfg (t :: r) = true -> ok_test exc (c_rethrow cfg) t = true /\ throws_ok exc cfg r = true.
Proof. unfold throws_ok. cbn. apply andb_true_iff. Qed.

Lemma run_tests_closed exc cfg : forall l i s,
  throws_ok exc cfg l = true ->
  run_tests exc cfg i l s =
  (upd s (depth s) (fold_left (step_ov cfg (depth s)) l (overflow s)) (cur s) (tests_cnt cfg l)
       (tests_items cfg (depth s) (is_none (cur s)) i l), ONormal).
Proof.
  induction l as [|t r IH]; intros i s V.
  - cbn. rewrite upd_id. reflexivity.
  - apply throws_ok_cons in V. destruct V as [Vt Vr].
    cbn [run_tests fold_left tests_items tests_cnt].
    assert (Eov : step_ov cfg (depth s) (overflow s) t =
                  if selected cfg t && runs cfg t then overflow s || bad_slot (depth s) || bad_slot (depth s + 1) else overflow s) by reflexivity.
    rewrite Eov; clear Eov. unfold step_items, step_cnt, shell_run, runs.
    destruct (selected cfg t); cbn [andb].
    + destruct (t_ignored t); cbn [negb orb andb].
      * destruct (c_runign cfg); cbn [negb andb].
        -- norm. rewrite (run_one_test_closed exc _ i t _ Vt). norm. rewrite IH by assumption. norm.
           rewrite ?cadd_zero_l, ?cadd_zero_r, ?app_nil_r, ?cadd_assoc, <- ?app_assoc. cbn [app]. reflexivity.
        -- norm. rewrite IH by assumption. norm.
           rewrite ?cadd_zero_l, ?cadd_zero_r, ?app_nil_r, ?cadd_assoc, <- ?app_assoc. cbn [app]. reflexivity.
      * norm. rewrite (run_one_test_closed exc _ i t _ Vt). norm. rewrite IH by assumption. norm.
        rewrite ?cadd_zero_l, ?cadd_zero_r, ?app_nil_r, ?cadd_assoc, <- ?app_assoc. cbn [app]. reflexivity.
    + norm. rewrite IH by assumption. norm.
      rewrite ?cadd_zero_l, ?cadd_zero_r, ?app_nil_r, ?cadd_assoc, <- ?app_assoc. cbn [app]. reflexivity.
Qed.

(* ------------------------------------------------------------------ projections of the log, in the vocabulary of the spec *)
Lemma events_app a b : events_of (a ++ b) = events_of a ++ events_of b.
Proof. induction a as [|x a IH]; cbn; [reflexivity|]. destruct x; cbn; rewrite IH; reflexivity. Qed.
Lemma fails_app a b : fails_of (a ++ b) = fails_of a ++ fails_of b.
Proof. induction a as [|x a IH]; cbn; [reflexivity|]. destruct x; cbn; rewrite IH; reflexivity. Qed.
Lemma afters_app a b : afters_of (a ++ b) = afters_of a ++ afters_of b.
Proof. induction a as [|x a IH]; cbn; [reflexivity|]. destruct x; cbn; rewrite IH; reflexivity. Qed.
Lemma subs_app a b : subs_of (a ++ b) = subs_of a ++ subs_of b.
Proof. induction a as [|x a IH]; cbn; [reflexivity|]. destruct x; cbn; rewrite IH; reflexivity. Qed.

Definition strip (e : event) : N * N * N := (e_test e, e_phase e, e_idx e).

(* failure records among the items *)
Lemma recs_events l : events_of (map IFail l) = []. Proof. induction l; cbn; auto. Qed.
Lemma recs_afters l : afters_of (map IFail l) = []. Proof. induction l; cbn; auto. Qed.
Lemma recs_subs l : subs_of (map IFail l) = []. Proof. induction l; cbn; auto. Qed.
Lemma recs_fails l : fails_of (map IFail l) = l. Proof. induction l as [|x l IH]; cbn; [reflexivity|]. rewrite IH. reflexivity. Qed.

(* inside a try block *)
Section Inner.
  Variables (i ph k : N).
  Lemma inner_events : forall m j, events_of (flat_map (base_items i ph k) (number j m)) = [].
  Proof. induction m as [|b m IH]; intro j; [reflexivity|]. cbn [number flat_map base_items fst snd app events_of]. rewrite events_app, recs_events, IH. reflexivity. Qed.
  Lemma inner_afters : forall m j, afters_of (flat_map (base_items i ph k) (number j m)) = [].
  Proof. induction m as [|b m IH]; intro j; [reflexivity|]. cbn [number flat_map base_items fst snd app afters_of]. rewrite afters_app, recs_afters, IH. reflexivity. Qed.
  Lemma inner_fails : forall m j, fails_of (flat_map (base_items i ph k) (number j m)) = flat_map (b_failure i) m.
  Proof. induction m as [|b m IH]; intro j; [reflexivity|]. cbn [number flat_map base_items fst snd app fails_of]. rewrite fails_app, recs_fails, IH. reflexivity. Qed.
  Lemma inner_subs : forall m j, subs_of (flat_map (base_items i ph k) (number j m)) = map (fun jb => mkSub i ph k (fst jb)) (number j m).
  Proof. induction m as [|b m IH]; intro j; [reflexivity|]. cbn [number flat_map base_items fst snd app subs_of map]. rewrite subs_app, recs_subs, IH. reflexivity. Qed.
  Lemma bases_events l j : events_of (bases_items i ph k j l) = []. Proof. apply inner_events. Qed.
  Lemma bases_afters l j : afters_of (bases_items i ph k j l) = []. Proof. apply inner_afters. Qed.
  Lemma bases_fails l j : fails_of (bases_items i ph k j l) = flat_map (b_failure i) (b_executed l). Proof. apply inner_fails. Qed.
  Lemma bases_subs l j : subs_of (bases_items i ph k j l) = map (fun jb => mkSub i ph k (fst jb)) (number j (b_executed l)). Proof. apply inner_subs. Qed.
End Inner.
Lemma b_nfail_len i b : b_nfail b = N.of_nat (length (b_failure i b)).
Proof. destruct b; cbn; try reflexivity. destruct (passes k agree); reflexivity. Qed.
Lemma bases_nfail i m : sumN b_nfail m = N.of_nat (length (flat_map (b_failure i) m)).
Proof. induction m as [|b m IH]; [reflexivity|]. rewrite sumN_cons. cbn [flat_map]. rewrite app_length, IH, (b_nfail_len i b). lia. Qed.

(* one statement of a phase *)
Lemma stmt_events i ph d k x : events_of (stmt_items i ph d (k, x)) = [mkEv i ph k d].
Proof.
  unfold stmt_items. cbn [fst snd events_of]. f_equal.
  destruct x; cbn [stmt_inner]; try reflexivity.
  - destruct (passes k0 agree); reflexivity.
  - rewrite events_app, bases_events. destruct (handler_entered blk h); [apply bases_events | reflexivity].
  - rewrite events_app, bases_events. destruct (bases_how blk) as [| |e0]; try reflexivity. destruct (catches_type e e0); reflexivity.
Qed.
Lemma stmt_afters i ph d k x : afters_of (stmt_items i ph d (k, x)) = [].
Proof.
  unfold stmt_items. cbn [fst snd afters_of].
  destruct x; cbn [stmt_inner]; try reflexivity.
  - destruct (passes k0 agree); reflexivity.
  - rewrite afters_app, bases_afters. destruct (handler_entered blk h); [apply bases_afters | reflexivity].
  - rewrite afters_app, bases_afters. destruct (bases_how blk) as [| |e0]; try reflexivity. destruct (catches_type e e0); reflexivity.
Qed.
Lemma stmt_subs_eq i ph d k x : subs_of (stmt_items i ph d (k, x)) = stmt_subs i ph k x.
Proof.
  unfold stmt_items. cbn [fst snd subs_of].
  destruct x; cbn [stmt_inner stmt_subs]; try reflexivity.
  - destruct (passes k0 agree); reflexivity.
  - rewrite subs_app, bases_subs. destruct (handler_entered blk h); [rewrite bases_subs|]; reflexivity.
  - rewrite subs_app, bases_subs. destruct (bases_how blk) as [| |e0]; cbn; rewrite ?app_nil_r; try reflexivity.
    destruct (catches_type e e0); cbn; rewrite ?app_nil_r; reflexivity.
Qed.
Lemma stmt_fails i t ph d k x :
  fails_of (stmt_items i ph d (k, x)) ++ (if how_escapes (stmt_how x) then [exc_failure i t] else []) = stmt_failure i t x.
Proof.
  unfold stmt_items, exc_failure. cbn [fst snd fails_of].
  destruct x; cbn [stmt_inner stmt_how stmt_failure how_escapes fails_of app]; try reflexivity.
  - destruct (passes k0 agree); [reflexivity|]. destruct (c_style k0); reflexivity.
  - rewrite fails_app, bases_fails, <- app_assoc. f_equal. destruct (handler_entered blk h); [rewrite bases_fails|]; reflexivity.
  - rewrite fails_app, bases_fails, <- app_assoc. f_equal. unfold throws_how.
    destruct (bases_how blk) as [| |e0]; try reflexivity. destruct (catches_type e e0); reflexivity.
Qed.
Lemma stmt_nfail i t x :
  (n_checkfails x + (if how_escapes (stmt_how x) then 1 else 0))%N = N.of_nat (length (stmt_failure i t x)).
Proof.
  destruct x; cbn [n_checkfails stmt_how stmt_failure how_escapes length]; try reflexivity.
  - destruct (passes k agree); [reflexivity|]. destruct (c_style k); reflexivity.
  - rewrite !app_length, (bases_nfail i (b_executed blk)).
    destruct (handler_entered blk h); [rewrite (bases_nfail i (b_executed hd))|]; destruct (how_escapes (try_how blk h hd)); cbn [length]; lia.
  - rewrite !app_length, (bases_nfail i (b_executed blk)). unfold throws_how.
    destruct (bases_how blk) as [| |e0]; cbn [how_escapes length]; try lia. destruct (catches_type e e0); cbn [how_escapes length]; lia.
Qed.
Lemma pass_not_escapes x : is_pass x = true -> how_escapes (stmt_how x) = false.
Proof. rewrite is_pass_how. destruct (stmt_how x); [reflexivity | discriminate | discriminate]. Qed.
Lemma pass_fails i t ph d k x : is_pass x = true -> fails_of (stmt_items i ph d (k, x)) = stmt_failure i t x.
Proof. intro P. rewrite <- (stmt_fails i t ph d k x), (pass_not_escapes x P), app_nil_r. reflexivity. Qed.

Section Phase.
  Variables (i : N) (t : test) (ph : N) (d : Z).
  Let tail (l : list stmt) : list item := if thrown l then [IFail (exc_failure i t)] else [].

  Lemma thrown_cons_pass x r : is_pass x = true -> thrown (x :: r) = thrown r.
  Proof. intro H. unfold thrown. cbn. rewrite H. reflexivity. Qed.
  Lemma thrown_cons_stop x r : is_pass x = false -> thrown (x :: r) = how_escapes (stmt_how x).
  Proof. intro H. unfold thrown. cbn. rewrite H. reflexivity. Qed.
  Lemma phase_items_pass x r k : is_pass x = true -> phase_items i ph d k (x :: r) = stmt_items i ph d (k, x) ++ phase_items i ph d (k + 1) r.
  Proof. intro H. unfold phase_items. cbn [executed]. rewrite H. reflexivity. Qed.
  Lemma phase_items_stop x r k : is_pass x = false -> phase_items i ph d k (x :: r) = stmt_items i ph d (k, x).
  Proof. intro H. unfold phase_items. cbn [executed]. rewrite H. cbn [number flat_map]. apply app_nil_r. Qed.

  Lemma guard_events : forall l k,
    events_of (phase_items i ph d k l ++ tail l) = map (fun kx => mkEv i ph (fst kx) d) (number k (executed l)).
  Proof.
    unfold tail. induction l as [|x r IH]; intro k; [reflexivity|]. destruct (is_pass x) eqn:P.
    - rewrite (thrown_cons_pass x r P), (phase_items_pass x r k P), <- app_assoc, events_app, stmt_events, IH. cbn [executed]. rewrite P. reflexivity.
    - rewrite (phase_items_stop x r k P), events_app, stmt_events. cbn [executed]. rewrite P.
      destruct (thrown (x :: r)); reflexivity.
  Qed.
  Lemma guard_fails : forall l k,
    fails_of (phase_items i ph d k l ++ tail l) = flat_map (stmt_failure i t) (executed l).
  Proof.
    unfold tail. induction l as [|x r IH]; intro k; [reflexivity|]. destruct (is_pass x) eqn:P.
    - rewrite (thrown_cons_pass x r P), (phase_items_pass x r k P), <- app_assoc, fails_app, (pass_fails i t ph d k x P), IH. cbn [executed]. rewrite P. reflexivity.
    - rewrite (phase_items_stop x r k P), (thrown_cons_stop x r P), fails_app. cbn [executed]. rewrite P. cbn [flat_map]. rewrite app_nil_r.
      rewrite <- (stmt_fails i t ph d k x). f_equal. destruct (how_escapes (stmt_how x)); reflexivity.
  Qed.
  Lemma guard_afters : forall l k, afters_of (phase_items i ph d k l ++ tail l) = [].
  Proof.
    unfold tail. induction l as [|x r IH]; intro k; [reflexivity|]. destruct (is_pass x) eqn:P.
    - rewrite (thrown_cons_pass x r P), (phase_items_pass x r k P), <- app_assoc, afters_app, stmt_afters, IH. reflexivity.
    - rewrite (phase_items_stop x r k P), afters_app, stmt_afters. destruct (thrown (x :: r)); reflexivity.
  Qed.
  Lemma guard_subs : forall l k,
    subs_of (phase_items i ph d k l ++ tail l) = flat_map (fun kx => stmt_subs i ph (fst kx) (snd kx)) (number k (executed l)).
  Proof.
    unfold tail. induction l as [|x r IH]; intro k; [reflexivity|]. destruct (is_pass x) eqn:P.
    - rewrite (thrown_cons_pass x r P), (phase_items_pass x r k P), <- app_assoc, subs_app, stmt_subs_eq, IH. cbn [executed]. rewrite P. reflexivity.
    - rewrite (phase_items_stop x r k P), subs_app, stmt_subs_eq. cbn [executed]. rewrite P. cbn [number flat_map fst snd]. rewrite app_nil_r.
      destruct (thrown (x :: r)); cbn; rewrite app_nil_r; reflexivity.
  Qed.
  Lemma guard_cnt_eq l :
    guard_cnt l = mkCnt 0 0 (sumN n_checks (executed l)) (N.of_nat (length (flat_map (stmt_failure i t) (executed l)))) 0 0.
  Proof.
    unfold guard_cnt, phase_cnt.
    assert (H : (sumN n_checkfails (executed l) + (if thrown l then 1 else 0))%N = N.of_nat (length (flat_map (stmt_failure i t) (executed l)))).
    { induction l as [|x r IH]; [reflexivity|]. destruct (is_pass x) eqn:P.
      - rewrite (thrown_cons_pass x r P). cbn [executed]. rewrite P. rewrite sumN_cons. cbn [flat_map]. rewrite app_length.
        pose proof (stmt_nfail i t x) as E. rewrite (pass_not_escapes x P) in E. lia.
      - rewrite (thrown_cons_stop x r P). cbn [executed]. rewrite P. rewrite sumN_cons. cbn [flat_map sumN fold_right]. rewrite app_nil_r.
        pose proof (stmt_nfail i t x) as E. lia. }
    rewrite <- H. destruct (thrown l); cnt_eq.
  Qed.
  Lemma gi_events l : events_of (guard_items i t ph d l) = map (fun kx => mkEv i ph (fst kx) d) (number 0 (executed l)).
  Proof. exact (guard_events l 0%N). Qed.
  Lemma gi_fails l : fails_of (guard_items i t ph d l) = flat_map (stmt_failure i t) (executed l).
  Proof. exact (guard_fails l 0%N). Qed.
  Lemma gi_afters l : afters_of (guard_items i t ph d l) = [].
  Proof. exact (guard_afters l 0%N). Qed.
  Lemma gi_subs l : subs_of (guard_items i t ph d l) = flat_map (fun kx => stmt_subs i ph (fst kx) (snd kx)) (number 0 (executed l)).
  Proof. exact (guard_subs l 0%N). Qed.
End Phase.
Lemma pl_events i l : events_of (pl_items i l) = []. Proof. induction l; cbn; auto. Qed.
Lemma pl_afters i l : afters_of (pl_items i l) = []. Proof. induction l; cbn; auto. Qed.
Lemma pl_subs i l : subs_of (pl_items i l) = []. Proof. induction l; cbn; auto. Qed.
Lemma pl_fails i l : fails_of (pl_items i l) = map (fun l => mkF i 2 l 3) l. Proof. unfold pl_items. induction l as [|x l IH]; [reflexivity|]. cbn. rewrite IH. reflexivity. Qed.

Lemma test_events i t d : events_of (test_items i t d) = map (fun e => mkEv (fst (fst e)) (snd (fst e)) (snd e) d) (want_events i t).
Proof.
  unfold test_items, utest_items, want_events, phases.
  rewrite !events_app, !pl_events. destruct (completes (t_setup t)); cbn [app flat_map fst snd];
    rewrite !gi_events, ?app_nil_r, ?map_app, !map_map; reflexivity.
Qed.
Lemma test_fails i t d : fails_of (test_items i t d) = want_fails i t.
Proof.
  unfold test_items, utest_items, want_fails, phases.
  rewrite !fails_app, !pl_fails. destruct (completes (t_setup t)); cbn [app flat_map fst snd fails_of];
    rewrite !gi_fails, ?app_nil_r; reflexivity.
Qed.
Lemma test_afters i t d : afters_of (test_items i t d) = [].
Proof.
  unfold test_items, utest_items.
  rewrite !afters_app, !pl_afters. destruct (completes (t_setup t)); rewrite !gi_afters; reflexivity.
Qed.
Lemma test_subs i t d : subs_of (test_items i t d) = want_subs i t.
Proof.
  unfold test_items, utest_items, want_subs, phases.
  rewrite !subs_app, !pl_subs. destruct (completes (t_setup t)); cbn [app flat_map fst snd];
    rewrite !gi_subs, ?app_nil_r; reflexivity.
Qed.
Lemma nb_app {A} (f : A -> bool) a b : nb f (a ++ b) = (nb f a + nb f b)%N.
Proof. unfold nb. rewrite filter_app, app_length. lia. Qed.
Lemma test_cnt_eq i t : test_cnt t = mkCnt 0 1 (want_checks t) (N.of_nat (length (want_fails i t))) 0 0.
Proof.
  unfold test_cnt, utest_cnt, want_checks, want_fails, phases, pl_cnt. rewrite !(guard_cnt_eq i t).
  destruct (completes (t_setup t)); cbn [app flat_map fst snd]; rewrite ?app_nil_r, !app_length, !map_length, ?sumN_app; cnt_eq.
Qed.

(* ------------------------------------------------------------------ a whole repetition, in the vocabulary of the spec *)
Lemma number_cons {A} k (x : A) r : number k (x :: r) = (k, x) :: number (k + 1)%N r. Proof. reflexivity. Qed.

Lemma tests_events cfg d c : forall l i,
  events_of (tests_items cfg d c i l) = map (fun e => mkEv (fst (fst e)) (snd (fst e)) (snd e) (d + 2)) (rep_events cfg (number i l)).
Proof.
  induction l as [|t r IH]; intro i; [reflexivity|].
  cbn [tests_items]. rewrite number_cons. unfold rep_events in *. cbn [filter]. unfold started at 1. cbn [fst snd].
  rewrite events_app, IH. unfold step_items. destruct (selected cfg t); cbn [andb].
  - destruct (runs cfg t); cbn [flat_map fst snd].
    + rewrite events_app, test_events, map_app. cbn [events_of]. rewrite app_nil_r. reflexivity.
    + reflexivity.
  - reflexivity.
Qed.
Lemma tests_fails cfg d c : forall l i, fails_of (tests_items cfg d c i l) = rep_fails cfg (number i l).
Proof.
  induction l as [|t r IH]; intro i; [reflexivity|].
  cbn [tests_items]. rewrite number_cons. unfold rep_fails in *. cbn [filter]. unfold started at 1. cbn [fst snd].
  rewrite fails_app, IH. unfold step_items. destruct (selected cfg t); cbn [andb].
  - destruct (runs cfg t); cbn [flat_map fst snd].
    + rewrite fails_app, test_fails. cbn [fails_of]. rewrite app_nil_r. reflexivity.
    + reflexivity.
  - reflexivity.
Qed.
Lemma tests_afters cfg d c : forall l i,
  afters_of (tests_items cfg d c i l) = repeat (d, c) (length (filter (fun it => selected cfg (snd it)) (number i l))).
Proof.
  induction l as [|t r IH]; intro i; [reflexivity|].
  cbn [tests_items]. rewrite number_cons. cbn [filter snd]. rewrite afters_app, IH. unfold step_items.
  destruct (selected cfg t); [|reflexivity]. rewrite afters_app. destruct (runs cfg t); rewrite ?test_afters; reflexivity.
Qed.
Lemma tests_subs cfg d c : forall l i, subs_of (tests_items cfg d c i l) = rep_subs cfg (number i l).
Proof.
  induction l as [|t r IH]; intro i; [reflexivity|].
  cbn [tests_items]. rewrite number_cons. unfold rep_subs in *. cbn [filter]. unfold started at 1. cbn [fst snd].
  rewrite subs_app, IH. unfold step_items. destruct (selected cfg t); cbn [andb].
  - destruct (runs cfg t); cbn [flat_map fst snd].
    + rewrite subs_app, test_subs. cbn [subs_of]. rewrite app_nil_r. reflexivity.
    + reflexivity.
  - reflexivity.
Qed.
Lemma tests_cnt_eq cfg : forall l i, tests_cnt cfg l = rep_counts cfg (number i l).
Proof.
  induction l as [|t r IH]; intro i; [reflexivity|].
  cbn [tests_cnt]. rewrite (IH (i + 1)%N), number_cons. unfold rep_counts, rep_fails, nb, step_cnt, started.
  cbn [filter fst snd length fold_right flat_map].
  destruct (selected cfg t); cbn [andb negb filter length fold_right flat_map fst snd].
  - destruct (runs cfg t); cbn [andb negb filter length fold_right flat_map fst snd].
    + rewrite (test_cnt_eq i t), app_length. cnt_eq.
    + cnt_eq.
  - cnt_eq.
Qed.

Lemma slots_ge_2 : 2 <= slots. Proof. unfold slots. vm_compute. discriminate. Qed.
Lemma step_ov_ok cfg l : fold_left (step_ov cfg 0) l false = false.
Proof.
  pose proof slots_ge_2 as S2.
  assert (B0 : bad_slot 0 = false) by (unfold bad_slot, slot_ok; lia).
  assert (B1 : bad_slot (0 + 1) = false) by (unfold bad_slot, slot_ok; lia).
  induction l as [|t r IH]; [reflexivity|]. cbn [fold_left]. unfold step_ov at 2. rewrite B0, B1.
  destruct (selected cfg t && runs cfg t); exact IH.
Qed.

Definition good (s : st) : Prop := depth s = 0 /\ overflow s = false /\ cur s = None.
Definition rep_state (cfg : config) (tests : list test) : st :=
  mkSt 0 false None (rep_counts cfg (number 0%N tests)) (tests_items cfg 0 true 0%N tests).

Lemma run_rep_closed exc cfg tests s :
  throws_ok exc cfg tests = true -> good s ->
  run_rep exc cfg tests s = (rep_state cfg tests, ONormal).
Proof.
  intros V [D [O C]]. unfold run_rep. rewrite (run_tests_closed exc cfg) by assumption.
  unfold fresh, upd, rep_state. cbn [depth overflow cur cn out]. rewrite D, O, C, step_ov_ok, cadd_zero_l. cbn [is_none app].
  rewrite (tests_cnt_eq cfg tests 0%N). reflexivity.
Qed.
Lemma rep_state_good cfg tests : good (rep_state cfg tests). Proof. repeat split. Qed.

(* ------------------------------------------------------------------ the spec accepts the repetition the machine produces *)
Lemma list_eqb_refl {A} (e : A -> A -> bool) : (forall x, e x x = true) -> forall l, list_eqb e l l = true.
Proof. intros H l. induction l as [|x l IH]; cbn; [reflexivity|]. rewrite H, IH. reflexivity. Qed.
Lemma ev3_eqb_refl x : ev3_eqb x x = true. Proof. destruct x as [[a b] c]. cbn. rewrite !N.eqb_refl. reflexivity. Qed.
Lemma frec_eqb_refl x : frec_eqb x x = true. Proof. unfold frec_eqb. rewrite !N.eqb_refl. reflexivity. Qed.
Lemma cnt_eqb_refl x : cnt_eqb x x = true. Proof. unfold cnt_eqb. rewrite !N.eqb_refl. reflexivity. Qed.
Lemma sub_eqb_refl x : sub_eqb x x = true. Proof. unfold sub_eqb. rewrite !N.eqb_refl. reflexivity. Qed.
Lemma forallb_repeat {A} (f : A -> bool) x n : f x = true -> forallb f (repeat x n) = true.
Proof. intro H. induction n; cbn; [reflexivity|]. rewrite H, IHn. reflexivity. Qed.

Lemma summary_ok_mk c : summary_ok c (mk_summary c) = true.
Proof.
  unfold summary_ok, mk_summary, is_failure, rep_is_ok. cbn [m_ok m_nfail m_tests m_run m_checks m_ign m_filt].
  rewrite !N.eqb_refl. rewrite !andb_true_r.
  destruct (N.eqb_spec (k_fail c) 0) as [F|F]; destruct (N.eqb_spec (k_run c + k_ign c) 0) as [R|R]; cbn [negb orb andb].
  - rewrite F. cbn. destruct (N.ltb_spec 0 (k_run c + k_ign c)); [lia | reflexivity].
  - rewrite F. cbn. destruct (N.ltb_spec 0 (k_run c + k_ign c)); [reflexivity | lia].
  - destruct (N.ltb_spec 0 (k_fail c)); [|lia]. cbn. rewrite N.eqb_refl. reflexivity.
  - destruct (N.ltb_spec 0 (k_fail c)); [|lia]. cbn. rewrite N.eqb_refl. reflexivity.
Qed.

Lemma rep_ok_model cfg tests :
  rep_ok cfg (number 0%N tests) (rep_obs_of cfg (rep_state cfg tests) ONormal) = true.
Proof.
  unfold rep_ok, rep_obs_of, rep_state. cbn [out cn r_events r_fails r_after r_summary r_counters r_subs is_normal].
  rewrite tests_events, tests_fails, tests_afters, tests_subs, (list_eqb_refl _ sub_eqb_refl), andb_true_r.
  rewrite map_map. cbn [e_test e_phase e_idx].
  replace (map (fun x : N * N * N => (fst (fst x), snd (fst x), snd x)) (rep_events cfg (number 0%N tests))) with (rep_events cfg (number 0%N tests))
    by (rewrite <- (map_id (rep_events cfg (number 0%N tests))) at 1; apply map_ext; intros [[a b] c]; reflexivity).
  rewrite (list_eqb_refl _ ev3_eqb_refl), (list_eqb_refl _ frec_eqb_refl), repeat_length.
  rewrite summary_ok_mk. unfold nb. rewrite N.eqb_refl.
  rewrite forallb_repeat by reflexivity.
  assert (D : forallb (fun e : event => (1 <=? e_depth e) && (e_depth e <=? slots))
                (map (fun e : N * N * N => mkEv (fst (fst e)) (snd (fst e)) (snd e) (0 + 2)) (rep_events cfg (number 0%N tests))) = true).
  { rewrite forallb_forall. intros e H. apply in_map_iff in H. destruct H as [x [<- _]]. cbn [e_depth]. pose proof slots_ge_2. lia. }
  rewrite D. destruct (c_cli cfg); [reflexivity|]. rewrite cnt_eqb_refl. reflexivity.
Qed.

Lemma is_failure_not_ok c : is_failure c = negb (rep_is_ok c).
Proof.
  unfold is_failure, rep_is_ok. destruct (N.eqb_spec (k_fail c) 0); cbn [negb orb andb]; [|reflexivity].
  destruct (N.eqb_spec (k_run c + k_ign c) 0); destruct (N.ltb_spec 0 (k_run c + k_ign c)); try lia; reflexivity.
Qed.
Lemma exit_value_small z : (z < 2 ^ 31)%Z -> (0 <= z)%Z -> cast TInt (cast TULong z) = z.
Proof. intros H H0. rewrite (cast_id' TULong) by (cbn; lia). apply cast_id'. cbn. lia. Qed.

(* ------------------------------------------------------------------ programs that depend on the repetition *)
Lemma stmt_at_throw r l : existsb is_throw (map (stmt_at r) l) = true -> existsb rstmt_throws l = true.
Proof.
  induction l as [|x l IH]; cbn; [discriminate|]. rewrite !orb_true_iff. intros [H|H]; [left | right; exact (IH H)].
  destruct x as [a | c a b]; cbn in *; [exact H|]. destruct (holds c r); rewrite H; [reflexivity | apply orb_true_r].
Qed.
Lemma at_rep_throw r t : has_throw (at_rep r t) = true -> rhas_throw t = true.
Proof.
  unfold has_throw, rhas_throw, at_rep. cbn [t_setup t_body t_teardown]. rewrite !existsb_app, !orb_true_iff.
  intros [H|[H|H]]; apply stmt_at_throw in H; tauto.
Qed.
Lemma prog_at_ok exc cfg tests :
  (exc || negb (existsb rhas_throw tests)) = true -> (c_rethrow cfg && existsb rhas_throw tests) = false ->
  forall r, throws_ok exc cfg (prog_at r tests) = true.
Proof.
  intros A B r. apply forallb_forall. intros t Ht. unfold prog_at in Ht. apply in_map_iff in Ht. destruct Ht as [rt [<- Hrt]].
  unfold ok_test. destruct (has_throw (at_rep r rt)) eqn:HT; [|reflexivity].
  assert (E : existsb rhas_throw tests = true) by (apply existsb_exists; exists rt; split; [exact Hrt | exact (at_rep_throw r rt HT)]).
  rewrite E in A, B. cbn. destruct exc; [|discriminate A].
  destruct (c_rethrow cfg); [discriminate B | reflexivity].
Qed.
Lemma throws_ok_of_valid exc scn : valid exc scn = true -> forall r, throws_ok exc (s_cfg scn) (prog_at r (s_tests scn)) = true.
Proof.
  unfold valid. intro V. apply andb_true_iff in V. destruct V as [V _]. apply andb_true_iff in V. destruct V as [V _].
  apply andb_true_iff in V. destruct V as [A B]. apply prog_at_ok; [exact A|].
  destruct (c_rethrow (s_cfg scn) && existsb rhas_throw (s_tests scn)); [discriminate B | reflexivity].
Qed.

(* ------------------------------------------------------------------ the repeat loop and the returned value *)
Definition rep_model (cfg : config) (tests : list test) : rep_obs := rep_obs_of cfg (rep_state cfg tests) ONormal.

(* the repetition numbers loop, loop+1, ..., loop+n-1 *)
Fixpoint idx_from (loop : N) (n : nat) : list N := match n with O => [] | S n' => loop :: idx_from (loop + 1)%N n' end.
Lemma idx_from_seq : forall n loop, idx_from loop n = map N.of_nat (seq (N.to_nat loop) n).
Proof.
  induction n as [|n IH]; intro loop; [reflexivity|]. cbn [idx_from seq map]. rewrite N2Nat.id, IH, N.add_1_r, N2Nat.inj_succ. reflexivity.
Qed.
Lemma rep_index_idx n : rep_index n = idx_from 0%N (N.to_nat n).
Proof. unfold rep_index. rewrite idx_from_seq. reflexivity. Qed.
Lemma idx_from_length : forall n loop, length (idx_from loop n) = n.
Proof. induction n as [|n IH]; intro loop; cbn; [reflexivity|]. rewrite IH. reflexivity. Qed.
Lemma idx_from_nth : forall n loop j x, nth_error (idx_from loop n) j = Some x -> x = (loop + N.of_nat j)%N.
Proof.
  induction n as [|n IH]; intros loop j x H; [destruct j; discriminate H|].
  destruct j as [|j]; cbn in H.
  - inversion H; subst. lia.
  - apply IH in H. lia.
Qed.

(* what the two accumulators of the loop hold after the repetitions in L; f j = the counters of repetition j *)
Section Acc.
  Variable f : N -> cnt.
  Definition sum_fail (L : list N) : N := fold_right (fun j a => (k_fail (f j) + a)%N) 0%N L.
  Definition n_failed (L : list N) : N := N.of_nat (length (filter (fun j => is_failure (f j)) L)).

  Lemma n_failed_zero L : n_failed L = 0%N <-> forallb (fun j => rep_is_ok (f j)) L = true.
  Proof.
    unfold n_failed. induction L as [|j L IH]; cbn [filter forallb length]; [tauto|].
    rewrite (is_failure_not_ok (f j)). destruct (rep_is_ok (f j)); cbn [negb andb length].
    - exact IH.
    - split; [lia | discriminate].
  Qed.
  Lemma sum_fail_nonzero L : sum_fail L <> 0%N -> n_failed L <> 0%N.
  Proof.
    unfold n_failed, sum_fail. induction L as [|j L IH]; cbn [fold_right filter]; [tauto|]. intro H.
    unfold is_failure at 1. destruct (N.eqb_spec (k_fail (f j)) 0) as [E|E]; cbn [negb orb].
    - rewrite E in H. destruct (k_run (f j) + k_ign (f j) =? 0)%N; cbn [length]; [lia | apply IH; lia].
    - cbn [length]. lia.
  Qed.
  Lemma n_failed_le L : (n_failed L <= N.of_nat (length L))%N.
  Proof. unfold n_failed. induction L as [|j L IH]; cbn [filter length]; [lia|]. destruct (is_failure (f j)); cbn [length]; lia. Qed.

  (* the returned value is zero exactly when every repetition was OK *)
  Lemma exit_value_zero_iff L :
    Z.of_N (sum_fail L) < 2 ^ 31 -> Z.of_nat (length L) < 2 ^ 31 ->
    (exit_value (sum_fail L) (n_failed L) = 0 <-> forallb (fun j => rep_is_ok (f j)) L = true).
  Proof.
    intros H1 H2. rewrite <- n_failed_zero. pose proof (n_failed_le L) as LE. pose proof (sum_fail_nonzero L) as NZ.
    unfold exit_value. rewrite exit_value_small by (destruct (sum_fail L =? 0)%N; lia).
    destruct (N.eqb_spec (sum_fail L) 0) as [E|E]; lia.
  Qed.
End Acc.

Definition cnt_at (cfg : config) (tests : list rtest) (j : N) : cnt := rep_counts cfg (number 0%N (prog_at j tests)).

Lemma runner_loop_closed exc cfg tests :
  (forall j, throws_ok exc cfg (prog_at j tests) = true) ->
  forall n loop s ft fe, good s ->
  exists s', good s' /\
    runner_loop exc cfg tests n loop s ft fe =
    (map (fun j => rep_model cfg (prog_at j tests)) (idx_from loop n), s',
     (ft + sum_fail (cnt_at cfg tests) (idx_from loop n))%N, (fe + n_failed (cnt_at cfg tests) (idx_from loop n))%N, ONormal).
Proof.
  intros V. induction n as [|n IH]; intros loop s ft fe G.
  - exists s. split; [exact G|]. cbn [runner_loop idx_from map]. unfold sum_fail, n_failed. cbn. rewrite !N.add_0_r. reflexivity.
  - cbn [runner_loop]. rewrite (run_rep_closed exc cfg (prog_at loop tests) s (V loop) G).
    destruct (IH (loop + 1)%N (rep_state cfg (prog_at loop tests)) (ft + k_fail (cn (rep_state cfg (prog_at loop tests))))%N
                 (if is_failure (cn (rep_state cfg (prog_at loop tests))) then fe + 1 else fe)%N (rep_state_good cfg _)) as [s' [G' E]].
    exists s'. split; [exact G'|]. rewrite E. cbn [idx_from map]. unfold rep_model. cbn [cn rep_state].
    unfold sum_fail, n_failed. cbn [fold_right filter]. fold (cnt_at cfg tests loop).
    fold (sum_fail (cnt_at cfg tests) (idx_from (loop + 1) n)).
    destruct (is_failure (cnt_at cfg tests loop)); cbn [length];
      (apply f_equal2; [apply f_equal2; [apply f_equal2; [reflexivity | lia] | lia] | reflexivity]).
Qed.

Lemma reps_ok_model scn : forall n loop,
  reps_ok scn loop (map (fun j => rep_model (s_cfg scn) (prog_at j (s_tests scn))) (idx_from loop n)) = true.
Proof.
  induction n as [|n IH]; intro loop; [reflexivity|]. cbn [idx_from map reps_ok]. rewrite IH, andb_true_r.
  unfold rep_tests, rep_model. apply rep_ok_model.
Qed.

Lemma eff_repeat_small n : Z.of_N n < 2 ^ 31 -> Z.of_N (eff_repeat n) < 2 ^ 31.
Proof. unfold eff_repeat. destruct (N.eqb_spec n 0); lia. Qed.
Lemma eff_repeat_pos n : (0 < eff_repeat n)%N.
Proof. unfold eff_repeat. destruct (N.eqb_spec n 0); lia. Qed.

Lemma total_failures_sum scn n : total_failures scn n = sum_fail (cnt_at (s_cfg scn) (s_tests scn)) (idx_from 0%N (N.to_nat n)).
Proof. unfold total_failures. rewrite rep_index_idx. reflexivity. Qed.
Lemma every_rep_ok_idx scn n : every_rep_ok scn n = forallb (fun j => rep_is_ok (cnt_at (s_cfg scn) (s_tests scn) j)) (idx_from 0%N (N.to_nat n)).
Proof. unfold every_rep_ok. rewrite rep_index_idx. reflexivity. Qed.

Lemma valid_parts exc scn : valid exc scn = true ->
  c_rethrow (s_cfg scn) && existsb rhas_throw (s_tests scn) = false /\
  Z.of_N (total_failures scn (eff_repeat (c_repeat (s_cfg scn)))) < 2 ^ 31 /\ Z.of_N (c_repeat (s_cfg scn)) < 2 ^ 31.
Proof.
  unfold valid. intro V. rewrite !andb_true_iff in V. destruct V as [[[_ B] C] D].
  repeat split; [|lia|lia]. destruct (c_rethrow (s_cfg scn) && existsb rhas_throw (s_tests scn)); [discriminate B | reflexivity].
Qed.

(* ------------------------------------------------------------------ the closed form of a whole run *)
Definition run_closed_form (scn : scenario) : obs :=
  let cfg := s_cfg scn in
  if c_cli cfg
  then let L := idx_from 0%N (N.to_nat (eff_repeat (c_repeat cfg))) in
       mkObs false (Some (exit_value (sum_fail (cnt_at cfg (s_tests scn)) L) (n_failed (cnt_at cfg (s_tests scn)) L)))
             (map (fun j => rep_model cfg (prog_at j (s_tests scn))) L)
  else mkObs false None [rep_model cfg (prog_at 0%N (s_tests scn))].

Lemma run_closed exc scn : (forall j, throws_ok exc (s_cfg scn) (prog_at j (s_tests scn)) = true) -> run exc scn = run_closed_form scn.
Proof.
  intro TO. unfold run, run_from, run_closed_form. assert (G0 : good st0) by (repeat split).
  destruct (c_cli (s_cfg scn)).
  - destruct (runner_loop_closed exc (s_cfg scn) (s_tests scn) TO (N.to_nat (eff_repeat (c_repeat (s_cfg scn)))) 0%N st0 0%N 0%N G0) as [s' [_ E]].
    rewrite E. cbn [fst is_normal negb]. rewrite !N.add_0_l. reflexivity.
  - rewrite (run_rep_closed exc (s_cfg scn) (prog_at 0%N (s_tests scn)) st0 (TO 0%N) G0). reflexivity.
Qed.

Theorem run_meets_spec exc scn : valid exc scn = true -> spec scn (run exc scn) = true.
Proof.
  intro V. pose proof (throws_ok_of_valid exc scn V) as TO. destruct (valid_parts exc scn V) as [RT [Vf Vn]].
  unfold spec. rewrite RT. destruct (existsb rintercepts (s_tests scn)); [reflexivity|]. rewrite (run_closed exc scn TO). unfold run_closed_form.
  destruct (c_cli (s_cfg scn)) eqn:CLI; cbn [o_escaped o_reps o_ret negb andb].
  - rewrite map_length, idx_from_length, N2Nat.id, N.eqb_refl. cbn [andb]. rewrite reps_ok_model. cbn [andb].
    rewrite every_rep_ok_idx. rewrite total_failures_sum in Vf. apply eff_repeat_small in Vn.
    set (L := idx_from 0%N (N.to_nat (eff_repeat (c_repeat (s_cfg scn))))) in *.
    assert (HL : Z.of_nat (length L) < 2 ^ 31) by (unfold L; rewrite idx_from_length; lia).
    pose proof (exit_value_zero_iff (cnt_at (s_cfg scn) (s_tests scn)) L Vf HL) as EV.
    apply eqb_true_iff. destruct (forallb _ L).
    + apply Z.eqb_eq. apply EV. reflexivity.
    + apply Z.eqb_neq. intro H. apply EV in H. discriminate H.
  - cbn [length reps_ok is_none]. unfold rep_tests. rewrite rep_ok_model. reflexivity.
Qed.

(* the returned value of a run through the command-line runner (also for the programs [spec] does not judge) *)
Lemma ret_of_run exc scn :
  valid exc scn = true -> c_cli (s_cfg scn) = true ->
  exists z, o_ret (run exc scn) = Some z /\ Bool.eqb (z =? 0) (every_rep_ok scn (eff_repeat (c_repeat (s_cfg scn)))) = true.
Proof.
  intros V CLI. pose proof (throws_ok_of_valid exc scn V) as TO. destruct (valid_parts exc scn V) as [RT [Vf Vn]].
  rewrite (run_closed exc scn TO). unfold run_closed_form. rewrite CLI. cbn [o_ret]. eexists. split; [reflexivity|].
  rewrite every_rep_ok_idx. rewrite total_failures_sum in Vf. apply eff_repeat_small in Vn.
  set (L := idx_from 0%N (N.to_nat (eff_repeat (c_repeat (s_cfg scn))))) in *.
  assert (HL : Z.of_nat (length L) < 2 ^ 31) by (unfold L; rewrite idx_from_length; lia).
  pose proof (exit_value_zero_iff (cnt_at (s_cfg scn) (s_tests scn)) L Vf HL) as EV.
  apply eqb_true_iff. destruct (forallb _ L).
  + apply Z.eqb_eq. apply EV. reflexivity.
  + apply Z.eqb_neq. intro H. apply EV in H. discriminate H.
Qed.

(* builds with and without exception support are indistinguishable on programs that cannot throw *)
Theorem build_independent scn : existsb rhas_throw (s_tests scn) = false -> run true scn = run false scn.
Proof.
  intro NT.
  assert (forall exc j, throws_ok exc (s_cfg scn) (prog_at j (s_tests scn)) = true) as TO.
  { intros exc j. apply prog_at_ok; rewrite NT; [apply orb_true_r | apply andb_false_r]. }
  rewrite !run_closed by apply TO. reflexivity.
Qed.

(* ------------------------------------------------------------------ per-test statements (any machine state, both builds) *)
Section OneTest.
  Variables (exc r : bool) (i : N) (t : test) (s : st).
  Hypothesis OK : ok_test exc r t = true.
  Let s' := fst (run_one_test exc r i t s).

  Lemma one_test_normal : snd (run_one_test exc r i t s) = ONormal.
  Proof. rewrite (run_one_test_closed exc r i t s OK). reflexivity. Qed.
  Lemma one_test_depth : depth s' = depth s.
  Proof. unfold s'. rewrite (run_one_test_closed exc r i t s OK). reflexivity. Qed.
  Lemma one_test_context : cur s' = cur s.
  Proof. unfold s'. rewrite (run_one_test_closed exc r i t s OK). reflexivity. Qed.
  Lemma one_test_events :
    events_of (out s') = events_of (out s) ++ map (fun e => mkEv (fst (fst e)) (snd (fst e)) (snd e) (depth s + 2)) (want_events i t).
  Proof. unfold s'. rewrite (run_one_test_closed exc r i t s OK). cbn [fst upd out]. rewrite events_app, test_events. reflexivity. Qed.
  Lemma one_test_fails :
    fails_of (out s') = fails_of (out s) ++ want_fails i t /\
    k_fail (cn s') = (k_fail (cn s) + N.of_nat (length (want_fails i t)))%N /\
    k_checks (cn s') = (k_checks (cn s) + want_checks t)%N /\
    k_run (cn s') = (k_run (cn s) + 1)%N.
  Proof.
    unfold s'. rewrite (run_one_test_closed exc r i t s OK). cbn [fst upd out cn]. rewrite fails_app, test_fails, (test_cnt_eq i t).
    repeat split; reflexivity.
  Qed.
  Lemma one_test_slots : slot_ok (depth s) = true -> slot_ok (depth s + 1) = true -> overflow s' = overflow s.
  Proof.
    intros A B. unfold s'. rewrite (run_one_test_closed exc r i t s OK). cbn [fst upd overflow]. unfold bad_slot. rewrite A, B.
    cbn. rewrite !orb_false_r. reflexivity.
  Qed.
End OneTest.

(* ------------------------------------------------------------------ one check statement of a given kind *)
Lemma fail_is_counted k a : passes k a = false -> counted k a = 1%N.
Proof. unfold passes, counted. destruct (called k a); [reflexivity | discriminate]. Qed.
Lemma counted_le_1 k a : (counted k a <= 1)%N.
Proof. unfold counted. destruct (called k a); lia. Qed.
(* the only statement that is executed without being counted: the macro in front of assertCompare found the comparison true *)
Lemma uncounted_only_macro k a : counted k a = 0%N <-> (k = MCompare /\ a = true).
Proof.
  unfold counted, called. split.
  - destruct k; try discriminate; destruct a; [tauto | discriminate].
  - intros [-> ->]. reflexivity.
Qed.
(* ... in particular UtestShell::assertCompare itself is counted whether or not the comparison holds, and a zero-length binary
   comparison is counted and passes whatever the operands *)
Lemma compare_function_counted a : counted KCompare a = 1%N /\ passes KCompare a = a.
Proof. split; reflexivity. Qed.
Lemma binary_zero_counted a : counted KBinaryZero a = 1%N /\ passes KBinaryZero a = true /\ counted CMemcmpZero a = 1%N /\ passes CMemcmpZero a = true.
Proof. repeat split. Qed.

(* machine level, from ANY state, both builds: executing SCheckK kd a f l logs the statement, adds exactly [counted kd a] to the
   checks counter and, when it fails, exactly one failure record -- carrying the location (f, l) it was given -- to the output and
   one to the failure counter; the phase goes on iff it passes; a failing C-interface kind leaves by longjmp in both builds, a
   failing UtestShell kind by the exception in a build with exceptions *)
Theorem checkk_step exc i ph k0 kd a f l s :
  let r := exec_stmt exc i ph k0 (SCheckK kd a f l) s in
  k_checks (cn (fst r)) = (k_checks (cn s) + counted kd a)%N /\
  fails_of (out (fst r)) = fails_of (out s) ++ (if passes kd a then [] else [mkF i f l 0]) /\
  k_fail (cn (fst r)) = (k_fail (cn s) + (if passes kd a then 0 else 1))%N /\
  events_of (out (fst r)) = events_of (out s) ++ [mkEv i ph k0 (depth s)] /\
  (snd r = ONormal <-> passes kd a = true) /\
  (passes kd a = false -> snd r = if c_style kd || negb exc then OJump (depth s - 1) else OThrow XFailed).
Proof.
  unfold exec_stmt, passes, counted, long_jmp.
  destruct (called kd a), (fn_passes kd a), (c_style kd), exc; cbn [negb orb fst snd]; norm; unfold upd;
    cbn [cn out fst snd k_checks k_fail cadd czero one_check one_fail]; rewrite ?fails_app, ?events_app; cbn [fails_of events_of app];
    rewrite ?app_nil_r; repeat split; try lia; try reflexivity; try discriminate; intro H; discriminate H.
Qed.

(* spec level: the statements of a phase that execute when a check of kind kd stands after passing statements, what the phase adds
   to the "checks" figure and which failure records it demands *)
Lemma executed_app_pass pre l : completes pre = true -> executed (pre ++ l) = pre ++ executed l.
Proof.
  unfold completes. induction pre as [|x r IH]; intro C; [reflexivity|]. cbn in C. apply andb_true_iff in C. destruct C as [A B].
  cbn [app executed]. rewrite A, (IH B). reflexivity.
Qed.
(* inside a try block: a list that completes records nothing; one that ends in an exception of the program's own records nothing either *)
Lemma b_pass_no_failure i b : b_pass b = true -> b_failure i b = [].
Proof. destruct b; cbn; try discriminate; try reflexivity. intros ->. reflexivity. Qed.
Lemma bases_how_cons_pass b r : b_pass b = true -> bases_how (b :: r) = bases_how r.
Proof. intro H. unfold bases_how. cbn. rewrite H. reflexivity. Qed.
Lemma bases_how_cons_stop b r : b_pass b = false -> bases_how (b :: r) = b_how b.
Proof. intro H. unfold bases_how. cbn. rewrite H. reflexivity. Qed.
Lemma bases_quiet i l : bases_how l <> HowJump -> bases_how l <> HowThrow XFailed -> flat_map (b_failure i) (b_executed l) = [].
Proof.
  induction l as [|b r IH]; intros NJ NF; [reflexivity|]. cbn [b_executed]. destruct (b_pass b) eqn:P.
  - rewrite (bases_how_cons_pass b r P) in NJ, NF. cbn [flat_map]. rewrite (b_pass_no_failure i b P), (IH NJ NF). reflexivity.
  - rewrite (bases_how_cons_stop b r P) in NJ, NF. cbn [flat_map]. rewrite app_nil_r.
    destruct b; cbn in *; try reflexivity; try congruence. destruct (passes k agree); [reflexivity|]. destruct (c_style k); congruence.
Qed.
(* the block of a try statement that cannot intercept does not end in a failing C++-style check ... *)
Lemma b_ending_in l b : b_ending l = Some b -> In b l.
Proof. induction l as [|y r IH]; cbn; [discriminate|]. destruct (b_pass y); [intro H; right; exact (IH H) | intro H; inversion H; left; reflexivity]. Qed.
Lemma no_cxx_fail_how l : existsb b_cxx_fail l = false -> bases_how l <> HowThrow XFailed.
Proof.
  intros H E. unfold bases_how in E. destruct (b_ending l) as [b|] eqn:EB; [|discriminate E].
  assert (X : existsb b_cxx_fail l = true) by (apply existsb_exists; exists b; split; [exact (b_ending_in l b EB) | unfold b_cxx_fail; rewrite E; reflexivity]).
  congruence.
Qed.
(* a statement that passes has recorded nothing -- unless it is a handler that swallowed the exit of a failing check *)
Lemma pass_no_failure i t x : intercepts x = false -> is_pass x = true -> stmt_failure i t x = [].
Proof.
  destruct x; cbn [intercepts is_pass stmt_failure]; try discriminate; try reflexivity.
  - intros _ ->. reflexivity.
  - intros NI P. unfold try_how, handler_entered in *.
    destruct (bases_how blk) as [| |e] eqn:HB; cbn [how_done] in P; try discriminate P.
    + rewrite (bases_quiet i blk) by (rewrite HB; discriminate). reflexivity.
    + destruct (catches h e) eqn:C; [|discriminate P].
      assert (NX : e <> XFailed).
      { intros ->. destruct h as [[]|]; try discriminate C. cbn in NI. exact (no_cxx_fail_how blk NI HB). }
      rewrite (bases_quiet i blk) by (rewrite HB; first [discriminate | intro Q; inversion Q; contradiction]).
      destruct (bases_how hd) as [| |e'] eqn:HH; try discriminate P.
      rewrite (bases_quiet i hd) by (rewrite HH; discriminate). reflexivity.
  - intros _ P. unfold throws_how in *.
    destruct (bases_how blk) as [| |e0] eqn:HB; cbn [how_done] in P; try discriminate P.
    destruct (catches_type e e0) eqn:C; [|discriminate P].
    rewrite (bases_quiet i blk) by (rewrite HB; first [discriminate | intro Q; inversion Q; subst; destruct e; discriminate C]). reflexivity.
Qed.
Lemma completes_no_failures i t pre : existsb intercepts pre = false -> completes pre = true -> flat_map (stmt_failure i t) pre = [].
Proof.
  unfold completes. induction pre as [|x r IH]; intros NI C; [reflexivity|]. cbn in C, NI. apply andb_true_iff in C. destruct C as [A B].
  apply orb_false_iff in NI. destruct NI as [NA NB].
  cbn [flat_map]. rewrite (pass_no_failure i t x NA A), (IH NB B). reflexivity.
Qed.
Theorem checkk_wants i t pre kd a f l post :
  completes pre = true -> existsb intercepts pre = false ->
  let x := SCheckK kd a f l in
  executed (pre ++ x :: post) = pre ++ x :: (if passes kd a then executed post else []) /\
  sumN n_checks (executed (pre ++ x :: post)) =
    (sumN n_checks pre + counted kd a + (if passes kd a then sumN n_checks (executed post) else 0))%N /\
  flat_map (stmt_failure i t) (executed (pre ++ x :: post)) =
    (if passes kd a then flat_map (stmt_failure i t) (executed post) else [mkF i f l 0]).
Proof.
  intros C NI x.
  assert (E : executed (pre ++ x :: post) = pre ++ x :: (if passes kd a then executed post else [])).
  { rewrite (executed_app_pass pre _ C). unfold x. cbn [executed is_pass]. destruct (passes kd a); reflexivity. }
  rewrite E. split; [reflexivity|]. split.
  - rewrite sumN_app, sumN_cons. unfold x. cbn [n_checks]. destruct (passes kd a); [lia|]. change (sumN n_checks []) with 0%N. lia.
  - rewrite flat_map_app, (completes_no_failures i t pre NI C). cbn [app flat_map]. unfold x. cbn [stmt_failure].
    destruct (passes kd a); [reflexivity|]. reflexivity.
Qed.
(* a test that consists of one check statement: what C01_failures_once / C01_summary_true then say about it *)
Lemma single_check_test i ln kd a f l :
  let t := mkTest false true ln [] [SCheckK kd a f l] [] [] [] in
  want_checks t = counted kd a /\ want_fails i t = (if passes kd a then [] else [mkF i f l 0]) /\ want_events i t = [(i, 1%N, 0%N)].
Proof.
  unfold want_checks, want_fails, want_events, phases, completes. cbn [t_setup t_body t_teardown t_pre t_post forallb app flat_map map fst snd executed is_pass].
  destruct kd, a; repeat split; reflexivity.
Qed.

(* what [executed] and [want_events] say, in words *)
Lemma executed_prefix l :
  exists post, l = executed l ++ post /\
               forallb is_pass (removelast (executed l)) = true /\
               (post <> [] -> exists x, last (executed l) SNop = x /\ is_pass x = false).
Proof.
  induction l as [|x r [post [E [P L]]]].
  - exists []. repeat split. intro H; contradiction.
  - cbn [executed]. destruct (is_pass x) eqn:PX.
    + exists post. split; [cbn; f_equal; exact E|]. split.
      * destruct (executed r) eqn:ER; [reflexivity|]. cbn [removelast forallb]. rewrite PX. exact P.
      * intro NE. destruct (L NE) as [y [Y1 Y2]]. exists y. split; [|exact Y2].
        destruct (executed r) eqn:ER; [|exact Y1]. cbn in Y1. subst y. discriminate Y2.
    + exists r. repeat split. intros _. exists x. split; [reflexivity | exact PX].
Qed.
Lemma body_only_after_setup i t k : In (i, 1%N, k) (want_events i t) -> completes (t_setup t) = true.
Proof.
  unfold want_events, phases. destruct (completes (t_setup t)); [reflexivity|]. cbn [app flat_map fst snd]. rewrite app_nil_r, in_app_iff.
  intros [H|H]; apply in_map_iff in H; destruct H as [x [H _]]; discriminate H.
Qed.
Lemma number_in {A} (l : list A) : forall k x, l <> [] -> exists y, In (k, y) (number k l) /\ hd x l = y.
Proof. destruct l as [|a l]; intros k x H; [contradiction|]. exists a. split; [left; reflexivity | reflexivity]. Qed.
Lemma executed_nonempty l : l <> [] -> executed l <> [].
Proof. destruct l as [|x r]; [tauto|]. intros _. cbn. destruct (is_pass x); discriminate. Qed.
Lemma body_when_setup_completes i t : completes (t_setup t) = true -> t_body t <> [] -> In (i, 1%N, 0%N) (want_events i t).
Proof.
  intros C NE. unfold want_events, phases. rewrite C. cbn [app flat_map fst snd]. rewrite !in_app_iff. right; left.
  destruct (number_in (executed (t_body t)) 0%N SNop (executed_nonempty _ NE)) as [y [Y _]].
  apply in_map_iff. exists (0%N, y). split; [reflexivity | exact Y].
Qed.
Lemma teardown_always i t : t_teardown t <> [] -> In (i, 2%N, 0%N) (want_events i t).
Proof.
  intros NE. unfold want_events, phases.
  destruct (number_in (executed (t_teardown t)) 0%N SNop (executed_nonempty _ NE)) as [y [Y _]].
  assert (In (i, 2%N, 0%N) (map (fun kx : N * stmt => (i, 2%N, fst kx)) (number 0 (executed (t_teardown t)))))
    by (apply in_map_iff; exists (0%N, y); split; [reflexivity | exact Y]).
  destruct (completes (t_setup t)); cbn [app flat_map fst snd]; rewrite !in_app_iff; tauto.
Qed.

(* ------------------------------------------------------------------ whole runs *)
(* repetition number j of a run is the model repetition of the program as it behaves in repetition j *)
Lemma reps_of_run_nth exc scn j rp :
  valid exc scn = true -> nth_error (o_reps (run exc scn)) j = Some rp -> rp = rep_model (s_cfg scn) (prog_at (N.of_nat j) (s_tests scn)).
Proof.
  intros V H. rewrite (run_closed exc scn (throws_ok_of_valid exc scn V)) in H. unfold run_closed_form in H.
  destruct (c_cli (s_cfg scn)); cbn [o_reps] in H.
  - destruct (nth_error (idx_from 0%N (N.to_nat (eff_repeat (c_repeat (s_cfg scn))))) j) as [x|] eqn:E.
    + rewrite (map_nth_error _ _ _ E) in H. inversion H; subst. apply idx_from_nth in E. rewrite E, N.add_0_l. reflexivity.
    + apply nth_error_None in E. assert (NE : nth_error (map (fun j0 : N => rep_model (s_cfg scn) (prog_at j0 (s_tests scn)))
                                                          (idx_from 0%N (N.to_nat (eff_repeat (c_repeat (s_cfg scn)))))) j <> None) by congruence.
      apply nth_error_Some in NE. rewrite map_length in NE. lia.
  - destruct j as [|j]; cbn in H; [inversion H; reflexivity | destruct j; discriminate H].
Qed.
Lemma reps_of_run exc scn rp :
  valid exc scn = true -> In rp (o_reps (run exc scn)) -> exists j, rp = rep_model (s_cfg scn) (prog_at j (s_tests scn)).
Proof.
  intros V H. apply In_nth_error in H. destruct H as [j H]. exists (N.of_nat j). exact (reps_of_run_nth exc scn j rp V H).
Qed.
Lemma reps_length exc scn :
  valid exc scn = true ->
  length (o_reps (run exc scn)) = if c_cli (s_cfg scn) then N.to_nat (eff_repeat (c_repeat (s_cfg scn))) else 1%nat.
Proof.
  intros V. rewrite (run_closed exc scn (throws_ok_of_valid exc scn V)). unfold run_closed_form.
  destruct (c_cli (s_cfg scn)); cbn [o_reps]; [rewrite map_length, idx_from_length|]; reflexivity.
Qed.

Lemma number_length {A} (l : list A) : forall k, length (number k l) = length l.
Proof. induction l as [|x l IH]; intro k; cbn; [reflexivity|]. rewrite IH. reflexivity. Qed.
Lemma counts_identity cfg ts : let c := rep_counts cfg ts in (k_tests c = k_run c + k_ign c + k_filt c)%N.
Proof.
  unfold rep_counts, nb, started. cbn [k_tests k_run k_ign k_filt].
  induction ts as [|x l IH]; [reflexivity|]. cbn [filter length].
  destruct (selected cfg (snd x)), (runs cfg (snd x)); cbn [andb negb length]; lia.
Qed.

(* the summary of repetition number j carries the true counts of the program as it behaves in repetition j *)
Theorem summary_true exc scn j rp :
  valid exc scn = true -> nth_error (o_reps (run exc scn)) j = Some rp ->
  let c := rep_want scn (N.of_nat j) in
  exists m, r_summary rp = Some m /\
    m_tests m = N.of_nat (length (s_tests scn)) /\ m_run m = k_run c /\ m_checks m = k_checks c /\ m_ign m = k_ign c /\ m_filt m = k_filt c /\
    (m_tests m = m_run m + m_ign m + m_filt m)%N /\
    m_nfail m = (if (0 <? k_fail c)%N then Some (k_fail c) else None) /\
    r_fails rp = rep_fails (s_cfg scn) (rep_tests scn (N.of_nat j)) /\
    k_fail c = N.of_nat (length (r_fails rp)) /\
    (m_ok m = true <-> (k_fail c = 0 /\ 0 < k_run c + k_ign c)%N).
Proof.
  intros V H c. rewrite (reps_of_run_nth exc scn j rp V H). unfold rep_model, rep_obs_of. cbn [is_normal r_summary r_fails rep_state out cn].
  unfold rep_want, rep_tests in c. fold c.
  exists (mk_summary c). split; [reflexivity|].
  pose proof (summary_ok_mk c) as S. unfold summary_ok in S. rewrite !andb_true_iff in S.
  destruct S as [[S1 S2] [[[[S3 S4] S5] S6] S7]]. apply N.eqb_eq in S3, S4, S5, S6, S7.
  pose proof (number_length (prog_at (N.of_nat j) (s_tests scn)) 0%N) as LT. unfold prog_at in LT at 2. rewrite map_length in LT.
  pose proof (counts_identity (s_cfg scn) (number 0%N (prog_at (N.of_nat j) (s_tests scn)))) as ID. cbv zeta in ID. fold c in ID.
  repeat split; try assumption.
  - rewrite S3. unfold c, rep_counts. cbn [k_tests]. rewrite LT. reflexivity.
  - revert S2. generalize (m_nfail (mk_summary c)) (if (0 <? k_fail c)%N then Some (k_fail c) else None).
    intros [a|] [b|] E; cbn in E; try discriminate E; [apply N.eqb_eq in E; subst|]; reflexivity.
  - unfold rep_tests. apply tests_fails.
  - rewrite tests_fails. reflexivity.
  - apply eqb_prop in S1. rewrite S1 in H0. unfold rep_is_ok in H0. apply andb_true_iff in H0. destruct H0 as [A _]. apply N.eqb_eq in A. exact A.
  - apply eqb_prop in S1. rewrite S1 in H0. unfold rep_is_ok in H0. apply andb_true_iff in H0. destruct H0 as [_ B]. apply N.ltb_lt in B. exact B.
  - intros [A B]. apply eqb_prop in S1. rewrite S1. unfold rep_is_ok. rewrite A. cbn. apply N.ltb_lt. exact B.
Qed.

(* the summary of a model repetition reads OK exactly when that repetition is OK *)
Lemma rep_model_ok cfg tests : exists m, r_summary (rep_model cfg tests) = Some m /\ m_ok m = rep_is_ok (rep_counts cfg (number 0%N tests)).
Proof.
  unfold rep_model, rep_obs_of. cbn [is_normal r_summary rep_state cn]. eexists. split; [reflexivity|].
  unfold mk_summary. cbn [m_ok]. rewrite is_failure_not_ok, negb_involutive. reflexivity.
Qed.

(* the returned value, over the per-repetition outcomes: zero iff every repetition (each with its own program) is OK,
   iff every printed summary reads OK *)
Theorem exit_value_iff exc scn :
  valid exc scn = true -> c_cli (s_cfg scn) = true ->
  let n := eff_repeat (c_repeat (s_cfg scn)) in
  length (o_reps (run exc scn)) = N.to_nat n /\ (0 < n)%N /\
  exists z, o_ret (run exc scn) = Some z /\
    (z = 0 <-> forall j, (j < n)%N -> rep_is_ok (rep_want scn j) = true) /\
    (z = 0 <-> forall rp, In rp (o_reps (run exc scn)) -> exists m, r_summary rp = Some m /\ m_ok m = true).
Proof.
  intros V CLI n. pose proof (reps_length exc scn V) as LEN. rewrite CLI in LEN. split; [exact LEN|]. split; [apply eff_repeat_pos|].
  destruct (ret_of_run exc scn V CLI) as [z [RET S]]. exists z. split; [exact RET|].
  apply eqb_prop in S. fold n in S.
  assert (A : z = 0 <-> forall j, (j < n)%N -> rep_is_ok (rep_want scn j) = true).
  { rewrite <- Z.eqb_eq, S. unfold every_rep_ok. rewrite forallb_forall. unfold rep_index. split.
    - intros H j Hj. apply H. apply in_map_iff. exists (N.to_nat j). split; [apply N2Nat.id | apply in_seq; lia].
    - intros H j Hj. apply in_map_iff in Hj. destruct Hj as [k [<- Hk]]. apply in_seq in Hk. apply H. lia. }
  split; [exact A|]. rewrite A. split.
  - intros H rp Hin. apply In_nth_error in Hin. destruct Hin as [j Hj].
    assert (Hlt : (j < length (o_reps (run exc scn)))%nat) by (apply nth_error_Some; congruence).
    rewrite (reps_of_run_nth exc scn j rp V Hj). destruct (rep_model_ok (s_cfg scn) (prog_at (N.of_nat j) (s_tests scn))) as [m [M1 M2]].
    exists m. split; [exact M1|]. rewrite M2. apply (H (N.of_nat j)). lia.
  - intros H j Hj. assert (Hlt : (N.to_nat j < length (o_reps (run exc scn)))%nat) by lia.
    apply nth_error_Some in Hlt. destruct (nth_error (o_reps (run exc scn)) (N.to_nat j)) as [rp|] eqn:E; [|congruence].
    destruct (H rp (nth_error_In _ _ E)) as [m [M1 M2]].
    rewrite (reps_of_run_nth exc scn _ rp V E), N2Nat.id in M1.
    destruct (rep_model_ok (s_cfg scn) (prog_at j (s_tests scn))) as [m' [M1' M2']]. rewrite M1 in M1'. inversion M1'; subst m'.
    unfold rep_want, rep_tests. rewrite <- M2'. exact M2.
Qed.

(* the runner's size_t -> int conversion: with 2^32 recorded failures the returned value is 0 (a stated limit, not reachable in practice) *)
Theorem exit_value_wrap_refuted : ~ (forall ft fe : N, exit_value ft fe = 0 -> ft = 0%N).
Proof. intro H. specialize (H (2 ^ 32)%N 1%N). assert (E : exit_value (2 ^ 32) 1 = 0) by (vm_compute; reflexivity). specialize (H E). discriminate H. Qed.

(* any number of tests, any repetition count: the jump stack never leaves its slots and ends where it started *)
Theorem no_slot_overflow exc scn :
  valid exc scn = true ->
  let fin := snd (run_from exc scn st0) in
  overflow fin = false /\ depth fin = 0 /\ cur fin = None /\
  forall rp e, In rp (o_reps (run exc scn)) -> In e (r_events rp) -> e_depth e = 2 /\ e_depth e <= slots.
Proof.
  intros V fin. pose proof (throws_ok_of_valid exc scn V) as TO.
  assert (G : good fin).
  { unfold fin, run_from. assert (G0 : good st0) by (repeat split). destruct (c_cli (s_cfg scn)).
    - destruct (runner_loop_closed exc (s_cfg scn) (s_tests scn) TO (N.to_nat (eff_repeat (c_repeat (s_cfg scn)))) 0%N st0 0%N 0%N G0) as [s' [G' E]].
      rewrite E. exact G'.
    - rewrite (run_rep_closed exc (s_cfg scn) (prog_at 0%N (s_tests scn)) st0 (TO 0%N) G0). apply rep_state_good. }
  destruct G as [D [O C]]. repeat split; try assumption.
  - destruct (reps_of_run exc scn rp V H) as [j ->]. unfold rep_model, rep_obs_of in H0. cbn [r_events rep_state out] in H0.
    rewrite tests_events in H0. apply in_map_iff in H0. destruct H0 as [x [<- _]]. reflexivity.
  - destruct (reps_of_run exc scn rp V H) as [j ->]. unfold rep_model, rep_obs_of in H0. cbn [r_events rep_state out] in H0.
    rewrite tests_events in H0. apply in_map_iff in H0. destruct H0 as [x [<- _]]. cbn [e_depth]. pose proof slots_ge_2. lia.
Qed.

(* ------------------------------------------------------------------ the hypotheses are satisfiable: a concrete program *)
Definition ex_tests : list rtest :=
  [ mkRTest false true 10 [RS SCheck] [RS SCheck; RS (SFailX 0 12); RS SCheck] [RS (SFailC 1 3); RS SNop] [] [RL 7%N];
    mkRTest false true 20 [RS SThrowStd; RS SCheck] [RS SCheck] [RS SThrowOther] [RL 5%N] [];
    mkRTest true true 30 [] [RS (SFailX 0 31)] [] [] [];
    mkRTest false false 40 [] [RS SCheck] [] [] [] ].
Definition ex_scn : scenario := mkScn (mkCfg true false true false 3) ex_tests.
Example ex_valid : valid true ex_scn = true. Proof. vm_compute. reflexivity. Qed.
Example ex_spec : spec ex_scn (run true ex_scn) = true. Proof. vm_compute. reflexivity. Qed.
Example ex_ret : o_ret (run true ex_scn) = Some 18. Proof. vm_compute. reflexivity. Qed.
Example ex_ok_test : ok_test true false (at_rep 0 (nth 1 ex_tests (mkRTest false true 0 [] [] [] [] []))) = true. Proof. reflexivity. Qed.
Definition ex_scn_nothrow : scenario := mkScn (mkCfg false false false true 1) [nth 0 ex_tests (mkRTest false true 0 [] [] [] [] []); nth 2 ex_tests (mkRTest false true 0 [] [] [] [] [])].
Example ex_valid_noexc : valid false ex_scn_nothrow = true. Proof. vm_compute. reflexivity. Qed.
Example ex_build_independent : run true ex_scn_nothrow = run false ex_scn_nothrow. Proof. vm_compute. reflexivity. Qed.

(* check kinds: a zero-length binary comparison with different operands, the macro in front of a true comparison (not counted),
   assertCompare itself (counted), a failing assertBitsEqual in another file, then statements that must not run; a failing C-interface
   check in the teardown.  4 checks are counted (binary-zero, compare, bits, the C int one), the failures sit at the locations given. *)
Definition ex_kinds : scenario :=
  mkScn (mkCfg true false false false 1)
        [ mkRTest false true 10 [RS (SCheckK KLongs true 0 11)]
                  [RS (SCheckK KBinaryZero false 0 12); RS (SCheckK MCompare true 0 13); RS (SCheckK KCompare true 0 14);
                   RS (SCheckK KBits false 1 15); RS SCheck]
                  [RS (SCheckK CInt false 0 17); RS SCheck] [] [] ].
Example ex_kinds_valid : valid true ex_kinds = true /\ valid false ex_kinds = true. Proof. split; vm_compute; reflexivity. Qed.
Example ex_kinds_spec : spec ex_kinds (run true ex_kinds) = true /\ run true ex_kinds = run false ex_kinds. Proof. split; vm_compute; reflexivity. Qed.
Example ex_kinds_obs :
  map (fun r => (r_fails r, match r_summary r with Some m => (m_ok m, m_nfail m, m_checks m) | None => (false, None, 0%N) end)) (o_reps (run true ex_kinds))
  = [([mkF 0 1 15 0; mkF 0 0 17 0], (false, Some 2%N, 5%N))].
Proof. vm_compute. reflexivity. Qed.
(* an observation that reports the assertBitsEqual failure at the line of the TEST, or that does not count the zero-length
   comparison, is rejected by the oracle *)
Example ex_kinds_wrong_line_rejected :
  spec ex_kinds (mkObs false (Some 2) (map (fun r => mkRep (r_events r) [mkF 0 0 10 0; mkF 0 0 17 0] (r_after r) (r_summary r) (r_counters r) (r_subs r)) (o_reps (run true ex_kinds)))) = false.
Proof. vm_compute. reflexivity. Qed.
Example ex_kinds_uncounted_rejected :
  spec ex_kinds (mkObs false (Some 2) (map (fun r => mkRep (r_events r) (r_fails r) (r_after r) (Some (mkSum false (Some 2%N) 1 1 4 0 0)) (r_counters r) (r_subs r)) (o_reps (run true ex_kinds)))) = false.
Proof. vm_compute. reflexivity. Qed.
Example ex_checkk_step : completes [SCheck; SCheckK MCompare true 0 13] = true. Proof. reflexivity. Qed.

(* Defect of the tree before /repo ff2a581 (D20): CHECK_COMPARE_LOCATION(first, relop, second, text, file, line) handed
   __FILE__, __LINE__ of its expansion to assertCompare instead of its file and line arguments, so that the failure was printed at the
   place of the macro expansion (a helper function, here the harness: file id 99, line 139) for every location given.  The model is the
   repaired macro; the old behaviour = the same run with the record moved to the expansion site, which the oracle rejects. *)
Definition ex_macro : scenario := mkScn (mkCfg false false false false 1) [mkRTest false true 100 [] [RS (SCheckK MCompare false 0 110)] [] [] []].
Definition relocate_old (site : N * N) (o : obs) : obs :=
  mkObs (o_escaped o) (o_ret o)
        (map (fun r => mkRep (r_events r) (map (fun f => mkF (f_test f) (fst site) (snd site) (f_kind f)) (r_fails r)) (r_after r) (r_summary r) (r_counters r) (r_subs r))
             (o_reps o)).
Definition compare_macro_old_stmt : Prop := forall site, spec ex_macro (relocate_old site (run true ex_macro)) = true.
Theorem compare_macro_old_refuted : ~ compare_macro_old_stmt.
Proof. intro H. specialize (H (99%N, 139%N)). vm_compute in H. discriminate H. Qed.
Example ex_macro_repaired : spec ex_macro (run true ex_macro) = true /\ spec ex_macro (relocate_old (0%N, 110%N) (run true ex_macro)) = true.
Proof. split; vm_compute; reflexivity. Qed.

(* a program whose behaviour depends on the repetition: the body fails only in repetition 0 (a static flag), the plugin complains
   only in repetition 1; -r3.  Repetitions 0 and 1 are not OK, the last one is: the returned value is not zero. *)
Definition ex_flaky : scenario :=
  mkScn (mkCfg true false false false 3)
        [ mkRTest false true 10 [RS SCheck] [RIf (REq 0) (SFailX 0 12) SCheck; RS SCheck] [] [] [RLIf (REq 1) 9%N];
          mkRTest false true 20 [] [RS SCheck] [] [] [] ].
Example ex_flaky_valid : valid true ex_flaky = true. Proof. vm_compute. reflexivity. Qed.
Example ex_flaky_oks : map (fun j => rep_is_ok (rep_want ex_flaky j)) (rep_index 3) = [false; false; true]. Proof. vm_compute. reflexivity. Qed.
Example ex_flaky_ret : o_ret (run true ex_flaky) = Some 2. Proof. vm_compute. reflexivity. Qed.
Example ex_flaky_summaries :
  map (fun r => match r_summary r with Some m => (m_ok m, m_nfail m, m_checks m) | None => (false, None, 0%N) end) (o_reps (run true ex_flaky))
  = [(false, Some 1%N, 3%N); (false, Some 1%N, 4%N); (true, None, 4%N)].
Proof. vm_compute. reflexivity. Qed.
(* an observation that takes the returned value from the last repetition only is rejected by the oracle *)
Example ex_flaky_last_only_rejected :
  spec ex_flaky (mkObs false (Some 0) (o_reps (run true ex_flaky))) = false.
Proof. vm_compute. reflexivity. Qed.
(* -r0 repeats twice (setRepeatCount) *)
Example ex_r0 : length (o_reps (run true (mkScn (mkCfg true false false false 0) ex_tests))) = 2%nat. Proof. vm_compute. reflexivity. Qed.

(* two readings of the exit-value clause that a flaky program tells apart from the property: "the last repetition decides" and
   "the first repetition decides" are both false of the runner (and of the property); witnesses ex_flaky and its mirror image *)
Definition exit_last_only_stmt : Prop :=
  forall scn z, valid true scn = true -> c_cli (s_cfg scn) = true -> o_ret (run true scn) = Some z ->
  (z = 0 <-> rep_is_ok (rep_want scn (eff_repeat (c_repeat (s_cfg scn)) - 1)) = true).
Theorem exit_last_only_refuted : ~ exit_last_only_stmt.
Proof.
  intro H. destruct (H ex_flaky 2 ex_flaky_valid eq_refl ex_flaky_ret) as [_ B].
  assert (E : rep_is_ok (rep_want ex_flaky (eff_repeat (c_repeat (s_cfg ex_flaky)) - 1)) = true) by (vm_compute; reflexivity).
  specialize (B E). discriminate B.
Qed.
Definition ex_flaky_late : scenario :=
  mkScn (mkCfg true false false false 3) [ mkRTest false true 10 [] [RIf (RGe 1) SThrowStd SCheck] [] [] [] ].
Definition exit_first_only_stmt : Prop :=
  forall scn z, valid true scn = true -> c_cli (s_cfg scn) = true -> o_ret (run true scn) = Some z ->
  (z = 0 <-> rep_is_ok (rep_want scn 0) = true).
Theorem exit_first_only_refuted : ~ exit_first_only_stmt.
Proof.
  intro H. assert (V : valid true ex_flaky_late = true) by (vm_compute; reflexivity).
  assert (R : o_ret (run true ex_flaky_late) = Some 2) by (vm_compute; reflexivity).
  destruct (H ex_flaky_late 2 V eq_refl R) as [_ B].
  assert (E : rep_is_ok (rep_want ex_flaky_late 0) = true) by (vm_compute; reflexivity).
  specialize (B E). discriminate B.
Qed.
