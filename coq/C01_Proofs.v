(* C01 -- lemmas.  The machine of C01_Model.v is reduced, layer by layer, to a closed form written with the declarative
   vocabulary of the spec (executed / completes / phases); everything else follows from the closed form. *)
From Coq Require Import NArith ZArith Bool List Lia ZifyBool.
From CppUVerif Require Import gen.Gen_Common lib.CInt C01_Model.
Import ListNotations.
Local Open Scope Z_scope.

(* ------------------------------------------------------------------ counters *)
Lemma cadd_assoc a b c : cadd (cadd a b) c = cadd a (cadd b c).
Proof. destruct a, b, c; unfold cadd; cbn. f_equal; lia. Qed.
Lemma cadd_zero_r a : cadd a czero = a.
Proof. destruct a; unfold cadd, czero; cbn. f_equal; lia. Qed.
Lemma cadd_zero_l a : cadd czero a = a.
Proof. destruct a; unfold cadd, czero; cbn. f_equal; lia. Qed.

(* the normal form of a state: [upd s d ov c k its] *)
Definition upd (s : st) (d : Z) (ov : bool) (c : option N) (k : cnt) (its : list item) : st :=
  mkSt d ov c (cadd (cn s) k) (out s ++ its).
Lemma upd_upd s d1 o1 c1 k1 i1 d2 o2 c2 k2 i2 :
  upd (upd s d1 o1 c1 k1 i1) d2 o2 c2 k2 i2 = upd s d2 o2 c2 (cadd k1 k2) (i1 ++ i2).
Proof. unfold upd; cbn. rewrite cadd_assoc, app_assoc. reflexivity. Qed.
Lemma upd_id s : upd s (depth s) (overflow s) (cur s) czero [] = s.
Proof. destruct s; unfold upd; cbn. rewrite cadd_zero_r, app_nil_r. reflexivity. Qed.
Lemma emit_upd x s : emit x s = upd s (depth s) (overflow s) (cur s) czero [x].
Proof. unfold emit, upd. rewrite cadd_zero_r. reflexivity. Qed.
Lemma count_upd k s : count k s = upd s (depth s) (overflow s) (cur s) k [].
Proof. unfold count, upd. rewrite app_nil_r. reflexivity. Qed.
Lemma set_depth_upd d s : set_depth d s = upd s d (overflow s) (cur s) czero [].
Proof. unfold set_depth, upd. rewrite cadd_zero_r, app_nil_r. reflexivity. Qed.
Lemma set_cur_upd c s : set_cur c s = upd s (depth s) (overflow s) c czero [].
Proof. unfold set_cur, upd. rewrite cadd_zero_r, app_nil_r. reflexivity. Qed.
Lemma mark_slot_upd k s : mark_slot k s = upd s (depth s) (overflow s || negb (slot_ok k)) (cur s) czero [].
Proof. unfold mark_slot, upd. rewrite cadd_zero_r, app_nil_r. reflexivity. Qed.
Lemma add_failure_upd f s : add_failure f s = upd s (depth s) (overflow s) (cur s) one_fail [IFail f].
Proof. unfold add_failure. rewrite count_upd, emit_upd. cbn [depth overflow cur upd]. rewrite upd_upd, cadd_zero_l. reflexivity. Qed.
Lemma depth_upd s d o c k i : depth (upd s d o c k i) = d. Proof. reflexivity. Qed.
Lemma overflow_upd s d o c k i : overflow (upd s d o c k i) = o. Proof. reflexivity. Qed.
Lemma cur_upd s d o c k i : cur (upd s d o c k i) = c. Proof. reflexivity. Qed.

(* ------------------------------------------------------------------ one phase *)
Fixpoint ending (l : list stmt) : option stmt :=
  match l with [] => None | x :: r => if is_pass x then ending r else Some x end.
Lemma completes_ending l : completes l = is_none (ending l).
Proof. induction l as [|x r IH]; cbn; [reflexivity|]. destruct (is_pass x); cbn; [exact IH | reflexivity]. Qed.

Definition stmt_items (i ph : N) (d : Z) (kx : N * stmt) : list item :=
  IEv (mkEv i ph (fst kx) d) :: match snd kx with SFailX f l | SFailC f l => [IFail (mkF i f l 0)] | _ => [] end.
Definition phase_items (i ph : N) (d : Z) (k : N) (l : list stmt) : list item := flat_map (stmt_items i ph d) (number k (executed l)).
Definition is_checkfail (x : stmt) : bool := match x with SFailX _ _ | SFailC _ _ => true | _ => false end.
Definition phase_cnt (l : list stmt) : cnt := mkCnt 0 0 (nb counts_check (executed l)) (nb is_checkfail (executed l)) 0 0.

(* how a phase leaves: decided by the first statement that does not pass *)
Definition leave (exc : bool) (e : option stmt) (s : st) : st * outcome :=
  match e with
  | Some (SFailX _ _) => if exc then (s, OThrow XFailed) else (upd s (depth s - 1) (overflow s) (cur s) czero [], OJump (depth s - 1))
  | Some (SFailC _ _) => (upd s (depth s - 1) (overflow s) (cur s) czero [], OJump (depth s - 1))
  | Some SThrowStd => (s, OThrow XStd)
  | Some SThrowOther => (s, OThrow XOther)
  | _ => (s, ONormal)
  end.

Lemma nb_cons {A} (f : A -> bool) x l : nb f (x :: l) = ((if f x then 1 else 0) + nb f l)%N.
Proof. unfold nb; cbn. destruct (f x); cbn [length]; lia. Qed.

Ltac norm := repeat progress (rewrite ?emit_upd, ?count_upd, ?add_failure_upd, ?set_depth_upd, ?set_cur_upd, ?mark_slot_upd,
                                       ?depth_upd, ?overflow_upd, ?cur_upd, ?upd_upd).
Ltac cnt_eq := unfold cadd, czero, one_check, one_fail, one_run, one_test, one_filt, one_ign;
               cbn [k_tests k_run k_checks k_fail k_filt k_ign]; f_equal; lia.

Lemma exec_stmts_closed exc i ph : forall l k s,
  exec_stmts exc i ph k l s =
  leave exc (ending l) (upd s (depth s) (overflow s) (cur s) (phase_cnt l) (phase_items i ph (depth s) k l)).
Proof.
  induction l as [|x r IH]; intros k s.
  - cbn. unfold phase_cnt, phase_items; cbn. change (mkCnt 0 0 (nb counts_check []) (nb is_checkfail []) 0 0) with czero.
    rewrite upd_id. reflexivity.
  - cbn [exec_stmts]. unfold exec_stmt.
    destruct x; cbn [is_pass ending executed]; try rewrite IH; unfold long_jmp; norm;
      unfold phase_cnt, phase_items; cbn [executed is_pass number flat_map stmt_items fst snd app leave];
      rewrite ?nb_cons; cbn [counts_check is_checkfail].
    + rewrite cadd_zero_l. reflexivity.
    + rewrite cadd_zero_l. reflexivity.
    + destruct exc; norm; reflexivity.
    + norm; reflexivity.
    + reflexivity.
    + reflexivity.
Qed.

Lemma ending_not_pass l x : ending l = Some x -> is_pass x = false.
Proof.
  induction l as [|y r IH]; cbn; [discriminate|]. destruct (is_pass y) eqn:E; [exact IH|]. intro H; inversion H; subst; exact E.
Qed.

(* ------------------------------------------------------------------ PlatformSpecificSetJmp around one phase *)
Definition in_phase (i ph : N) (l : list stmt) (s : st) (d : Z) : st :=
  upd s d (overflow s || negb (slot_ok (depth s))) (cur s) (phase_cnt l) (phase_items i ph (depth s + 1) 0 l).

Lemma setjmp_phase exc i ph l s :
  setjmp_call (exec_stmts exc i ph 0 l) s =
  match ending l with
  | None => (in_phase i ph l s (depth s), true, ONormal)
  | Some (SFailX _ _) => if exc then (in_phase i ph l s (depth s + 1), false, OThrow XFailed) else (in_phase i ph l s (depth s), false, ONormal)
  | Some (SFailC _ _) => (in_phase i ph l s (depth s), false, ONormal)
  | Some SThrowStd => (in_phase i ph l s (depth s + 1), false, OThrow XStd)
  | Some SThrowOther => (in_phase i ph l s (depth s + 1), false, OThrow XOther)
  | Some _ => (in_phase i ph l s (depth s), true, ONormal)
  end.
Proof.
  unfold setjmp_call, in_phase. rewrite exec_stmts_closed. norm.
  rewrite !cadd_zero_l. cbn [app].
  destruct (ending l) as [x|]; [destruct x|]; cbn [leave]; try destruct exc; norm;
    rewrite ?Z.add_simpl_r, ?Z.eqb_refl, ?cadd_zero_r, ?app_nil_r; reflexivity.
Qed.

(* what one guarded phase (setjmp + the catch handlers, no rethrow) adds *)
Definition thrown (l : list stmt) : bool := match ending l with Some SThrowStd | Some SThrowOther => true | _ => false end.
Definition guard_items (i : N) (t : test) (ph : N) (d : Z) (l : list stmt) : list item :=
  phase_items i ph d 0 l ++ (if thrown l then [IFail (exc_failure i t)] else []).
Definition guard_cnt (l : list stmt) : cnt := cadd (phase_cnt l) (if thrown l then one_fail else czero).
Definition guarded (i : N) (t : test) (ph : N) (l : list stmt) (s : st) : st :=
  upd s (depth s) (overflow s || negb (slot_ok (depth s))) (cur s) (guard_cnt l) (guard_items i t ph (depth s + 1) l).

Lemma no_throw_ending l : existsb is_throw l = false -> forall x, ending l = Some x -> is_throw x = false.
Proof.
  intro NT. induction l as [|y r IH]; cbn in *; [discriminate|]. apply orb_false_iff in NT. destruct NT as [A B].
  destruct (is_pass y); [exact (IH B)|]. intros x E; inversion E; subst; exact A.
Qed.
Lemma guard_exc r i t ph l s :
  r = false \/ existsb is_throw l = false ->
  handlers r i t (drop_ret (setjmp_call (exec_stmts true i ph 0 l) s)) = (guarded i t ph l s, ONormal).
Proof.
  intro H. rewrite setjmp_phase. unfold guarded, guard_items, guard_cnt, thrown, in_phase.
  destruct H as [-> | NT].
  - destruct (ending l) as [x|]; [destruct x|]; cbn [drop_ret handlers]; unfold restore_jump_buffer; norm;
      rewrite ?Z.add_simpl_r, ?cadd_zero_r, ?app_nil_r; reflexivity.
  - pose proof (no_throw_ending l NT) as H.
    destruct (ending l) as [x|]; [destruct x|]; cbn [drop_ret handlers];
      try (specialize (H _ eq_refl); discriminate H); unfold restore_jump_buffer; norm;
      rewrite ?Z.add_simpl_r, ?cadd_zero_r, ?app_nil_r; reflexivity.
Qed.
Lemma guard_noexc i t ph l s :
  existsb is_throw l = false ->
  drop_ret (setjmp_call (exec_stmts false i ph 0 l) s) = (guarded i t ph l s, ONormal).
Proof.
  intro NT. rewrite setjmp_phase. unfold guarded, guard_items, guard_cnt, thrown, in_phase.
  pose proof (no_throw_ending l NT) as H.
  destruct (ending l) as [x|]; [destruct x|]; cbn [drop_ret];
    try (specialize (H _ eq_refl); discriminate H);
    rewrite ?cadd_zero_r, ?app_nil_r; reflexivity.
Qed.

(* ------------------------------------------------------------------ Utest::run, both variants, without rethrow *)
Definition utest_final (i : N) (t : test) (s : st) : st :=
  let s1 := guarded i t 0 (t_setup t) s in
  let s2 := if completes (t_setup t) then guarded i t 1 (t_body t) s1 else s1 in
  guarded i t 2 (t_teardown t) s2.

Lemma in_phase_guarded i t ph l s : thrown l = false -> in_phase i ph l s (depth s) = guarded i t ph l s.
Proof. intro H. unfold in_phase, guarded, guard_cnt, guard_items. rewrite H, cadd_zero_r, app_nil_r. reflexivity. Qed.

Lemma has_throw_parts t : has_throw t = false ->
  existsb is_throw (t_setup t) = false /\ existsb is_throw (t_body t) = false /\ existsb is_throw (t_teardown t) = false.
Proof. unfold has_throw. rewrite !existsb_app, !orb_false_iff. tauto. Qed.

Lemma utest_run_exc_closed r i t s :
  r = false \/ has_throw t = false -> utest_run_exc r i t s = (utest_final i t s, ONormal).
Proof.
  intro H.
  assert (H0 : r = false \/ existsb is_throw (t_setup t) = false) by (destruct H as [H|H]; [left; exact H | right; apply has_throw_parts in H; tauto]).
  assert (H1 : r = false \/ existsb is_throw (t_body t) = false) by (destruct H as [H|H]; [left; exact H | right; apply has_throw_parts in H; tauto]).
  assert (H2 : r = false \/ existsb is_throw (t_teardown t) = false) by (destruct H as [H|H]; [left; exact H | right; apply has_throw_parts in H; tauto]).
  unfold utest_run_exc, utest_final.
  pose proof (guard_exc r i t 0 (t_setup t) s H0) as G. rewrite setjmp_phase in G. rewrite setjmp_phase.
  rewrite completes_ending. pose proof (ending_not_pass (t_setup t)) as NP.
  destruct (ending (t_setup t)) as [x|] eqn:E.
  - destruct x; try (specialize (NP _ eq_refl); discriminate NP); cbn [is_none drop_ret] in *; rewrite G; apply guard_exc; assumption.
  - cbn [is_none]. rewrite (in_phase_guarded i t) by (unfold thrown; rewrite E; reflexivity).
    rewrite guard_exc by assumption. apply guard_exc; assumption.
Qed.

Lemma utest_run_noexc_closed i t s : has_throw t = false -> utest_run_noexc i t s = (utest_final i t s, ONormal).
Proof.
  intro NT. apply has_throw_parts in NT. destruct NT as [N0 [N1 N2]].
  unfold utest_run_noexc, utest_final.
  pose proof (guard_noexc i t 0 (t_setup t) s N0) as G. rewrite setjmp_phase in G. rewrite setjmp_phase.
  rewrite completes_ending. pose proof (ending_not_pass (t_setup t)) as NP.
  destruct (ending (t_setup t)) as [x|] eqn:E.
  - destruct x; try (specialize (NP _ eq_refl); discriminate NP); cbn [is_none drop_ret] in *;
      try discriminate G; pose proof (f_equal fst G) as G'; cbn [fst] in G'; rewrite G'; apply guard_noexc; assumption.
  - cbn [is_none]. rewrite (in_phase_guarded i t) by (unfold thrown; rewrite E; reflexivity).
    rewrite (guard_noexc i t 1) by assumption. apply guard_noexc; assumption.
Qed.

Definition utest_cnt (t : test) : cnt :=
  cadd (guard_cnt (t_setup t)) (cadd (if completes (t_setup t) then guard_cnt (t_body t) else czero) (guard_cnt (t_teardown t))).
Definition utest_items (i : N) (t : test) (d : Z) : list item :=
  guard_items i t 0 d (t_setup t) ++ (if completes (t_setup t) then guard_items i t 1 d (t_body t) else []) ++ guard_items i t 2 d (t_teardown t).
Lemma utest_final_upd i t s :
  utest_final i t s = upd s (depth s) (overflow s || negb (slot_ok (depth s))) (cur s) (utest_cnt t) (utest_items i t (depth s + 1)).
Proof.
  unfold utest_final, utest_cnt, utest_items, guarded. destruct (completes (t_setup t)); norm;
    rewrite <- ?orb_assoc, ?orb_diag, ?cadd_zero_l; cbn [app]; reflexivity.
Qed.

(* a test the closed form is about: it cannot throw, or the build has exceptions and they are not rethrown *)
Definition ok_test (exc r : bool) (t : test) : bool := negb (has_throw t) || (exc && negb r).
Lemma utest_run_closed exc r i t s :
  ok_test exc r t = true ->
  utest_run exc r i t s = (upd s (depth s) (overflow s || negb (slot_ok (depth s))) (cur s) (utest_cnt t) (utest_items i t (depth s + 1)), ONormal).
Proof.
  intro V. rewrite <- utest_final_upd. unfold utest_run. unfold ok_test in V. destruct exc.
  - apply utest_run_exc_closed. destruct r; [right | left; reflexivity]. destruct (has_throw t); [discriminate V | reflexivity].
  - apply utest_run_noexc_closed. destruct (has_throw t); [discriminate V | reflexivity].
Qed.

(* ------------------------------------------------------------------ runOneTestInCurrentProcess / runOneTest *)
Definition pl_items (i : N) (lines : list N) : list item := map (fun l => IFail (mkF i 2 l 3)) lines.
Definition pl_cnt (lines : list N) : cnt := mkCnt 0 0 0 (N.of_nat (length lines)) 0 0.
Lemma plugin_fails_upd i lines : forall s,
  plugin_fails i lines s = upd s (depth s) (overflow s) (cur s) (pl_cnt lines) (pl_items i lines).
Proof.
  unfold plugin_fails. induction lines as [|l r IH]; intro s.
  - cbn. change (pl_cnt []) with czero. rewrite upd_id. reflexivity.
  - cbn [fold_left]. rewrite IH. norm. f_equal. unfold pl_cnt. cbn [length]. cnt_eq.
Qed.

Definition test_items (i : N) (t : test) (d : Z) : list item := pl_items i (t_pre t) ++ utest_items i t d ++ pl_items i (t_post t).
Definition test_cnt (t : test) : cnt := cadd one_run (cadd (pl_cnt (t_pre t)) (cadd (utest_cnt t) (pl_cnt (t_post t)))).

Lemma run_in_process_closed exc r i t s :
  ok_test exc r t = true ->
  run_in_process exc r i t s =
  (upd s (depth s) (overflow s || negb (slot_ok (depth s))) (cur s)
       (cadd (pl_cnt (t_pre t)) (cadd (utest_cnt t) (pl_cnt (t_post t)))) (test_items i t (depth s + 1)), ONormal).
Proof.
  intro V. unfold run_in_process. rewrite plugin_fails_upd. norm. rewrite (utest_run_closed exc r i t _ V). norm.
  rewrite plugin_fails_upd. norm. rewrite ?cadd_zero_l, ?cadd_zero_r, ?app_nil_r, ?cadd_assoc, <- ?app_assoc.
  unfold test_items. reflexivity.
Qed.

Definition bad_slot (k : Z) : bool := negb (slot_ok k).
Lemma run_one_test_closed exc r i t s :
  ok_test exc r t = true ->
  run_one_test exc r i t s =
  (upd s (depth s) (overflow s || bad_slot (depth s) || bad_slot (depth s + 1)) (cur s) (test_cnt t) (test_items i t (depth s + 2)), ONormal).
Proof.
  intro V. unfold run_one_test, setjmp_call. norm. rewrite (run_in_process_closed exc r i t _ V). norm. cbn [drop_ret].
  rewrite ?cadd_zero_l, ?cadd_zero_r, ?app_nil_r, ?cadd_assoc, <- ?app_assoc. cbn [app].
  replace (depth s + 1 + 1) with (depth s + 2) by lia. rewrite Z.add_simpl_r. reflexivity.
Qed.

(* ------------------------------------------------------------------ TestRegistry::runAllTests *)
Definition step_items (cfg : config) (d : Z) (c : bool) (i : N) (t : test) : list item :=
  if selected cfg t then (if runs cfg t then test_items i t (d + 2) else []) ++ [IAfter d c] else [].
Definition step_cnt (cfg : config) (t : test) : cnt :=
  cadd one_test (if selected cfg t then (if runs cfg t then test_cnt t else one_ign) else one_filt).
Definition step_ov (cfg : config) (d : Z) (ov : bool) (t : test) : bool :=
  if selected cfg t && runs cfg t then ov || bad_slot d || bad_slot (d + 1) else ov.
Fixpoint tests_items (cfg : config) (d : Z) (c : bool) (i : N) (l : list test) : list item :=
  match l with [] => [] | t :: r => step_items cfg d c i t ++ tests_items cfg d c (i + 1)%N r end.
Fixpoint tests_cnt (cfg : config) (l : list test) : cnt :=
  match l with [] => czero | t :: r => cadd (step_cnt cfg t) (tests_cnt cfg r) end.

Definition throws_ok (exc : bool) (cfg : config) (l : list test) : bool := forallb (ok_test exc (c_rethrow cfg)) l.
Lemma throws_ok_cons exc cfg t r : throws_ok exc cfg (t :: r) = true -> ok_test exc (c_rethrow cfg) t = true /\ throws_ok exc cfg r = true.
Proof. unfold throws_ok. cbn. apply andb_true_iff. Qed.

Lemma run_tests_closed exc cfg : forall l i s,
  throws_ok exc cfg l = true ->
  run_tests exc cfg i l s =
  (upd s (depth s) (fold_left (step_ov cfg (depth s)) l (overflow s)) (cur s) (tests_cnt cfg l)
       (tests_items cfg (depth s) (is_none (cur s)) i l), ONormal).
Proof.
  induction l as [|t r IH]; intros i s V.
  - cbn. rewrite upd_id. reflexivity.
  - apply throws_ok_cons in V. destruct V as [Vt Vr].
    cbn [run_tests fold_left tests_items tests_cnt].
    assert (Eov : step_ov cfg (depth s) (overflow s) t =
                  if selected cfg t && runs cfg t then overflow s || bad_slot (depth s) || bad_slot (depth s + 1) else overflow s) by reflexivity.
    rewrite Eov; clear Eov. unfold step_items, step_cnt, shell_run, runs.
    destruct (selected cfg t); cbn [andb].
    + destruct (t_ignored t); cbn [negb orb andb].
      * destruct (c_runign cfg); cbn [negb andb].
        -- norm. rewrite (run_one_test_closed exc _ i t _ Vt). norm. rewrite IH by assumption. norm.
           rewrite ?cadd_zero_l, ?cadd_zero_r, ?app_nil_r, ?cadd_assoc, <- ?app_assoc. cbn [app]. reflexivity.
        -- norm. rewrite IH by assumption. norm.
           rewrite ?cadd_zero_l, ?cadd_zero_r, ?app_nil_r, ?cadd_assoc, <- ?app_assoc. cbn [app]. reflexivity.
      * norm. rewrite (run_one_test_closed exc _ i t _ Vt). norm. rewrite IH by assumption. norm.
        rewrite ?cadd_zero_l, ?cadd_zero_r, ?app_nil_r, ?cadd_assoc, <- ?app_assoc. cbn [app]. reflexivity.
    + norm. rewrite IH by assumption. norm.
      rewrite ?cadd_zero_l, ?cadd_zero_r, ?app_nil_r, ?cadd_assoc, <- ?app_assoc. cbn [app]. reflexivity.
Qed.

(* ------------------------------------------------------------------ projections of the log, in the vocabulary of the spec *)
Lemma events_app a b : events_of (a ++ b) = events_of a ++ events_of b.
Proof. induction a as [|x a IH]; cbn; [reflexivity|]. destruct x; cbn; rewrite IH; reflexivity. Qed.
Lemma fails_app a b : fails_of (a ++ b) = fails_of a ++ fails_of b.
Proof. induction a as [|x a IH]; cbn; [reflexivity|]. destruct x; cbn; rewrite IH; reflexivity. Qed.
Lemma afters_app a b : afters_of (a ++ b) = afters_of a ++ afters_of b.
Proof. induction a as [|x a IH]; cbn; [reflexivity|]. destruct x; cbn; rewrite IH; reflexivity. Qed.

Definition strip (e : event) : N * N * N := (e_test e, e_phase e, e_idx e).

Section Phase.
  Variables (i : N) (t : test) (ph : N) (d : Z).
  Let tail (l : list stmt) : list item := if thrown l then [IFail (exc_failure i t)] else [].

  Lemma thrown_cons_pass x r : is_pass x = true -> thrown (x :: r) = thrown r.
  Proof. intro H. unfold thrown. cbn. rewrite H. reflexivity. Qed.

  Lemma guard_events : forall l k,
    events_of (phase_items i ph d k l ++ tail l) = map (fun kx => mkEv i ph (fst kx) d) (number k (executed l)).
  Proof.
    unfold tail. induction l as [|x r IH]; intro k; [reflexivity|].
    unfold phase_items in *. destruct (is_pass x) eqn:P.
    - rewrite (thrown_cons_pass x r P). cbn [executed]. rewrite P. cbn [number flat_map map fst]. rewrite <- app_assoc.
      rewrite events_app, IH. destruct x; try discriminate P; reflexivity.
    - cbn [executed]. rewrite P. destruct x; try discriminate P; reflexivity.
  Qed.
  Lemma guard_fails : forall l k,
    fails_of (phase_items i ph d k l ++ tail l) = flat_map (stmt_failure i t) (executed l).
  Proof.
    unfold tail. induction l as [|x r IH]; intro k; [reflexivity|].
    unfold phase_items in *. destruct (is_pass x) eqn:P.
    - rewrite (thrown_cons_pass x r P). cbn [executed]. rewrite P. cbn [number flat_map]. rewrite <- app_assoc.
      rewrite fails_app, IH. destruct x; try discriminate P; reflexivity.
    - cbn [executed]. rewrite P. destruct x; try discriminate P; reflexivity.
  Qed.
  Lemma guard_afters : forall l k, afters_of (phase_items i ph d k l ++ tail l) = [].
  Proof.
    unfold tail. induction l as [|x r IH]; intro k; [reflexivity|].
    unfold phase_items in *. destruct (is_pass x) eqn:P.
    - rewrite (thrown_cons_pass x r P). cbn [executed]. rewrite P. cbn [number flat_map]. rewrite <- app_assoc.
      rewrite afters_app, IH. destruct x; try discriminate P; reflexivity.
    - cbn [executed]. rewrite P. destruct x; try discriminate P; reflexivity.
  Qed.
  Lemma guard_cnt_eq l :
    guard_cnt l = mkCnt 0 0 (nb counts_check (executed l)) (N.of_nat (length (flat_map (stmt_failure i t) (executed l)))) 0 0.
  Proof.
    unfold guard_cnt, phase_cnt.
    assert (H : (nb is_checkfail (executed l) + (if thrown l then 1 else 0))%N = N.of_nat (length (flat_map (stmt_failure i t) (executed l)))).
    { induction l as [|x r IH]; [reflexivity|]. destruct (is_pass x) eqn:P.
      - rewrite (thrown_cons_pass x r P). cbn [executed]. rewrite P. rewrite nb_cons. cbn [flat_map]. rewrite app_length.
        destruct x; try discriminate P; cbn [is_checkfail stmt_failure length]; lia.
      - cbn [executed]. rewrite P. destruct x; try discriminate P; reflexivity. }
    rewrite <- H. destruct (thrown l); cnt_eq.
  Qed.
  Lemma gi_events l : events_of (guard_items i t ph d l) = map (fun kx => mkEv i ph (fst kx) d) (number 0 (executed l)).
  Proof. exact (guard_events l 0%N). Qed.
  Lemma gi_fails l : fails_of (guard_items i t ph d l) = flat_map (stmt_failure i t) (executed l).
  Proof. exact (guard_fails l 0%N). Qed.
  Lemma gi_afters l : afters_of (guard_items i t ph d l) = [].
  Proof. exact (guard_afters l 0%N). Qed.
End Phase.

Lemma pl_events i l : events_of (pl_items i l) = []. Proof. induction l; cbn; auto. Qed.
Lemma pl_afters i l : afters_of (pl_items i l) = []. Proof. induction l; cbn; auto. Qed.
Lemma pl_fails i l : fails_of (pl_items i l) = map (fun l => mkF i 2 l 3) l. Proof. unfold pl_items. induction l as [|x l IH]; [reflexivity|]. cbn. rewrite IH. reflexivity. Qed.

Lemma test_events i t d : events_of (test_items i t d) = map (fun e => mkEv (fst (fst e)) (snd (fst e)) (snd e) d) (want_events i t).
Proof.
  unfold test_items, utest_items, want_events, phases.
  rewrite !events_app, !pl_events. destruct (completes (t_setup t)); cbn [app flat_map fst snd];
    rewrite !gi_events, ?app_nil_r, ?map_app, !map_map; reflexivity.
Qed.
Lemma test_fails i t d : fails_of (test_items i t d) = want_fails i t.
Proof.
  unfold test_items, utest_items, want_fails, phases.
  rewrite !fails_app, !pl_fails. destruct (completes (t_setup t)); cbn [app flat_map fst snd fails_of];
    rewrite !gi_fails, ?app_nil_r; reflexivity.
Qed.
Lemma test_afters i t d : afters_of (test_items i t d) = [].
Proof.
  unfold test_items, utest_items.
  rewrite !afters_app, !pl_afters. destruct (completes (t_setup t)); rewrite !gi_afters; reflexivity.
Qed.
Lemma nb_app {A} (f : A -> bool) a b : nb f (a ++ b) = (nb f a + nb f b)%N.
Proof. unfold nb. rewrite filter_app, app_length. lia. Qed.
Lemma test_cnt_eq i t : test_cnt t = mkCnt 0 1 (want_checks t) (N.of_nat (length (want_fails i t))) 0 0.
Proof.
  unfold test_cnt, utest_cnt, want_checks, want_fails, phases, pl_cnt. rewrite !(guard_cnt_eq i t).
  fold (nb counts_check (flat_map (fun p : N * list stmt => executed (snd p))
          ([(0%N, t_setup t)] ++ (if completes (t_setup t) then [(1%N, t_body t)] else []) ++ [(2%N, t_teardown t)]))).
  destruct (completes (t_setup t)); cbn [app flat_map fst snd]; rewrite ?app_nil_r, !app_length, !map_length, ?nb_app; cnt_eq.
Qed.

(* ------------------------------------------------------------------ a whole repetition, in the vocabulary of the spec *)
Lemma number_cons {A} k (x : A) r : number k (x :: r) = (k, x) :: number (k + 1)%N r. Proof. reflexivity. Qed.

Lemma tests_events cfg d c : forall l i,
  events_of (tests_items cfg d c i l) = map (fun e => mkEv (fst (fst e)) (snd (fst e)) (snd e) (d + 2)) (rep_events cfg (number i l)).
Proof.
  induction l as [|t r IH]; intro i; [reflexivity|].
  cbn [tests_items]. rewrite number_cons. unfold rep_events in *. cbn [filter]. unfold started at 1. cbn [fst snd].
  rewrite events_app, IH. unfold step_items. destruct (selected cfg t); cbn [andb].
  - destruct (runs cfg t); cbn [flat_map fst snd].
    + rewrite events_app, test_events, map_app. cbn [events_of]. rewrite app_nil_r. reflexivity.
    + reflexivity.
  - reflexivity.
Qed.
Lemma tests_fails cfg d c : forall l i, fails_of (tests_items cfg d c i l) = rep_fails cfg (number i l).
Proof.
  induction l as [|t r IH]; intro i; [reflexivity|].
  cbn [tests_items]. rewrite number_cons. unfold rep_fails in *. cbn [filter]. unfold started at 1. cbn [fst snd].
  rewrite fails_app, IH. unfold step_items. destruct (selected cfg t); cbn [andb].
  - destruct (runs cfg t); cbn [flat_map fst snd].
    + rewrite fails_app, test_fails. cbn [fails_of]. rewrite app_nil_r. reflexivity.
    + reflexivity.
  - reflexivity.
Qed.
Lemma tests_afters cfg d c : forall l i,
  afters_of (tests_items cfg d c i l) = repeat (d, c) (length (filter (fun it => selected cfg (snd it)) (number i l))).
Proof.
  induction l as [|t r IH]; intro i; [reflexivity|].
  cbn [tests_items]. rewrite number_cons. cbn [filter snd]. rewrite afters_app, IH. unfold step_items.
  destruct (selected cfg t); [|reflexivity]. rewrite afters_app. destruct (runs cfg t); rewrite ?test_afters; reflexivity.
Qed.
Lemma tests_cnt_eq cfg : forall l i, tests_cnt cfg l = rep_counts cfg (number i l).
Proof.
  induction l as [|t r IH]; intro i; [reflexivity|].
  cbn [tests_cnt]. rewrite (IH (i + 1)%N), number_cons. unfold rep_counts, rep_fails, nb, step_cnt, started.
  cbn [filter fst snd length fold_right flat_map].
  destruct (selected cfg t); cbn [andb negb filter length fold_right flat_map fst snd].
  - destruct (runs cfg t); cbn [andb negb filter length fold_right flat_map fst snd].
    + rewrite (test_cnt_eq i t), app_length. cnt_eq.
    + cnt_eq.
  - cnt_eq.
Qed.

Lemma slots_ge_2 : 2 <= slots. Proof. unfold slots. vm_compute. discriminate. Qed.
Lemma step_ov_ok cfg l : fold_left (step_ov cfg 0) l false = false.
Proof.
  pose proof slots_ge_2 as S2.
  assert (B0 : bad_slot 0 = false) by (unfold bad_slot, slot_ok; lia).
  assert (B1 : bad_slot (0 + 1) = false) by (unfold bad_slot, slot_ok; lia).
  induction l as [|t r IH]; [reflexivity|]. cbn [fold_left]. unfold step_ov at 2. rewrite B0, B1.
  destruct (selected cfg t && runs cfg t); exact IH.
Qed.

Definition good (s : st) : Prop := depth s = 0 /\ overflow s = false /\ cur s = None.
Definition rep_state (cfg : config) (tests : list test) : st :=
  mkSt 0 false None (rep_counts cfg (number 0%N tests)) (tests_items cfg 0 true 0%N tests).

Lemma run_rep_closed exc cfg tests s :
  throws_ok exc cfg tests = true -> good s ->
  run_rep exc cfg tests s = (rep_state cfg tests, ONormal).
Proof.
  intros V [D [O C]]. unfold run_rep. rewrite (run_tests_closed exc cfg) by assumption.
  unfold fresh, upd, rep_state. cbn [depth overflow cur cn out]. rewrite D, O, C, step_ov_ok, cadd_zero_l. cbn [is_none app].
  rewrite (tests_cnt_eq cfg tests 0%N). reflexivity.
Qed.
Lemma rep_state_good cfg tests : good (rep_state cfg tests). Proof. repeat split. Qed.

(* ------------------------------------------------------------------ the spec accepts the repetition the machine produces *)
Lemma list_eqb_refl {A} (e : A -> A -> bool) : (forall x, e x x = true) -> forall l, list_eqb e l l = true.
Proof. intros H l. induction l as [|x l IH]; cbn; [reflexivity|]. rewrite H, IH. reflexivity. Qed.
Lemma ev3_eqb_refl x : ev3_eqb x x = true. Proof. destruct x as [[a b] c]. cbn. rewrite !N.eqb_refl. reflexivity. Qed.
Lemma frec_eqb_refl x : frec_eqb x x = true. Proof. unfold frec_eqb. rewrite !N.eqb_refl. reflexivity. Qed.
Lemma cnt_eqb_refl x : cnt_eqb x x = true. Proof. unfold cnt_eqb. rewrite !N.eqb_refl. reflexivity. Qed.
Lemma forallb_repeat {A} (f : A -> bool) x n : f x = true -> forallb f (repeat x n) = true.
Proof. intro H. induction n; cbn; [reflexivity|]. rewrite H, IHn. reflexivity. Qed.

Lemma summary_ok_mk c : summary_ok c (mk_summary c) = true.
Proof.
  unfold summary_ok, mk_summary, is_failure, rep_is_ok. cbn [m_ok m_nfail m_tests m_run m_checks m_ign m_filt].
  rewrite !N.eqb_refl. rewrite !andb_true_r.
  destruct (N.eqb_spec (k_fail c) 0) as [F|F]; destruct (N.eqb_spec (k_run c + k_ign c) 0) as [R|R]; cbn [negb orb andb].
  - rewrite F. cbn. destruct (N.ltb_spec 0 (k_run c + k_ign c)); [lia | reflexivity].
  - rewrite F. cbn. destruct (N.ltb_spec 0 (k_run c + k_ign c)); [reflexivity | lia].
  - destruct (N.ltb_spec 0 (k_fail c)); [|lia]. cbn. rewrite N.eqb_refl. reflexivity.
  - destruct (N.ltb_spec 0 (k_fail c)); [|lia]. cbn. rewrite N.eqb_refl. reflexivity.
Qed.

Lemma rep_ok_model cfg tests :
  rep_ok cfg (number 0%N tests) (rep_obs_of cfg (rep_state cfg tests) ONormal) = true.
Proof.
  unfold rep_ok, rep_obs_of, rep_state. cbn [out cn r_events r_fails r_after r_summary r_counters is_normal].
  rewrite tests_events, tests_fails, tests_afters.
  rewrite map_map. cbn [e_test e_phase e_idx].
  replace (map (fun x : N * N * N => (fst (fst x), snd (fst x), snd x)) (rep_events cfg (number 0%N tests))) with (rep_events cfg (number 0%N tests))
    by (rewrite <- (map_id (rep_events cfg (number 0%N tests))) at 1; apply map_ext; intros [[a b] c]; reflexivity).
  rewrite (list_eqb_refl _ ev3_eqb_refl), (list_eqb_refl _ frec_eqb_refl), repeat_length.
  rewrite summary_ok_mk. unfold nb. rewrite N.eqb_refl.
  rewrite forallb_repeat by reflexivity.
  assert (D : forallb (fun e : event => (1 <=? e_depth e) && (e_depth e <=? slots))
                (map (fun e : N * N * N => mkEv (fst (fst e)) (snd (fst e)) (snd e) (0 + 2)) (rep_events cfg (number 0%N tests))) = true).
  { rewrite forallb_forall. intros e H. apply in_map_iff in H. destruct H as [x [<- _]]. cbn [e_depth]. pose proof slots_ge_2. lia. }
  rewrite D. destruct (c_cli cfg); [reflexivity|]. rewrite cnt_eqb_refl. reflexivity.
Qed.

(* ------------------------------------------------------------------ the repeat loop and the returned value *)
Definition rep_model (cfg : config) (tests : list test) : rep_obs := rep_obs_of cfg (rep_state cfg tests) ONormal.

Lemma runner_loop_closed exc cfg tests :
  throws_ok exc cfg tests = true ->
  forall n s ft fe, good s ->
  let c := rep_counts cfg (number 0%N tests) in
  exists s', good s' /\
    runner_loop exc cfg tests n s ft fe =
    (repeat (rep_model cfg tests) n, s', (ft + N.of_nat n * k_fail c)%N, (fe + N.of_nat n * (if is_failure c then 1 else 0))%N, ONormal).
Proof.
  intros V. induction n as [|n IH]; intros s ft fe G c.
  - exists s. split; [exact G|]. cbn [runner_loop repeat]. rewrite !N.mul_0_l, !N.add_0_r. reflexivity.
  - cbn [runner_loop]. rewrite (run_rep_closed exc cfg tests s V G).
    destruct (IH (rep_state cfg tests) (ft + k_fail (cn (rep_state cfg tests)))%N
                 (if is_failure (cn (rep_state cfg tests)) then fe + 1 else fe)%N (rep_state_good cfg tests)) as [s' [G' E]].
    exists s'. split; [exact G'|]. rewrite E. cbn [repeat]. unfold rep_model. cbn [cn rep_state]. fold c.
    rewrite Nat2N.inj_succ, !N.mul_succ_l.
    replace (ft + k_fail c + N.of_nat n * k_fail c)%N with (ft + (N.of_nat n * k_fail c + k_fail c))%N by lia.
    destruct (is_failure c).
    + replace (fe + 1 + N.of_nat n * 1)%N with (fe + (N.of_nat n * 1 + 1))%N by lia. reflexivity.
    + replace (fe + N.of_nat n * 0)%N with (fe + (N.of_nat n * 0 + 0))%N by lia. reflexivity.
Qed.

Lemma exit_value_small z : (z < 2 ^ 31)%Z -> (0 <= z)%Z -> cast TInt (cast TULong z) = z.
Proof. intros H H0. rewrite (cast_id' TULong) by (cbn; lia). apply cast_id'. cbn. lia. Qed.

Lemma throws_ok_of_valid exc scn : valid exc scn = true -> throws_ok exc (s_cfg scn) (s_tests scn) = true.
Proof.
  unfold valid, throws_ok. intro V. apply andb_true_iff in V. destruct V as [V _]. apply andb_true_iff in V. destruct V as [V _].
  apply andb_true_iff in V. destruct V as [A B].
  apply forallb_forall. intros t Ht. unfold ok_test.
  destruct (has_throw t) eqn:HT; [|reflexivity].
  assert (E : existsb has_throw (s_tests scn) = true) by (apply existsb_exists; exists t; split; assumption).
  rewrite E in A, B. cbn. destruct exc; [|discriminate A].
  destruct (c_rethrow (s_cfg scn)); [discriminate B | reflexivity].
Qed.

Theorem run_meets_spec exc scn : valid exc scn = true -> spec scn (run exc scn) = true.
Proof.
  intro V. pose proof (throws_ok_of_valid exc scn V) as TO.
  unfold valid in V. apply andb_true_iff in V. destruct V as [V Vn]. apply andb_true_iff in V. destruct V as [V Vf].
  apply andb_true_iff in V. destruct V as [_ Vr].
  unfold spec. destruct (c_rethrow (s_cfg scn) && existsb has_throw (s_tests scn)) eqn:RT; [reflexivity|].
  unfold run, run_from. destruct (c_cli (s_cfg scn)) eqn:CLI.
  - assert (G0 : good st0) by (repeat split).
    destruct (runner_loop_closed exc (s_cfg scn) (s_tests scn) TO (N.to_nat (c_repeat (s_cfg scn))) st0 0%N 0%N G0) as [s' [_ E]].
    rewrite E. cbn [fst is_normal negb o_escaped o_reps o_ret]. rewrite repeat_length, N2Nat.id, N.eqb_refl. cbn [andb].
    rewrite forallb_repeat by (unfold rep_model; apply rep_ok_model). cbn [andb].
    set (c := rep_counts (s_cfg scn) (number 0%N (s_tests scn))) in *.
    set (n := c_repeat (s_cfg scn)) in *.
    unfold exit_value. rewrite !N.add_0_l.
    assert (Hn : (Z.of_N n < 2 ^ 31)%Z) by lia. assert (Hf : (Z.of_N n * Z.of_N (k_fail c) < 2 ^ 31)%Z) by lia.
    destruct (N.eqb_spec (n * k_fail c) 0) as [Z0|NZ].
    + (* no failure recorded in any repetition *)
      rewrite exit_value_small by (destruct (is_failure c); lia).
      unfold rep_is_ok. unfold is_failure.
      destruct (N.eqb_spec n 0) as [N0|N0].
      * rewrite N0. cbn. rewrite orb_true_r. reflexivity.
      * assert (F0 : k_fail c = 0%N) by lia. rewrite F0. cbn [N.eqb negb orb andb].
        destruct (N.eqb_spec (k_run c + k_ign c) 0) as [R|R].
        -- rewrite orb_false_r. destruct (N.ltb_spec 0 (k_run c + k_ign c)); [lia|]. apply eqb_true_iff. lia.
        -- rewrite orb_false_r. destruct (N.ltb_spec 0 (k_run c + k_ign c)); [|lia]. apply eqb_true_iff. lia.
    + rewrite exit_value_small by lia.
      assert (n <> 0 /\ k_fail c <> 0)%N as [N0 F0] by lia.
      unfold rep_is_ok. destruct (N.eqb_spec (k_fail c) 0); [contradiction|]. destruct (N.eqb_spec n 0); [contradiction|].
      cbn [andb orb]. apply eqb_true_iff. lia.
  - assert (G0 : good st0) by (repeat split).
    rewrite (run_rep_closed exc (s_cfg scn) (s_tests scn) st0 TO G0).
    cbn [fst is_normal negb o_escaped o_reps o_ret length forallb is_none]. rewrite rep_ok_model. reflexivity.
Qed.

(* ------------------------------------------------------------------ the closed form of a whole run *)
Definition run_closed_form (scn : scenario) : obs :=
  let cfg := s_cfg scn in
  let c := rep_counts cfg (number 0%N (s_tests scn)) in
  if c_cli cfg
  then mkObs false (Some (exit_value (c_repeat cfg * k_fail c) (c_repeat cfg * (if is_failure c then 1 else 0))))
             (repeat (rep_model cfg (s_tests scn)) (N.to_nat (c_repeat cfg)))
  else mkObs false None [rep_model cfg (s_tests scn)].

Lemma run_closed exc scn : throws_ok exc (s_cfg scn) (s_tests scn) = true -> run exc scn = run_closed_form scn.
Proof.
  intro TO. unfold run, run_from, run_closed_form. assert (G0 : good st0) by (repeat split).
  destruct (c_cli (s_cfg scn)).
  - destruct (runner_loop_closed exc (s_cfg scn) (s_tests scn) TO (N.to_nat (c_repeat (s_cfg scn))) st0 0%N 0%N G0) as [s' [_ E]].
    rewrite E. cbn [fst is_normal negb]. rewrite N2Nat.id, !N.add_0_l. reflexivity.
  - rewrite (run_rep_closed exc (s_cfg scn) (s_tests scn) st0 TO G0). reflexivity.
Qed.

(* builds with and without exception support are indistinguishable on programs that cannot throw *)
Theorem build_independent scn : existsb has_throw (s_tests scn) = false -> run true scn = run false scn.
Proof.
  intro NT.
  assert (forall exc, throws_ok exc (s_cfg scn) (s_tests scn) = true) as TO.
  { intro exc. apply forallb_forall. intros t Ht. unfold ok_test.
    destruct (has_throw t) eqn:E; [|reflexivity].
    assert (existsb has_throw (s_tests scn) = true) by (apply existsb_exists; exists t; split; assumption). congruence. }
  rewrite !run_closed by apply TO. reflexivity.
Qed.

(* ------------------------------------------------------------------ per-test statements (any machine state, both builds) *)
Section OneTest.
  Variables (exc r : bool) (i : N) (t : test) (s : st).
  Hypothesis OK : ok_test exc r t = true.
  Let s' := fst (run_one_test exc r i t s).

  Lemma one_test_normal : snd (run_one_test exc r i t s) = ONormal.
  Proof. rewrite (run_one_test_closed exc r i t s OK). reflexivity. Qed.
  Lemma one_test_depth : depth s' = depth s.
  Proof. unfold s'. rewrite (run_one_test_closed exc r i t s OK). reflexivity. Qed.
  Lemma one_test_context : cur s' = cur s.
  Proof. unfold s'. rewrite (run_one_test_closed exc r i t s OK). reflexivity. Qed.
  Lemma one_test_events :
    events_of (out s') = events_of (out s) ++ map (fun e => mkEv (fst (fst e)) (snd (fst e)) (snd e) (depth s + 2)) (want_events i t).
  Proof. unfold s'. rewrite (run_one_test_closed exc r i t s OK). cbn [fst upd out]. rewrite events_app, test_events. reflexivity. Qed.
  Lemma one_test_fails :
    fails_of (out s') = fails_of (out s) ++ want_fails i t /\
    k_fail (cn s') = (k_fail (cn s) + N.of_nat (length (want_fails i t)))%N /\
    k_checks (cn s') = (k_checks (cn s) + want_checks t)%N /\
    k_run (cn s') = (k_run (cn s) + 1)%N.
  Proof.
    unfold s'. rewrite (run_one_test_closed exc r i t s OK). cbn [fst upd out cn]. rewrite fails_app, test_fails, (test_cnt_eq i t).
    repeat split; reflexivity.
  Qed.
  Lemma one_test_slots : slot_ok (depth s) = true -> slot_ok (depth s + 1) = true -> overflow s' = overflow s.
  Proof.
    intros A B. unfold s'. rewrite (run_one_test_closed exc r i t s OK). cbn [fst upd overflow]. unfold bad_slot. rewrite A, B.
    cbn. rewrite !orb_false_r. reflexivity.
  Qed.
End OneTest.

(* what [executed] and [want_events] say, in words *)
Lemma executed_prefix l :
  exists post, l = executed l ++ post /\
               forallb is_pass (removelast (executed l)) = true /\
               (post <> [] -> exists x, last (executed l) SNop = x /\ is_pass x = false).
Proof.
  induction l as [|x r [post [E [P L]]]].
  - exists []. repeat split. intro H; contradiction.
  - cbn [executed]. destruct (is_pass x) eqn:PX.
    + exists post. split; [cbn; f_equal; exact E|]. split.
      * destruct (executed r) eqn:ER; [reflexivity|]. cbn [removelast forallb]. rewrite PX. exact P.
      * intro NE. destruct (L NE) as [y [Y1 Y2]]. exists y. split; [|exact Y2].
        destruct (executed r) eqn:ER; [|exact Y1]. cbn in Y1. subst y. discriminate Y2.
    + exists r. repeat split. intros _. exists x. split; [reflexivity | exact PX].
Qed.
Lemma body_only_after_setup i t k : In (i, 1%N, k) (want_events i t) -> completes (t_setup t) = true.
Proof.
  unfold want_events, phases. destruct (completes (t_setup t)); [reflexivity|]. cbn [app flat_map fst snd]. rewrite app_nil_r, in_app_iff.
  intros [H|H]; apply in_map_iff in H; destruct H as [x [H _]]; discriminate H.
Qed.
Lemma number_in {A} (l : list A) : forall k x, l <> [] -> exists y, In (k, y) (number k l) /\ hd x l = y.
Proof. destruct l as [|a l]; intros k x H; [contradiction|]. exists a. split; [left; reflexivity | reflexivity]. Qed.
Lemma executed_nonempty l : l <> [] -> executed l <> [].
Proof. destruct l as [|x r]; [tauto|]. intros _. cbn. destruct (is_pass x); discriminate. Qed.
Lemma body_when_setup_completes i t : completes (t_setup t) = true -> t_body t <> [] -> In (i, 1%N, 0%N) (want_events i t).
Proof.
  intros C NE. unfold want_events, phases. rewrite C. cbn [app flat_map fst snd]. rewrite !in_app_iff. right; left.
  destruct (number_in (executed (t_body t)) 0%N SNop (executed_nonempty _ NE)) as [y [Y _]].
  apply in_map_iff. exists (0%N, y). split; [reflexivity | exact Y].
Qed.
Lemma teardown_always i t : t_teardown t <> [] -> In (i, 2%N, 0%N) (want_events i t).
Proof.
  intros NE. unfold want_events, phases.
  destruct (number_in (executed (t_teardown t)) 0%N SNop (executed_nonempty _ NE)) as [y [Y _]].
  assert (In (i, 2%N, 0%N) (map (fun kx : N * stmt => (i, 2%N, fst kx)) (number 0 (executed (t_teardown t)))))
    by (apply in_map_iff; exists (0%N, y); split; [reflexivity | exact Y]).
  destruct (completes (t_setup t)); cbn [app flat_map fst snd]; rewrite !in_app_iff; tauto.
Qed.

(* ------------------------------------------------------------------ whole runs *)
Lemma reps_of_run exc scn rp : valid exc scn = true -> In rp (o_reps (run exc scn)) -> rp = rep_model (s_cfg scn) (s_tests scn).
Proof.
  intros V H. rewrite (run_closed exc scn (throws_ok_of_valid exc scn V)) in H. unfold run_closed_form in H.
  destruct (c_cli (s_cfg scn)); cbn [o_reps] in H.
  - apply repeat_spec in H. exact H.
  - destruct H as [H|[]]. symmetry. exact H.
Qed.

Lemma number_length {A} (l : list A) : forall k, length (number k l) = length l.
Proof. induction l as [|x l IH]; intro k; cbn; [reflexivity|]. rewrite IH. reflexivity. Qed.
Lemma counts_identity cfg ts : let c := rep_counts cfg ts in (k_tests c = k_run c + k_ign c + k_filt c)%N.
Proof.
  unfold rep_counts, nb, started. cbn [k_tests k_run k_ign k_filt].
  induction ts as [|x l IH]; [reflexivity|]. cbn [filter length].
  destruct (selected cfg (snd x)), (runs cfg (snd x)); cbn [andb negb length]; lia.
Qed.

Theorem summary_true exc scn rp :
  valid exc scn = true -> In rp (o_reps (run exc scn)) ->
  let c := rep_counts (s_cfg scn) (number 0%N (s_tests scn)) in
  exists m, r_summary rp = Some m /\
    m_tests m = N.of_nat (length (s_tests scn)) /\ m_run m = k_run c /\ m_checks m = k_checks c /\ m_ign m = k_ign c /\ m_filt m = k_filt c /\
    (m_tests m = m_run m + m_ign m + m_filt m)%N /\
    m_nfail m = (if (0 <? k_fail c)%N then Some (k_fail c) else None) /\
    r_fails rp = rep_fails (s_cfg scn) (number 0%N (s_tests scn)) /\
    k_fail c = N.of_nat (length (r_fails rp)) /\
    (m_ok m = true <-> (k_fail c = 0 /\ 0 < k_run c + k_ign c)%N).
Proof.
  intros V H c. rewrite (reps_of_run exc scn rp V H). unfold rep_model, rep_obs_of. cbn [is_normal r_summary r_fails rep_state out cn]. fold c.
  exists (mk_summary c). split; [reflexivity|].
  pose proof (summary_ok_mk c) as S. unfold summary_ok in S. rewrite !andb_true_iff in S.
  destruct S as [[S1 S2] [[[[S3 S4] S5] S6] S7]]. apply N.eqb_eq in S3, S4, S5, S6, S7.
  pose proof (number_length (s_tests scn) 0%N) as LT.
  pose proof (counts_identity (s_cfg scn) (number 0%N (s_tests scn))) as ID. cbv zeta in ID. fold c in ID.
  repeat split; try assumption.
  - rewrite S3. unfold c, rep_counts. cbn [k_tests]. rewrite LT. reflexivity.
  - revert S2. generalize (m_nfail (mk_summary c)) (if (0 <? k_fail c)%N then Some (k_fail c) else None).
    intros [a|] [b|] E; cbn in E; try discriminate E; [apply N.eqb_eq in E; subst|]; reflexivity.
  - apply tests_fails.
  - rewrite tests_fails. reflexivity.
  - apply eqb_prop in S1. rewrite S1 in H0. unfold rep_is_ok in H0. apply andb_true_iff in H0. destruct H0 as [A _]. apply N.eqb_eq in A. exact A.
  - apply eqb_prop in S1. rewrite S1 in H0. unfold rep_is_ok in H0. apply andb_true_iff in H0. destruct H0 as [_ B]. apply N.ltb_lt in B. exact B.
  - intros [A B]. apply eqb_prop in S1. rewrite S1. unfold rep_is_ok. rewrite A. cbn. apply N.ltb_lt. exact B.
Qed.

Theorem exit_value_iff exc scn :
  valid exc scn = true -> c_cli (s_cfg scn) = true ->
  exists z, o_ret (run exc scn) = Some z /\
    (z = 0 <-> (c_repeat (s_cfg scn) = 0%N \/ rep_is_ok (rep_counts (s_cfg scn) (number 0%N (s_tests scn))) = true)).
Proof.
  intros V CLI. pose proof (run_meets_spec exc scn V) as S. unfold spec in S.
  assert (RT : c_rethrow (s_cfg scn) && existsb has_throw (s_tests scn) = false).
  { unfold valid in V. rewrite !andb_true_iff in V. destruct V as [[[_ B] _] _]. destruct (c_rethrow (s_cfg scn) && existsb has_throw (s_tests scn)); [discriminate B | reflexivity]. }
  rewrite RT, CLI in S. rewrite !andb_true_iff in S. destruct S as [_ S].
  destruct (o_ret (run exc scn)) as [z|]; [|discriminate S]. exists z. split; [reflexivity|].
  apply eqb_prop in S. rewrite <- Z.eqb_eq, S, orb_true_iff, N.eqb_eq. tauto.
Qed.

(* the runner's size_t -> int conversion: with 2^32 recorded failures the returned value is 0 (a stated limit, not reachable in practice) *)
Theorem exit_value_wrap_refuted : ~ (forall ft fe : N, exit_value ft fe = 0 -> ft = 0%N).
Proof. intro H. specialize (H (2 ^ 32)%N 1%N). assert (E : exit_value (2 ^ 32) 1 = 0) by (vm_compute; reflexivity). specialize (H E). discriminate H. Qed.

(* any number of tests, any repetition count: the jump stack never leaves its slots and ends where it started *)
Theorem no_slot_overflow exc scn :
  valid exc scn = true ->
  let fin := snd (run_from exc scn st0) in
  overflow fin = false /\ depth fin = 0 /\ cur fin = None /\
  forall rp e, In rp (o_reps (run exc scn)) -> In e (r_events rp) -> e_depth e = 2 /\ e_depth e <= slots.
Proof.
  intros V fin. pose proof (throws_ok_of_valid exc scn V) as TO.
  assert (G : good fin).
  { unfold fin, run_from. assert (G0 : good st0) by (repeat split). destruct (c_cli (s_cfg scn)).
    - destruct (runner_loop_closed exc (s_cfg scn) (s_tests scn) TO (N.to_nat (c_repeat (s_cfg scn))) st0 0%N 0%N G0) as [s' [G' E]].
      rewrite E. exact G'.
    - rewrite (run_rep_closed exc (s_cfg scn) (s_tests scn) st0 TO G0). apply rep_state_good. }
  destruct G as [D [O C]]. repeat split; try assumption.
  - rewrite (reps_of_run exc scn rp V H) in H0. unfold rep_model, rep_obs_of in H0. cbn [r_events rep_state out] in H0.
    rewrite tests_events in H0. apply in_map_iff in H0. destruct H0 as [x [<- _]]. reflexivity.
  - rewrite (reps_of_run exc scn rp V H) in H0. unfold rep_model, rep_obs_of in H0. cbn [r_events rep_state out] in H0.
    rewrite tests_events in H0. apply in_map_iff in H0. destruct H0 as [x [<- _]]. cbn [e_depth]. pose proof slots_ge_2. lia.
Qed.

(* ------------------------------------------------------------------ the hypotheses are satisfiable: a concrete program *)
Definition ex_tests : list test :=
  [ mkTest false true 10 [SCheck] [SCheck; SFailX 0 12; SCheck] [SFailC 1 3; SNop] [] [7%N];
    mkTest false true 20 [SThrowStd; SCheck] [SCheck] [SThrowOther] [5%N] [];
    mkTest true true 30 [] [SFailX 0 31] [] [] [];
    mkTest false false 40 [] [SCheck] [] [] [] ].
Definition ex_scn : scenario := mkScn (mkCfg true false true false 3) ex_tests.
Example ex_valid : valid true ex_scn = true. Proof. vm_compute. reflexivity. Qed.
Example ex_spec : spec ex_scn (run true ex_scn) = true. Proof. vm_compute. reflexivity. Qed.
Example ex_ret : o_ret (run true ex_scn) = Some 18. Proof. vm_compute. reflexivity. Qed.
Example ex_ok_test : ok_test true false (nth 1 ex_tests (mkTest false true 0 [] [] [] [] [])) = true. Proof. reflexivity. Qed.
Definition ex_scn_nothrow : scenario := mkScn (mkCfg false false false true 1) [nth 0 ex_tests (mkTest false true 0 [] [] [] [] []); nth 2 ex_tests (mkTest false true 0 [] [] [] [] [])].
Example ex_valid_noexc : valid false ex_scn_nothrow = true. Proof. vm_compute. reflexivity. Qed.
Example ex_build_independent : run true ex_scn_nothrow = run false ex_scn_nothrow. Proof. vm_compute. reflexivity. Qed.
