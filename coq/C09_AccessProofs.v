(* C09 -- every family of read-back accessors: an integer read back is the exact integer or a failure, whatever the
   family, the store path and the default; the non-integer accessors hand back a value of their own type only. *)
From Coq Require Import ZArith Bool List Lia.
From CppUVerif Require Import lib.CInt lib.Dbl lib.Str C09_Model C09_Proofs C09_AliasProofs C09_Access.
Import ListNotations.
Local Open Scope Z_scope.

Lemma rty_gty g : rty g = gty g.
Proof. destruct g; reflexivity. Qed.

Lemma rty_getter_of_ty t : rty (getter_of_ty t) = t.
Proof. destruct t; reflexivity. Qed.

(* what a getter hands back lies in its own C type *)
Lemma get_in_range g t z z' : in_range t z = true -> get g (VInt t z) = Some z' -> in_range (rty g) z' = true.
Proof.
  intros Hr H. pose proof (getter_exact g t z z' Hr H) as ->.
  rewrite rty_gty. destruct (in_range (gty g) z) eqn:E; [reflexivity|].
  rewrite (getter_rejects_unfit g t z Hr E) in H. discriminate H.
Qed.

Lemma get_non_int g v : (forall t z, v <> VInt t z) -> get g v = None.
Proof. intro H. destruct v; try (destruct g; reflexivity). exfalso. exact (H t z eq_refl). Qed.

(* the table is right: forwarding to the getter of the accessor's own type makes the return conversion the identity *)
Lemma via_route_own f g v : valid v = true -> via_route (route_of f g) v = get g v.
Proof.
  intro Hv. unfold via_route, route_of. cbn [r_getter r_ret].
  destruct (get g v) as [z'|] eqn:E; cbn [option_map]; [|reflexivity].
  destruct v as [x|t z|d tol|s|p|p|p|m]; try (destruct g; discriminate E).
  cbn [valid] in Hv. pose proof (get_in_range g t z z' Hv E) as Hin.
  apply in_range_iff in Hin. rewrite cast_id' by exact Hin. reflexivity.
Qed.

Lemma nv_read_nv_get f a v : valid v = true -> nv_read f a v = nv_get a v.
Proof. intro Hv. destruct a; cbn [nv_read nv_get]; try reflexivity. rewrite (via_route_own f g v Hv). reflexivity. Qed.

Lemma valid_unset : valid unset_value = true.
Proof. reflexivity. Qed.

(* every family answers through the named-value getter of the accessor's own type *)
Lemma read_forwards f a st d :
  match st with Some v => valid v = true | None => True end ->
  read f a st d =
    let v := match st with Some v => v | None => unset_value end in
    match fam_mode f with
    | MPlain => nv_get a v
    | MDefault => match st with None => Some d | Some _ => nv_get a v end
    | MTagged => if acc_eqb a (own_acc v) then nv_get a v else None
    end.
Proof.
  intro Hv. unfold read.
  assert (Hv' : valid (match st with Some v => v | None => unset_value end) = true).
  { destruct st; [exact Hv | exact valid_unset]. }
  cbv zeta. rewrite (nv_read_nv_get f a _ Hv'). reflexivity.
Qed.

(* ---- the integer clause, for every family ---- *)
Lemma accessor_exact f g t z d r :
  in_range t z = true -> read f (AInt g) (Some (VInt t z)) d = Some r -> r = RInt z.
Proof.
  intros Hr H. rewrite (read_forwards f (AInt g) (Some (VInt t z)) d Hr) in H. cbv zeta in H.
  assert (Hg : nv_get (AInt g) (VInt t z) = Some r -> r = RInt z).
  { cbn [nv_get]. destruct (get g (VInt t z)) as [z'|] eqn:E; cbn [option_map]; intro H'; [|discriminate H'].
    inversion H'. rewrite (getter_exact g t z z' Hr E). reflexivity. }
  destruct (fam_mode f); [exact (Hg H) | exact (Hg H) |].
  destruct (acc_eqb (AInt g) (own_acc (VInt t z))); [exact (Hg H) | discriminate H].
Qed.

(* a stored non-integer never reads back as a number *)
Lemma accessor_non_integer_fails f g v d :
  valid v = true -> (forall t z, v <> VInt t z) -> read f (AInt g) (Some v) d = None.
Proof.
  intros Hv Hn. rewrite (read_forwards f (AInt g) (Some v) d Hv). cbv zeta.
  assert (Hg : nv_get (AInt g) v = None). { cbn [nv_get]. rewrite (get_non_int g v Hn). reflexivity. }
  destruct (fam_mode f); try exact Hg. destruct (acc_eqb (AInt g) (own_acc v)); [exact Hg | reflexivity].
Qed.

(* the plain and the OrDefault families are total where the getter is: failure is not a way out for a value that fits *)
Lemma accessor_total_on_fit f g t z d :
  fam_mode f <> MTagged -> in_range t z = true -> accepts g t = true -> in_range (gty g) z = true ->
  read f (AInt g) (Some (VInt t z)) d = Some (RInt z).
Proof.
  intros Hm Hr Ha Hf. rewrite (read_forwards f (AInt g) (Some (VInt t z)) d Hr). cbv zeta.
  cbn [nv_get]. rewrite (getter_total_on_fit g t z Hr Ha Hf). cbn [option_map].
  destruct (fam_mode f); try reflexivity. exfalso. apply Hm. reflexivity.
Qed.

(* the tagged union names the member of the stored type, and that member holds the integer *)
Lemma tagged_own_member f t z d :
  fam_mode f = MTagged -> in_range t z = true -> read f (AInt (getter_of_ty t)) (Some (VInt t z)) d = Some (RInt z).
Proof.
  intros Hm Hr. rewrite (read_forwards f _ (Some (VInt t z)) d Hr). cbv zeta. rewrite Hm.
  cbn [own_acc]. unfold acc_eqb. rewrite Nat.eqb_refl. cbn [nv_get].
  assert (Hg : get (getter_of_ty t) (VInt t z) = Some z).
  { apply getter_total_on_fit; [exact Hr | destruct t; reflexivity |].
    rewrite <- rty_gty, rty_getter_of_ty. exact Hr. }
  rewrite Hg. reflexivity.
Qed.

(* a value that was set is never replaced by the default: the answer does not depend on the default at all *)
Lemma default_unused_when_stored f a v d d' : read f a (Some v) d = read f a (Some v) d'.
Proof. unfold read. destruct (fam_mode f); reflexivity. Qed.

Lemma default_when_unset f a d : fam_mode f = MDefault -> read f a None d = Some d.
Proof. intro H. unfold read. rewrite H. reflexivity. Qed.

(* the store path is not looked at *)
Lemma store_path_irrelevant f p p' a st d :
  x_run (XRead {| rd_fam := f; rd_via := p; rd_acc := a; rd_stored := st; rd_default := d |}) =
  x_run (XRead {| rd_fam := f; rd_via := p'; rd_acc := a; rd_stored := st; rd_default := d |}).
Proof. reflexivity. Qed.

(* ---- bool / double / string / pointer kinds / memory buffer: same-type read back only ---- *)
Definition payload (v : value) : rval :=
  match v with
  | VBool b => RBool b | VInt _ z => RInt z | VDouble d _ => RDbl (dbl_bits d) | VStr s => RStr (option_map cut_nul s)
  | VPtr p | VConstPtr p | VFun p => RAddr p | VMem m => RMem m end.
Definition is_int_acc (a : acc) : bool := match a with AInt _ => true | _ => false end.

Lemma nv_get_same_type a v r : is_int_acc a = false -> nv_get a v = Some r -> own_acc v = a /\ r = payload v.
Proof.
  intros Ha H. destruct a; try discriminate Ha; destruct v; cbn [nv_get] in H; try discriminate H;
    inversion H; split; reflexivity.
Qed.

Lemma accessor_same_type_only f a v d r :
  valid v = true -> is_int_acc a = false -> read f a (Some v) d = Some r -> own_acc v = a /\ r = payload v.
Proof.
  intros Hv Ha H. rewrite (read_forwards f a (Some v) d Hv) in H. cbv zeta in H.
  destruct (fam_mode f); try exact (nv_get_same_type a v r Ha H).
  destruct (acc_eqb a (own_acc v)); [exact (nv_get_same_type a v r Ha H) | discriminate H].
Qed.

Lemma accessor_same_type_reads f a v d :
  valid v = true -> is_int_acc a = false -> own_acc v = a -> read f a (Some v) d = Some (payload v).
Proof.
  intros Hv Ha Ho. rewrite (read_forwards f a (Some v) d Hv). cbv zeta.
  assert (Hg : nv_get a v = Some (payload v)).
  { subst a. destruct v; try discriminate Ha; reflexivity. }
  destruct (fam_mode f); try exact Hg. rewrite <- Ho. unfold acc_eqb. rewrite Nat.eqb_refl. rewrite Ho. exact Hg.
Qed.

(* ---- the oracle accepts the model's observation of every valid scenario of the extended language ---- *)
Lemma read_meets_spec f a st d :
  match st with Some v => valid v = true | None => True end -> read_ok st a (read f a st d) = true.
Proof.
  intro Hv. unfold read_ok. destruct a; try reflexivity. destruct st as [v|]; [|reflexivity].
  destruct (read f (AInt g) (Some v) d) as [r|] eqn:E; [|reflexivity].
  destruct v as [x|t z|dd tol|s|p|p|p|m];
    try (rewrite accessor_non_integer_fails in E; [discriminate E | exact Hv | intros t0 z0 H0; discriminate H0]).
  cbn [valid] in Hv. rewrite (accessor_exact f g t z d r Hv E). cbn [getter_ok]. apply Z.eqb_refl.
Qed.

Lemma x_run_meets_spec s : x_valid s = true -> x_spec s (x_run s) = true.
Proof.
  destruct s as [s|r]; cbn [x_valid x_run x_spec]; intro H.
  - apply sc_run_meets_spec. exact H.
  - apply read_meets_spec. destruct (rd_stored r) as [v|]; [|exact I].
    repeat (apply andb_true_iff in H; destruct H as [H ?]).
    match goal with Hx : valid v && _ = true |- _ => apply andb_true_iff in Hx; destruct Hx as [Hx _]; exact Hx end.
Qed.

(* ---- the red-team table (read through a wider getter, then convert) hands back a different number ---- *)
Definition truncating_forward_stmt : Prop :=
  forall v z', valid v = true -> via_route route_truncating v = Some z' -> getter_ok v (Some z') = true.
Lemma truncating_forward_refuted : ~ truncating_forward_stmt.
Proof. intro H. specialize (H (VInt TLong 4294967297) 1 eq_refl eq_refl). discriminate H. Qed.

(* the bit pattern of a double is read back as given (spot checks over the classes; NaN canonical) *)
Example ex_dbl_bits :
  map (fun b => dbl_bits (dbl_of_bits b))
      [0; 9223372036854775808; 1; 4503599627370495; 4503599627370496; 4607182418800017408; 4607182418800017409;
       13830554455654793216; 9218868437227405311; 9218868437227405312; 18442240474082181120; 9221120237041090560] =
      [0; 9223372036854775808; 1; 4503599627370495; 4503599627370496; 4607182418800017408; 4607182418800017409;
       13830554455654793216; 9218868437227405311; 9218868437227405312; 18442240474082181120; 9221120237041090560].
Proof. vm_compute. reflexivity. Qed.

(* non-vacuity *)
Example ex_truncation_caught :
  read FActual (AInt GUInt) (Some (VInt TLong 4294967297)) (RInt 0) = None
  /\ read FCActualDef (AInt GUInt) (Some (VInt TULong 18446744073709551615)) (RInt 77) = None
  /\ read FActualDef (AInt GULong) (Some (VInt TLong 4294967297)) (RInt 77) = Some (RInt 4294967297).
Proof. repeat split; reflexivity. Qed.
Example ex_default_and_tag :
  read FSupportDef (AInt GInt) None (RInt 77) = Some (RInt 77)
  /\ read FSupport (AInt GInt) None (RInt 77) = Some (RInt 0)
  /\ read FCSupportTagged (AInt GLong) (Some (VInt TLong (-1))) (RInt 0) = Some (RInt (-1))
  /\ read FCSupportTagged (AInt GLLong) (Some (VInt TLong (-1))) (RInt 0) = None.
Proof. repeat split; reflexivity. Qed.
Example ex_same_type_only :
  read FActual ABool (Some (VInt TInt 1)) (RBool false) = None
  /\ read FActual AConstPtr (Some (VPtr 4096)) (RAddr 0) = None
  /\ read FActual APtr (Some (VPtr 4096)) (RAddr 0) = Some (RAddr 4096)
  /\ read FNamed AMem (Some (VMem [1%N; 2%N])) (RMem []) = Some (RMem [1%N; 2%N]).
Proof. repeat split; reflexivity. Qed.
Example ex_valid_read :
  x_valid (XRead {| rd_fam := FCActualDef; rd_via := ViaC; rd_acc := AInt GUInt;
                    rd_stored := Some (VInt TULong 4294967296); rd_default := RInt 77 |}) = true.
Proof. reflexivity. Qed.
