(* C13 -- the SimpleStringCollection as an OBJECT WITH A HISTORY, and split() with a delimiter of EVERY length.
   (1) the textbook split t_split_str of C13_Life.v characterised on its own (number of tokens, nothing invented or lost but the
       delimiter's tail, agreement with the one-byte definition the earlier theorems use);
   (2) split() into a collection in ANY earlier state returns exactly the textbook tokens, for every text and every delimiter
       (empty, one byte, longer, self-overlapping, longer than the text): memory-safe (never Oob), terminating;
   (3) every sequence of split / allocate / col[i] = s / size() / col[i] (inside and outside the range) on one collection: each
       step Ok, the observers report the textbook values, the invariant (size_ = length of the array, every element a C string
       of the textbook list) holds again;
   (4) two variants that are NOT the code, refuted: allocate() keeping an array that is big enough, and a scan that steps over
       the whole delimiter while the token count still comes from the overlapping count(). *)
From Coq Require Import NArith ZArith Bool List Lia ZifyBool.
From CppUVerif Require Import lib.Str C13_Text C13_Alloc C13_Model C13_Proofs C13_Life C13_LifeProofs C13_LifeSplit.
From CppUVerif Require C12_Model C12_Safe.
Import ListNotations.
Local Open Scope N_scope.

(* ---------------------------------------------------------------- the textbook split, seen from the occurrences of d *)
(* the first n cuts of s: each one byte behind the start of the next occurrence of d found from where the last cut was made *)
Fixpoint cutg (n : nat) (d s : list N) : list (list N) * list N :=
  match n with
  | O => ([], s)
  | S n' => match find_sub s d with
            | Some off => (firstn (S off) s :: fst (cutg n' d (skipn (S off) s)), snd (cutg n' d (skipn (S off) s)))
            | None => ([], s)
            end
  end.
Lemma t_cuts_cutg d : forall s, t_cuts d s = cutg (t_count s d) d s.
Proof.
  induction s as [|c r IH]; [reflexivity|]. cbn [t_cuts t_count]. destruct (is_prefix d (c :: r)) eqn:P.
  - cbn [Nat.add cutg find_sub]. rewrite P. cbn [firstn skipn]. rewrite IH. reflexivity.
  - cbn [Nat.add]. rewrite IH. destruct (t_count r d) as [|n] eqn:Cn; [reflexivity|].
    cbn [cutg find_sub]. rewrite P. destruct (find_sub r d) as [off|] eqn:F.
    + cbn [option_map firstn skipn fst snd]. reflexivity.
    + apply find_none_count in F. congruence.
Qed.
Lemma count_S_find s d n : t_count s d = S n -> exists off, find_sub s d = Some off /\ (off < length s)%nat /\ t_count (skipn (S off) s) d = n.
Proof.
  intro Cn. assert (Hne : s <> []) by (intro E; subst s; discriminate Cn).
  destruct (find_sub s d) as [off|] eqn:F; [|apply find_none_count in F; congruence].
  exists off. split; [reflexivity|]. split; [apply (find_sub_lt s d off Hne F)|].
  pose proof (find_some_count s d off Hne F). congruence.
Qed.
Lemma cutg_length d : forall n s, t_count s d = n -> length (fst (cutg n d s)) = n.
Proof.
  induction n as [|n IH]; intros s Cn; [reflexivity|]. destruct (count_S_find s d n Cn) as [off [F [_ Cr]]].
  cbn [cutg]. rewrite F. cbn [fst length]. rewrite (IH _ Cr). reflexivity.
Qed.
Lemma cutg_NN d : forall n s, NN s -> Forall NN (fst (cutg n d s)) /\ NN (snd (cutg n d s)).
Proof.
  induction n as [|n IH]; intros s H; cbn [cutg]; [split; [constructor | exact H]|].
  destruct (find_sub s d) as [off|]; [|split; [constructor | exact H]]. cbn [fst snd].
  destruct (IH (skipn (S off) s) (NN_skipn _ _ H)) as [A B]. split; [constructor; [apply NN_firstn; exact H | exact A] | exact B].
Qed.
Lemma t_split_str_NN d s : NN s -> Forall NN (t_split_str d s).
Proof.
  intro H. unfold t_split_str. rewrite t_cuts_cutg. destruct (cutg_NN d (t_count s d) s H) as [A B].
  destruct (t_ends_with s d); [exact A|]. apply Forall_app. split; [exact A | constructor; [exact B | constructor]].
Qed.
(* as many tokens as count() finds occurrences, and one more unless the text ends with the delimiter *)
Lemma t_split_str_length d s : length (t_split_str d s) = (t_count s d + (if t_ends_with s d then 0 else 1))%nat.
Proof.
  unfold t_split_str. rewrite t_cuts_cutg. destruct (t_ends_with s d).
  - rewrite (cutg_length d _ s eq_refl). lia.
  - rewrite app_length, (cutg_length d _ s eq_refl). reflexivity.
Qed.
(* the pieces and the rest, put together again, are the text: no byte is invented, none is lost but (when the text ends with the
   delimiter) the rest *)
Lemma t_cuts_concat d : forall s, concat (fst (t_cuts d s)) ++ snd (t_cuts d s) = s.
Proof.
  induction s as [|c r IH]; [reflexivity|]. cbn [t_cuts]. destruct (is_prefix d (c :: r)).
  - cbn [fst snd concat app]. rewrite IH. reflexivity.
  - destruct (fst (t_cuts d r)) as [|x xs] eqn:E; cbn [fst snd concat app] in *.
    + rewrite IH. reflexivity.
    + rewrite <- app_assoc in *. cbn [app]. rewrite IH. reflexivity.
Qed.
(* a text shorter than the delimiter has no cut *)
Lemma is_prefix_long d : forall s, (length s < length d)%nat -> is_prefix d s = false.
Proof.
  induction d as [|x d IH]; intros s L; [cbn in L; lia|]. destruct s as [|y s]; [reflexivity|]. cbn [is_prefix].
  rewrite (IH s) by (cbn [length] in L; lia). apply andb_false_r.
Qed.
Lemma t_cuts_short d : forall s, (length s < length d)%nat -> t_cuts d s = ([], s).
Proof.
  induction s as [|c r IH]; intro L; [reflexivity|]. cbn [t_cuts]. rewrite (is_prefix_long d (c :: r) L).
  rewrite IH by (cbn [length] in L; lia). reflexivity.
Qed.
Lemma t_cuts_nil_count d : forall s, fst (t_cuts d s) = [] -> t_count s d = 0%nat.
Proof. intros s E. pose proof (cutg_length d _ s eq_refl) as L. rewrite <- t_cuts_cutg, E in L. cbn in L. lia. Qed.
Lemma count_app_ge d : forall pre, (1 <= t_count (pre ++ d) d)%nat \/ d = [].
Proof.
  destruct d as [|x d]; [right; reflexivity|]. left. induction pre as [|c pre IH].
  - cbn [app t_count]. rewrite (is_prefix_refl (x :: d) []) || (rewrite <- (app_nil_r (x :: d)) at 2; rewrite is_prefix_refl). lia.
  - cbn [app t_count]. lia.
Qed.
(* what is left over when the text ends with a (non-empty) delimiter: the delimiter without its first byte -- nothing for a
   one-byte delimiter; for a longer one these bytes belong to no token *)
Lemma t_cuts_tail x d : forall pre, snd (t_cuts (x :: d) (pre ++ x :: d)) = d.
Proof.
  induction pre as [|c pre IH].
  - cbn [app t_cuts]. rewrite <- (app_nil_r (x :: d)) at 2. rewrite is_prefix_refl. cbn [snd].
    rewrite t_cuts_short by (cbn [length]; lia). reflexivity.
  - cbn [app t_cuts]. destruct (is_prefix (x :: d) (c :: pre ++ x :: d)); cbn [snd]; [exact IH|].
    destruct (fst (t_cuts (x :: d) (pre ++ x :: d))) as [|y ys] eqn:E; cbn [snd]; [|exact IH].
    apply t_cuts_nil_count in E. destruct (count_app_ge (x :: d) pre) as [G|G]; [lia | discriminate G].
Qed.
Lemma ends_with_app_inv s d : t_ends_with s d = true -> exists pre, s = pre ++ d.
Proof.
  unfold t_ends_with. rewrite is_prefix_spec. intros [q E]. exists (rev q).
  apply (f_equal (@rev N)) in E. rewrite rev_involutive, rev_app_distr, rev_involutive in E. exact E.
Qed.
Lemma t_split_str_tail x d s : t_ends_with s (x :: d) = true ->
  t_split_str (x :: d) s = fst (t_cuts (x :: d) s) /\ concat (t_split_str (x :: d) s) ++ d = s.
Proof.
  intro E. unfold t_split_str. rewrite E. split; [reflexivity|]. destruct (ends_with_app_inv _ _ E) as [pre ->].
  pose proof (t_cuts_concat (x :: d) (pre ++ x :: d)) as C. rewrite (t_cuts_tail x d pre) in C. exact C.
Qed.
(* for a one-byte delimiter this is the definition the earlier theorems use (pieces keep their delimiter byte, a non-empty
   remainder is last, the empty string is one empty piece) *)
Lemma cutg_single c : forall n s, cutg n [c] s = C12_Safe.cut n c s.
Proof.
  induction n as [|n IH]; intro s; [reflexivity|]. cbn [cutg C12_Safe.cut]. rewrite C12_Safe.find_sub_single.
  destruct (C12_Model.find_idx c s) as [off|]; [|reflexivity]. rewrite IH. reflexivity.
Qed.
Lemma t_split_str_single c s : t_split_str [c] s = t_split_all c s.
Proof.
  rewrite tsplit_all_incl, C12_Safe.split_incl_cut. cbn zeta. unfold C12_Safe.ew, t_split_str.
  rewrite t_cuts_cutg, cutg_single. reflexivity.
Qed.

(* ---------------------------------------------------------------- split() into a collection in any state *)
Lemma updl_mid {A} (v x : A) post : forall pre, updl (length pre) v (pre ++ x :: post) = pre ++ v :: post.
Proof. induction pre as [|y pre IH]; [reflexivity|]. cbn [length app updl]. rewrite IH. reflexivity. Qed.
Lemma updl_length {A} (v : A) : forall l i, length (updl i v l) = length l.
Proof. induction l as [|x l IH]; intro i; [destruct i; reflexivity|]. destruct i; cbn [updl length]; [reflexivity | rewrite IH; reflexivity]. Qed.
Lemma skipn_repeat {A} (x : A) k : forall n, skipn n (repeat x (n + k)) = repeat x k.
Proof. induction n as [|n IH]; [reflexivity|]. cbn [Nat.add repeat skipn]. exact IH. Qed.
Lemma map_repeat_g {A B} (f : A -> B) x : forall n, map f (repeat x n) = repeat (f x) n.
Proof. induction n as [|n IH]; [reflexivity|]. cbn [repeat map]. rewrite IH. reflexivity. Qed.
Lemma split_into_ok d rd : NN d -> forall n s r c pre rest, NN s -> t_count s d = n ->
  c_arr c = pre ++ rest -> c_size c = length (pre ++ rest) -> (n <= length rest)%nat ->
  exists c', split_into c (s ++ 0 :: r) (d ++ 0 :: rd) (length pre) n = Ok (c', snd (cutg n d s) ++ 0 :: r)
             /\ c_arr c' = pre ++ map cs (fst (cutg n d s)) ++ skipn n rest /\ c_size c' = c_size c /\ c_empty c' = c_empty c.
Proof.
  intro Hd. induction n as [|n IH]; intros s r c pre rest Hs Cn Ea Es Ln.
  - exists c. cbn [split_into cutg fst snd map app skipn]. repeat split; try reflexivity. exact Ea.
  - destruct (count_S_find s d n Cn) as [off [F [Lo Cr]]].
    destruct rest as [|x rest]; [cbn [length] in Ln; lia|]. cbn [length] in Ln.
    cbn [split_into cutg]. rewrite StrStr_ok by assumption. cbn [bind]. rewrite F.
    rewrite adv_cs by lia. cbn [bind]. rewrite newFrom_ok by exact Hs. cbn [bind].
    destruct (C12_Safe.subString_holds (s ++ [0]) s 0 (S off) (C12_Safe.holds_cs s Hs)) as [buf [E [rb [-> Hn]]]].
    change (skipn 0 s) with s in *. change (N.of_nat 0) with 0 in E. rewrite E. cbn [bind]. rewrite newFrom_ok by exact Hn. cbn [bind].
    unfold c_put. rewrite Es, Ea.
    replace (N.of_nat (length (pre ++ x :: rest)) <=? N.of_nat (length pre)) with false by (rewrite app_length; cbn [length]; lia).
    rewrite Nat2N.id.
    replace (Nat.ltb (length pre) (length (pre ++ x :: rest))) with true by (symmetry; apply Nat.ltb_lt; rewrite app_length; cbn [length]; lia).
    cbn [bind]. rewrite updl_mid.
    set (v := firstn (S off) s ++ [0]).
    set (c1 := {| c_arr := pre ++ v :: rest; c_size := length (pre ++ x :: rest); c_empty := c_empty c |}).
    destruct (IH (skipn (S off) s) r c1 (pre ++ [v]) rest (NN_skipn _ _ Hs) Cr) as [c' [E2 [A2 [S2 M2]]]].
    + cbn [c1 c_arr]. rewrite <- app_assoc. reflexivity.
    + cbn [c1 c_size]. rewrite !app_length. cbn [length]. lia.
    + lia.
    + replace (length (pre ++ [v])) with (S (length pre)) in E2 by (rewrite app_length; cbn [length]; lia).
      exists c'. cbn [fst snd]. split; [exact E2|]. split; [|split; [rewrite S2; reflexivity | exact M2]].
      rewrite A2. cbn [map skipn]. rewrite <- app_assoc. reflexivity.
Qed.
(* split(): every text, every delimiter, any slack behind the two terminators, the collection in ANY state before *)
Lemma c_split_ok c a ra d rd : NN a -> NN d ->
  exists c', c_split c (a ++ 0 :: ra) (d ++ 0 :: rd) = Ok c'
             /\ c_arr c' = map cs (t_split_str d a) /\ c_size c' = length (t_split_str d a) /\ c_empty c' = c_empty c.
Proof.
  intros Ha Hd. unfold c_split. rewrite count_ok by assumption. cbn [bind]. rewrite endsWith_ok by assumption. cbn [bind].
  pose proof (t_split_str_length d a) as TL. unfold t_split_str in *. rewrite t_cuts_cutg in *.
  set (n := t_count a d) in *. set (k := if t_ends_with a d then 0%nat else 1%nat).
  destruct (split_into_ok d rd Hd n a ra (c_allocate c (n + k)) [] (repeat emptyString (n + k)) Ha eq_refl) as [c' [E [A [S M]]]];
    try reflexivity; try (cbn [app c_allocate c_size]; rewrite repeat_length; lia).
  cbn [length] in E. rewrite E. cbn [bind fst snd]. cbn [app] in A. rewrite skipn_repeat in A. cbn [c_allocate c_size c_empty] in S, M.
  pose proof (cutg_length d n a eq_refl) as L.
  destruct (t_ends_with a d); subst k.
  - exists c'. cbn [repeat] in A. rewrite app_nil_r in A. repeat split; try assumption. rewrite S, L. lia.
  - destruct (cutg_NN d n a Ha) as [_ Hr]. rewrite newFrom_ok by exact Hr. cbn [bind]. unfold c_put. rewrite S, A.
    replace (N.of_nat (n + 1) <=? N.of_nat n) with false by lia. rewrite Nat2N.id.
    replace (Nat.ltb n (length (map cs (fst (cutg n d a)) ++ repeat emptyString 1))) with true
      by (symmetry; apply Nat.ltb_lt; rewrite app_length, map_length, L; cbn [repeat length]; lia).
    eexists. split; [reflexivity|]. cbn [c_arr c_size c_empty repeat].
    rewrite <- L at 1. rewrite <- (map_length cs). rewrite updl_mid. rewrite map_app. cbn [map].
    repeat split; try assumption; try reflexivity. rewrite app_length, L. cbn [length]. reflexivity.
Qed.

(* ---------------------------------------------------------------- the collection through a history of operations *)
(* size_ is the length of the array, the array holds exactly the C strings of the textbook list *)
Definition CI (c : coll) (items : list (list N)) : Prop := c_arr c = map cs items /\ c_size c = length items /\ Forall NN items.
Lemma CI_new : CI c_new [].
Proof. repeat split. constructor. Qed.
Lemma str_of_cs s : NN s -> str_of (cs s) = Ok s.
Proof. intro H. unfold str_of, cs. rewrite cstr_of_cs by exact H. reflexivity. Qed.
Lemma c_get_in c items i : CI c items -> (i < length items)%nat -> c_get c (N.of_nat i) = Ok (c, cs (nth i items [])).
Proof.
  intros [A [S _]] L. unfold c_get. rewrite S. replace (N.of_nat (length items) <=? N.of_nat i) with false by lia.
  rewrite Nat2N.id, A. rewrite (nth_error_nth' (map cs items) (cs [])) by (rewrite map_length; exact L).
  rewrite (map_nth cs items [] i). reflexivity.
Qed.
Lemma c_get_out c items i : CI c items -> N.of_nat (length items) <= i ->
  c_get c i = Ok ({| c_arr := c_arr c; c_size := c_size c; c_empty := emptyString |}, emptyString).
Proof. intros [_ [S _]] L. unfold c_get. rewrite S. replace (N.of_nat (length items) <=? i) with true by lia. reflexivity. Qed.
Lemma CI_reset c items e : CI c items -> CI {| c_arr := c_arr c; c_size := c_size c; c_empty := e |} items.
Proof. intros [A [S F]]. repeat split; assumption. Qed.
Lemma skipn_nth {A} (d : A) : forall l i, (i < length l)%nat -> skipn i l = nth i l d :: skipn (S i) l.
Proof.
  induction l as [|x l IH]; intros i L; [cbn in L; lia|]. destruct i; [reflexivity|]. cbn [skipn nth]. apply IH. cbn [length] in L. lia.
Qed.
Lemma c_read_ok c items : CI c items -> forall k i, (i + k = length items)%nat -> c_read c i k = Ok (skipn i items).
Proof.
  intros H. induction k as [|k IH]; intros i E.
  - cbn [c_read]. rewrite skipn_all2 by lia. reflexivity.
  - cbn [c_read]. rewrite (c_get_in c items i H) by lia. cbn [bind snd].
    destruct H as [A [S F]]. rewrite str_of_cs by (apply Forall_nth_d; [constructor | exact F]). cbn [bind].
    rewrite IH by lia. cbn [bind]. rewrite (skipn_nth [] items i) by lia. reflexivity.
Qed.
Lemma c_snap_ok c items : CI c items -> c_snap c = Ok (t_snap items).
Proof.
  intro H. unfold c_snap, t_snap. pose proof H as [A [S F]]. rewrite S. rewrite (c_read_ok c items H) by lia. cbn [bind skipn].
  rewrite (c_get_out c items (N.of_nat (length items)) H) by lia. cbn [bind snd]. reflexivity.
Qed.
(* the observers: size(), col[i] for EVERY size_t i, the whole collection *)
Lemma kobs_ok c items q : CI c items -> kobs c q = Ok (t_kobs items q).
Proof.
  intro H. destruct q; try reflexivity; cbn [kobs t_kobs].
  - destruct H as [_ [S _]]. rewrite S. reflexivity.
  - destruct (i <? N.of_nat (length items)) eqn:L.
    + replace i with (N.of_nat (N.to_nat i)) at 1 by lia. rewrite (c_get_in c items (N.to_nat i) H) by lia. cbn [bind snd].
      destruct H as [_ [_ F]]. rewrite str_of_cs by (apply Forall_nth_d; [constructor | exact F]). reflexivity.
    + rewrite (c_get_out c items i H) by lia. reflexivity.
  - apply c_snap_ok. exact H.
Qed.
Lemma nonul_cs2 a : nonul a = true -> (do t <- newFrom (cs a); newFrom t) = Ok (cs a).
Proof. intro V. pose proof (nonul_NN a V) as Ha. unfold cs. rewrite (newFrom_ok a []) by exact Ha. cbn [bind]. apply (newFrom_ok a []). exact Ha. Qed.
(* the steps: Ok, and the invariant again, from ANY state that satisfies it *)
Lemma kstep_ok c items q : CI c items -> valid_cop q = true -> exists c', kstep c q = Ok c' /\ CI c' (t_kstep items q).
Proof.
  intros H V. destruct q; cbn [valid_cop] in V; cbn [kstep t_kstep].
  - apply andb_true_iff in V. destruct V as [Va Vd]. pose proof (nonul_NN a Va) as Ha. pose proof (nonul_NN d Vd) as Hd.
    destruct (c_split_ok c a [] d [] Ha Hd) as [c' [E [A [S _]]]]. exists c'. split; [exact E|].
    split; [exact A | split; [exact S | apply t_split_str_NN; exact Ha]].
  - eexists. split; [reflexivity|]. unfold CI, c_allocate. cbn [c_arr c_size]. rewrite map_repeat_g, repeat_length.
    repeat split. apply Forall_forall. intros x Hx. apply repeat_spec in Hx. subst x. constructor.
  - apply andb_true_iff in V. destruct V as [Vi Va]. pose proof (nonul_NN a Va) as Ha.
    pose proof (nonul_cs2 a Va) as E. cbn [bind] in E |- *.
    destruct (newFrom (cs a)) as [t| | |] eqn:E1; try discriminate E. cbn [bind] in E |- *. rewrite E. cbn [bind].
    destruct H as [A [S F]]. unfold c_put. rewrite S. destruct (i <? N.of_nat (length items)) eqn:L.
    + replace (N.of_nat (length items) <=? i) with false by lia. rewrite A, map_length.
      replace (Nat.ltb (N.to_nat i) (length items)) with true by (symmetry; apply Nat.ltb_lt; lia).
      eexists. split; [reflexivity|]. unfold CI. cbn [c_arr c_size]. rewrite updl_map, updl_length.
      repeat split; try assumption. apply Forall_updl; assumption.
    + replace (N.of_nat (length items) <=? i) with true by lia. eexists. split; [reflexivity|]. repeat split; assumption.
  - eexists. split; [reflexivity | exact H].
  - destruct (i <? N.of_nat (length items)) eqn:L.
    + assert (G : c_get c i = Ok (c, cs (nth (N.to_nat i) items []))).
      { replace i with (N.of_nat (N.to_nat i)) at 1 by lia. apply c_get_in; [exact H | lia]. }
      exists c. split; [rewrite G; reflexivity | exact H].
    + eexists. split; [rewrite (c_get_out c items i H) by lia; reflexivity | apply CI_reset; exact H].
  - pose proof H as [_ [S _]]. eexists. split; [rewrite (c_get_out c items (N.of_nat (c_size c)) H) by lia; reflexivity | apply CI_reset; exact H].
Qed.
(* every history *)
Lemma krun_ok ops : forall c items, CI c items -> forallb valid_cop ops = true ->
  exists c' items' lg, krun c ops = Ok (c', lg) /\ CI c' items' /\ lg ++ t_snap items' = t_krun items ops.
Proof.
  induction ops as [|q ops IH]; intros c items H V.
  - exists c, items, []. split; [reflexivity | split; [exact H | reflexivity]].
  - cbn [forallb] in V. apply andb_true_iff in V. destruct V as [Vq Vr]. cbn [krun t_krun].
    rewrite (kobs_ok c items q H). cbn [bind]. destruct (kstep_ok c items q H Vq) as [c1 [E H1]]. rewrite E. cbn [bind].
    destruct (IH c1 _ H1 Vr) as [c' [items' [lg [E2 [H2 G]]]]]. rewrite E2. cbn [bind fst snd].
    exists c', items', (t_kobs items q ++ lg). split; [reflexivity | split; [exact H2|]]. rewrite <- app_assoc, G. reflexivity.
Qed.
Lemma eval_coll ops : forallb valid_cop ops = true -> eval_scn (SColl ops) = expected_scn (SColl ops).
Proof.
  intro V. cbn [eval_scn expected_scn]. unfold vcoll. destruct (krun_ok ops c_new [] CI_new V) as [c' [items' [lg [E [H G]]]]].
  rewrite E. cbn [bind fst snd]. rewrite (c_snap_ok c' items' H). cbn [bind]. rewrite G. reflexivity.
Qed.

(* ---------------------------------------------------------------- variant 1 (not the code): allocate() keeps an array that is big enough *)
Definition c_allocate_keep (c : coll) (n : nat) : coll := if Nat.leb n (c_size c) then c else c_allocate c n.
Definition c_split_keep (c : coll) (a delim : list N) : res coll :=
  do num <- count_m a delim; do e <- endsWith_m a delim;
  let c1 := c_allocate_keep c (num + (if e then 0 else 1)) in
  do pr <- split_into c1 a delim 0 num;
  if e then Ok (fst pr) else do last <- newFrom (snd pr); c_put (fst pr) (N.of_nat num) last.
Definition collection_keep_array_stmt : Prop :=
  forall c items a d, CI c items -> NN a -> NN d -> exists c', c_split_keep c (cs a) (cs d) = Ok c' /\ CI c' (t_split_str d a).
(* on a fresh collection the two are the same function: a collection used once never shows the difference *)
Lemma collection_keep_array_fresh a d : c_split_keep c_new a d = c_split c_new a d.
Proof.
  unfold c_split_keep, c_split. destruct (count_m a d) as [num| | |]; try reflexivity. cbn [bind].
  destruct (endsWith_m a d) as [e| | |]; try reflexivity. cbn [bind]. unfold c_allocate_keep. cbn [c_new c_size].
  destruct (num + (if e then 0 else 1))%nat; reflexivity.
Qed.
(* "a,b,c,d" split at ",", then "x,y" split into the same collection: size() stays 4 *)
Lemma collection_keep_array_refuted : ~ collection_keep_array_stmt.
Proof.
  intro H.
  destruct (c_split_ok c_new [97;44;98;44;99;44;100] [] [44] []) as [c4 [E4 [A4 [S4 _]]]]; [repeat constructor; lia | repeat constructor; lia |].
  assert (I4 : CI c4 (t_split_str [44] [97;44;98;44;99;44;100])).
  { split; [exact A4 | split; [exact S4 | apply t_split_str_NN; repeat constructor; lia]]. }
  destruct (H c4 _ [120;44;121] [44] I4) as [c' [E [_ [S _]]]]; [repeat constructor; lia | repeat constructor; lia |].
  vm_compute in E4. inversion E4. subst c4. vm_compute in E. inversion E. subst c'. vm_compute in S. discriminate S.
Qed.

(* ---------------------------------------------------------------- variant 2 (not the code): the scan steps over the WHOLE delimiter *)
Fixpoint split_into_whole (c : coll) (str delim : list N) (dl i num : nat) : res (coll * list N) :=
  match num with O => Ok (c, str) | S num' =>
    do r <- StrStr str delim;
    match r with None => Oob
    | Some off =>
      do nxt <- adv (off + dl) str;
      do whole <- newFrom str; do piece <- subString_m whole 0 (N.of_nat (off + dl));
      do v <- newFrom piece;
      do c' <- c_put c (N.of_nat i) v;
      split_into_whole c' nxt delim dl (S i) num' end end.
Definition c_split_whole (c : coll) (a delim : list N) : res coll :=
  do num <- count_m a delim; do e <- endsWith_m a delim; do dl <- StrLen delim;
  let c1 := c_allocate c (num + (if e then 0 else 1)) in
  do pr <- split_into_whole c1 a delim (if Nat.eqb dl 0 then 1 else dl) 0 num;
  if e then Ok (fst pr) else do last <- newFrom (snd pr); c_put (fst pr) (N.of_nat num) last.
Definition split_whole_delimiter_stmt : Prop := forall a d, NN a -> NN d -> c_split_whole c_new (cs a) (cs d) <> Oob.
(* with a step of one byte it is the code's loop: delimiters of one byte (all the test suite uses) and the empty one are unaffected *)
Lemma split_into_whole_1 delim : forall num c str i, split_into_whole c str delim 1 i num = split_into c str delim i num.
Proof.
  induction num as [|num IH]; intros c str i; [reflexivity|]. cbn [split_into_whole split_into].
  destruct (StrStr str delim) as [[off|]| | |]; try reflexivity. cbn [bind]. rewrite Nat.add_1_r.
  destruct (adv (S off) str); try reflexivity. cbn [bind]. destruct (newFrom str); try reflexivity. cbn [bind].
  destruct (subString_m a0 0 (N.of_nat (S off))); try reflexivity. cbn [bind]. destruct (newFrom a1); try reflexivity. cbn [bind].
  destruct (c_put c (N.of_nat i) a2); try reflexivity. cbn [bind]. apply IH.
Qed.
Lemma split_whole_delimiter_short c a d rd : (length d <= 1)%nat -> NN d -> c_split_whole c a (d ++ 0 :: rd) = c_split c a (d ++ 0 :: rd).
Proof.
  intros L Hd. unfold c_split_whole, c_split. destruct (count_m a (d ++ 0 :: rd)); try reflexivity. cbn [bind].
  destruct (endsWith_m a (d ++ 0 :: rd)); try reflexivity. cbn [bind]. rewrite StrLen_ok by exact Hd. cbn [bind].
  replace (if Nat.eqb (length d) 0 then 1%nat else length d) with 1%nat by (destruct d as [|x [|y d]]; cbn [length] in *; try reflexivity; lia).
  rewrite split_into_whole_1. reflexivity.
Qed.
(* "aaa" split at "aa": count() finds two occurrences, the second search starts behind both and finds none: NULL + 2 is read *)
Lemma split_whole_delimiter_refuted : ~ split_whole_delimiter_stmt.
Proof. intro H. apply (H [97;97;97] [97;97]); [repeat constructor; lia | repeat constructor; lia | vm_compute; reflexivity]. Qed.

(* ---------------------------------------------------------------- the hypotheses are satisfiable, the statements say something *)
Example ex_split_overlap : t_split_str [45;45] [97;45;45;45;98] = [[97;45]; [45]; [45;98]]            (* "a---b" at "--" *)
                           /\ t_split_str [97;97] [97;97;97;98] = [[97]; [97]; [97;98]]                   (* "aaab" at "aa" *)
                           /\ t_split_str [45;45] [97;45;45] = [[97;45]]                                  (* "a--" at "--": the last '-' is in no token *)
                           /\ t_split_str [] [97;98] = [[97]; [98]] /\ t_split_str [] [] = [] /\ t_split_str [44] [] = [[]]
                           /\ t_split_str [97;98;99] [97;98] = [[97;98]].                                 (* delimiter longer than the text *)
Proof. repeat split; vm_compute; reflexivity. Qed.
Example ex_coll_history :
  valid_scn (SColl [KSplit [97;44;98;44;99;44;100] [44]; KSize; KSplit [120;44;121] [44]; KSize; KGet 2; KGet 1; KPut 7 [122]; KGet 7; KAlloc 3; KPut 1 [113]]) = true /\
  o_val (run_scn (SColl [KSplit [97;44;98;44;99;44;100] [44]; KSize; KSplit [120;44;121] [44]; KSize; KGet 2; KGet 1; KPut 7 [122]; KGet 7; KAlloc 3; KPut 1 [113]]))
  = VL [[4;0;0;0;0;0;0;0]; [2;0;0;0;0;0;0;0]; []; [121]; []; [3;0;0;0;0;0;0;0]; []; [113]; []; []].
Proof. split; vm_compute; reflexivity. Qed.
Example ex_CI : CI {| c_arr := [[120;44;0]; [121;0]]; c_size := 2; c_empty := [122;0] |} [[120;44]; [121]].
Proof. repeat split. repeat constructor; lia. Qed.
Example ex_keep_wrong : (do c <- c_split c_new (cs [97;44;98;44;99;44;100]) (cs [44]); do c' <- c_split_keep c (cs [120;44;121]) (cs [44]); c_snap c')
                        = Ok [[4;0;0;0;0;0;0;0]; [120;44]; [121]; [99;44]; [100]; []].
Proof. vm_compute. reflexivity. Qed.
