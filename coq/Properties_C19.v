(* C19 -- the C mocking interface behaves exactly like the C++ one.
   Only statements; every proof is `exact <lemma>` into C19_Proofs.v.  The tables (fields_of, init_of, forwarders, value_dispatch,
   adaptor_bodies) are regenerated from include/CppUTestExt/MockSupport_c.h and src/CppUTestExt/MockSupport_c.cpp on every run. *)
From Coq Require Import ZArith NArith Bool List.
From CppUVerif Require Import lib.CInt C19_Table gen.Gen_C19 C19_Model C19_Proofs.
Import ListNotations.

(* through every field of the three structs a C caller reaches exactly the C++ operation the field's name and C signature denote
   (receiver, method, argument conversions, result wrapper, default handling); a name that is no field reaches nothing *)
Theorem C19_tables_wired : forall t f, wired t f = denote t f.
Proof. exact wired_is_denote. Qed.
Print Assumptions C19_tables_wired.

(* positional form: the forwarder at position i of an initialiser has the C signature of field i of the struct and the meaning the
   name of field i denotes; the initialisers have the length of their structs *)
Theorem C19_tables_wired_positional : forall t i field sg fn,
  nth_error (fields_of t) i = Some (field, sg) -> nth_error (init_of t) i = Some fn ->
  denote t field = Some (sg, resolve fn) /\ (exists fd, find_fdef forwarders fn = Some fd /\ f_sig fd = sg).
Proof. exact tables_wired_positional. Qed.
Print Assumptions C19_tables_wired_positional.

Theorem C19_tables_same_length : forall t, List.length (fields_of t) = List.length (init_of t).
Proof. exact tables_same_length. Qed.
Print Assumptions C19_tables_same_length.

(* getMockValueCFromNamedValue: every storable value arrives with a tag and a union member from which a C caller reads exactly its
   payload, and the tag is the one of the value's type *)
Theorem C19_value_roundtrip : forall v, mvalid v = true ->
  exists c, value_to_c v = Some c /\ canon_of_c c = Some (canon_of_value v).
Proof. exact value_roundtrip. Qed.
Print Assumptions C19_value_roundtrip.

Theorem C19_value_tag : forall v, mvalid v = true -> option_map (fun c => fst (fst c)) (value_to_c v) = Some (expected_tag v).
Proof. exact value_tag. Qed.
Print Assumptions C19_value_tag.

(* every C scenario performs, through the function tables and the three static pointers, the same sequence of C++ operations on the
   same objects as its direct C++ translation *)
Theorem C19_equiv : forall ops, c_trace ops = x_trace ops.
Proof. exact equiv_trace. Qed.
Print Assumptions C19_equiv.

(* custom types through C: the comparator / copier object the C++ repository receives from installComparator_c / installCopier_c runs
   exactly the functions given in that call -- whatever adaptor nodes the C layer holds already (no sharing between types that
   have one function in common), for every state of the statics *)
Theorem C19_adaptor_fresh : forall p ad k args ty e s,
  bind "installComparator" [TCharP; TEqFn; TStrFn] args 0%N = Some [ty; e; s] ->
  snd (apply_sem c_installer p ad k "installComparator" (TVoid, [TCharP; TEqFn; TStrFn]) SInstallCmp args)
  = XInstallCmp (p_sup p) (XPass ty) (XPass e) (XPass s).
Proof. exact adaptor_fresh. Qed.
Print Assumptions C19_adaptor_fresh.

Theorem C19_copier_fresh : forall p ad k args ty c,
  bind "installCopier" [TCharP; TCopyFn] args 0%N = Some [ty; c] ->
  snd (apply_sem c_installer p ad k "installCopier" (TVoid, [TCharP; TCopyFn]) SInstallCopy args) = XInstallCopy (p_sup p) (XPass ty) (XPass c).
Proof. exact copier_fresh. Qed.
Print Assumptions C19_copier_fresh.

(* the equivalence needs nothing of an installer but that: any two faithful installers give the same C++ operations *)
Theorem C19_equiv_any_faithful_installer : forall l1 l2 b I1 I2, (forall t f, l1 t f = l2 t f) -> faithful I1 -> faithful I2 ->
  forall ops p ad1 ad2 k, trace_from l1 b I1 p ad1 k ops = trace_from l2 b I2 p ad2 k ops.
Proof. exact trace_ext. Qed.
Print Assumptions C19_equiv_any_faithful_installer.

(* an installer that reuses an existing adaptor node when the equality function (the copier) matches does not have the property:
   two types sharing one equality function with their own to-string functions *)
Theorem C19_equiv_reuse_refuted : ~ equiv_reuse_stmt.
Proof. exact equiv_reuse_refuted. Qed.
Print Assumptions C19_equiv_reuse_refuted.

(* hence, for ANY semantics of the C++ machinery whose results have the types the forwarders' wrappers are applied to, both
   interfaces show the caller the same verdict, failure text, number of runs of the crash hook, returned values (tag and payload,
   defaulting included) and output bytes *)
Theorem C19_equiv_obs : forall (M : machine), (forall st k x, fits (wrap_of x) (r_val (snd (mexec M st k x))) = true) ->
  forall ops, spec ops (run_with M ops) = true.
Proof. exact equiv_obs. Qed.
Print Assumptions C19_equiv_obs.

(* ---- how a test is left on a failure: crashOnFailure and the failure reporters (the extended observation: per test of the scenario
   -- ONewTest separates tests that share the mock state -- the op it was left at, the text, the number of runs of the crash hook) *)
(* the source says what the reporter model assumes: the C reporter is the C++ reporter but for the terminator it leaves the test with,
   both run UT_CRASH() iff the flag failTest hands over is set; MockSupport assigns activeReporter_ only in setActiveReporter (from
   mock()), reads it in crashOnFailure, createActualCall and failTest (after clear()); clear() mentions no reporter *)
Theorem C19_reporter_source : reporters_ok = true.
Proof. exact reporters_checked. Qed.
Print Assumptions C19_reporter_source.

(* the two interfaces differ in the reporter they select a support with, and in nothing else *)
Theorem C19_layers_mirror : mirror c_layer x_layer.
Proof. exact layers_mirror. Qed.
Print Assumptions C19_layers_mirror.

(* for ANY two layers that do the same up to the names of the two reporter objects and any machine (which also says WHO raises each
   failure: an actual call object, the mock support itself, a plain CHECK), both interfaces leave every test of the scenario at the
   same op with the same text and the same number of runs of the crash hook, and show the same values and output bytes *)
Theorem C19_equiv_obs_mirror_layers : forall Lc Lx, mirror Lc Lx -> forall (M : machine),
  (forall st k x, fits (wrap_of x) (r_val (snd (mexec M st k x))) = true) -> forall ops, spec ops (run_layers Lc Lx M ops) = true.
Proof. exact equiv_obs_layers. Qed.
Print Assumptions C19_equiv_obs_mirror_layers.

Theorem C19_crash_equiv : forall (M : machine), (forall st k x, fits (wrap_of x) (r_val (snd (mexec M st k x))) = true) -> forall ops,
  h_tests (o_c (run_with M ops)) = h_tests (o_x (run_with M ops)).
Proof. exact crash_equiv. Qed.
Print Assumptions C19_crash_equiv.

(* invariant over all op lists: whatever a scenario does (selections, crashOnFailure, calls, clear, in any order and scopes), through C
   every mock support and every actual call that exists reports through failureReporterForC, through C++ through the standard reporter *)
Theorem C19_reporter_uniform : forall ops k,
  uniform RepC (rs_run c_layer rstate0 k (c_trace ops)) /\ uniform RepStd (rs_run x_layer rstate0 k (x_trace ops)).
Proof. exact reporter_uniform. Qed.
Print Assumptions C19_reporter_uniform.

(* ... hence, when an operation fails, the crash hook runs at most once, only if the flag of THE reporter of the interface is set, and
   then whoever raises the failure: a support that exists (checkExpectations: calls that did not happen / out of order; after the
   clear() inside failTest) or a call that exists or is deleted by this very operation *)
Theorem C19_crash_iff_flag : forall G L, keeps G L -> forall s s' x, uniform G s -> uniform G s' ->
  (forall b, crash_on L s s' x b = 0%N \/ (crash_on L s s' x b = 1%N /\ flag s' G = true))
  /\ (flag s' G = true -> forall sc, receiver x = Some sc -> rs_get s' sc <> None -> crash_on L s s' x BySupport = 1%N)
  /\ (flag s' G = true -> forall c, In c (rs_calls s' ++ rs_calls s) -> crash_on L s s' x (ByCall (c_id c)) = 1%N).
Proof. exact crash_iff_flag. Qed.
Print Assumptions C19_crash_iff_flag.

(* changed code is another layer; three ways of losing the C reporter do not have the property:
   clear() resetting activeReporter_ to the standard reporter (witness: crashOnFailure(1); expectOneCall; checkExpectations),
   mock_scope_c passing no reporter (witness: mock_c()->crashOnFailure(1); mock_scope_c("s")->actualCall("g")),
   createActualCall handing the standard reporter to the call (witness: crashOnFailure(1); actualCall("g")) *)
Theorem C19_crash_clear_resets_refuted : ~ layer_equiv_stmt clear_resets_layer.
Proof. exact clear_resets_refuted. Qed.
Print Assumptions C19_crash_clear_resets_refuted.
Theorem C19_crash_scope_null_refuted : ~ layer_equiv_stmt scope_null_layer.
Proof. exact scope_null_refuted. Qed.
Print Assumptions C19_crash_scope_null_refuted.
Theorem C19_crash_call_standard_refuted : ~ layer_equiv_stmt call_standard_layer.
Proof. exact call_standard_refuted. Qed.
Print Assumptions C19_crash_call_standard_refuted.

Theorem C19_run_meets_spec : forall s, valid s = true -> spec s (run s) = true.
Proof. exact run_meets_spec. Qed.
Print Assumptions C19_run_meets_spec.

(* the C++ methods MockSupport::return<T>ValueOrDefault / MockCheckedActualCall::return<T>ValueOrDefault are, in the source,
   hasReturnValue() ? <the getter of T> : default -- the reading of "...OrDefault" that `denote` uses *)
Theorem C19_cpp_or_default : forall r t, r <> RExp -> In t type_names ->
  In (class_of r, or_default_name t, getter_name r t) cpp_or_default.
Proof. exact cpp_or_default_is. Qed.
Print Assumptions C19_cpp_or_default.

(* the code before the repair b5ec8af (readers shared between the two tables) did not have the property *)
Theorem C19_equiv_old_refuted : ~ equiv_old_stmt.
Proof. exact equiv_old_refuted. Qed.
Print Assumptions C19_equiv_old_refuted.
