(* C17 -- the plugin chain code of TestPlugin / TestRegistry as TRANSLATED from /repo on every run (gen/Gen_HeapC17P.v) against
   the hand-written model (C17_Model.v).  The translation's abstractions: NullTestPlugin::instance() is the ghost constant g_null
   (here always HPtr nb 0, nb = the terminator's block); the virtual runAllPre/PostTestAction resolve to the terminator's empty
   override when the receiver is g_null (run_pre / run_post below); a plugin's own action is the event PPre p / PPost p; a name is
   an integer.
   A  layout lemma; the cells of a plugin block (next_, name_, enabled_) and of the registry block (firstPlugin_ = cell 3 of 7)
   B  the chain as a list of (block, name id, enabled): links_ok / chain_at / registry_at
   C  runAllPreTestAction / runAllPostTestAction: C17P_pre, C17P_post, post_is_reverse_of_pre, pre_each_once
   D  installPlugin (C17P_install), resetPlugins, getFirstPlugin, enable / disable, countPlugins, getPluginByName
   E  removePluginByName = filter (C17P_remove), removed blocks keep their cells, a removed object installed again
   F  the link level of the model (obj / links): links_at; installPlugin = l_install, resetPlugins = l_reset, enable / disable,
      following next_ = l_read, countPlugins, runAllPre/Post = l_pre / l_post, removePluginByName = l_remove (C17P_l_remove)
   G  composed with the model's registry: reg_rep, reg_rep_chain, reg_rep_act (every act), reg_rep_pre / reg_rep_post (= walk)
   H  examples (vm_compute), the cycle (x_cyc_never_ends, install_any_block_refuted), the C17 link theorems of the source
      (C17P_install_overwrites_link, C17P_remove_over_links), the link level and the registry on the concrete heap *)
From Coq Require Import ZArith NArith Arith Bool List Lia.
From CppUVerif Require Import gen.Gen_Common C17_Model C17_Proofs C17_Links C17_Chain C17_Run C17_Reinstall.
From CppUVerif Require Import lib.CSem lib.CMem lib.CMemFacts lib.CHeap gen.Gen_HeapC17P.
Import ListNotations.
Local Open Scope Z_scope.

(* ================================================================== A: layout and cells *)
(* the cell numbers the translation uses are those of the class definitions as re-read on this run *)
Lemma layout :
  off_TestPlugin_next_ = 0 /\ off_TestPlugin_name_ = 1 /\ off_TestPlugin_enabled_ = 2 /\ cells_TestPlugin = 3 /\
  off_TestRegistry_firstPlugin_ = 3 /\ cells_TestRegistry = 7.
Proof. repeat split. Qed.

Lemma hblock_lt (h : heap) b : hblock h b <> [] -> (b < length h)%nat.
Proof.
  unfold hblock. intro H. destruct (Nat.lt_ge_cases b (length h)) as [L|L]; [exact L|].
  rewrite nth_overflow in H by exact L. exfalso. apply H. reflexivity.
Qed.

Lemma hp_eq_refl p : hp_eq p p = 1.
Proof. unfold hp_eq. rewrite hptr_eqb_refl. reflexivity. Qed.
Lemma hptr_eqb_blk b b' i j : b <> b' -> hptr_eqb (HPtr b i) (HPtr b' j) = false.
Proof. intro H. cbn [hptr_eqb]. destruct (Nat.eqb_spec b b') as [E|_]; [contradiction|reflexivity]. Qed.
Lemma hp_eq_blk b b' i j : b <> b' -> hp_eq (HPtr b i) (HPtr b' j) = 0.
Proof. intro H. unfold hp_eq. rewrite hptr_eqb_blk by exact H. reflexivity. Qed.
Lemma hp_ne_refl p : hp_ne p p = 0.
Proof. unfold hp_ne. rewrite hptr_eqb_refl. reflexivity. Qed.
Lemma hp_ne_blk b b' i j : b <> b' -> hp_ne (HPtr b i) (HPtr b' j) = 1.
Proof. intro H. unfold hp_ne. rewrite hptr_eqb_blk by exact H. reflexivity. Qed.

(* a plugin object: next_, name_ (the id of its text), enabled_ *)
Section Fields.
  Variables (h : heap) (b : nat) (nx : hptr) (nm en : Z).
  Hypothesis Hb : hblock h b = [VPtr nx; VInt nm; VInt en].
  Lemma f_lt : (b < length h)%nat.
  Proof. apply hblock_lt. rewrite Hb. discriminate. Qed.
  Lemma f_next : hload_ptr h (HPtr b 0) = Some nx.
  Proof. unfold hload_ptr, hload. rewrite Hb. reflexivity. Qed.
  Lemma f_pa1 : hpadd h (HPtr b 0) 1 = Some (HPtr b 1).
  Proof. unfold hpadd. rewrite Hb. reflexivity. Qed.
  Lemma f_name : hload_int h (HPtr b 1) = Some nm.
  Proof. unfold hload_int, hload. rewrite Hb. reflexivity. Qed.
  Lemma f_pa2 : hpadd h (HPtr b 0) 2 = Some (HPtr b 2).
  Proof. unfold hpadd. rewrite Hb. reflexivity. Qed.
  Lemma f_en : hload_int h (HPtr b 2) = Some en.
  Proof. unfold hload_int, hload. rewrite Hb. reflexivity. Qed.
  Lemma f_st_next q : hstore h (HPtr b 0) (VPtr q) = Some (upd h b [VPtr q; VInt nm; VInt en]).
  Proof.
    unfold hstore. rewrite Hb. replace (Nat.ltb b (length h)) with true by (symmetry; apply Nat.ltb_lt; exact f_lt). reflexivity.
  Qed.
  Lemma f_st_en z : hstore h (HPtr b 2) (VInt z) = Some (upd h b [VPtr nx; VInt nm; VInt z]).
  Proof.
    unfold hstore. rewrite Hb. replace (Nat.ltb b (length h)) with true by (symmetry; apply Nat.ltb_lt; exact f_lt). reflexivity.
  Qed.
End Fields.

(* the registry object: 7 cells, firstPlugin_ is cell 3 *)
Definition reg_first (h : heap) (rb : nat) (f : hptr) : Prop :=
  length (hblock h rb) = 7%nat /\ nth_error (hblock h rb) 3 = Some (VPtr f).
Definition set_first (h : heap) (rb : nat) (f : hptr) : heap := upd h rb (upd (hblock h rb) 3 (VPtr f)).

Section RegFields.
  Variables (h : heap) (rb : nat) (f : hptr).
  Hypothesis Hr : reg_first h rb f.
  Lemma r_lt : (rb < length h)%nat.
  Proof. apply hblock_lt. destruct Hr as [L _]. intro E. rewrite E in L. discriminate L. Qed.
  Lemma r_pa3 : hpadd h (HPtr rb 0) 3 = Some (HPtr rb 3).
  Proof. unfold hpadd. destruct Hr as [L _]. rewrite L. reflexivity. Qed.
  Lemma r_first : hload_ptr h (HPtr rb 3) = Some f.
  Proof.
    unfold hload_ptr, hload. destruct Hr as [_ E]. change (Z.to_nat 3) with 3%nat. change (0 <=? 3) with true. cbv iota.
    rewrite E. reflexivity.
  Qed.
  Lemma r_st q : hstore h (HPtr rb 3) (VPtr q) = Some (set_first h rb q).
  Proof.
    unfold hstore. destruct Hr as [L _]. rewrite L.
    replace (Nat.ltb rb (length h)) with true by (symmetry; apply Nat.ltb_lt; exact r_lt). reflexivity.
  Qed.
  Lemma set_first_reg q : reg_first (set_first h rb q) rb q.
  Proof.
    unfold set_first, reg_first. rewrite hblock_upd_same by exact r_lt. rewrite upd_length. destruct Hr as [L _].
    split; [exact L|]. apply nth_error_upd_same. rewrite L. lia.
  Qed.
  Lemma set_first_other q b : b <> rb -> hblock (set_first h rb q) b = hblock h b.
  Proof. intro H. unfold set_first. apply hblock_upd_other. intro E. apply H. symmetry. exact E. Qed.
  Lemma set_first_cells q k : k <> 3%nat -> nth_error (hblock (set_first h rb q) rb) k = nth_error (hblock h rb) k.
  Proof. intro H. unfold set_first. rewrite hblock_upd_same by exact r_lt. apply nth_error_upd_other. intro E. apply H. symmetry. exact E. Qed.
  Lemma set_first_length q : length (set_first h rb q) = length h.
  Proof. apply heap_upd_length. Qed.
End RegFields.

(* ================================================================== B: the chain as a list *)
(* a plugin of the chain: its block, the id of its name, its enabled_ flag *)
Definition prec : Type := (nat * Z * bool)%type.
Definition pb (x : prec) : nat := fst (fst x).
Definition pn (x : prec) : Z := snd (fst x).
Definition pe (x : prec) : bool := snd x.
Definition pptr (x : prec) : hptr := HPtr (pb x) 0.
Definition headp (nb : nat) (ps : list prec) : hptr := match ps with [] => HPtr nb 0 | x :: _ => pptr x end.
Definition pcells (x : prec) (nx : hptr) : list val := [VPtr nx; VInt (pn x); VInt (b2z (pe x))].
Fixpoint links_ok (h : heap) (nb : nat) (ps : list prec) : Prop :=
  match ps with
  | [] => True
  | x :: r => hblock h (pb x) = pcells x (headp nb r) /\ links_ok h nb r
  end.
(* NullTestPlugin::instance(): the one terminator object, its next_ is NULL, its name has the id a *)
Definition term_at (h : heap) (nb : nat) (a : Z) : Prop := exists c, hblock h nb = [VPtr HNull; VInt a; VInt c].
Definition term_ok (h : heap) (nb : nat) : Prop := exists a, term_at h nb a.
Definition chain_at (h : heap) (p : hptr) (nb : nat) (ps : list prec) : Prop :=
  p = headp nb ps /\ links_ok h nb ps /\ term_ok h nb /\ NoDup (map pb ps) /\ ~ In nb (map pb ps).
Definition registry_at (h : heap) (rb nb : nat) (ps : list prec) : Prop :=
  reg_first h rb (headp nb ps) /\ chain_at h (headp nb ps) nb ps /\ rb <> nb /\ ~ In rb (map pb ps).

Lemma links_ok_frame nb h h' : forall ps, (forall b, In b (map pb ps) -> hblock h' b = hblock h b) -> links_ok h nb ps -> links_ok h' nb ps.
Proof.
  induction ps as [|x r IH]; intros Hf H; [exact I|]. destruct H as [Hx Hr]. split.
  - rewrite (Hf (pb x) (or_introl eq_refl)). exact Hx.
  - apply IH; [intros b Hb; apply Hf; right; exact Hb|exact Hr].
Qed.
Lemma links_ok_in nb h : forall ps x, links_ok h nb ps -> In x ps -> exists nx, hblock h (pb x) = pcells x nx.
Proof.
  induction ps as [|y r IH]; intros x H Hin; [destruct Hin|]. destruct H as [Hy Hr]. destruct Hin as [->|Hin].
  - exists (headp nb r). exact Hy.
  - apply IH; assumption.
Qed.
Lemma term_frame h h' nb a : hblock h' nb = hblock h nb -> term_at h nb a -> term_at h' nb a.
Proof. intros E [c H]. exists c. rewrite E. exact H. Qed.
Lemma headp_ne_null nb x r : ~ In nb (map pb (x :: r)) -> hptr_eqb (headp nb (x :: r)) (HPtr nb 0) = false.
Proof. intro H. cbn [headp]. unfold pptr. apply hptr_eqb_blk. intro E. apply H. left. exact E. Qed.

(* ================================================================== C: the two recursions over the chain *)
(* the virtual call as the translation resolves it: NullTestPlugin's empty override when the receiver is the terminator *)
Definition run_pre (fuel : nat) (h : heap) (evs : list pcev) (g p : hptr) : fres (unit * heap * list pcev * hptr) :=
  if hptr_eqb p g then FOk (tt, h, evs, g) else src_plugin_runAllPreTestAction fuel h evs g p.
Definition run_post (fuel : nat) (h : heap) (evs : list pcev) (g p : hptr) : fres (unit * heap * list pcev * hptr) :=
  if hptr_eqb p g then FOk (tt, h, evs, g) else src_plugin_runAllPostTestAction fuel h evs g p.

Definition pre_evs (ps : list prec) : list pcev := map (fun x => PPre (pptr x)) (filter pe ps).
Definition post_evs (ps : list prec) : list pcev := map (fun x => PPost (pptr x)) (filter pe (rev ps)).

Ltac zb := change (z2b 1) with true; change (z2b 0) with false; cbv beta iota zeta.

Lemma pre_walk nb : forall ps x h evs fuel, links_ok h nb (x :: ps) -> ~ In nb (map pb (x :: ps)) -> (length ps < fuel)%nat ->
  src_plugin_runAllPreTestAction fuel h evs (HPtr nb 0) (pptr x) = FOk (tt, h, evs ++ pre_evs (x :: ps), HPtr nb 0).
Proof.
  induction ps as [|y r IH]; intros x h evs fuel [Hx Hr] Hn Hf; (destruct fuel as [|fuel]; [cbn [length] in Hf; lia|]);
    unfold pptr in *; cbn [src_plugin_runAllPreTestAction]; unfold pcells in Hx;
    rewrite (f_pa2 _ _ _ _ _ Hx), (f_en _ _ _ _ _ Hx), (f_next _ _ _ _ _ Hx), b2z_z2b.
  - destruct (pe x) eqn:Ee; cbv beta iota zeta; cbn [headp]; rewrite hp_eq_refl; zb; cbn [finish];
      unfold pre_evs; cbn [filter]; rewrite Ee; cbn [map]; [reflexivity|rewrite app_nil_r; reflexivity].
  - assert (Hne : pb y <> nb) by (intro E; apply Hn; right; left; exact E).
    assert (Hn' : ~ In nb (map pb (y :: r))) by (intro E; apply Hn; right; exact E).
    cbn [length] in Hf.
    destruct (pe x) eqn:Ee; cbv beta iota zeta; cbn [headp]; unfold pptr; rewrite (hp_eq_blk _ _ _ _ Hne);
      zb; rewrite (IH y h _ fuel Hr Hn') by lia; cbv beta iota zeta; cbn [finish];
      unfold pre_evs; cbn [filter]; rewrite Ee; cbn [map]; [rewrite <- app_assoc; reflexivity|reflexivity].
Qed.

Lemma post_walk nb : forall ps x h evs fuel, links_ok h nb (x :: ps) -> ~ In nb (map pb (x :: ps)) -> (length ps < fuel)%nat ->
  src_plugin_runAllPostTestAction fuel h evs (HPtr nb 0) (pptr x) = FOk (tt, h, evs ++ post_evs (x :: ps), HPtr nb 0).
Proof.
  induction ps as [|y r IH]; intros x h evs fuel [Hx Hr] Hn Hf; (destruct fuel as [|fuel]; [cbn [length] in Hf; lia|]);
    unfold pptr in *; cbn [src_plugin_runAllPostTestAction]; unfold pcells in Hx;
    rewrite (f_next _ _ _ _ _ Hx).
  - cbn [headp]. rewrite hp_eq_refl. zb.
    rewrite (f_pa2 _ _ _ _ _ Hx), (f_en _ _ _ _ _ Hx), b2z_z2b.
    unfold post_evs. cbn [rev app filter]. destruct (pe x); cbn [map finish]; [reflexivity|rewrite app_nil_r; reflexivity].
  - assert (Hne : pb y <> nb) by (intro E; apply Hn; right; left; exact E).
    assert (Hn' : ~ In nb (map pb (y :: r))) by (intro E; apply Hn; right; exact E).
    cbn [length] in Hf. cbn [headp]. unfold pptr. rewrite (hp_eq_blk _ _ _ _ Hne). zb.
    rewrite (IH y h _ fuel Hr Hn') by lia. cbv beta iota zeta.
    rewrite (f_pa2 _ _ _ _ _ Hx), (f_en _ _ _ _ _ Hx), b2z_z2b.
    unfold post_evs. cbn [rev]. rewrite !filter_app, !map_app. cbn [filter]. 
    destruct (pe x); cbn [map finish]; [rewrite <- !app_assoc; reflexivity|rewrite !app_nil_r; reflexivity].
Qed.

(* THEOREM 1: on a chain ps the pre actions are those of the enabled plugins, head first; the post actions those of the enabled
   plugins, tail first; the heap is not written *)
Theorem C17P_pre h p nb ps evs fuel : chain_at h p nb ps -> (length ps <= fuel)%nat ->
  run_pre fuel h evs (HPtr nb 0) p = FOk (tt, h, evs ++ pre_evs ps, HPtr nb 0).
Proof.
  intros [-> [Hl [_ [_ Hn]]]] Hf. unfold run_pre. destruct ps as [|x r].
  - cbn [headp]. rewrite hptr_eqb_refl. unfold pre_evs. cbn [filter map]. rewrite app_nil_r. reflexivity.
  - rewrite (headp_ne_null nb x r Hn). cbn [headp]. apply pre_walk; [exact Hl|exact Hn|cbn [length] in Hf; lia].
Qed.
Theorem C17P_post h p nb ps evs fuel : chain_at h p nb ps -> (length ps <= fuel)%nat ->
  run_post fuel h evs (HPtr nb 0) p = FOk (tt, h, evs ++ post_evs ps, HPtr nb 0).
Proof.
  intros [-> [Hl [_ [_ Hn]]]] Hf. unfold run_post. destruct ps as [|x r].
  - cbn [headp]. rewrite hptr_eqb_refl. unfold post_evs. cbn [rev filter map]. rewrite app_nil_r. reflexivity.
  - rewrite (headp_ne_null nb x r Hn). cbn [headp]. apply post_walk; [exact Hl|exact Hn|cbn [length] in Hf; lia].
Qed.

Definition ev_ptr (e : pcev) : hptr := match e with PPre p => p | PPost p => p end.
Lemma pre_evs_ptrs ps : map ev_ptr (pre_evs ps) = map pptr (filter pe ps).
Proof. unfold pre_evs. rewrite map_map. reflexivity. Qed.
Lemma post_evs_ptrs ps : map ev_ptr (post_evs ps) = map pptr (filter pe (rev ps)).
Proof. unfold post_evs. rewrite map_map. reflexivity. Qed.
Lemma filter_rev {A} (f : A -> bool) : forall l, filter f (rev l) = rev (filter f l).
Proof.
  induction l as [|a l IH]; [reflexivity|]. cbn [rev filter]. rewrite filter_app, IH. cbn [filter].
  destruct (f a); cbn [rev]; [reflexivity|apply app_nil_r].
Qed.
(* the plugins that see the end of a test are those that saw its start, in the exact reverse order *)
Theorem post_is_reverse_of_pre ps : map ev_ptr (post_evs ps) = rev (map ev_ptr (pre_evs ps)).
Proof. rewrite pre_evs_ptrs, post_evs_ptrs, filter_rev, map_rev. reflexivity. Qed.

Definition hptr_dec (p q : hptr) : {p = q} + {p <> q}.
Proof. decide equality; [apply Z.eq_dec|apply Nat.eq_dec]. Defined.

Lemma nodup_pptr : forall l, NoDup (map pb l) -> NoDup (map pptr (filter pe l)).
Proof.
  induction l as [|a l IH]; intro H; [constructor|]. cbn [map] in H. inversion H as [|x xs Hn Hd]; subst. cbn [filter].
  destruct (pe a); [|apply IH; exact Hd]. cbn [map]. constructor; [|apply IH; exact Hd].
  intro Hin. apply Hn. apply in_map_iff in Hin. destruct Hin as [y [Ey Hy]]. apply filter_In in Hy.
  apply in_map_iff. exists y. split; [|apply Hy]. unfold pptr in Ey. inversion Ey. reflexivity.
Qed.
(* every enabled plugin of the chain exactly once, a disabled one or one that is not installed never *)
Theorem pre_each_once h p nb ps : chain_at h p nb ps ->
  (forall x, In x ps -> pe x = true -> count_occ hptr_dec (map ev_ptr (pre_evs ps)) (pptr x) = 1%nat) /\
  (forall q, (forall x, In x ps -> pe x = true -> pptr x <> q) -> count_occ hptr_dec (map ev_ptr (pre_evs ps)) q = 0%nat).
Proof.
  intros [_ [_ [_ [Hnd _]]]]. rewrite pre_evs_ptrs. split.
  - intros x Hx He. apply NoDup_count_occ'; [apply nodup_pptr; exact Hnd|]. apply in_map. apply filter_In. split; assumption.
  - intros q Hq. apply count_occ_not_In. intro Hin. apply in_map_iff in Hin. destruct Hin as [x [Ex Hx]]. apply filter_In in Hx.
    apply (Hq x (proj1 Hx) (proj2 Hx) Ex).
Qed.

(* ================================================================== D: the registry operations that do not loop twice *)
Lemma reg_first_frame h h' rb f : hblock h' rb = hblock h rb -> reg_first h rb f -> reg_first h' rb f.
Proof. intros E H. unfold reg_first. rewrite E. exact H. Qed.

(* THEOREM 2: installPlugin links the object in front, whatever next_ it carries (`stale`: a new object carries the terminator,
   one that was removed by name or dropped by resetPlugins whatever it pointed at then) *)
Theorem C17P_install h rb nb ps x stale evs fuel : registry_at h rb nb ps ->
  hblock h (pb x) = pcells x stale -> ~ In (pb x) (map pb ps) -> pb x <> nb -> pb x <> rb ->
  exists h', src_registry_installPlugin fuel h evs (HPtr nb 0) (HPtr rb 0) (pptr x) = FOk (tt, h', evs, HPtr nb 0) /\
    registry_at h' rb nb (x :: ps) /\ length h' = length h /\
    (forall b, b <> rb -> b <> pb x -> hblock h' b = hblock h b) /\
    (forall k, k <> 3%nat -> nth_error (hblock h' rb) k = nth_error (hblock h rb) k).
Proof.
  intros [Hr [[_ [Hl [[a Ht] [Hnd Hnn]]]] [Hrn Hrp]]] Hx Hnp Hxn Hxr.
  set (h1 := upd h (pb x) (pcells x (headp nb ps))).
  assert (Hlt : (pb x < length h)%nat) by (apply hblock_lt; rewrite Hx; discriminate).
  assert (Hr1 : reg_first h1 rb (headp nb ps)).
  { apply (reg_first_frame h); [|exact Hr]. unfold h1. apply hblock_upd_other. exact Hxr. }
  exists (set_first h1 rb (pptr x)). split; [|split; [|split; [|split]]].
  - unfold src_registry_installPlugin, src_plugin_addPlugin. rewrite (r_pa3 _ _ _ Hr), (r_first _ _ _ Hr).
    unfold pptr. rewrite (f_st_next _ _ _ _ _ Hx). cbn [finish]. change (upd h (pb x) _) with h1.
    rewrite (r_pa3 _ _ _ Hr1), (r_st _ _ _ Hr1). reflexivity.
  - assert (Hfr : forall b, b <> rb -> b <> pb x -> hblock (set_first h1 rb (pptr x)) b = hblock h b).
    { intros b H1 H2. rewrite (set_first_other _ _ _ b H1). unfold h1. apply hblock_upd_other. intro E. apply H2. symmetry. exact E. }
    split; [apply (set_first_reg _ _ _ Hr1)|]. split; [|split; [exact Hrn|]].
    + split; [reflexivity|]. split; [|split; [|split]].
      * split.
        -- rewrite (set_first_other _ _ _ (pb x) Hxr). unfold h1. apply hblock_upd_same. exact Hlt.
        -- apply (links_ok_frame nb h); [|exact Hl]. intros b Hb. apply Hfr; intro E; subst b; contradiction.
      * exists a. apply (term_frame h); [|exact Ht]. apply Hfr; intro E; [apply Hrn|apply Hxn]; symmetry; exact E.
      * cbn [map]. constructor; assumption.
      * cbn [map]. intros [E|E]; [apply Hxn; exact E|contradiction].
    + cbn [map]. intros [E|E]; [apply Hxr; exact E|contradiction].
  - rewrite set_first_length. unfold h1. apply heap_upd_length.
  - intros b H1 H2. rewrite (set_first_other _ _ _ b H1). unfold h1. apply hblock_upd_other. intro E. apply H2. symmetry. exact E.
  - intros k Hk. rewrite (set_first_cells _ _ _ Hr1 _ k Hk). unfold h1. rewrite hblock_upd_other by exact Hxr. reflexivity.
Qed.

(* resetPlugins: the chain is empty; no plugin object is written (the dropped objects keep their links) *)
Theorem C17P_reset h rb nb ps evs fuel : registry_at h rb nb ps ->
  src_registry_resetPlugins fuel h evs (HPtr nb 0) (HPtr rb 0) = FOk (tt, set_first h rb (HPtr nb 0), evs, HPtr nb 0) /\
  registry_at (set_first h rb (HPtr nb 0)) rb nb [] /\ length (set_first h rb (HPtr nb 0)) = length h /\
  (forall b, b <> rb -> hblock (set_first h rb (HPtr nb 0)) b = hblock h b) /\
  (forall k, k <> 3%nat -> nth_error (hblock (set_first h rb (HPtr nb 0)) rb) k = nth_error (hblock h rb) k).
Proof.
  intros [Hr [[_ [Hl [[a Ht] [Hnd Hnn]]]] [Hrn Hrp]]]. split; [|split; [|split; [|split]]].
  - unfold src_registry_resetPlugins. rewrite (r_pa3 _ _ _ Hr), (r_st _ _ _ Hr). reflexivity.
  - split; [apply (set_first_reg _ _ _ Hr)|]. split; [|split; [exact Hrn|intros []]].
    split; [reflexivity|]. split; [exact I|]. split; [|split; [constructor|intros []]].
    exists a. apply (term_frame h); [|exact Ht]. apply set_first_other. intro E. apply Hrn. symmetry. exact E.
  - apply set_first_length.
  - intros b Hb. apply set_first_other. exact Hb.
  - intros k Hk. apply (set_first_cells _ _ _ Hr). exact Hk.
Qed.

Theorem C17P_getFirst h rb nb ps evs fuel : registry_at h rb nb ps ->
  src_registry_getFirstPlugin fuel h evs (HPtr nb 0) (HPtr rb 0) = FOk (headp nb ps, h, evs, HPtr nb 0).
Proof. intros [Hr _]. unfold src_registry_getFirstPlugin. rewrite (r_pa3 _ _ _ Hr), (r_first _ _ _ Hr). reflexivity. Qed.

(* enable / disable: the flag of that plugin, nothing else *)
Definition with_flag (x : prec) (e : bool) : prec := (pb x, pn x, e).
Lemma headp_flag nb l1 x e l2 : headp nb (l1 ++ with_flag x e :: l2) = headp nb (l1 ++ x :: l2).
Proof. destruct l1; reflexivity. Qed.
Lemma links_ok_flag nb h x e l2 : forall l1, links_ok h nb (l1 ++ x :: l2) -> NoDup (map pb (l1 ++ x :: l2)) ->
  links_ok (upd h (pb x) (pcells (with_flag x e) (headp nb l2))) nb (l1 ++ with_flag x e :: l2).
Proof.
  induction l1 as [|y l1 IH]; cbn [app map]; intros [Hy Hr] Hnd; inversion Hnd as [|z zs Hn Hd]; subst.
  - split.
    + change (pb (with_flag x e)) with (pb x). apply hblock_upd_same. apply hblock_lt. rewrite Hy. discriminate.
    + apply (links_ok_frame nb h); [|exact Hr]. intros b Hb. apply hblock_upd_other. intro E. subst b. contradiction.
  - split.
    + rewrite hblock_upd_other; [rewrite headp_flag; exact Hy|]. intro E. apply Hn. rewrite <- E, map_app. apply in_or_app. right. left. reflexivity.
    + apply IH; assumption.
Qed.
Lemma links_ok_mid nb h x l2 : forall l1, links_ok h nb (l1 ++ x :: l2) -> hblock h (pb x) = pcells x (headp nb l2).
Proof. induction l1 as [|y l1 IH]; cbn [app]; intros [Hy Hr]; [exact Hy|apply IH; exact Hr]. Qed.

Lemma set_flag_rep h rb nb l1 x l2 e : registry_at h rb nb (l1 ++ x :: l2) ->
  registry_at (upd h (pb x) (pcells (with_flag x e) (headp nb l2))) rb nb (l1 ++ with_flag x e :: l2).
Proof.
  intros [Hr [[_ [Hl [[a Ht] [Hnd Hnn]]]] [Hrn Hrp]]].
  assert (Em : map pb (l1 ++ with_flag x e :: l2) = map pb (l1 ++ x :: l2)) by (rewrite !map_app; reflexivity).
  assert (Hin : In (pb x) (map pb (l1 ++ x :: l2))) by (rewrite map_app; apply in_or_app; right; left; reflexivity).
  split; [|split; [|split; [exact Hrn|rewrite Em; exact Hrp]]].
  - rewrite headp_flag. apply (reg_first_frame h); [|exact Hr]. apply hblock_upd_other. intro E. apply Hrp. rewrite <- E. exact Hin.
  - split; [reflexivity|]. split; [apply links_ok_flag; assumption|]. split; [|rewrite Em; split; assumption].
    exists a. apply (term_frame h); [|exact Ht]. apply hblock_upd_other. intro E. apply Hnn. rewrite <- E. exact Hin.
Qed.

Theorem C17P_enable h rb nb l1 x l2 evs fuel : registry_at h rb nb (l1 ++ x :: l2) ->
  exists h', src_plugin_enable fuel h evs (HPtr nb 0) (pptr x) = FOk (tt, h', evs, HPtr nb 0) /\
    registry_at h' rb nb (l1 ++ with_flag x true :: l2) /\ length h' = length h /\ (forall b, b <> pb x -> hblock h' b = hblock h b).
Proof.
  intro H. pose proof H as [_ [[_ [Hl _]] _]]. pose proof (links_ok_mid nb h x l2 l1 Hl) as Hx.
  exists (upd h (pb x) (pcells (with_flag x true) (headp nb l2))). split; [|split; [apply set_flag_rep; exact H|split]].
  - unfold src_plugin_enable, pptr. unfold pcells in Hx. rewrite (f_pa2 _ _ _ _ _ Hx), (f_st_en _ _ _ _ _ Hx). reflexivity.
  - apply heap_upd_length.
  - intros b Hb. apply hblock_upd_other. intro E. apply Hb. symmetry. exact E.
Qed.
Theorem C17P_disable h rb nb l1 x l2 evs fuel : registry_at h rb nb (l1 ++ x :: l2) ->
  exists h', src_plugin_disable fuel h evs (HPtr nb 0) (pptr x) = FOk (tt, h', evs, HPtr nb 0) /\
    registry_at h' rb nb (l1 ++ with_flag x false :: l2) /\ length h' = length h /\ (forall b, b <> pb x -> hblock h' b = hblock h b).
Proof.
  intro H. pose proof H as [_ [[_ [Hl _]] _]]. pose proof (links_ok_mid nb h x l2 l1 Hl) as Hx.
  exists (upd h (pb x) (pcells (with_flag x false) (headp nb l2))). split; [|split; [apply set_flag_rep; exact H|split]].
  - unfold src_plugin_disable, pptr. unfold pcells in Hx. rewrite (f_pa2 _ _ _ _ _ Hx), (f_st_en _ _ _ _ _ Hx). reflexivity.
  - apply heap_upd_length.
  - intros b Hb. apply hblock_upd_other. intro E. apply Hb. symmetry. exact E.
Qed.

(* countPlugins *)
Lemma count_loop nb h fuel0 : forall ps count fuel, links_ok h nb ps -> ~ In nb (map pb ps) -> (length ps < fuel)%nat ->
  0 <= count -> count + Z.of_nat (length ps) < 2 ^ 31 ->
  src_registry_countPlugins_loop1 fuel0 fuel h (HPtr nb 0) count (headp nb ps) = Go (count + Z.of_nat (length ps), HPtr nb 0).
Proof.
  induction ps as [|x r IH]; intros count fuel Hl Hn Hf H0 Hc; (destruct fuel as [|fuel]; [cbn [length] in Hf; lia|]);
    cbn [src_registry_countPlugins_loop1 headp].
  - rewrite hp_ne_refl. zb. cbn [length]. rewrite Z.add_0_r. reflexivity.
  - destruct Hl as [Hx Hr]. unfold pptr. rewrite hp_ne_blk by (intro E; apply Hn; left; exact E). zb.
    unfold pcells in Hx. rewrite (f_next _ _ _ _ _ Hx). cbn [length] in Hf, Hc. rewrite Nat2Z.inj_succ in Hc.
    rewrite cw_s_small by lia. rewrite IH; [|exact Hr|intro E; apply Hn; right; exact E|lia|lia|lia].
    cbn [length]. rewrite Nat2Z.inj_succ. f_equal. f_equal. lia.
Qed.
Theorem C17P_count h rb nb ps evs fuel : registry_at h rb nb ps -> (length ps < fuel)%nat -> Z.of_nat (length ps) < 2 ^ 31 ->
  src_registry_countPlugins fuel h evs (HPtr nb 0) (HPtr rb 0) = FOk (Z.of_nat (length ps), h, evs, HPtr nb 0).
Proof.
  intros [Hr [[_ [Hl [_ [_ Hn]]]] _]] Hf Hc. unfold src_registry_countPlugins. rewrite (r_pa3 _ _ _ Hr), (r_first _ _ _ Hr).
  cbv zeta. rewrite (count_loop nb h fuel ps 0 fuel Hl Hn Hf) by lia. reflexivity.
Qed.

(* getPluginByName: the first plugin of that name; at the end of the chain the terminator is asked too (its name_ is "null"):
   NULL when the name asked for is not the terminator's, the terminator itself otherwise *)
Definition first_named (name : Z) (ps : list prec) : option prec := find (fun x => name =? pn x) ps.
Definition get_result (nb : nat) (a name : Z) (ps : list prec) : hptr :=
  match first_named name ps with
  | Some x => pptr x
  | None => if name =? a then HPtr nb 0 else HNull
  end.
Lemma get_walk nb h a name evs : term_at h nb a -> forall ps fuel, links_ok h nb ps -> (length ps < fuel)%nat ->
  src_plugin_getPluginByName fuel h evs (HPtr nb 0) (headp nb ps) name = FOk (get_result nb a name ps, h, evs, HPtr nb 0).
Proof.
  intros [c Ht]. induction ps as [|x r IH]; intros fuel Hl Hf; (destruct fuel as [|fuel]; [cbn [length] in Hf; lia|]);
    cbn [src_plugin_getPluginByName headp]; unfold get_result, first_named; cbn [find].
  - rewrite (f_pa1 _ _ _ _ _ Ht), (f_name _ _ _ _ _ Ht). unfold c_eq. rewrite b2z_z2b. destruct (name =? a); [reflexivity|].
    rewrite (f_next _ _ _ _ _ Ht). rewrite hp_bool_null. zb. reflexivity.
  - destruct Hl as [Hx Hr]. unfold pptr, pcells in *. rewrite (f_pa1 _ _ _ _ _ Hx), (f_name _ _ _ _ _ Hx). unfold c_eq. rewrite b2z_z2b.
    destruct (name =? pn x); [reflexivity|]. rewrite (f_next _ _ _ _ _ Hx).
    assert (Eb : hp_bool (headp nb r) = 1) by (destruct r; reflexivity). rewrite Eb. zb.
    cbn [length] in Hf. rewrite (IH fuel Hr) by lia. reflexivity.
Qed.
(* THEOREM 4 *)
Theorem C17P_getByName h rb nb ps a name evs fuel : registry_at h rb nb ps -> term_at h nb a -> (length ps < fuel)%nat ->
  src_registry_getPluginByName fuel h evs (HPtr nb 0) (HPtr rb 0) name = FOk (get_result nb a name ps, h, evs, HPtr nb 0).
Proof.
  intros [Hr [[_ [Hl _]] _]] Ht Hf. unfold src_registry_getPluginByName. rewrite (r_pa3 _ _ _ Hr), (r_first _ _ _ Hr).
  rewrite (get_walk nb h a name evs Ht ps fuel Hl Hf). reflexivity.
Qed.
Corollary C17P_getByName_found h rb nb ps a name evs fuel : registry_at h rb nb ps -> term_at h nb a -> a <> name -> (length ps < fuel)%nat ->
  src_registry_getPluginByName fuel h evs (HPtr nb 0) (HPtr rb 0) name =
  FOk (match first_named name ps with Some x => pptr x | None => HNull end, h, evs, HPtr nb 0).
Proof.
  intros H Ht Hne Hf. rewrite (C17P_getByName h rb nb ps a name evs fuel H Ht Hf). unfold get_result.
  destruct (Z.eqb_spec name a) as [E|_]; [exfalso; apply Hne; symmetry; exact E|reflexivity].
Qed.

(* ================================================================== E: removePluginByName *)
Definition named_z (name : Z) (x : prec) : bool := pn x =? name.
Fixpoint drop_named (name : Z) (ps : list prec) : list prec :=
  match ps with
  | [] => []
  | x :: r => if named_z name x then drop_named name r else ps
  end.
(* the textbook result: every plugin of that name gone, the others in their order *)
Definition keep (name : Z) (ps : list prec) : list prec := filter (fun x => negb (named_z name x)) ps.

Lemma drop_named_suffix name : forall ps, exists pre, ps = pre ++ drop_named name ps.
Proof.
  induction ps as [|x r [pre E]]; [exists []; reflexivity|]. cbn [drop_named]. destruct (named_z name x).
  - exists (x :: pre). cbn [app]. rewrite <- E. reflexivity.
  - exists []. reflexivity.
Qed.
Lemma keep_drop name : forall ps, keep name ps = keep name (drop_named name ps).
Proof.
  induction ps as [|x r IH]; [reflexivity|]. cbn [drop_named]. destruct (named_z name x) eqn:E; [|reflexivity].
  unfold keep in *. cbn [filter]. rewrite E. exact IH.
Qed.
Lemma drop_head_not name : forall ps y r, drop_named name ps = y :: r -> named_z name y = false.
Proof.
  induction ps as [|x ps IH]; intros y r H; [discriminate H|]. cbn [drop_named] in H. destruct (named_z name x) eqn:E.
  - apply (IH y r H).
  - inversion H; subst. exact E.
Qed.
Lemma links_ok_suffix nb h s : forall pre, links_ok h nb (pre ++ s) -> links_ok h nb s.
Proof. induction pre as [|x pre IH]; cbn [app]; [intro H; exact H|intros [_ H]; apply IH; exact H]. Qed.
Lemma in_keep name b : forall r, In b (map pb (keep name r)) -> In b (map pb r).
Proof.
  intros r H. apply in_map_iff in H. destruct H as [y [Ey Hy]]. apply filter_In in Hy. apply in_map_iff. exists y. split; [exact Ey|apply Hy].
Qed.
Lemma nodup_keep name : forall r, NoDup (map pb r) -> NoDup (map pb (keep name r)).
Proof.
  induction r as [|x r IH]; intro H; [constructor|]. cbn [map] in H. inversion H as [|z zs Hn Hd]; subst. unfold keep. cbn [filter].
  destruct (negb (named_z name x)); [|apply IH; exact Hd]. cbn [map]. constructor; [|apply IH; exact Hd].
  intro Hin. apply Hn. apply (in_keep name). exact Hin.
Qed.
Lemma nodup_map_suffix (s : list prec) : forall pre, NoDup (map pb (pre ++ s)) -> NoDup (map pb s).
Proof. induction pre as [|x pre IH]; cbn [app map]; intro H; [exact H|]. inversion H; subst. apply IH. assumption. Qed.
Lemma length_suffix (pre s : list prec) : (length s <= length (pre ++ s))%nat.
Proof. rewrite app_length. lia. Qed.

Section Remove.
  Variables (rb nb : nat) (name : Z) (evs : list pcev) (fuel0 : nat).
  Hypothesis Hrn : rb <> nb.

  (* first loop: while (firstPlugin_ != end && firstPlugin_->getName() == name) firstPlugin_ = firstPlugin_->getNext(); *)
  Lemma rm_loop1 : forall ps h fuel, reg_first h rb (headp nb ps) -> links_ok h nb ps -> ~ In nb (map pb ps) -> ~ In rb (map pb ps) ->
    (length ps < fuel)%nat ->
    exists h', src_registry_removePluginByName_loop1 fuel0 fuel (HPtr rb 0) name (HPtr nb 0) h = Go h' /\
      reg_first h' rb (headp nb (drop_named name ps)) /\ length h' = length h /\
      (forall b, b <> rb -> hblock h' b = hblock h b) /\
      (forall k, k <> 3%nat -> nth_error (hblock h' rb) k = nth_error (hblock h rb) k).
  Proof.
    induction ps as [|x r IH]; intros h fuel Hr Hl Hn Hp Hf; (destruct fuel as [|fuel]; [cbn [length] in Hf; lia|]);
      cbn [src_registry_removePluginByName_loop1]; rewrite (r_pa3 _ _ _ Hr), (r_first _ _ _ Hr); cbn [headp].
    - rewrite hp_ne_refl. zb. exists h. split; [reflexivity|]. split; [exact Hr|]. split; [reflexivity|]. split; intros; reflexivity.
    - destruct Hl as [Hx Hl]. unfold pptr. rewrite hp_ne_blk by (intro E; apply Hn; left; exact E). zb.
      unfold pcells in Hx. rewrite (f_pa1 _ _ _ _ _ Hx), (f_name _ _ _ _ _ Hx). unfold c_eq. rewrite b2z_z2b.
      cbn [drop_named]. unfold named_z. destruct (pn x =? name).
      + rewrite (f_next _ _ _ _ _ Hx), (r_st _ _ _ Hr).
        assert (Hxr : pb x <> rb) by (intro E; apply Hp; left; exact E).
        destruct (IH (set_first h rb (headp nb r)) fuel) as [h' [E1 [R1 [L1 [F1 C1]]]]].
        * apply (set_first_reg _ _ _ Hr).
        * apply (links_ok_frame nb h); [|exact Hl]. intros b Hb. apply set_first_other. intro E. subst b. apply Hp. right. exact Hb.
        * intro E. apply Hn. right. exact E.
        * intro E. apply Hp. right. exact E.
        * cbn [length] in Hf. lia.
        * exists h'. split; [exact E1|]. split; [exact R1|]. split; [rewrite L1; apply set_first_length|]. split.
          -- intros b Hb. rewrite (F1 b Hb). apply set_first_other. exact Hb.
          -- intros k Hk. rewrite (C1 k Hk). apply (set_first_cells _ _ _ Hr). exact Hk.
      + exists h. split; [reflexivity|]. split; [exact Hr|]. split; [reflexivity|]. split; intros; reflexivity.
  Qed.

  (* the inner loop, standing on plugin x: while (plugin->getNext() != end && plugin->removePluginByName(name) != NULLPTR) {} *)
  Lemma rm_loop3 : forall r h fuel x, hblock h (pb x) = pcells x (headp nb r) -> links_ok h nb r -> NoDup (map pb (x :: r)) ->
    ~ In nb (map pb (x :: r)) -> (length r < fuel)%nat ->
    exists h', src_registry_removePluginByName_loop3 fuel0 fuel name (HPtr nb 0) (pptr x) h evs (HPtr nb 0) = Go (h', evs, HPtr nb 0) /\
      hblock h' (pb x) = pcells x (headp nb (drop_named name r)) /\ length h' = length h /\
      (forall b, b <> pb x -> hblock h' b = hblock h b).
  Proof.
    induction r as [|y r IH]; intros h fuel x Hx Hl Hnd Hn Hf; (destruct fuel as [|fuel]; [cbn [length] in Hf; lia|]);
      unfold pptr; cbn [src_registry_removePluginByName_loop3]; pose proof Hx as Hx'; unfold pcells in Hx'; rewrite (f_next _ _ _ _ _ Hx'); cbn [headp].
    - rewrite hp_ne_refl. zb. exists h. split; [reflexivity|]. split; [exact Hx|]. split; [reflexivity|]. intros; reflexivity.
    - destruct Hl as [Hy Hl]. unfold pptr. rewrite hp_ne_blk by (intro E; apply Hn; right; left; exact E). zb.
      unfold src_plugin_removePluginByName. cbv zeta. rewrite (f_next _ _ _ _ _ Hx'). cbn [headp]. unfold pptr. rewrite hp_bool_ptr. zb.
      pose proof Hy as Hy'. unfold pcells in Hy'. rewrite (f_pa1 _ _ _ _ _ Hy'), (f_name _ _ _ _ _ Hy'). unfold c_eq. rewrite b2z_z2b.
      cbn [drop_named]. unfold named_z. destruct (pn y =? name).
      + rewrite (f_next _ _ _ _ _ Hy'), (f_st_next _ _ _ _ _ Hx'). cbn [finish]. cbv beta iota.
        change (hp_ne (HPtr (pb y) 0) HNull) with 1. zb.
        cbn [map] in Hnd. inversion Hnd as [|z zs Hnx Hd]; subst. inversion Hd as [|z zs Hny Hd']; subst.
        assert (Hlt : (pb x < length h)%nat) by (apply hblock_lt; rewrite Hx; discriminate).
        destruct (IH (upd h (pb x) [VPtr (headp nb r); VInt (pn x); VInt (b2z (pe x))]) fuel x) as [h' [E1 [X1 [L1 F1]]]].
        * apply hblock_upd_same. exact Hlt.
        * apply (links_ok_frame nb h); [|exact Hl]. intros b Hb. apply hblock_upd_other. intro E. subst b. apply Hnx. right. exact Hb.
        * cbn [map]. constructor; [intro E; apply Hnx; right; exact E|exact Hd'].
        * cbn [map]. intros [E|E]; apply Hn; [left; exact E|right; right; exact E].
        * cbn [length] in Hf. lia.
        * unfold pptr in E1. exists h'. split; [exact E1|]. split; [exact X1|]. split; [rewrite L1; apply heap_upd_length|].
          intros b Hb. rewrite (F1 b Hb). apply hblock_upd_other. intro E. apply Hb. symmetry. exact E.
      + cbn [finish]. cbv beta iota. rewrite hp_ne_refl. zb.
        exists h. split; [reflexivity|]. split; [exact Hx|]. split; [reflexivity|]. intros; reflexivity.
  Qed.

  Lemma rm_loop2_end h fuel : (0 < fuel)%nat ->
    src_registry_removePluginByName_loop2 fuel0 fuel name (HPtr nb 0) h evs (HPtr nb 0) (HPtr nb 0) = Go (h, evs, HPtr nb 0, HPtr nb 0).
  Proof. clear Hrn. intro H. destruct fuel as [|fuel]; [lia|]. cbn [src_registry_removePluginByName_loop2]. rewrite hp_ne_refl. zb. reflexivity. Qed.

  (* the outer loop: for (plugin = firstPlugin_; plugin != end; plugin = plugin->getNext()) <inner loop> *)
  Lemma rm_loop2 : forall n r x h fuel, (length r < n)%nat -> hblock h (pb x) = pcells x (headp nb r) -> links_ok h nb r ->
    NoDup (map pb (x :: r)) -> ~ In nb (map pb (x :: r)) -> (length r < fuel0)%nat -> (S (length r) < fuel)%nat ->
    exists h', src_registry_removePluginByName_loop2 fuel0 fuel name (HPtr nb 0) h evs (HPtr nb 0) (pptr x) = Go (h', evs, HPtr nb 0, HPtr nb 0) /\
      links_ok h' nb (x :: keep name r) /\ length h' = length h /\
      (forall b, ~ In b (map pb (x :: keep name r)) -> hblock h' b = hblock h b).
  Proof.
    induction n as [|n IH]; intros r x h fuel Hlen Hx Hl Hnd Hn Hf0 Hf; [lia|].
    destruct fuel as [|fuel]; [lia|]. unfold pptr. cbn [src_registry_removePluginByName_loop2].
    rewrite hp_ne_blk by (intro E; apply Hn; left; exact E). zb.
    destruct (rm_loop3 r h fuel0 x Hx Hl Hnd Hn Hf0) as [h1 [E1 [X1 [L1 F1]]]]. unfold pptr in E1. rewrite E1. cbv beta iota.
    pose proof X1 as X1'. unfold pcells in X1'. rewrite (f_next _ _ _ _ _ X1'). cbv zeta.
    destruct (drop_named_suffix name r) as [pre Epre].
    cbn [map] in Hnd. inversion Hnd as [|z zs Hnx Hd]; subst.
    rewrite (keep_drop name r).
    destruct (drop_named name r) as [|y r2] eqn:Ed.
    - cbn [headp]. rewrite rm_loop2_end by lia.
      exists h1. split; [reflexivity|]. split; [split; [exact X1|exact I]|]. split; [exact L1|].
      intros b Hb. apply F1. intro E. apply Hb. left. symmetry. exact E.
    - assert (Hy : named_z name y = false) by (apply (drop_head_not name r y r2 Ed)).
      assert (Hl1 : links_ok h1 nb (y :: r2)).
      { apply (links_ok_frame nb h).
        - intros b Hb. apply F1. intro E. subst b. apply Hnx. rewrite Epre, map_app. apply in_or_app. right. exact Hb.
        - apply (links_ok_suffix nb h (y :: r2) pre). rewrite <- Epre. exact Hl. }
      assert (Hnd2 : NoDup (map pb (y :: r2))) by (apply (nodup_map_suffix (y :: r2) pre); rewrite <- Epre; exact Hd).
      assert (Hsub : forall b, In b (map pb (y :: r2)) -> In b (map pb r)).
      { intros b Hb. rewrite Epre, map_app. apply in_or_app. right. exact Hb. }
      assert (Hlen2 : (S (length r2) <= length r)%nat).
      { pose proof (length_suffix pre (y :: r2)) as Hs. rewrite <- Epre in Hs. cbn [length] in Hs. exact Hs. }
      destruct Hl1 as [Hy1 Hl2].
      destruct (IH r2 y h1 fuel) as [h' [E2 [K2 [L2 F2]]]]; [lia|exact Hy1|exact Hl2|exact Hnd2| |lia|lia|].
      { intro Hb. apply Hn. right. apply Hsub. exact Hb. }
      cbn [headp]. unfold pptr in E2 |- *. rewrite E2.
      assert (Ek : keep name (y :: r2) = y :: keep name r2) by (unfold keep; cbn [filter]; rewrite Hy; reflexivity).
      rewrite Ek. exists h'. split; [reflexivity|].
      assert (Hxk : ~ In (pb x) (map pb (y :: keep name r2))).
      { intro Hb. apply Hnx. apply Hsub. cbn [map] in Hb |- *. destruct Hb as [Hb|Hb]; [left; exact Hb|right; apply (in_keep name); exact Hb]. }
      split; [|split; [rewrite L2; exact L1|]].
      + split; [|exact K2]. rewrite (F2 (pb x) Hxk). exact X1.
      + intros b Hb. rewrite F2 by (intro E; apply Hb; right; exact E). apply F1. intro E. apply Hb. left. symmetry. exact E.
  Qed.

  (* THEOREM 3: TestRegistry::removePluginByName removes EVERY plugin of that name (the run at the head and every later one), keeps
     the others in their order, and writes no cell of a removed plugin (its next_ stays as it was: stale) nor any other block *)
  Theorem C17P_remove h ps : registry_at h rb nb ps -> (length ps < fuel0)%nat ->
    exists h', src_registry_removePluginByName fuel0 h evs (HPtr nb 0) (HPtr rb 0) name = FOk (tt, h', evs, HPtr nb 0) /\
      registry_at h' rb nb (keep name ps) /\ length h' = length h /\
      (forall b, b <> rb -> ~ In b (map pb (keep name ps)) -> hblock h' b = hblock h b) /\
      (forall k, k <> 3%nat -> nth_error (hblock h' rb) k = nth_error (hblock h rb) k).
  Proof.
    intros [Hr [[_ [Hl [[a Ht] [Hnd Hnn]]]] [_ Hrp]]] Hf. unfold src_registry_removePluginByName. cbv zeta.
    destruct (rm_loop1 ps h fuel0 Hr Hl Hnn Hrp Hf) as [h1 [E1 [R1 [L1 [F1 C1]]]]]. rewrite E1.
    rewrite (r_pa3 _ _ _ R1), (r_first _ _ _ R1).
    destruct (drop_named_suffix name ps) as [pre Epre]. rewrite (keep_drop name ps).
    destruct (drop_named name ps) as [|x r] eqn:Ed.
    - cbn [headp]. rewrite rm_loop2_end by lia. cbn [finish].
      exists h1. split; [reflexivity|]. split; [|split; [exact L1|split; [intros b Hb _; apply F1; exact Hb|exact C1]]].
      split; [exact R1|]. split; [|split; [exact Hrn|intros []]].
      split; [reflexivity|]. split; [exact I|]. split; [|split; [constructor|intros []]].
      exists a. apply (term_frame h); [|exact Ht]. apply F1. intro E. apply Hrn. symmetry. exact E.
    - assert (Hsub : forall b, In b (map pb (x :: r)) -> In b (map pb ps)).
      { intros b Hb. rewrite Epre, map_app. apply in_or_app. right. exact Hb. }
      assert (Hl1 : links_ok h1 nb (x :: r)).
      { apply (links_ok_frame nb h).
        - intros b Hb. apply F1. intro E. subst b. apply Hrp. apply Hsub. exact Hb.
        - apply (links_ok_suffix nb h (x :: r) pre). rewrite <- Epre. exact Hl. }
      assert (Hnd1 : NoDup (map pb (x :: r))) by (apply (nodup_map_suffix (x :: r) pre); rewrite <- Epre; exact Hnd).
      assert (Hlen : (S (length r) <= length ps)%nat).
      { pose proof (length_suffix pre (x :: r)) as Hs. rewrite <- Epre in Hs. cbn [length] in Hs. exact Hs. }
      assert (Hx : named_z name x = false) by (apply (drop_head_not name ps x r Ed)).
      destruct Hl1 as [Hx1 Hl2].
      destruct (rm_loop2 (S (length r)) r x h1 fuel0) as [h' [E2 [K2 [L2 F2]]]]; [lia|exact Hx1|exact Hl2|exact Hnd1| |lia|lia|].
      { intro Hb. apply Hnn. apply Hsub. exact Hb. }
      cbn [headp]. unfold pptr in E2 |- *. rewrite E2. cbn [finish].
      assert (Ek : keep name (x :: r) = x :: keep name r) by (unfold keep; cbn [filter]; rewrite Hx; reflexivity).
      rewrite Ek. exists h'. split; [reflexivity|].
      assert (Hks : forall b, In b (map pb (x :: keep name r)) -> In b (map pb ps)).
      { intros b Hb. apply Hsub. cbn [map] in Hb |- *. destruct Hb as [Hb|Hb]; [left; exact Hb|right; apply (in_keep name); exact Hb]. }
      assert (Hrk : ~ In rb (map pb (x :: keep name r))) by (intro Hb; apply Hrp; apply Hks; exact Hb).
      assert (Hnk : ~ In nb (map pb (x :: keep name r))) by (intro Hb; apply Hnn; apply Hks; exact Hb).
      split; [|split; [rewrite L2; exact L1|split]].
      + split; [|split; [|split; [exact Hrn|exact Hrk]]].
        * apply (reg_first_frame h1); [apply F2; exact Hrk|exact R1].
        * split; [reflexivity|]. split; [exact K2|]. split; [|split; [|exact Hnk]].
          -- exists a. apply (term_frame h); [|exact Ht]. rewrite (F2 nb Hnk). apply F1. intro E. apply Hrn. symmetry. exact E.
          -- rewrite <- Ek. apply nodup_keep. exact Hnd1.
      + intros b Hb1 Hb2. rewrite (F2 b Hb2). apply F1. exact Hb1.
      + intros k Hk. rewrite (F2 rb Hrk). apply C1. exact Hk.
  Qed.
End Remove.

Lemma removed_not_kept name : forall ps x, NoDup (map pb ps) -> In x ps -> pn x = name -> ~ In (pb x) (map pb (keep name ps)).
Proof.
  intros ps x Hnd Hx Hname Hin. apply in_map_iff in Hin. destruct Hin as [y [Ey Hy]]. unfold keep in Hy. apply filter_In in Hy. destruct Hy as [Hy Hny].
  assert (y = x); [|subst y; unfold named_z in Hny; rewrite Hname, Z.eqb_refl in Hny; discriminate Hny].
  clear -Hnd Hx Hy Ey. induction ps as [|z ps IH]; [destruct Hx|]. cbn [map] in Hnd. inversion Hnd as [|w ws Hn Hd]; subst.
  destruct Hx as [->|Hx], Hy as [->|Hy]; [reflexivity| | |apply IH; assumption].
  - exfalso. apply Hn. rewrite <- Ey. apply in_map. exact Hy.
  - exfalso. apply Hn. rewrite Ey. apply in_map. exact Hx.
Qed.

(* what is removed keeps its cells: a removed plugin's next_ still points where it pointed *)
Corollary C17P_removed_keep_cells rb nb name evs h ps fuel h' : rb <> nb -> registry_at h rb nb ps ->
  src_registry_removePluginByName fuel h evs (HPtr nb 0) (HPtr rb 0) name = FOk (tt, h', evs, HPtr nb 0) -> (length ps < fuel)%nat ->
  forall x, In x ps -> pn x = name -> hblock h' (pb x) = hblock h (pb x).
Proof.
  intros Hrn H E Hf x Hx Hname. destruct (C17P_remove rb nb name evs fuel Hrn h ps H Hf) as [h2 [E2 [_ [_ [F _]]]]].
  rewrite E in E2. inversion E2; subst h2. destruct H as [_ [[_ [_ [_ [Hnd _]]]] [_ Hrp]]]. apply F.
  - intro Eb. apply Hrp. rewrite <- Eb. apply in_map. exact Hx.
  - apply removed_not_kept; assumption.
Qed.

(* ... and the removed object can be handed to installPlugin again: it is the new head, in front of the plugins that stayed *)
Corollary C17P_reinstall_removed rb nb name evs h ps fuel x : rb <> nb -> registry_at h rb nb ps -> (length ps < fuel)%nat ->
  In x ps -> pn x = name ->
  exists h1 h2, src_registry_removePluginByName fuel h evs (HPtr nb 0) (HPtr rb 0) name = FOk (tt, h1, evs, HPtr nb 0) /\
    src_registry_installPlugin fuel h1 evs (HPtr nb 0) (HPtr rb 0) (pptr x) = FOk (tt, h2, evs, HPtr nb 0) /\
    registry_at h2 rb nb (x :: keep name ps).
Proof.
  intros Hrn H Hf Hx Hname. destruct (C17P_remove rb nb name evs fuel Hrn h ps H Hf) as [h1 [E1 [R1 [_ [F1 _]]]]].
  pose proof H as [_ [[_ [Hl [_ [Hnd Hnn]]]] [_ Hrp]]]. destruct (links_ok_in nb h ps x Hl Hx) as [nx Hb].
  assert (Hk : ~ In (pb x) (map pb (keep name ps))) by (apply removed_not_kept; assumption).
  assert (Hxr : pb x <> rb) by (intro Eb; apply Hrp; rewrite <- Eb; apply in_map; exact Hx).
  assert (Hxn : pb x <> nb) by (intro Eb; apply Hnn; rewrite <- Eb; apply in_map; exact Hx).
  assert (Hb1 : hblock h1 (pb x) = pcells x nx) by (rewrite (F1 (pb x) Hxr Hk); exact Hb).
  destruct (C17P_install h1 rb nb (keep name ps) x nx evs fuel R1 Hb1 Hk Hxn Hxr) as [h2 [E2 [R2 _]]].
  exists h1, h2. split; [exact E1|]. split; [exact E2|exact R2].
Qed.

(* ================================================================== F: the link level of the model *)
(* C17_Model.v: a plugin object `obj` has a name and a next_ link (None = the terminator), `links` = firstPlugin_ + the objects
   (latest binding first).  Object i of the model is the 3-cell block bk i of the heap; D = the objects that exist. *)
Lemma zofn_eqb a b : (Z.of_N a =? Z.of_N b) = N.eqb a b.
Proof.
  destruct (N.eqb_spec a b) as [E|E]; [subst; apply Z.eqb_refl|]. apply Z.eqb_neq. intro H. apply E. apply N2Z.inj. exact H.
Qed.

Section Links.
  Variables (rb nb : nat) (bk : nat -> nat).
  Implicit Types (D : nat -> Prop) (on : nat -> bool) (os : list obj) (L : links) (h : heap).
  Definition optr (f : C17_Model.ptr) : hptr := match f with None => HPtr nb 0 | Some j => HPtr (bk j) 0 end.
  Definition ocells (os : list obj) (on : nat -> bool) (i : nat) : list val :=
    [VPtr (optr (nxt os i)); VInt (Z.of_N (oname os i)); VInt (b2z (on i))].
  (* distinct objects are distinct blocks, none is the terminator or the registry *)
  Record geo (D : nat -> Prop) : Prop := {
    g_inj : forall i j, D i -> D j -> bk i = bk j -> i = j;
    g_nb : forall i, D i -> bk i <> nb;
    g_rb : forall i, D i -> bk i <> rb;
    g_rn : rb <> nb }.
  (* every object that exists is a block holding its link, its name, its flag; links lead to objects that exist *)
  Definition objs_at (h : heap) (D : nat -> Prop) (on : nat -> bool) (os : list obj) : Prop :=
    (forall i, D i -> hblock h (bk i) = ocells os on i) /\ (forall i j, D i -> nxt os i = Some j -> D j).
  Definition closed (D : nat -> Prop) (f : C17_Model.ptr) : Prop := forall j, f = Some j -> D j.
  Definition links_at (h : heap) (D : nat -> Prop) (on : nat -> bool) (L : links) : Prop :=
    geo D /\ reg_first h rb (optr (l_first L)) /\ objs_at h D on (l_objs L) /\ closed D (l_first L).

  Lemma objs_at_frame h h' D on os : (forall i, D i -> hblock h' (bk i) = hblock h (bk i)) -> objs_at h D on os -> objs_at h' D on os.
  Proof. intros F [H1 H2]. split; [intros i Hi; rewrite (F i Hi); apply H1; exact Hi|exact H2]. Qed.
  Lemma closed_nxt h D on os i : objs_at h D on os -> D i -> closed D (nxt os i).
  Proof. intros [_ H] Hi j Hj. apply (H i j Hi Hj). Qed.
  Lemma optr_ne_null D f : geo D -> closed D f -> hptr_eqb (optr f) (HPtr nb 0) = match f with None => true | Some _ => false end.
  Proof.
    intros G C. destruct f as [j|]; cbn [optr]; [|apply hptr_eqb_refl]. apply hptr_eqb_blk. apply (g_nb D G). apply C. reflexivity.
  Qed.
  (* a store into the link of object p *)
  Lemma objs_at_set_next h D on os p v : geo D -> objs_at h D on os -> D p -> closed D v ->
    objs_at (upd h (bk p) [VPtr (optr v); VInt (Z.of_N (oname os p)); VInt (b2z (on p))]) D on (set_next os p v).
  Proof.
    intros G [H1 H2] Hp Cv. split.
    - intros i Hi. unfold ocells. rewrite oname_set. destruct (Nat.eq_dec i p) as [->|Hne].
      + rewrite nxt_set_same. apply hblock_upd_same. apply hblock_lt. rewrite (H1 p Hp). discriminate.
      + rewrite nxt_set_other by exact Hne. rewrite hblock_upd_other; [apply H1; exact Hi|]. intro E. apply Hne. symmetry.
        apply (g_inj D G p i Hp Hi E).
    - intros i j Hi. destruct (Nat.eq_dec i p) as [->|Hne].
      + rewrite nxt_set_same. intro E. apply Cv. exact E.
      + rewrite nxt_set_other by exact Hne. apply H2. exact Hi.
  Qed.

  (* ---- installPlugin = l_install: NO hypothesis that the object is outside the chain -- the model's links become circular
     exactly when the heap's do *)
  Theorem C17P_l_install h D on L i evs fuel : links_at h D on L -> D i ->
    exists h', src_registry_installPlugin fuel h evs (HPtr nb 0) (HPtr rb 0) (HPtr (bk i) 0) = FOk (tt, h', evs, HPtr nb 0) /\
      links_at h' D on (l_install i L) /\ length h' = length h /\
      (forall b, b <> rb -> b <> bk i -> hblock h' b = hblock h b) /\
      (forall k, k <> 3%nat -> nth_error (hblock h' rb) k = nth_error (hblock h rb) k).
  Proof.
    intros [G [Hr [Ho Cf]]] Hi. pose proof Ho as [H1 H2].
    set (h1 := upd h (bk i) [VPtr (optr (l_first L)); VInt (Z.of_N (oname (l_objs L) i)); VInt (b2z (on i))]).
    assert (Hir : bk i <> rb) by (apply (g_rb D G); exact Hi).
    assert (Hr1 : reg_first h1 rb (optr (l_first L))).
    { apply (reg_first_frame h); [|exact Hr]. unfold h1. apply hblock_upd_other. exact Hir. }
    exists (set_first h1 rb (HPtr (bk i) 0)). split; [|split; [|split; [|split]]].
    - unfold src_registry_installPlugin, src_plugin_addPlugin. rewrite (r_pa3 _ _ _ Hr), (r_first _ _ _ Hr).
      pose proof (H1 i Hi) as Hx. unfold ocells in Hx. rewrite (f_st_next _ _ _ _ _ Hx). cbn [finish]. change (upd h (bk i) _) with h1.
      rewrite (r_pa3 _ _ _ Hr1), (r_st _ _ _ Hr1). reflexivity.
    - split; [exact G|]. split; [apply (set_first_reg _ _ _ Hr1)|]. split.
      + cbn [l_install l_objs]. apply (objs_at_frame h1).
        * intros j Hj. apply set_first_other. apply (g_rb D G). exact Hj.
        * unfold h1. apply objs_at_set_next; assumption.
      + intros j Hj. cbn [l_install l_first] in Hj. inversion Hj; subst. exact Hi.
    - rewrite set_first_length. unfold h1. apply heap_upd_length.
    - intros b Hb1 Hb2. rewrite (set_first_other _ _ _ b Hb1). unfold h1. apply hblock_upd_other. intro E. apply Hb2. symmetry. exact E.
    - intros k Hk. rewrite (set_first_cells _ _ _ Hr1 _ k Hk). unfold h1. rewrite hblock_upd_other by exact Hir. reflexivity.
  Qed.

  (* ---- resetPlugins = l_reset *)
  Theorem C17P_l_reset h D on L evs fuel : links_at h D on L ->
    src_registry_resetPlugins fuel h evs (HPtr nb 0) (HPtr rb 0) = FOk (tt, set_first h rb (HPtr nb 0), evs, HPtr nb 0) /\
    links_at (set_first h rb (HPtr nb 0)) D on (l_reset L) /\
    (forall b, b <> rb -> hblock (set_first h rb (HPtr nb 0)) b = hblock h b).
  Proof.
    intros [G [Hr [Ho Cf]]]. split; [|split].
    - unfold src_registry_resetPlugins. rewrite (r_pa3 _ _ _ Hr), (r_st _ _ _ Hr). reflexivity.
    - split; [exact G|]. split; [apply (set_first_reg _ _ _ Hr)|]. split; [|intros j Hj; discriminate Hj].
      cbn [l_reset l_objs]. apply (objs_at_frame h); [|exact Ho]. intros j Hj. apply set_first_other. apply (g_rb D G). exact Hj.
    - intros b Hb. apply set_first_other. exact Hb.
  Qed.

  (* ---- TestPlugin::TestPlugin(name) is not translated (a constructor): a block that holds what it writes represents l_new *)
  Lemma rep_l_new h D on L i n : links_at h D on L -> ~ D i -> (forall j, D j -> bk j <> bk i) -> bk i <> nb -> bk i <> rb ->
    hblock h (bk i) = [VPtr (HPtr nb 0); VInt (Z.of_N n); VInt (b2z (on i))] ->
    links_at h (fun j => j = i \/ D j) on (l_new i n L).
  Proof.
    intros [G [Hr [[H1 H2] Cf]]] Hni Hfresh Hin Hir Hb. split; [|split; [exact Hr|split; [split|]]].
    - split; [|intros j [->|Hj]; [exact Hin|apply (g_nb D G); exact Hj]|intros j [->|Hj]; [exact Hir|apply (g_rb D G); exact Hj]|apply (g_rn D G)].
      intros a b [->|Ha] [->|Hb'] E; [reflexivity| | |apply (g_inj D G); assumption].
      + exfalso. apply (Hfresh b Hb'). symmetry. exact E.
      + exfalso. apply (Hfresh a Ha). exact E.
    - intros j [->|Hj]; unfold ocells; cbn [l_new l_objs].
      + rewrite oname_new_same. unfold nxt. rewrite lookup_cons. cbn [o_id]. rewrite Nat.eqb_refl. cbn [o_next optr]. exact Hb.
      + assert (Hne : j <> i) by (intro E; subst j; contradiction).
        rewrite oname_new_other by exact Hne. rewrite nxt_new_other by exact Hne. apply H1. exact Hj.
    - intros a b [->|Ha]; cbn [l_new l_objs].
      + unfold nxt. rewrite lookup_cons. cbn [o_id]. rewrite Nat.eqb_refl. cbn [o_next]. intro E. discriminate E.
      + assert (Hne : a <> i) by (intro E; subst a; contradiction). rewrite nxt_new_other by exact Hne. intro E. right. apply (H2 a b Ha E).
    - intros j Hj. right. apply Cf. exact Hj.
  Qed.

  (* ---- enable / disable: the flag of that object *)
  Definition set_flag (on : nat -> bool) (i : nat) (e : bool) : nat -> bool := fun j => if Nat.eqb j i then e else on j.
  Lemma set_flag_rep_l h D on L i e : links_at h D on L -> D i ->
    links_at (upd h (bk i) [VPtr (optr (nxt (l_objs L) i)); VInt (Z.of_N (oname (l_objs L) i)); VInt (b2z e)]) D (set_flag on i e) L.
  Proof.
    intros [G [Hr [[H1 H2] Cf]]] Hi. split; [exact G|]. split; [|split; [split; [|exact H2]|exact Cf]].
    - apply (reg_first_frame h); [|exact Hr]. apply hblock_upd_other. apply (g_rb D G). exact Hi.
    - intros j Hj. unfold ocells, set_flag. destruct (Nat.eqb_spec j i) as [->|Hne].
      + apply hblock_upd_same. apply hblock_lt. rewrite (H1 i Hi). discriminate.
      + rewrite hblock_upd_other; [apply H1; exact Hj|]. intro E. apply Hne. symmetry. apply (g_inj D G i j Hi Hj E).
  Qed.
  Theorem C17P_l_enable h D on L i evs fuel : links_at h D on L -> D i ->
    exists h', src_plugin_enable fuel h evs (HPtr nb 0) (HPtr (bk i) 0) = FOk (tt, h', evs, HPtr nb 0) /\
      links_at h' D (set_flag on i true) L /\ (forall b, b <> bk i -> hblock h' b = hblock h b).
  Proof.
    intros H Hi. pose proof H as [_ [_ [[H1 _] _]]]. pose proof (H1 i Hi) as Hx. unfold ocells in Hx. eexists. split; [|split].
    - unfold src_plugin_enable. rewrite (f_pa2 _ _ _ _ _ Hx), (f_st_en _ _ _ _ _ Hx). reflexivity.
    - apply (set_flag_rep_l h D on L i true H Hi).
    - intros b Hb. apply hblock_upd_other. intro E. apply Hb. symmetry. exact E.
  Qed.
  Theorem C17P_l_disable h D on L i evs fuel : links_at h D on L -> D i ->
    exists h', src_plugin_disable fuel h evs (HPtr nb 0) (HPtr (bk i) 0) = FOk (tt, h', evs, HPtr nb 0) /\
      links_at h' D (set_flag on i false) L /\ (forall b, b <> bk i -> hblock h' b = hblock h b).
  Proof.
    intros H Hi. pose proof H as [_ [_ [[H1 _] _]]]. pose proof (H1 i Hi) as Hx. unfold ocells in Hx. eexists. split; [|split].
    - unfold src_plugin_disable. rewrite (f_pa2 _ _ _ _ _ Hx), (f_st_en _ _ _ _ _ Hx). reflexivity.
    - apply (set_flag_rep_l h D on L i false H Hi).
    - intros b Hb. apply hblock_upd_other. intro E. apply Hb. symmetry. exact E.
  Qed.

  (* ---- the chain read by following next_ from a pointer until the terminator = l_read *)
  Fixpoint h_read (fuel : nat) (h : heap) (g p : hptr) : option (list hptr) :=
    match fuel with
    | O => None
    | S k => if hptr_eqb p g then Some []
             else match hload_ptr h p with
                  | Some q => match h_read k h g q with Some r => Some (p :: r) | None => None end
                  | None => None
                  end
    end.
  Definition optrs (ids : list nat) : list hptr := map (fun i => HPtr (bk i) 0) ids.
  Theorem C17P_l_read h D on os : geo D -> objs_at h D on os -> forall fuel f, closed D f ->
    h_read fuel h (HPtr nb 0) (optr f) = match l_read fuel os f with Some ids => Some (optrs ids) | None => None end.
  Proof.
    intros G Ho. induction fuel as [|k IH]; intros f Cf; [reflexivity|]. cbn [h_read l_read]. rewrite (optr_ne_null D f G Cf).
    destruct f as [i|]; [|reflexivity]. cbn [optr]. pose proof (proj1 Ho i (Cf i eq_refl)) as Hx. unfold ocells in Hx.
    rewrite (f_next _ _ _ _ _ Hx). rewrite (IH (nxt os i)) by (apply (closed_nxt h D on os i Ho); apply Cf; reflexivity).
    destruct (l_read k os (nxt os i)); reflexivity.
  Qed.
  Lemma count_loop_l h D on os fuel0 : geo D -> objs_at h D on os -> forall fuel f ids count, closed D f -> l_read fuel os f = Some ids ->
    0 <= count -> count + Z.of_nat (length ids) < 2 ^ 31 ->
    src_registry_countPlugins_loop1 fuel0 fuel h (HPtr nb 0) count (optr f) = Go (count + Z.of_nat (length ids), HPtr nb 0).
  Proof.
    intros G Ho. induction fuel as [|k IH]; intros f ids count Cf E H0 Hc; [discriminate E|].
    cbn [l_read] in E. cbn [src_registry_countPlugins_loop1]. unfold hp_ne. rewrite (optr_ne_null D f G Cf). destruct f as [i|].
    - cbn [negb b2z]. zb. cbn [optr]. pose proof (proj1 Ho i (Cf i eq_refl)) as Hx. unfold ocells in Hx. rewrite (f_next _ _ _ _ _ Hx).
      destruct (l_read k os (nxt os i)) as [r|] eqn:Er; [|discriminate E]. inversion E; subst ids. cbn [length] in Hc |- *.
      rewrite Nat2Z.inj_succ in Hc |- *. rewrite cw_s_small by lia.
      rewrite (IH (nxt os i) r) by (try (apply (closed_nxt h D on os i Ho); apply Cf; reflexivity); try exact Er; lia).
      f_equal. f_equal. lia.
    - inversion E; subst ids. cbn [negb b2z]. zb. cbn [length optr]. rewrite Z.add_0_r. reflexivity.
  Qed.
  Theorem C17P_l_count h D on L ids evs fuel : links_at h D on L -> l_read fuel (l_objs L) (l_first L) = Some ids ->
    Z.of_nat (length ids) < 2 ^ 31 ->
    src_registry_countPlugins fuel h evs (HPtr nb 0) (HPtr rb 0) = FOk (Z.of_nat (length ids), h, evs, HPtr nb 0).
  Proof.
    intros [G [Hr [Ho Cf]]] E Hc. unfold src_registry_countPlugins. rewrite (r_pa3 _ _ _ Hr), (r_first _ _ _ Hr). cbv zeta.
    rewrite (count_loop_l h D on (l_objs L) fuel G Ho fuel (l_first L) ids 0 Cf E) by lia. reflexivity.
  Qed.

  (* ---- runAllPreTestAction / runAllPostTestAction = l_pre / l_post, `on` = the enabled_ cells *)
  Theorem C17P_l_pre h D on os : geo D -> objs_at h D on os -> forall fuel f r evs, closed D f -> l_pre fuel os on f = Some r ->
    run_pre fuel h evs (HPtr nb 0) (optr f) = FOk (tt, h, evs ++ map (fun i => PPre (HPtr (bk i) 0)) r, HPtr nb 0).
  Proof.
    intros G Ho. induction fuel as [|k IH]; intros f r evs Cf E; [discriminate E|]. cbn [l_pre] in E. unfold run_pre.
    rewrite (optr_ne_null D f G Cf). destruct f as [i|]; [|inversion E; subst r; cbn [map]; rewrite app_nil_r; reflexivity].
    destruct (l_pre k os on (nxt os i)) as [r'|] eqn:Er; [|discriminate E]. inversion E; subst r. clear E.
    assert (Cn : closed D (nxt os i)) by (apply (closed_nxt h D on os i Ho); apply Cf; reflexivity).
    cbn [optr src_plugin_runAllPreTestAction]. pose proof (proj1 Ho i (Cf i eq_refl)) as Hx. unfold ocells in Hx.
    rewrite (f_pa2 _ _ _ _ _ Hx), (f_en _ _ _ _ _ Hx), (f_next _ _ _ _ _ Hx), b2z_z2b.
    specialize (IH (nxt os i) r' (evs ++ (if on i then [PPre (HPtr (bk i) 0)] else [])) Cn Er). unfold run_pre in IH.
    rewrite (optr_ne_null D _ G Cn) in IH.
    destruct (on i); cbv beta iota zeta; unfold hp_eq; rewrite (optr_ne_null D _ G Cn); destruct (nxt os i) as [j|] eqn:En.
    - cbn [b2z]. zb. rewrite IH. cbn [finish map app]. rewrite <- app_assoc. reflexivity.
    - destruct k as [|k']; [discriminate Er|]. cbn [l_pre] in Er. inversion Er; subst r'. cbn [b2z]. zb. reflexivity.
    - cbn [b2z]. zb. rewrite app_nil_r in IH. rewrite IH. cbn [finish map app]. reflexivity.
    - destruct k as [|k']; [discriminate Er|]. cbn [l_pre] in Er. inversion Er; subst r'. cbn [b2z]. zb. cbn [finish map app].
      rewrite app_nil_r. reflexivity.
  Qed.
  Theorem C17P_l_post h D on os : geo D -> objs_at h D on os -> forall fuel f r evs, closed D f -> l_post fuel os on f = Some r ->
    run_post fuel h evs (HPtr nb 0) (optr f) = FOk (tt, h, evs ++ map (fun i => PPost (HPtr (bk i) 0)) r, HPtr nb 0).
  Proof.
    intros G Ho. induction fuel as [|k IH]; intros f r evs Cf E; [discriminate E|]. cbn [l_post] in E. unfold run_post.
    rewrite (optr_ne_null D f G Cf). destruct f as [i|]; [|inversion E; subst r; cbn [map]; rewrite app_nil_r; reflexivity].
    destruct (l_post k os on (nxt os i)) as [r'|] eqn:Er; [|discriminate E]. inversion E; subst r. clear E.
    assert (Cn : closed D (nxt os i)) by (apply (closed_nxt h D on os i Ho); apply Cf; reflexivity).
    cbn [optr src_plugin_runAllPostTestAction]. pose proof (proj1 Ho i (Cf i eq_refl)) as Hx. unfold ocells in Hx.
    rewrite (f_next _ _ _ _ _ Hx).
    specialize (IH (nxt os i) r' evs Cn Er). unfold run_post in IH.
    unfold hp_eq. rewrite (optr_ne_null D _ G Cn) in IH |- *.
    destruct (nxt os i) as [j|] eqn:En.
    - cbn [b2z]. zb. rewrite IH. cbv beta iota zeta. rewrite (f_pa2 _ _ _ _ _ Hx), (f_en _ _ _ _ _ Hx), b2z_z2b.
      rewrite map_app, app_assoc. destruct (on i); cbn [finish map]; [reflexivity|rewrite app_nil_r; reflexivity].
    - destruct k as [|k']; [discriminate Er|]. cbn [l_post] in Er. inversion Er; subst r'.
      cbn [b2z]. zb. rewrite (f_pa2 _ _ _ _ _ Hx), (f_en _ _ _ _ _ Hx), b2z_z2b.
      destruct (on i); cbn [finish map app]; [reflexivity|rewrite app_nil_r; reflexivity].
  Qed.

  (* ---- removePluginByName = l_remove *)
  Lemma l_unlink_names n : forall k os p os', l_unlink k n os p = Some os' -> forall j, oname os' j = oname os j.
  Proof.
    induction k as [|k IH]; intros os p os' E j; [discriminate E|]. cbn [l_unlink] in E. destruct (nxt os p) as [q|].
    - destruct (N.eqb (oname os q) n); [rewrite (IH _ _ _ E j); apply oname_set|apply (IH _ _ _ E j)].
    - inversion E; subst. reflexivity.
  Qed.

  Section RemoveL.
    Variables (D : nat -> Prop) (on : nat -> bool) (n : N) (evs : list pcev) (fuel0 : nat).
    Hypothesis G : geo D.

    Lemma rm_loop1_l os : forall fuel f f' h f1, objs_at h D on os -> reg_first h rb (optr f) -> closed D f ->
      l_drop_heads fuel os n f = Some f' -> (fuel <= f1)%nat ->
      exists h', src_registry_removePluginByName_loop1 fuel0 f1 (HPtr rb 0) (Z.of_N n) (HPtr nb 0) h = Go h' /\
        reg_first h' rb (optr f') /\ closed D f' /\ length h' = length h /\
        (forall b, b <> rb -> hblock h' b = hblock h b) /\
        (forall k, k <> 3%nat -> nth_error (hblock h' rb) k = nth_error (hblock h rb) k).
    Proof.
      induction fuel as [|k IH]; intros f f' h f1 Ho Hr Cf E Hf; [discriminate E|]. destruct f1 as [|f1]; [lia|].
      cbn [l_drop_heads] in E. cbn [src_registry_removePluginByName_loop1]. rewrite (r_pa3 _ _ _ Hr), (r_first _ _ _ Hr).
      unfold hp_ne. rewrite (optr_ne_null D f G Cf). destruct f as [i|].
      - cbn [negb b2z]. zb. cbn [optr]. pose proof (proj1 Ho i (Cf i eq_refl)) as Hx. unfold ocells in Hx.
        rewrite (f_pa1 _ _ _ _ _ Hx), (f_name _ _ _ _ _ Hx). unfold c_eq. rewrite b2z_z2b, zofn_eqb.
        destruct (N.eqb (oname os i) n).
        + rewrite (f_next _ _ _ _ _ Hx), (r_st _ _ _ Hr).
          destruct (IH (nxt os i) f' (set_first h rb (optr (nxt os i))) f1) as [h' [E1 [R1 [C1 [L1 [F1 K1]]]]]].
          * apply (objs_at_frame h); [|exact Ho]. intros j Hj. apply set_first_other. apply (g_rb D G). exact Hj.
          * apply (set_first_reg _ _ _ Hr).
          * apply (closed_nxt h D on os i Ho). apply Cf. reflexivity.
          * exact E.
          * lia.
          * exists h'. split; [exact E1|]. split; [exact R1|]. split; [exact C1|]. split; [rewrite L1; apply set_first_length|]. split.
            -- intros b Hb. rewrite (F1 b Hb). apply set_first_other. exact Hb.
            -- intros k' Hk. rewrite (K1 k' Hk). apply (set_first_cells _ _ _ Hr). exact Hk.
        + inversion E; subst f'. exists h. split; [reflexivity|]. split; [exact Hr|]. split; [exact Cf|]. split; [reflexivity|]. split; intros; reflexivity.
      - inversion E; subst f'. cbn [negb b2z]. zb. exists h. split; [reflexivity|]. split; [exact Hr|]. split; [exact Cf|]. split; [reflexivity|].
        split; intros; reflexivity.
    Qed.

    (* the inner loop standing on object p: it stops where the model's merged loop either ends or advances *)
    Lemma rm_loop3_l : forall k os p os' h f3, l_unlink k n os p = Some os' -> D p -> objs_at h D on os -> (k <= f3)%nat ->
      exists os1 h1 k1, src_registry_removePluginByName_loop3 fuel0 f3 (Z.of_N n) (HPtr nb 0) (HPtr (bk p) 0) h evs (HPtr nb 0) = Go (h1, evs, HPtr nb 0) /\
        objs_at h1 D on os1 /\ (k1 <= k)%nat /\ l_unlink k1 n os1 p = Some os' /\
        (nxt os1 p = None \/ exists q, nxt os1 p = Some q /\ N.eqb (oname os1 q) n = false) /\
        length h1 = length h /\ (forall b, (forall i, D i -> b <> bk i) -> hblock h1 b = hblock h b).
    Proof.
      induction k as [|k IH]; intros os p os' h f3 E Hp Ho Hf; [discriminate E|]. destruct f3 as [|f3]; [lia|].
      pose proof E as E0. cbn [l_unlink] in E. cbn [src_registry_removePluginByName_loop3].
      pose proof (proj1 Ho p Hp) as Hx. unfold ocells in Hx. rewrite (f_next _ _ _ _ _ Hx).
      assert (Cn : closed D (nxt os p)) by (apply (closed_nxt h D on os p Ho Hp)).
      unfold hp_ne. rewrite (optr_ne_null D _ G Cn). destruct (nxt os p) as [q|] eqn:En.
      - cbn [negb b2z]. zb. assert (Hq : D q) by (apply Cn; reflexivity).
        unfold src_plugin_removePluginByName. cbv zeta. rewrite (f_next _ _ _ _ _ Hx). cbn [optr]. rewrite hp_bool_ptr. zb.
        pose proof (proj1 Ho q Hq) as Hy. unfold ocells in Hy. rewrite (f_pa1 _ _ _ _ _ Hy), (f_name _ _ _ _ _ Hy).
        unfold c_eq. rewrite b2z_z2b, zofn_eqb. destruct (N.eqb (oname os q) n) eqn:Eq.
        + rewrite (f_next _ _ _ _ _ Hy), (f_st_next _ _ _ _ _ Hx). cbn [finish]. cbv beta iota.
          cbn [hptr_eqb negb b2z]. zb.
          assert (Ho1 : objs_at (upd h (bk p) [VPtr (optr (nxt os q)); VInt (Z.of_N (oname os p)); VInt (b2z (on p))]) D on (set_next os p (nxt os q))).
          { apply objs_at_set_next; [exact G|exact Ho|exact Hp|apply (closed_nxt h D on os q Ho Hq)]. }
          destruct (IH _ p os' _ f3 E Hp Ho1) as [os1 [h1 [k1 [E1 [O1 [K1 [U1 [S1 [L1 F1]]]]]]]]]; [lia|].
          exists os1, h1, k1. split; [exact E1|]. split; [exact O1|]. split; [lia|]. split; [exact U1|]. split; [exact S1|].
          split; [rewrite L1; apply heap_upd_length|]. intros b Hb. rewrite (F1 b Hb). apply hblock_upd_other. intro Eb. apply (Hb p Hp). symmetry. exact Eb.
        + cbn [finish]. cbv beta iota. cbn [hptr_eqb negb b2z]. zb.
          exists os, h, (S k). split; [reflexivity|]. split; [exact Ho|]. split; [lia|]. split; [exact E0|]. split.
          * right. exists q. split; [exact En|exact Eq].
          * split; [reflexivity|intros; reflexivity].
      - cbn [negb b2z]. zb. exists os, h, (S k). split; [reflexivity|]. split; [exact Ho|]. split; [lia|]. split; [exact E0|]. split; [left; exact En|].
        split; [reflexivity|intros; reflexivity].
    Qed.

    Lemma rm_loop2_l : forall m k os p os' h f2, (k < m)%nat -> l_unlink k n os p = Some os' -> D p -> objs_at h D on os ->
      (k <= fuel0)%nat -> (k < f2)%nat ->
      exists h', src_registry_removePluginByName_loop2 fuel0 f2 (Z.of_N n) (HPtr nb 0) h evs (HPtr nb 0) (HPtr (bk p) 0) = Go (h', evs, HPtr nb 0, HPtr nb 0) /\
        objs_at h' D on os' /\ length h' = length h /\ (forall b, (forall i, D i -> b <> bk i) -> hblock h' b = hblock h b).
    Proof.
      induction m as [|m IH]; intros k os p os' h f2 Hm E Hp Ho Hf0 Hf; [lia|]. destruct f2 as [|f2]; [lia|].
      cbn [src_registry_removePluginByName_loop2]. rewrite hp_ne_blk by (apply (g_nb D G); exact Hp). zb.
      destruct (rm_loop3_l k os p os' h fuel0 E Hp Ho Hf0) as [os1 [h1 [k1 [E1 [O1 [K1 [U1 [S1 [L1 F1]]]]]]]]]. rewrite E1. cbv beta iota.
      pose proof (proj1 O1 p Hp) as Hx. unfold ocells in Hx. rewrite (f_next _ _ _ _ _ Hx). cbv zeta.
      destruct k1 as [|k1]; [discriminate U1|]. cbn [l_unlink] in U1. destruct S1 as [En|[q [En Eq]]]; rewrite En in U1 |- *.
      - inversion U1; subst os1. cbn [optr]. rewrite rm_loop2_end by lia. exists h1. split; [reflexivity|]. split; [exact O1|]. split; assumption.
      - rewrite Eq in U1. assert (Hq : D q) by (apply (closed_nxt h1 D on os1 p O1 Hp); exact En).
        destruct (IH k1 os1 q os' h1 f2) as [h' [E2 [O2 [L2 F2]]]]; [lia|exact U1|exact Hq|exact O1|lia|lia|].
        cbn [optr]. rewrite E2. exists h'. split; [reflexivity|]. split; [exact O2|]. split; [rewrite L2; exact L1|].
        intros b Hb. rewrite (F2 b Hb). apply F1. exact Hb.
    Qed.

    (* THEOREM 5 (removal): when the model's loops end with fuel `fuel`, the translated function ends with any fuel0 > fuel, and its
       heap represents the model's result: same firstPlugin_, same links -- also the stale links of the removed objects *)
    Theorem C17P_l_remove h L L' fuel : links_at h D on L -> l_remove fuel n L = Some L' -> (fuel < fuel0)%nat ->
      exists h', src_registry_removePluginByName fuel0 h evs (HPtr nb 0) (HPtr rb 0) (Z.of_N n) = FOk (tt, h', evs, HPtr nb 0) /\
        links_at h' D on L' /\ length h' = length h /\
        (forall b, (forall i, D i -> b <> bk i) -> b <> rb -> hblock h' b = hblock h b) /\
        (forall k, k <> 3%nat -> nth_error (hblock h' rb) k = nth_error (hblock h rb) k) /\
        (forall i, D i -> nxt (l_objs L') i = nxt (l_objs L) i -> hblock h' (bk i) = hblock h (bk i)).
    Proof.
      intros [_ [Hr [Ho Cf]]] E Hf. unfold l_remove in E. destruct (l_drop_heads fuel (l_objs L) n (l_first L)) as [f'|] eqn:Ed; [|discriminate E].
      destruct (rm_loop1_l (l_objs L) fuel (l_first L) f' h fuel0 Ho Hr Cf Ed) as [h1 [E1 [R1 [C1 [L1 [F1 K1]]]]]]; [lia|].
      assert (Ho1 : objs_at h1 D on (l_objs L)).
      { apply (objs_at_frame h); [|exact Ho]. intros j Hj. apply F1. apply (g_rb D G). exact Hj. }
      unfold src_registry_removePluginByName. cbv zeta. rewrite E1, (r_pa3 _ _ _ R1), (r_first _ _ _ R1).
      destruct f' as [p|].
      - destruct (l_unlink fuel n (l_objs L) p) as [os'|] eqn:Eu; [|discriminate E]. inversion E; subst L'. clear E.
        assert (Hp : D p) by (apply C1; reflexivity).
        destruct (rm_loop2_l (S fuel) fuel (l_objs L) p os' h1 fuel0) as [h' [E2 [O2 [L2 F2]]]]; [lia|exact Eu|exact Hp|exact Ho1|lia|lia|].
        cbn [optr]. rewrite E2. cbn [finish]. exists h'.
        assert (Hrb : forall i, D i -> rb <> bk i) by (intros i Hi Eb; apply (g_rb D G i Hi); symmetry; exact Eb).
        split; [reflexivity|]. split; [|split; [rewrite L2; exact L1|split; [|split]]].
        + split; [exact G|]. cbn [l_first l_objs]. split; [|split; [exact O2|exact C1]].
          apply (reg_first_frame h1); [apply F2; exact Hrb|exact R1].
        + intros b Hb1 Hb2. rewrite (F2 b Hb1). apply F1. exact Hb2.
        + intros k Hk. rewrite (F2 rb Hrb). apply K1. exact Hk.
        + intros i Hi En. cbn [l_objs] in En. rewrite (proj1 O2 i Hi), (proj1 Ho i Hi). unfold ocells.
          rewrite En, (l_unlink_names n fuel (l_objs L) p os' Eu i). reflexivity.
      - inversion E; subst L'. clear E. cbn [optr]. rewrite rm_loop2_end by lia. cbn [finish]. exists h1.
        split; [reflexivity|]. split; [|split; [exact L1|split; [|split]]].
        + split; [exact G|]. split; [exact R1|]. split; [exact Ho1|exact C1].
        + intros b _ Hb. apply F1. exact Hb.
        + exact K1.
        + intros i Hi _. apply F1. apply (g_rb D G). exact Hi.
    Qed.
  End RemoveL.
End Links.

(* ================================================================== G: composed with the model's registry *)
(* the plugin objects of a registry r are the ids below r_next r; the enabled_ cell of object i holds p_on of the plugin with that
   id (in the chain or outside it); the links are r_lnk r.  p_kind / p_role / r_names are not in the heap. *)
Lemma on_of_char c c' j : NoDup (map p_id c) -> NoDup (map p_id c') -> (forall p, In p c <-> In p c') -> on_of c j = on_of c' j.
Proof.
  intros N1 N2 H. unfold on_of. destruct (find_id j c) as [p|] eqn:E1.
  - destruct (find_id_some _ _ _ E1) as [Hin Eid]. rewrite <- Eid. rewrite (find_id_in c' p N2 (proj1 (H p) Hin)). reflexivity.
  - destruct (find_id j c') as [q|] eqn:E2; [|reflexivity]. destruct (find_id_some _ _ _ E2) as [Hin Eid].
    rewrite <- Eid in E1. rewrite (find_id_in c q N1 (proj2 (H q) Hin)) in E1. discriminate E1.
Qed.
Lemma find_id_set_on i b j : forall c, find_id j (set_on i b c) =
  match find_id j c with Some p => Some (if Nat.eqb (p_id p) i then with_on p b else p) | None => None end.
Proof.
  unfold find_id, set_on. induction c as [|p c IH]; [reflexivity|]. cbn [map find].
  assert (E : p_id (if Nat.eqb (p_id p) i then with_on p b else p) = p_id p) by (destruct (Nat.eqb (p_id p) i); reflexivity).
  rewrite E. destruct (Nat.eqb (p_id p) j); [reflexivity|exact IH].
Qed.
Lemma on_of_set_on i b c j : on_of (set_on i b c) j =
  if Nat.eqb j i then match find_id i c with Some _ => b | None => false end else on_of c j.
Proof.
  unfold on_of. rewrite find_id_set_on. destruct (Nat.eqb_spec j i) as [->|Hne].
  - destruct (find_id i c) as [p|] eqn:E; [|reflexivity]. destruct (find_id_some _ _ _ E) as [_ Eid]. rewrite Eid, Nat.eqb_refl. reflexivity.
  - destruct (find_id j c) as [p|] eqn:E; [|reflexivity]. destruct (find_id_some _ _ _ E) as [_ Eid].
    destruct (Nat.eqb_spec (p_id p) i) as [Ei|_]; [exfalso; apply Hne; rewrite <- Eid; exact Ei|reflexivity].
Qed.

Section Registry.
  Variables (rb nb : nat) (bk : nat -> nat).
  Definition dom (r : reg) : nat -> Prop := fun i => (i < r_next r)%nat.
  Definition reg_rep (h : heap) (r : reg) : Prop :=
    wf r /\ linked r /\ term_ok h nb /\ links_at rb nb bk h (dom r) (on_of (all r)) (r_lnk r).

  Lemma links_at_ext h (D D' : nat -> Prop) (on on' : nat -> bool) L : links_at rb nb bk h D on L ->
    (forall i, D i <-> D' i) -> (forall i, D i -> on i = on' i) -> links_at rb nb bk h D' on' L.
  Proof.
    intros [G [Hr [[H1 H2] Cf]]] HD Hon. split; [|split; [exact Hr|split; [split|]]].
    - split; [|intros i Hi; apply (g_nb _ _ _ _ G); apply HD; exact Hi|intros i Hi; apply (g_rb _ _ _ _ G); apply HD; exact Hi|apply (g_rn _ _ _ _ G)].
      intros i j Hi Hj. apply (g_inj _ _ _ _ G); apply HD; assumption.
    - intros i Hi. apply HD in Hi. rewrite (H1 i Hi). unfold ocells. rewrite (Hon i Hi). reflexivity.
    - intros i j Hi E. apply HD. apply (H2 i j); [apply HD; exact Hi|exact E].
    - intros j E. apply HD. apply Cf. exact E.
  Qed.

  (* ---- the chain level view of a represented registry: its chain is a chain_at chain of (block, name, p_on) *)
  Definition trip (p : plugin) : prec := (bk (p_id p), Z.of_N (p_name p), p_on p).
  Lemma path_head os : forall ids f, path os f ids -> f = match ids with [] => None | i :: _ => Some i end.
  Proof. intros [|i r] f H; cbn [path] in H; [exact H|apply H]. Qed.
  Lemma rep_links_ok h (D : nat -> Prop) on os : objs_at nb bk h D on os -> forall c f, closed D f -> path os f (map p_id c) ->
    (forall p, In p c -> oname os (p_id p) = p_name p /\ on (p_id p) = p_on p) ->
    links_ok h nb (map trip c) /\ headp nb (map trip c) = optr nb bk f /\ (forall p, In p c -> D (p_id p)).
  Proof.
    intros Ho. induction c as [|p c IH]; intros f Cf P Hn; cbn [map path] in *.
    - subst f. split; [exact I|]. split; [reflexivity|intros p []].
    - destruct P as [-> P]. assert (Hp : D (p_id p)) by (apply Cf; reflexivity).
      destruct (IH (nxt os (p_id p)) (closed_nxt nb bk h D on os _ Ho Hp) P (fun q Hq => Hn q (or_intror Hq))) as [I1 [I2 I3]].
      split; [|split; [reflexivity|intros q [<-|Hq]; [exact Hp|apply I3; exact Hq]]].
      cbn [links_ok]. split; [|exact I1]. rewrite I2. change (pb (trip p)) with (bk (p_id p)). rewrite (proj1 Ho _ Hp).
      unfold ocells, pcells. destruct (Hn p (or_introl eq_refl)) as [-> ->]. reflexivity.
  Qed.
  Theorem reg_rep_chain h r : reg_rep h r -> registry_at h rb nb (map trip (r_chain r)).
  Proof.
    intros [Hw [[P Hn] [Ht [G [Hr [Ho Cf]]]]]].
    assert (Hpq : forall p, In p (r_chain r) -> oname (l_objs (r_lnk r)) (p_id p) = p_name p /\ on_of (all r) (p_id p) = p_on p).
    { intros p Hp. assert (Ha : In p (all r)) by (apply in_or_app; left; exact Hp). split; [apply Hn; exact Ha|].
      unfold on_of. rewrite (find_id_in _ p (wf_all_nodup _ Hw) Ha). reflexivity. }
    destruct (rep_links_ok h _ _ _ Ho (r_chain r) (l_first (r_lnk r)) Cf P Hpq) as [I1 [I2 I3]].
    assert (Hb : forall b, In b (map pb (map trip (r_chain r))) -> exists p, In p (r_chain r) /\ b = bk (p_id p)).
    { intros b Hb. rewrite map_map in Hb. apply in_map_iff in Hb. destruct Hb as [p [E Hp]]. exists p. split; [exact Hp|symmetry; exact E]. }
    split; [rewrite I2; exact Hr|]. split; [|split; [apply (g_rn _ _ _ _ G)|]].
    - split; [reflexivity|]. split; [exact I1|]. split; [exact Ht|]. split.
      + rewrite map_map. pose proof (wf_nodup _ Hw) as Hnd. clear -Hnd I3 G. induction (r_chain r) as [|p c IH]; [constructor|].
        cbn [map] in *. inversion Hnd as [|x xs Hx Hd]; subst. constructor.
        * intro Hin. apply in_map_iff in Hin. destruct Hin as [q [E Hq]]. change (pb (trip q)) with (bk (p_id q)) in E.
          change (pb (trip p)) with (bk (p_id p)) in E.
          apply Hx. apply in_map_iff. exists q. split; [|exact Hq].
          apply (g_inj _ _ _ _ G); [apply I3; right; exact Hq|apply I3; left; reflexivity|exact E].
        * apply IH; [intros q Hq; apply I3; right; exact Hq|exact Hd].
      + intro Hin. destruct (Hb nb Hin) as [p [Hp E]]. apply (g_nb _ _ _ _ G (p_id p) (I3 p Hp)). symmetry. exact E.
    - intro Hin. destruct (Hb rb Hin) as [p [Hp E]]. apply (g_rb _ _ _ _ G (p_id p) (I3 p Hp)). symmetry. exact E.
  Qed.

  (* ---- every action of the model is the translated call; AInstall: the object TestPlugin(name) has just constructed (block of
     the next id: next_ = the terminator, the name, enabled), AReinstall / AEnable / ADisable: the existing object of that id *)
  Definition src_act (fuel : nat) (h : heap) (evs : list pcev) (r : reg) (a : act) : fres (unit * heap * list pcev * hptr) :=
    match a with
    | AInstall _ _ => src_registry_installPlugin fuel h evs (HPtr nb 0) (HPtr rb 0) (HPtr (bk (r_next r)) 0)
    | ARemove n => src_registry_removePluginByName fuel h evs (HPtr nb 0) (HPtr rb 0) (Z.of_N n)
    | AEnable i => src_plugin_enable fuel h evs (HPtr nb 0) (HPtr (bk i) 0)
    | ADisable i => src_plugin_disable fuel h evs (HPtr nb 0) (HPtr (bk i) 0)
    | AReset => src_registry_resetPlugins fuel h evs (HPtr nb 0) (HPtr rb 0)
    | AReinstall i => src_registry_installPlugin fuel h evs (HPtr nb 0) (HPtr rb 0) (HPtr (bk i) 0)
    end.
  Definition act_pre (h : heap) (r : reg) (a : act) : Prop :=
    match a with
    | AInstall n _ => hblock h (bk (r_next r)) = [VPtr (HPtr nb 0); VInt (Z.of_N n); VInt 1] /\
                      (forall j, (j < r_next r)%nat -> bk j <> bk (r_next r)) /\ bk (r_next r) <> nb /\ bk (r_next r) <> rb
    | AEnable i | ADisable i => find_id i (all r) <> None
    | _ => True
    end.

  Lemma term_keep h h' : term_ok h nb -> hblock h' nb = hblock h nb -> term_ok h' nb.
  Proof. intros [a Ht] E. exists a. apply (term_frame h); assumption. Qed.

  Lemma flag_case h h' r i b : reg_rep h r -> find_id i (all r) <> None ->
    links_at rb nb bk h' (dom r) (set_flag (on_of (all r)) i b) (r_lnk r) -> (forall x, x <> bk i -> hblock h' x = hblock h x) ->
    wf (reg_set r (set_on i b (r_chain r)) (set_on i b (r_out r)) (r_lnk r)) ->
    linked (reg_set r (set_on i b (r_chain r)) (set_on i b (r_out r)) (r_lnk r)) ->
    reg_rep h' (reg_set r (set_on i b (r_chain r)) (set_on i b (r_out r)) (r_lnk r)).
  Proof.
    intros [Hw [HL [Ht HA]]] Hf HA' Fr Hw' HL'. split; [exact Hw'|]. split; [exact HL'|].
    destruct (find_id i (all r)) as [p|] eqn:Ef; [|exfalso; apply Hf; reflexivity].
    destruct (find_id_some _ _ _ Ef) as [Hin Eid]. assert (Hi : dom r i) by (unfold dom; rewrite <- Eid; apply (wf_all_lt _ Hw); exact Hin).
    split.
    - apply (term_keep h); [exact Ht|]. apply Fr. intro E. destruct HA as [G _]. apply (g_nb _ _ _ _ G i Hi). symmetry. exact E.
    - apply (links_at_ext h' (dom r) _ (set_flag (on_of (all r)) i b)); [exact HA'|intro; reflexivity|].
      intros j _. unfold all. cbn [reg_set r_chain r_out]. rewrite set_on_app. rewrite on_of_set_on. fold (all r). rewrite Ef. reflexivity.
  Qed.

  Theorem reg_rep_act h r a evs fuel : reg_rep h r -> act_ok r a = true -> act_pre h r a -> (remove_fuel r < fuel)%nat ->
    exists h', src_act fuel h evs r a = FOk (tt, h', evs, HPtr nb 0) /\ reg_rep h' (reg_act without r a).
  Proof.
    intros Hrep Hok Hpre Hf. pose proof Hrep as [Hw [HL [Ht HA]]]. pose proof (wf_act r a Hw) as Hw'. pose proof (linked_act r a Hw HL Hok) as HL'.
    pose proof HA as [G _].
    destruct a as [n k|n|i|i| |i]; cbn [src_act act_pre] in *.
    - (* AInstall *)
      destruct Hpre as [Hb [Hfresh [Hin Hir]]]. set (i := r_next r) in *. set (on' := on_of (all (reg_act without r (AInstall n k)))).
      assert (Eon : forall j, dom r j -> on_of (all r) j = on' j).
      { intros j Hj. unfold on', on_of, all, find_id. cbn [reg_act reg_install r_chain r_out app find mkp p_id].
        destruct (Nat.eqb_spec (r_next r) j) as [E|_]; [unfold dom in Hj; lia|reflexivity]. }
      assert (Eoi : on' i = true) by (unfold on', on_of, all, find_id; cbn [reg_act reg_install r_chain r_out app find mkp p_id]; fold i; rewrite Nat.eqb_refl; reflexivity).
      pose proof (links_at_ext h (dom r) (dom r) _ on' _ HA (fun _ => conj (fun H => H) (fun H => H)) Eon) as HA1.
      assert (HA2 : links_at rb nb bk h (fun j => j = i \/ dom r j) on' (l_new i n (r_lnk r))).
      { apply rep_l_new; [exact HA1|unfold dom, i; lia|intros j Hj; apply Hfresh; exact Hj|exact Hin|exact Hir|rewrite Eoi; exact Hb]. }
      destruct (C17P_l_install rb nb bk h _ on' _ i evs fuel HA2 (or_introl eq_refl)) as [h' [E1 [HA3 [L3 [F3 K3]]]]].
      exists h'. split; [exact E1|]. split; [exact Hw'|]. split; [exact HL'|]. split.
      + apply (term_keep h); [exact Ht|]. apply F3; intro E; [apply (g_rn _ _ _ _ G)|apply Hin]; symmetry; exact E.
      + apply (links_at_ext h' _ _ on' on' _ HA3); [|intros; reflexivity].
        intro j. unfold dom. cbn [reg_act reg_install r_next]. fold i. lia.
    - (* ARemove *)
      destruct HL as [P Hn].
      destruct (remove_links n (r_chain r) (r_lnk r) (remove_fuel r) P (wf_nodup _ Hw)) as [L' [R1 _]].
      { intros p Hp. apply Hn. apply in_or_app. left. exact Hp. }
      { unfold remove_fuel. pose proof (chain_short r Hw). lia. }
      destruct (C17P_l_remove rb nb bk (dom r) (on_of (all r)) n evs fuel G h (r_lnk r) L' (remove_fuel r) HA R1 Hf) as [h' [E1 [HA1 [L1 [F1 _]]]]].
      exists h'. split; [exact E1|]. split; [exact Hw'|]. split; [exact HL'|]. split.
      + apply (term_keep h); [exact Ht|]. apply F1; [|intro E; apply (g_rn _ _ _ _ G); symmetry; exact E].
        intros j Hj E. apply (g_nb _ _ _ _ G j Hj). symmetry. exact E.
      + assert (EL : r_lnk (reg_act without r (ARemove n)) = L') by (cbn [reg_act reg_set r_lnk]; rewrite R1; reflexivity).
        rewrite EL. apply (links_at_ext h' (dom r) _ (on_of (all r)) _ _ HA1); [intro; reflexivity|].
        intros j _. apply on_of_char; [apply (wf_all_nodup _ Hw)|apply (wf_all_nodup _ Hw')|].
        intro p. unfold all. cbn [reg_act reg_set r_chain r_out]. unfold without. rewrite !in_app_iff, !filter_In.
        destruct (named n p); cbn [negb]; intuition congruence.
    - (* AEnable *)
      destruct (find_id i (all r)) as [p|] eqn:Ef; [|exfalso; apply Hpre; reflexivity].
      destruct (find_id_some _ _ _ Ef) as [Hin Eid]. assert (Hi : dom r i) by (unfold dom; rewrite <- Eid; apply (wf_all_lt _ Hw); exact Hin).
      destruct (C17P_l_enable rb nb bk h _ _ _ i evs fuel HA Hi) as [h' [E1 [HA1 F1]]]. exists h'. split; [exact E1|].
      apply (flag_case h h' r i true Hrep); [rewrite Ef; discriminate|exact HA1|exact F1|exact Hw'|exact HL'].
    - (* ADisable *)
      destruct (find_id i (all r)) as [p|] eqn:Ef; [|exfalso; apply Hpre; reflexivity].
      destruct (find_id_some _ _ _ Ef) as [Hin Eid]. assert (Hi : dom r i) by (unfold dom; rewrite <- Eid; apply (wf_all_lt _ Hw); exact Hin).
      destruct (C17P_l_disable rb nb bk h _ _ _ i evs fuel HA Hi) as [h' [E1 [HA1 F1]]]. exists h'. split; [exact E1|].
      apply (flag_case h h' r i false Hrep); [rewrite Ef; discriminate|exact HA1|exact F1|exact Hw'|exact HL'].
    - (* AReset *)
      destruct (C17P_l_reset rb nb bk h _ _ _ evs fuel HA) as [E1 [HA1 F1]]. eexists. split; [exact E1|].
      split; [exact Hw'|]. split; [exact HL'|]. split.
      + apply (term_keep h); [exact Ht|]. apply F1. intro E. apply (g_rn _ _ _ _ G). symmetry. exact E.
      + exact HA1.
    - (* AReinstall *)
      cbn [act_ok] in Hok. unfold reinst_ok in Hok. destruct (find_id i (r_out r)) as [p|] eqn:Ef; [|discriminate Hok].
      destruct (find_id_some _ _ _ Ef) as [Hin Eid].
      assert (Hi : dom r i) by (unfold dom; rewrite <- Eid; apply (wf_all_lt _ Hw); apply in_or_app; right; exact Hin).
      destruct (C17P_l_install rb nb bk h _ _ _ i evs fuel HA Hi) as [h' [E1 [HA1 [L1 [F1 K1]]]]].
      exists h'. split; [exact E1|]. split; [exact Hw'|]. split; [exact HL'|]. split.
      + apply (term_keep h); [exact Ht|]. apply F1; intro E; [apply (g_rn _ _ _ _ G)|apply (g_nb _ _ _ _ G i Hi)]; symmetry; exact E.
      + assert (Hlt : (i <? r_next r)%nat = true) by (apply Nat.ltb_lt; exact Hi).
        assert (EL : r_lnk (reg_act without r (AReinstall i)) = l_install i (r_lnk r)) by (cbn [reg_act]; rewrite Ef, Hlt; reflexivity).
        assert (ED : r_next (reg_act without r (AReinstall i)) = r_next r) by (cbn [reg_act]; rewrite Ef; reflexivity).
        rewrite EL. apply (links_at_ext h' (dom r) _ (on_of (all r)) _ _ HA1); [intro j; unfold dom; rewrite ED; reflexivity|].
        intros j _. apply on_of_char; [apply (wf_all_nodup _ Hw)|apply (wf_all_nodup _ Hw')|].
        intro q. unfold all. cbn [reg_act]. rewrite Ef. cbn [reg_set r_chain r_out app]. unfold take_id. cbn [In]. rewrite !in_app_iff, filter_In. split.
        * intros [H|H]; [right; left; exact H|]. destruct (Nat.eqb_spec (p_id q) i) as [E|Ne].
          -- left. apply (same_id_same (r_out r) p q); [|exact Hin|exact H|rewrite Eid, E; reflexivity].
             pose proof (wf_all_nodup _ Hw) as Hnd. unfold all in Hnd. rewrite map_app in Hnd. apply (nodup_app_tail _ _ Hnd).
          -- right. right. split; [exact H|reflexivity].
        * intros [<-|[H|[H _]]]; [right; exact Hin|left; exact H|right; exact H].
  Qed.
End Registry.

Section RegistryWalk.
  Variables (rb nb : nat) (bk : nat -> nat).
  (* UtestShell::runOneTest is handed getFirstPlugin(): for a represented registry whose plugins only record, the pre events of the
     translated recursion are the log of the model's `walk false` over the chain, the post events the log of `walk true` over the
     reversed chain (a test without actions on the registry), in that order, the heap unchanged *)
  Lemma rep_filter_on r : wf r -> filter (on_of (all r)) (map p_id (r_chain r)) = pre_all (r_chain r).
  Proof.
    intro Hw. rewrite (filter_on_of (all r) (wf_all_nodup _ Hw) (r_chain r)); [|intros p Hp; apply in_or_app; left; exact Hp].
    rewrite pre_all_enabled. reflexivity.
  Qed.
  Theorem reg_rep_first h r evs fuel : reg_rep rb nb bk h r ->
    src_registry_getFirstPlugin fuel h evs (HPtr nb 0) (HPtr rb 0) = FOk (optr nb bk (l_first (r_lnk r)), h, evs, HPtr nb 0).
  Proof.
    intros [_ [_ [_ [_ [Hr _]]]]]. unfold src_registry_getFirstPlugin. rewrite (r_pa3 _ _ _ Hr), (r_first _ _ _ Hr). reflexivity.
  Qed.
  Theorem reg_rep_pre h r st evs fuel : reg_rep rb nb bk h r -> s_reg st = r -> passive (r_chain r) -> (remove_fuel r <= fuel)%nat ->
    run_pre fuel h evs (HPtr nb 0) (optr nb bk (l_first (r_lnk r))) =
    FOk (tt, h, evs ++ map (fun i => PPre (HPtr (bk i) 0)) (snd (walk false (r_chain r) st [])), HPtr nb 0).
  Proof.
    intros [Hw [[P _] [_ [G [_ [Ho Cf]]]]]] Es Hp Hf. subst r.
    rewrite (walk_passive_pre (r_chain (s_reg st)) st [] Hw (incl_refl _) Hp). cbn [snd app].
    apply (C17P_l_pre rb nb bk h _ _ _ G Ho fuel _ _ evs Cf).
    rewrite (path_pre _ _ _ _ fuel P); [rewrite (rep_filter_on _ Hw); reflexivity|].
    rewrite map_length. pose proof (chain_short _ Hw). unfold remove_fuel in Hf. lia.
  Qed.
  Theorem reg_rep_post h r st evs fuel : reg_rep rb nb bk h r -> s_reg st = r -> passive (r_chain r) -> (remove_fuel r <= fuel)%nat ->
    run_post fuel h evs (HPtr nb 0) (optr nb bk (l_first (r_lnk r))) =
    FOk (tt, h, evs ++ map (fun i => PPost (HPtr (bk i) 0)) (snd (walk true (rev (r_chain r)) st [])), HPtr nb 0).
  Proof.
    intros [Hw [[P _] [_ [G [_ [Ho Cf]]]]]] Es Hp Hf. subst r.
    destruct (walk_passive_post (r_chain (s_reg st)) st [] Hw (incl_refl _) Hp) as [_ [_ E]]. injection E as _ _ E3. rewrite E3.
    cbn [app]. rewrite post_all_log.
    apply (C17P_l_post rb nb bk h _ _ _ G Ho fuel _ _ evs Cf).
    rewrite (path_post _ _ _ _ fuel P); [rewrite (rep_filter_on _ Hw); reflexivity|].
    rewrite map_length. pose proof (chain_short _ Hw). unfold remove_fuel in Hf. lia.
  Qed.
End RegistryWalk.

(* ================================================================== H: examples *)
(* block 0 = the registry, block 1 = the terminator (name id 99), blocks 2..4 = three plugins installed in the order 2, 3, 4
   (names 10, 11, 10; the middle one disabled), block 5 = a plugin object outside the chain whose stale next_ points at block 3 *)
Definition xg : hptr := HPtr 1 0.
Definition xh : heap :=
  [ [VPtr HNull; VPtr HNull; VPtr HNull; VPtr (HPtr 4 0); VInt 0; VInt 0; VInt 0];
    [VPtr HNull; VInt 99; VInt 1];
    [VPtr xg; VInt 10; VInt 1];
    [VPtr (HPtr 2 0); VInt 11; VInt 0];
    [VPtr (HPtr 3 0); VInt 10; VInt 1];
    [VPtr (HPtr 3 0); VInt 12; VInt 1] ].
Definition xps : list prec := [(4%nat, 10, true); (3%nat, 11, false); (2%nat, 10, true)].

Ltac nodup_nat := repeat (constructor; [cbn; intuition discriminate|]); constructor.
Example x_rep : registry_at xh 0 1 xps.
Proof.
  split; [split; reflexivity|]. split; [|split; [discriminate|cbn; intuition discriminate]].
  split; [reflexivity|]. split; [cbn; repeat split|]. split; [exists 99, 1; reflexivity|]. split; [cbn; nodup_nat|cbn; intuition discriminate].
Qed.
(* pre: head first, the disabled one skipped; post: the exact reverse *)
Example x_pre : run_pre 3 xh [] xg (HPtr 4 0) = FOk (tt, xh, [PPre (HPtr 4 0); PPre (HPtr 2 0)], xg).
Proof. vm_compute. reflexivity. Qed.
Example x_post : run_post 3 xh [] xg (HPtr 4 0) = FOk (tt, xh, [PPost (HPtr 2 0); PPost (HPtr 4 0)], xg).
Proof. vm_compute. reflexivity. Qed.
Example x_count : src_registry_countPlugins 4 xh [] xg (HPtr 0 0) = FOk (3, xh, [], xg).
Proof. vm_compute. reflexivity. Qed.
(* the name 10 occurs twice (head and tail): both are unlinked, the middle plugin is the whole chain; the removed blocks 4 and 2 keep
   their cells -- block 4 still points at block 3 *)
Example x_remove_twice : src_registry_removePluginByName 4 xh [] xg (HPtr 0 0) 10 =
  FOk (tt, [ [VPtr HNull; VPtr HNull; VPtr HNull; VPtr (HPtr 3 0); VInt 0; VInt 0; VInt 0];
             [VPtr HNull; VInt 99; VInt 1];
             [VPtr xg; VInt 10; VInt 1];
             [VPtr xg; VInt 11; VInt 0];
             [VPtr (HPtr 3 0); VInt 10; VInt 1];
             [VPtr (HPtr 3 0); VInt 12; VInt 1] ], [], xg).
Proof. vm_compute. reflexivity. Qed.
Example x_remove_is_filter : keep 10 xps = [(3%nat, 11, false)].
Proof. reflexivity. Qed.
(* with fuel = length of the chain the outer loop runs out (an absent name: it visits every plugin and then the terminator): the
   hypothesis length ps < fuel of C17P_remove is needed *)
Example x_remove_fuel : src_registry_removePluginByName 3 xh [] xg (HPtr 0 0) 77 = FNoFuel /\
  src_registry_removePluginByName 4 xh [] xg (HPtr 0 0) 77 = FOk (tt, xh, [], xg).
Proof. vm_compute. split; reflexivity. Qed.

Definition heap_of (r : fres (unit * heap * list pcev * hptr)) : heap := match r with FOk (_, h, _, _) => h | _ => [] end.
(* the middle plugin is removed by name (its next_ stays: block 2) and the same object is installed again: its stale link is
   overwritten, it is the new head *)
Definition xh_rm : heap := Eval vm_compute in heap_of (src_registry_removePluginByName 4 xh [] xg (HPtr 0 0) 11).
Example x_rm_stale : hblock xh_rm 3 = [VPtr (HPtr 2 0); VInt 11; VInt 0] /\ h_read 5 xh_rm xg (HPtr 4 0) = Some [HPtr 4 0; HPtr 2 0].
Proof. vm_compute. split; reflexivity. Qed.
Definition xh_re : heap := Eval vm_compute in heap_of (src_registry_installPlugin 1 xh_rm [] xg (HPtr 0 0) (HPtr 3 0)).
Example x_reinstall : src_registry_getFirstPlugin 1 xh_re [] xg (HPtr 0 0) = FOk (HPtr 3 0, xh_re, [], xg) /\
  h_read 5 xh_re xg (HPtr 3 0) = Some [HPtr 3 0; HPtr 4 0; HPtr 2 0] /\
  run_pre 3 xh_re [] xg (HPtr 3 0) = FOk (tt, xh_re, [PPre (HPtr 4 0); PPre (HPtr 2 0)], xg).
Proof. vm_compute. repeat split. Qed.
(* the stray object of block 5 (stale link into the middle of the chain) installed: 5 -> 4 -> 3 -> 2 *)
Example x_install_stale :
  h_read 6 (heap_of (src_registry_installPlugin 1 xh [] xg (HPtr 0 0) (HPtr 5 0))) xg (HPtr 5 0) = Some [HPtr 5 0; HPtr 4 0; HPtr 3 0; HPtr 2 0].
Proof. vm_compute. reflexivity. Qed.
(* enable / disable *)
Example x_enable : run_pre 3 (heap_of (src_plugin_enable 1 xh [] xg (HPtr 3 0))) [] xg (HPtr 4 0) =
  FOk (tt, heap_of (src_plugin_enable 1 xh [] xg (HPtr 3 0)), [PPre (HPtr 4 0); PPre (HPtr 3 0); PPre (HPtr 2 0)], xg).
Proof. vm_compute. reflexivity. Qed.
(* getPluginByName: the first of that name; an absent name: NULL; the terminator's own name ("null", here id 99): the terminator
   object itself is returned, not NULL -- the hypothesis a <> name of C17P_getByName_found is needed *)
Example x_get : src_registry_getPluginByName 4 xh [] xg (HPtr 0 0) 10 = FOk (HPtr 4 0, xh, [], xg) /\
  src_registry_getPluginByName 4 xh [] xg (HPtr 0 0) 11 = FOk (HPtr 3 0, xh, [], xg) /\
  src_registry_getPluginByName 4 xh [] xg (HPtr 0 0) 77 = FOk (HNull, xh, [], xg) /\
  src_registry_getPluginByName 4 xh [] xg (HPtr 0 0) 99 = FOk (xg, xh, [], xg).
Proof. vm_compute. repeat split. Qed.
Definition get_null_for_absent_stmt : Prop := forall h rb nb ps a name evs fuel, registry_at h rb nb ps -> term_at h nb a ->
  (length ps < fuel)%nat -> first_named name ps = None ->
  src_registry_getPluginByName fuel h evs (HPtr nb 0) (HPtr rb 0) name = FOk (HNull, h, evs, HPtr nb 0).
Lemma get_null_for_absent_refuted : ~ get_null_for_absent_stmt.
Proof.
  intro H. assert (Ht : term_at xh 1 99) by (exists 1; reflexivity). assert (Hl : (length xps < 4)%nat) by (cbn; lia).
  pose proof (H xh 0%nat 1%nat xps 99 99 [] 4%nat x_rep Ht Hl eq_refl) as E. vm_compute in E. discriminate E.
Qed.

(* THE CYCLE: installPlugin handed the object that is the head of the chain already: its next_ is made to point at itself;
   the recursions, countPlugins and a removal by name run out of every fuel *)
Definition xh_cyc : heap := Eval vm_compute in heap_of (src_registry_installPlugin 1 xh [] xg (HPtr 0 0) (HPtr 4 0)).
Example x_cyc_self : hload_ptr xh_cyc (HPtr 4 0) = Some (HPtr 4 0) /\ hload_ptr xh_cyc (HPtr 0 3) = Some (HPtr 4 0).
Proof. vm_compute. split; reflexivity. Qed.
Lemma x_cyc_pre : forall fuel evs, src_plugin_runAllPreTestAction fuel xh_cyc evs xg (HPtr 4 0) = FNoFuel.
Proof.
  induction fuel as [|k IH]; intro evs; [reflexivity|]. cbn [src_plugin_runAllPreTestAction].
  change (hpadd xh_cyc (HPtr 4 0) 2) with (Some (HPtr 4 2)). cbv beta iota. change (hload_int xh_cyc (HPtr 4 2)) with (Some 1).
  change (hload_ptr xh_cyc (HPtr 4 0)) with (Some (HPtr 4 0)). zb. change (hp_eq (HPtr 4 0) xg) with 0. zb. rewrite IH. reflexivity.
Qed.
Lemma x_cyc_post : forall fuel evs, src_plugin_runAllPostTestAction fuel xh_cyc evs xg (HPtr 4 0) = FNoFuel.
Proof.
  induction fuel as [|k IH]; intro evs; [reflexivity|]. cbn [src_plugin_runAllPostTestAction].
  change (hload_ptr xh_cyc (HPtr 4 0)) with (Some (HPtr 4 0)). cbv beta iota. change (hp_eq (HPtr 4 0) xg) with 0. zb. rewrite IH. reflexivity.
Qed.
Lemma x_cyc_count_loop fuel0 : forall fuel count, src_registry_countPlugins_loop1 fuel0 fuel xh_cyc xg count (HPtr 4 0) = NoFuel.
Proof.
  induction fuel as [|k IH]; intro count; [reflexivity|]. cbn [src_registry_countPlugins_loop1].
  change (hp_ne (HPtr 4 0) xg) with 1. zb. change (hload_ptr xh_cyc (HPtr 4 0)) with (Some (HPtr 4 0)). cbv beta iota zeta. apply IH.
Qed.
Theorem x_cyc_never_ends : forall fuel evs,
  run_pre fuel xh_cyc evs xg (HPtr 4 0) = FNoFuel /\ run_post fuel xh_cyc evs xg (HPtr 4 0) = FNoFuel /\
  src_registry_countPlugins fuel xh_cyc evs xg (HPtr 0 0) = FNoFuel.
Proof.
  intros fuel evs. split; [exact (x_cyc_pre fuel evs)|]. split; [exact (x_cyc_post fuel evs)|].
  unfold src_registry_countPlugins. change (hpadd xh_cyc (HPtr 0 0) 3) with (Some (HPtr 0 3)). cbv beta iota zeta.
  change (hload_ptr xh_cyc (HPtr 0 3)) with (Some (HPtr 4 0)). cbv beta iota zeta. rewrite x_cyc_count_loop. reflexivity.
Qed.
(* so "installPlugin always yields a chain" is false without the hypothesis that the object is outside the chain *)
Definition install_any_block_stmt : Prop := forall h rb nb ps x evs fuel, registry_at h rb nb ps -> In x ps ->
  exists h' ps', src_registry_installPlugin fuel h evs (HPtr nb 0) (HPtr rb 0) (pptr x) = FOk (tt, h', evs, HPtr nb 0) /\ registry_at h' rb nb ps'.
Lemma install_any_block_refuted : ~ install_any_block_stmt.
Proof.
  intro H. destruct (H xh 0%nat 1%nat xps (4%nat, 10, true) [] 1%nat x_rep (or_introl eq_refl)) as [h' [ps' [E R]]].
  assert (Eh : h' = xh_cyc) by (vm_compute in E; inversion E; reflexivity). subst h'.
  pose proof R as [Rf [[_ [_ [_ [_ _]]]] _]].
  assert (Ehd : headp 1 ps' = HPtr 4 0).
  { destruct Rf as [_ Rf]. change (nth_error (hblock xh_cyc 0) 3) with (Some (VPtr (HPtr 4 0))) in Rf. inversion Rf as [Eq]. reflexivity. }
  pose proof (C17P_pre xh_cyc _ 1%nat ps' [] (length ps') (proj1 (proj2 R)) (le_n _)) as Hp. rewrite Ehd in Hp.
  destruct (x_cyc_never_ends (length ps') []) as [Hc _]. change xg with (HPtr 1 0) in Hc. rewrite Hc in Hp. discriminate Hp.
Qed.

(* ================================================================== the C17 theorems over the links, of the translated source *)
Section LinkTheorems.
  Variables (rb nb : nat) (bk : nat -> nat).
  (* C17_install_overwrites_link (C17_Links.path_install): an object outside the chain, whatever stale link it carries, handed to
     the translated installPlugin: the chain read from the heap is that object followed by the chain as it was *)
  Corollary C17P_install_overwrites_link h (D : nat -> Prop) on L ids i evs fuel : links_at rb nb bk h D on L ->
    path (l_objs L) (l_first L) ids -> D i -> ~ In i ids ->
    exists h', src_registry_installPlugin fuel h evs (HPtr nb 0) (HPtr rb 0) (HPtr (bk i) 0) = FOk (tt, h', evs, HPtr nb 0) /\
      links_at rb nb bk h' D on (l_install i L) /\
      h_read (S (S (length ids))) h' (HPtr nb 0) (HPtr (bk i) 0) = Some (optrs bk (i :: ids)).
  Proof.
    intros HA P Hi Hn. destruct (C17P_l_install rb nb bk h D on L i evs fuel HA Hi) as [h' [E [HA' _]]].
    exists h'. split; [exact E|]. split; [exact HA'|]. pose proof HA' as [G [_ [Ho Cf]]].
    change (HPtr (bk i) 0) with (optr nb bk (l_first (l_install i L))).
    rewrite (C17P_l_read rb nb bk h' D on _ G Ho _ _ Cf).
    cbn [l_install l_objs l_first]. rewrite (path_read _ _ _ (S (S (length ids))) (path_install _ _ _ i Hn P)); [reflexivity|cbn [length]; lia].
  Qed.
  (* C17_remove_over_links (C17_Links.remove_links): the translated removePluginByName on the links of a chain c: it ends, the
     chain read from the heap afterwards is the textbook `without n c`, and no block of a removed object is written *)
  Corollary C17P_remove_over_links h (D : nat -> Prop) on L n c evs fuel : links_at rb nb bk h D on L ->
    path (l_objs L) (l_first L) (map p_id c) -> NoDup (map p_id c) -> (forall p, In p c -> oname (l_objs L) (p_id p) = p_name p) ->
    (S (length c) < fuel)%nat ->
    exists h' L', src_registry_removePluginByName fuel h evs (HPtr nb 0) (HPtr rb 0) (Z.of_N n) = FOk (tt, h', evs, HPtr nb 0) /\
      l_remove (S (length c)) n L = Some L' /\ links_at rb nb bk h' D on L' /\
      h_read fuel h' (HPtr nb 0) (optr nb bk (l_first L')) = Some (optrs bk (map p_id (without n c))) /\
      (forall j, D j -> ~ In j (map p_id (without n c)) -> hblock h' (bk j) = hblock h (bk j)).
  Proof.
    intros HA P Hnd Hnm Hf. destruct (remove_links n c L (S (length c)) P Hnd Hnm (Nat.lt_succ_diag_r _)) as [L' [R1 [R2 [_ R4]]]].
    pose proof HA as [G _].
    destruct (C17P_l_remove rb nb bk D on n evs fuel G h L L' (S (length c)) HA R1 Hf) as [h' [E [HA' [_ [_ [_ F]]]]]].
    exists h', L'. split; [exact E|]. split; [exact R1|]. split; [exact HA'|]. rewrite remove_by_name_without in R2, R4. split.
    - pose proof HA' as [_ [_ [Ho Cf]]]. rewrite (C17P_l_read rb nb bk h' D on _ G Ho _ _ Cf). rewrite (path_read _ _ _ fuel R2); [reflexivity|].
      rewrite map_length. assert (length (without n c) <= length c)%nat by (unfold without; clear; induction c as [|q c IH]; cbn [filter length]; [lia|destruct (negb (named n q)); cbn [length]; lia]). lia.
    - intros j Hj Hn. apply F; [exact Hj|apply R4; exact Hn].
  Qed.
End LinkTheorems.

(* ================================================================== the link level and the registry on the concrete heap *)
Definition xbk (i : nat) : nat := (i + 2)%nat.
Definition xD (i : nat) : Prop := (i < 4)%nat.
Definition xon (i : nat) : bool := negb (Nat.eqb i 1).
Definition xL : links := {| l_first := Some 2%nat; l_objs := ex_os [(2%nat, 10%N, Some 1%nat); (1%nat, 11%N, Some 0%nat); (0%nat, 10%N, None); (3%nat, 12%N, Some 1%nat)] |}.
Lemma x_geo (D : nat -> Prop) : geo 0 1 xbk D.
Proof. unfold xbk. split; intros; lia. Qed.
Example x_links_at : links_at 0 1 xbk xh xD xon xL.
Proof.
  split; [apply x_geo|]. split; [split; reflexivity|]. split; [split|].
  - intros i Hi. unfold xD in Hi. destruct i as [|[|[|[|i]]]]; [reflexivity|reflexivity|reflexivity|reflexivity|lia].
  - intros i j Hi. unfold xD in *. destruct i as [|[|[|[|i]]]]; [| | | |lia]; vm_compute; intro E; inversion E; lia.
  - intros j E. inversion E. unfold xD. lia.
Qed.
(* the translated removal represents the model's l_remove (instance of C17P_l_remove), and the removed objects 2 and 0 keep
   their links in the model as their blocks do in the heap *)
Example x_l_remove : exists L', l_remove 3 10%N xL = Some L' /\
  links_at 0 1 xbk (heap_of (src_registry_removePluginByName 4 xh [] xg (HPtr 0 0) 10)) xD xon L' /\
  l_first L' = Some 1%nat /\ nxt (l_objs L') 1 = None /\ nxt (l_objs L') 2 = Some 1%nat.
Proof.
  eexists. split; [vm_compute; reflexivity|].
  destruct (C17P_l_remove 0 1 xbk xD xon 10%N [] 4 (x_geo xD) xh xL _ 3 x_links_at eq_refl (Nat.lt_succ_diag_r 3)) as [h' [E [HA _]]].
  change (Z.of_N 10) with 10 in E. change (HPtr 1 0) with xg in E. rewrite E. cbn [heap_of]. split; [exact HA|]. vm_compute. repeat split.
Qed.
Example x_l_walks : l_pre 4 (l_objs xL) xon (l_first xL) = Some [2; 0]%nat /\ l_post 4 (l_objs xL) xon (l_first xL) = Some [0; 2]%nat /\
  l_read 4 (l_objs xL) (l_first xL) = Some [2; 1; 0]%nat /\ h_read 4 xh xg (HPtr 4 0) = Some [HPtr 4 0; HPtr 3 0; HPtr 2 0].
Proof. vm_compute. repeat split. Qed.

(* the model's registry after three installs (names 10, 11, 10) and a disable of the middle one is represented by the heap *)
Definition xr : reg := ex_reg [AInstall 10%N KPlain; AInstall 11%N KPlain; AInstall 10%N KPlain; ADisable 1].
Example x_reg_rep : reg_rep 0 1 xbk xh xr.
Proof.
  split; [apply (wf_acts _ (init_reg, [])); exact wf_init|]. split; [apply linked_acts; [exact wf_init|exact linked_init|reflexivity]|].
  split; [exists 99, 1; reflexivity|]. split; [apply x_geo|]. split; [split; reflexivity|]. split; [split|].
  - intros i Hi. unfold dom in Hi. change (r_next xr) with 3%nat in Hi. destruct i as [|[|[|i]]]; [reflexivity|reflexivity|reflexivity|lia].
  - intros i j Hi. unfold dom in *. change (r_next xr) with 3%nat in *. destruct i as [|[|[|i]]]; [| | |lia]; vm_compute; intro E; inversion E; lia.
  - intros j E. vm_compute in E. inversion E. unfold dom. change (r_next xr) with 3%nat. lia.
Qed.
Example x_reg_chain : map (trip xbk) (r_chain xr) = xps.
Proof. vm_compute. reflexivity. Qed.
(* the translated removal of name 10 represents the model's reg_act (instance of reg_rep_act) *)
Example x_reg_remove : reg_rep 0 1 xbk (heap_of (src_registry_removePluginByName 5 xh [] xg (HPtr 0 0) 10)) (reg_act without xr (ARemove 10%N)) /\
  map p_id (r_chain (reg_act without xr (ARemove 10%N))) = [1%nat].
Proof.
  split; [|vm_compute; reflexivity].
  destruct (reg_rep_act 0 1 xbk xh xr (ARemove 10%N) [] 5 x_reg_rep eq_refl I) as [h' [E R]]; [vm_compute; lia|].
  cbn [src_act] in E. change (Z.of_N 10) with 10 in E. change (HPtr 1 0) with xg in E. rewrite E. exact R.
Qed.
(* pre / post events of the translated recursions = the model's walk (instance of reg_rep_pre / reg_rep_post) *)
Example x_reg_walk : forall st, s_reg st = xr ->
  run_pre 4 xh [] xg (HPtr 4 0) = FOk (tt, xh, map (fun i => PPre (HPtr (xbk i) 0)) (snd (walk false (r_chain xr) st [])), xg) /\
  run_post 4 xh [] xg (HPtr 4 0) = FOk (tt, xh, map (fun i => PPost (HPtr (xbk i) 0)) (snd (walk true (rev (r_chain xr)) st [])), xg).
Proof.
  intros st Es. assert (Hp : passive (r_chain xr)).
  { intros p Hp. vm_compute in Hp. destruct Hp as [<-|[<-|[<-|[]]]]; reflexivity. }
  split.
  - exact (reg_rep_pre 0 1 xbk xh xr st [] 4 x_reg_rep Es Hp (le_n _)).
  - exact (reg_rep_post 0 1 xbk xh xr st [] 4 x_reg_rep Es Hp (le_n _)).
Qed.

(* the remaining translated functions on the concrete heap *)
Example x_disable : run_pre 3 (heap_of (src_plugin_disable 1 xh [] xg (HPtr 4 0))) [] xg (HPtr 4 0) =
  FOk (tt, heap_of (src_plugin_disable 1 xh [] xg (HPtr 4 0)), [PPre (HPtr 2 0)], xg).
Proof. vm_compute. reflexivity. Qed.
Example x_reset : src_registry_countPlugins 4 (heap_of (src_registry_resetPlugins 1 xh [] xg (HPtr 0 0))) [] xg (HPtr 0 0) =
  FOk (0, heap_of (src_registry_resetPlugins 1 xh [] xg (HPtr 0 0)), [], xg) /\
  hblock (heap_of (src_registry_resetPlugins 1 xh [] xg (HPtr 0 0))) 4 = hblock xh 4.
Proof. vm_compute. split; reflexivity. Qed.
Example x_plugin_fns :
  src_plugin_getPluginByName 4 xh [] xg (HPtr 3 0) 10 = FOk (HPtr 2 0, xh, [], xg) /\
  (exists h', src_plugin_removePluginByName 1 xh [] xg (HPtr 4 0) 11 = FOk (HPtr 3 0, h', [], xg) /\ hload_ptr h' (HPtr 4 0) = Some (HPtr 2 0)) /\
  src_plugin_removePluginByName 1 xh [] xg (HPtr 4 0) 10 = FOk (HNull, xh, [], xg) /\
  (exists h', src_plugin_addPlugin 1 xh [] xg (HPtr 5 0) (HPtr 4 0) = FOk (HPtr 5 0, h', [], xg) /\ hload_ptr h' (HPtr 5 0) = Some (HPtr 4 0)) /\
  src_registry_getFirstPlugin 1 xh [] xg (HPtr 0 0) = FOk (HPtr 4 0, xh, [], xg).
Proof. vm_compute. repeat split; eexists; split; reflexivity. Qed.
