(* C11 -- several runAllTests passes over one registry: the flags the shells carry are re-established by every pass from
   the registry's switches as they are then; every pass is the one-pass run of a fresh registry; a dying test is contained in
   every pass, whenever the mode was switched on and whenever the test was added *)
From Coq Require Import NArith ZArith List Bool Arith Lia ZifyBool.
From CppUVerif Require Import gen.Gen_C11 lib.Str C11_Model C11_Words C11_Proofs C11_Loop C11_Compose.
Import ListNotations.
Local Open Scope N_scope.

(* ---- closed form of one pass, from the program text ---- *)
Definition abs_item (rs rr : bool) (k : nat) (mc : mcase) : item := run_case (m_own mc || rs) rr 0 (eff k mc).
Definition pushed (rs rr : bool) (mc : mcase) : shell := {| sh_def := mc; sh_sep := m_own mc || rs; sh_ri := rr |}.

Definition pass_view (s : mscenario) (k : nat) : obs :=
  let its := map (abs_item (want_sep s k) (want_ri s k) k) (present s k) in
  let nrun := N.of_nat (length (filter (fun mc => negb (skipped (want_ri s k) (m_case mc))) (present s k))) in
  let nign := N.of_nat (length (filter (fun mc => skipped (want_ri s k) (m_case mc)) (present s k))) in
  {| o_items := its; o_total := total_fails its; o_failed := negb (total_fails its =? 0) || (nrun + nign =? 0);
     o_run := nrun; o_ign := nign; o_late := false |}.

(* what a shell may carry between two passes: nothing the registry's switches (as they are now) would not give it *)
Definition inv (rs rr : bool) (sh : shell) : Prop :=
  (sh_sep sh = true -> m_own (sh_def sh) = true \/ rs = true) /\
  (m_own (sh_def sh) = true -> sh_sep sh = true) /\
  (sh_ri sh = true -> rr = true).

Lemma push_inv r sh : inv (r_sep r) (r_ri r) sh -> push r sh = pushed (r_sep r) (r_ri r) (sh_def sh).
Proof.
  destruct sh as [mc sp ri]. unfold inv, push, pushed. simpl. intros [A [B C]].
  destruct (r_sep r), (r_ri r), sp, ri, (m_own mc); simpl in *; try reflexivity;
    try (destruct A as [A|A]; [reflexivity|discriminate|..]; discriminate);
    try (specialize (B eq_refl); discriminate); try (specialize (C eq_refl); discriminate).
Qed.

Lemma inv_pushed rs rr mc : inv rs rr (pushed rs rr mc).
Proof. unfold inv, pushed. simpl. destruct (m_own mc), rs; simpl; repeat split; auto; discriminate. Qed.
Lemma inv_new rs rr mc : inv rs rr (new_shell mc).
Proof. unfold inv, new_shell. simpl. repeat split; auto; discriminate. Qed.
Lemma inv_mono rs rr rs' rr' sh : (rs = true -> rs' = true) -> (rr = true -> rr' = true) -> inv rs rr sh -> inv rs' rr' sh.
Proof. unfold inv. intros Hs Hr [A [B C]]. repeat split; auto. intro H. destruct (A H); auto. Qed.

Lemma skipped_eff rr k mc : skipped rr (eff k mc) = skipped rr (m_case mc).
Proof. unfold eff, skipped. destruct (k <? m_from mc)%nat; reflexivity. Qed.

Lemma total_fails_cons it its : total_fails (it :: its) = N.of_nat (length (i_fails it)) + total_fails its.
Proof. unfold total_fails. simpl. lia. Qed.

Lemma run_shells_spec r k : forall shs c, Forall (inv (r_sep r) (r_ri r)) shs ->
  run_shells r k c shs =
  (map (abs_item (r_sep r) (r_ri r) k) (map sh_def shs),
   c + total_fails (map (abs_item (r_sep r) (r_ri r) k) (map sh_def shs)),
   map (pushed (r_sep r) (r_ri r)) (map sh_def shs)).
Proof.
  induction shs as [|sh tl IH]; intros c H.
  - simpl. unfold total_fails. simpl. rewrite N.add_0_r. reflexivity.
  - inversion H as [|x l Hsh Htl]; subst. cbn [run_shells map]. rewrite (push_inv r sh Hsh). cbn [sh_def sh_sep sh_ri pushed].
    rewrite (run_case_count _ _ c 0). fold (abs_item (r_sep r) (r_ri r) k (sh_def sh)).
    rewrite (IH _ Htl). rewrite total_fails_cons. f_equal. f_equal. lia.
Qed.

Lemma count_shells_spec rs rr k : forall mcs a b,
  count_shells k a b (map (pushed rs rr) mcs) =
  (a + N.of_nat (length (filter (fun mc => negb (skipped rr (m_case mc))) mcs)),
   b + N.of_nat (length (filter (fun mc => skipped rr (m_case mc)) mcs))).
Proof.
  induction mcs as [|mc tl IH]; intros a b; [simpl; f_equal; lia|].
  cbn [map count_shells pushed sh_ri sh_def filter]. rewrite skipped_eff.
  destruct (skipped rr (m_case mc)); cbn [negb]; rewrite IH; simpl; f_equal; lia.
Qed.

Lemma upto_app pre st tl : upto (length pre) (pre ++ st :: tl) = pre ++ [st].
Proof.
  unfold upto. induction pre as [|x pre IH]; [reflexivity|]. change (length (x :: pre)) with (S (length pre)).
  change ((x :: pre) ++ st :: tl) with (x :: (pre ++ st :: tl)). rewrite firstn_cons. rewrite IH. reflexivity.
Qed.

Lemma run_pass_view pre st tl r :
  Forall (inv (r_sep r) (r_ri r)) (r_tests r) ->
  r_sep r = existsb st_sep (pre ++ [st]) -> r_ri r = existsb st_ri (pre ++ [st]) ->
  map sh_def (r_tests r) = flat_map st_add (rev (pre ++ [st])) ->
  run_pass r (length pre) =
  (pass_view (pre ++ st :: tl) (length pre),
   {| r_sep := r_sep r; r_ri := r_ri r; r_tests := map (pushed (r_sep r) (r_ri r)) (map sh_def (r_tests r)) |}).
Proof.
  intros I HS HR HT. unfold run_pass. rewrite (run_shells_spec r (length pre) (r_tests r) 0 I).
  rewrite count_shells_spec. unfold pass_view, want_sep, want_ri, present. rewrite upto_app, <- HS, <- HR, <- HT.
  rewrite !N.add_0_l. reflexivity.
Qed.

Lemma run_steps_view : forall sts pre r,
  Forall (inv (r_sep r) (r_ri r)) (r_tests r) ->
  r_sep r = existsb st_sep pre -> r_ri r = existsb st_ri pre ->
  map sh_def (r_tests r) = flat_map st_add (rev pre) ->
  run_steps r (length pre) sts = map (pass_view (pre ++ sts)) (seq (length pre) (length sts)).
Proof.
  induction sts as [|st tl IH]; intros pre r I HS HR HT; [reflexivity|].
  cbn [run_steps length seq map].
  set (r1 := apply_step r st).
  assert (S1 : r_sep r1 = existsb st_sep (pre ++ [st])).
  { unfold r1, apply_step. simpl. rewrite existsb_app. simpl. rewrite HS. destruct (st_sep st), (existsb st_sep pre); reflexivity. }
  assert (R1 : r_ri r1 = existsb st_ri (pre ++ [st])).
  { unfold r1, apply_step. simpl. rewrite existsb_app. simpl. rewrite HR. destruct (st_ri st), (existsb st_ri pre); reflexivity. }
  assert (T1 : map sh_def (r_tests r1) = flat_map st_add (rev (pre ++ [st]))).
  { unfold r1, apply_step. simpl. rewrite map_app, map_map. simpl. rewrite map_id, HT, rev_app_distr. reflexivity. }
  assert (I1 : Forall (inv (r_sep r1) (r_ri r1)) (r_tests r1)).
  { unfold r1, apply_step. cbn [r_tests r_sep r_ri]. apply Forall_app. split.
    - apply Forall_forall. intros sh Hsh. apply in_map_iff in Hsh. destruct Hsh as [mc [<- _]]. apply inv_new.
    - eapply Forall_impl; [|exact I]. intros sh Hsh. eapply inv_mono; [| |exact Hsh].
      + intro E. rewrite E. destruct (st_sep st); reflexivity.
      + intro E. rewrite E. destruct (st_ri st); reflexivity. }
  rewrite (run_pass_view pre st tl r1 I1 S1 R1 T1).
  set (r2 := {| r_sep := r_sep r1; r_ri := r_ri r1; r_tests := map (pushed (r_sep r1) (r_ri r1)) (map sh_def (r_tests r1)) |}).
  f_equal.
  assert (L : S (length pre) = length (pre ++ [st])) by (rewrite app_length; simpl; lia).
  rewrite L. replace (pre ++ st :: tl) with ((pre ++ [st]) ++ tl) by (rewrite <- app_assoc; reflexivity).
  apply IH.
  - unfold r2. cbn [r_tests r_sep r_ri]. apply Forall_forall. intros sh Hsh. apply in_map_iff in Hsh.
    destruct Hsh as [mc [<- _]]. apply inv_pushed.
  - exact S1.
  - exact R1.
  - unfold r2. cbn [r_tests]. rewrite map_map. simpl. rewrite map_id. exact T1.
Qed.

(* every pass is the closed form: the shells are run on (own flag || the switch as it is NOW, run-ignored as it is NOW) *)
Lemma every_pass_from_current_switches s :
  mo_passes (run_m s) = map (pass_view s) (seq 0 (length s)) /\ mo_died (run_m s) = false.
Proof.
  split; [|reflexivity]. unfold run_m. cbn [mo_passes].
  apply (run_steps_view s [] new_registry); try reflexivity. constructor.
Qed.

Lemma nth_error_map_seq {A} (f : nat -> A) : forall n a k x,
  nth_error (map f (seq a n)) k = Some x -> x = f (a + k)%nat /\ (k < n)%nat.
Proof.
  induction n as [|n IH]; intros a k x H; [destruct k; discriminate|].
  destruct k as [|k]; simpl in H.
  - inversion H. rewrite Nat.add_0_r. split; [reflexivity|lia].
  - destruct (IH (S a) k x H) as [E L]. split; [rewrite E; f_equal; lia|lia].
Qed.

Lemma nth_pass s k o : nth_error (mo_passes (run_m s)) k = Some o -> o = pass_view s k /\ (k < length s)%nat.
Proof.
  destruct (every_pass_from_current_switches s) as [-> _]. intro H.
  exact (nth_error_map_seq (pass_view s) (length s) 0 k o H).
Qed.

(* ---- the extended run meets the extended oracle ---- *)
Lemma In_firstn {A} (x : A) : forall n l, In x (firstn n l) -> In x l.
Proof.
  induction n as [|n IH]; intros l H; [destruct H|]. destruct l as [|y l]; [destruct H|].
  simpl in H. destruct H as [->|H]; [left; reflexivity|right; apply IH; exact H].
Qed.

Lemma present_from_steps s k mc : In mc (present s k) -> exists st, In st s /\ In mc (st_add st).
Proof.
  unfold present. intro H. apply in_flat_map in H. destruct H as [st [Hst Hmc]]. exists st. split; [|exact Hmc].
  apply in_rev in Hst. exact (In_firstn st _ _ Hst).
Qed.

Lemma case_ok_eff k mc : case_ok (m_case mc) = true -> case_ok (eff k mc) = true.
Proof. unfold eff. destruct (k <? m_from mc)%nat; [reflexivity|tauto]. Qed.

Lemma items_ok_m_view rs rr k : forall mcs, (forall mc, In mc mcs -> case_ok (m_case mc) = true) ->
  items_ok_m rs rr k mcs (map (abs_item rs rr k) mcs) = true.
Proof.
  induction mcs as [|mc tl IH]; intro H; [reflexivity|]. cbn [map items_ok_m]. unfold abs_item at 1.
  rewrite (case_item_ok_run (m_own mc || rs) rr 0 (eff k mc) (case_ok_eff k mc (H mc (or_introl eq_refl)))).
  apply IH. intros x Hx. apply H. right. exact Hx.
Qed.

Lemma present_nonempty st0 rest k : st_add st0 <> [] -> present (st0 :: rest) k <> [].
Proof.
  intro NE. unfold present, upto. rewrite firstn_cons. cbn [rev]. rewrite flat_map_app. cbn [flat_map]. rewrite app_nil_r.
  intro E. apply app_eq_nil in E. tauto.
Qed.

Lemma pass_view_ok s k : valid_m s = true -> pass_ok s k (pass_view s k) = true.
Proof.
  intro V. unfold valid_m in V. apply andb_prop in V. destruct V as [V _]. apply andb_prop in V. destruct V as [V0 VC].
  assert (C : forall mc, In mc (present s k) -> case_ok (m_case mc) = true).
  { intros mc Hmc. destruct (present_from_steps s k mc Hmc) as [st [Hst Hin]].
    rewrite forallb_forall in VC. specialize (VC st Hst). rewrite forallb_forall in VC. exact (VC mc Hin). }
  assert (NE : present s k <> []).
  { destruct s as [|st0 rest]; [discriminate|]. apply present_nonempty. destruct (st_add st0); [discriminate|discriminate]. }
  unfold pass_ok, pass_view. cbn [o_items o_total o_failed o_run o_ign o_late].
  rewrite (items_ok_m_view _ _ k _ C), !N.eqb_refl. cbn [andb negb]. rewrite andb_true_r.
  pose proof (filter_partition_length (fun mc => skipped (want_ri s k) (m_case mc)) (present s k)) as P.
  assert (E : (N.of_nat (length (filter (fun mc => negb (skipped (want_ri s k) (m_case mc))) (present s k))) +
               N.of_nat (length (filter (fun mc => skipped (want_ri s k) (m_case mc)) (present s k))) =? 0) = false).
  { apply N.eqb_neq. destruct (present s k); [congruence|]. change (length (m :: l)) with (S (length l)) in P. lia. }
  rewrite E, orb_false_r, eqb_reflx. reflexivity.
Qed.

Lemma passes_ok_view s : valid_m s = true -> forall n a, passes_ok s a (map (pass_view s) (seq a n)) = true.
Proof.
  intro V. induction n as [|n IH]; intro a; [reflexivity|]. cbn [seq map passes_ok]. rewrite (pass_view_ok s a V). apply IH.
Qed.

Lemma run_m_meets_spec : forall s, valid_m s = true -> spec_m s (run_m s) = true.
Proof.
  intros s V. unfold spec_m. destruct (every_pass_from_current_switches s) as [-> ->].
  rewrite map_length, seq_length, Nat.eqb_refl. cbn [negb andb]. apply passes_ok_view. exact V.
Qed.

(* the parent lives through every pass and meets every test of every pass *)
Lemma parent_survives_every_pass s :
  mo_died (run_m s) = false /\ length (mo_passes (run_m s)) = length s /\
  forall k o, nth_error (mo_passes (run_m s)) k = Some o ->
    length (o_items o) = length (present s k) /\ o_total o = total_fails (o_items o) /\
    o_run o + o_ign o = N.of_nat (length (present s k)).
Proof.
  split; [reflexivity|]. split.
  - destruct (every_pass_from_current_switches s) as [-> _]. rewrite map_length, seq_length. reflexivity.
  - intros k o H. destruct (nth_pass s k o H) as [-> _]. unfold pass_view. cbn [o_items o_total o_run o_ign].
    rewrite map_length. split; [reflexivity|]. split; [reflexivity|].
    pose proof (filter_partition_length (fun mc => skipped (want_ri s k) (m_case mc)) (present s k)). lia.
Qed.

(* ---- every pass is the first pass of a fresh registry that has today's switches and today's tests ---- *)
Lemma filter_map_length {A B} (f : B -> bool) (g : A -> B) : forall l,
  length (filter f (map g l)) = length (filter (fun x => f (g x)) l).
Proof. induction l as [|x tl IH]; [reflexivity|]. simpl. destruct (f (g x)); simpl; rewrite IH; reflexivity. Qed.
Lemma filter_ext_length {A} (f g : A -> bool) : (forall x, f x = g x) -> forall l, length (filter f l) = length (filter g l).
Proof. intros E l. rewrite (filter_ext f g E). reflexivity. Qed.

Lemma pass_as_fresh_registry s k : (forall mc, In mc (present s k) -> m_own mc = false) ->
  pass_view s k = run {| s_all_sep := want_sep s k; s_run_ign := want_ri s k; s_tests := map (eff k) (present s k) |}.
Proof.
  intro O. unfold run. cbn [s_all_sep s_run_ign s_tests].
  destruct (run_tests_independent (want_sep s k) (want_ri s k) (map (eff k) (present s k)) 0) as [E1 E2].
  destruct (run_tests (want_sep s k) (want_ri s k) 0 (map (eff k) (present s k))) as [its total]. simpl in E1, E2.
  rewrite count_cases_spec. subst its total. rewrite !N.add_0_l. rewrite map_map.
  assert (M : map (abs_item (want_sep s k) (want_ri s k) k) (present s k) =
              map (fun x => run_case (want_sep s k) (want_ri s k) 0 (eff k x)) (present s k)).
  { apply map_ext_in. intros mc Hmc. unfold abs_item. rewrite (O mc Hmc). reflexivity. }
  unfold pass_view. rewrite M, !filter_map_length.
  rewrite (filter_ext_length (fun x => negb (skipped (want_ri s k) (eff k x))) (fun mc => negb (skipped (want_ri s k) (m_case mc))))
    by (intro x; rewrite skipped_eff; reflexivity).
  rewrite (filter_ext_length (fun x => skipped (want_ri s k) (eff k x)) (fun mc => skipped (want_ri s k) (m_case mc)))
    by (intro x; apply skipped_eff).
  reflexivity.
Qed.

(* ---- the modes only grow: switched on before pass k, on in every later pass ---- *)
Lemma existsb_firstn_mono {A} (f : A -> bool) : forall n m l, (n <= m)%nat -> existsb f (firstn n l) = true -> existsb f (firstn m l) = true.
Proof.
  induction n as [|n IH]; intros m l L H; [discriminate|]. destruct m as [|m]; [lia|]. destruct l as [|x l]; [discriminate|].
  simpl in *. apply orb_true_iff in H. apply orb_true_iff. destruct H as [H|H]; [left; exact H|right; apply (IH m l); [lia|exact H]].
Qed.
Lemma modes_only_grow s k j : (k <= j)%nat ->
  (want_sep s k = true -> want_sep s j = true) /\ (want_ri s k = true -> want_ri s j = true).
Proof. intro L. unfold want_sep, want_ri, upto. split; apply existsb_firstn_mono; lia. Qed.

(* ---- a dying test is contained in every pass ---- *)
Lemma dying_test_contained s k o i mc ig p inject :
  nth_error (mo_passes (run_m s)) k = Some o ->
  nth_error (present s k) i = Some mc ->
  m_case mc = {| c_ign := ig; c_test := TReal p inject |} ->
  (m_from mc <= k)%nat ->                       (* it shows its behaviour in this pass *)
  ig && negb (want_ri s k) = false ->            (* and it is to run *)
  prog_ok p = true ->
  let lr := parent_loop 0 (map conc (real_stream p inject)) in
  nth_error (o_items o) i = Some (item_of_loop true lr) /\
  lr_end lr <> EndStreamOut /\
  expect tolerated (real_stream p inject) = (length (lr_fails lr), lr_calls lr, reaped_end (lr_end lr)) /\
  (forall sig, inject = [] -> child_trace p = ([], FateKilled sig) ->
     item_of_loop true lr = {| i_started := true; i_fails := [FKilled sig]; i_calls := 1; i_conts := 0; i_lost := false |}).
Proof.
  intros Ho Hi Hc Hf Hs Hp lr. destruct (nth_pass s k o Ho) as [-> _].
  split; [|split; [|split]].
  - unfold pass_view. cbn [o_items]. rewrite (map_nth_error _ _ _ Hi). f_equal. unfold abs_item, eff.
    assert (F : (k <? m_from mc)%nat = false) by (apply Nat.ltb_ge; exact Hf). rewrite F, Hc. unfold run_case. cbn [c_ign c_test].
    assert (R : run_test (m_own mc || want_sep s k) 0 (TReal p inject) = item_of_loop true lr).
    { unfold lr. cbn [run_test]. unfold run_real. rewrite <- (real_stream_merge 0 p inject). reflexivity. }
    destruct ig; [|exact R]. simpl in Hs. destruct (want_ri s k); [exact R|discriminate].
  - unfold lr. rewrite (real_stream_merge 0 p inject). apply (real_child_contained 0 p inject Hp).
  - pose proof (loop_expect (real_stream p inject) 0 (real_stream_ok p inject Hp)) as L. cbv zeta in L.
    rewrite budget_0 in L. exact L.
  - intros sig -> T. unfold lr, real_stream. rewrite T. cbn [smerge map app fate_sout conc].
    destruct (child_trace_ok p Hp) as [_ F]. rewrite T in F. cbn [snd fate_ok] in F.
    rewrite (loop_step_ev 0 (EvKill sig false) [] F). reflexivity.
Qed.

(* ---- the change that pushes the flags in the first pass only, as a model: the oracle refuses it ---- *)
Fixpoint run_shells_fpo (r : registry) (k : nat) (count : N) (shs : list shell) : list item * N * list shell :=
  match shs with
  | [] => ([], count, [])
  | sh :: tl =>
      let sh' := if (k =? 0)%nat then push r sh else sh in
      let it := run_case (sh_sep sh') (sh_ri sh') count (eff k (sh_def sh')) in
      let '(its, c, tl') := run_shells_fpo r k (count + N.of_nat (length (i_fails it))) tl in
      (it :: its, c, sh' :: tl')
  end.
Definition run_pass_fpo (r : registry) (k : nat) : obs * registry :=
  let '(its, total, shs) := run_shells_fpo r k 0 (r_tests r) in
  let (nrun, nign) := count_shells k 0 0 shs in
  ({| o_items := its; o_total := total; o_failed := negb (total =? 0) || (nrun + nign =? 0);
      o_run := nrun; o_ign := nign; o_late := false |},
   {| r_sep := r_sep r; r_ri := r_ri r; r_tests := shs |}).
Fixpoint run_steps_fpo (r : registry) (k : nat) (sts : list step) : list obs :=
  match sts with
  | [] => []
  | st :: tl => let (o, r') := run_pass_fpo (apply_step r st) k in o :: run_steps_fpo r' (S k) tl
  end.
Definition run_m_first_pass_only (s : mscenario) : mobs := {| mo_passes := run_steps_fpo new_registry 0 s; mo_died := false |}.
Definition first_pass_only_stmt : Prop := forall s, valid_m s = true -> spec_m s (run_m_first_pass_only s) = true.

Definition mc0 (t : test) : mcase := {| m_from := 0; m_own := false; m_case := {| c_ign := false; c_test := t |} |}.
(* a failing test run in the runner's process, then -p, then the same tests again *)
Definition ex_late_switch : mscenario :=
  [ {| st_sep := false; st_ri := false; st_add := [mc0 (TPlain true); mc0 (TPlain false)] |};
    {| st_sep := true; st_ri := false; st_add := [] |} ].
(* -p from the start, one pass, one more test, a second pass *)
Definition ex_late_test : mscenario :=
  [ {| st_sep := true; st_ri := false; st_add := [mc0 (TPlain false)] |};
    {| st_sep := false; st_ri := false; st_add := [mc0 (TPlain true)] |} ].
Lemma first_pass_only_refuted : ~ first_pass_only_stmt.
Proof. intro H. specialize (H ex_late_switch eq_refl). vm_compute in H. discriminate. Qed.
Lemma first_pass_only_refuted_late_test : spec_m ex_late_test (run_m_first_pass_only ex_late_test) = false /\ valid_m ex_late_test = true.
Proof. vm_compute. split; reflexivity. Qed.

(* ---- one pass: the old language is the one-step fragment ---- *)
Lemma item_ok_needs_child a b t it : needs_child t = true -> item_ok a t it = item_ok b t it.
Proof. destruct t; [discriminate|reflexivity|reflexivity|reflexivity]. Qed.
Lemma run_test_needs_child a b c t : needs_child t = true -> run_test a c t = run_test b c t.
Proof. destruct t; [discriminate|reflexivity|reflexivity|reflexivity]. Qed.
Definition emb (all_sep : bool) (tc : tcase) : mcase :=
  {| m_from := 0; m_own := negb all_sep && needs_child (c_test tc); m_case := tc |}.
Lemma emb_sep all_sep tc :
  (m_own (emb all_sep tc) || all_sep = all_sep) \/ (needs_child (c_test tc) = true).
Proof. unfold emb. simpl. destruct all_sep, (needs_child (c_test tc)); simpl; auto. Qed.
Lemma case_item_ok_emb all_sep ri tc it :
  case_item_ok (m_own (emb all_sep tc) || all_sep) ri (eff 0 (emb all_sep tc)) it = case_item_ok all_sep ri tc it.
Proof.
  unfold eff. cbn [emb m_from m_case Nat.ltb Nat.leb]. destruct (emb_sep all_sep tc) as [->|N]; [reflexivity|].
  unfold case_item_ok. destruct (skipped ri tc); [reflexivity|]. apply item_ok_needs_child. exact N.
Qed.
Lemma run_case_emb all_sep ri tc :
  abs_item all_sep ri 0 (emb all_sep tc) = run_case all_sep ri 0 tc.
Proof.
  unfold abs_item, eff. cbn [emb m_from m_case Nat.ltb Nat.leb]. destruct (emb_sep all_sep tc) as [E|N].
  - rewrite E. reflexivity.
  - unfold run_case. destruct (c_ign tc), ri; try reflexivity; apply run_test_needs_child; exact N.
Qed.
Lemma embed_views s : want_sep (embed s) 0 = s_all_sep s /\ want_ri (embed s) 0 = s_run_ign s /\
  present (embed s) 0 = map (emb (s_all_sep s)) (s_tests s).
Proof.
  unfold want_sep, want_ri, present, upto, embed. cbn [firstn existsb rev app flat_map st_sep st_ri st_add].
  rewrite !orb_false_r, app_nil_r. repeat split.
Qed.
Lemma items_ok_m_emb all_sep ri : forall ts its,
  items_ok_m all_sep ri 0 (map (emb all_sep) ts) its = items_ok all_sep ri ts its.
Proof.
  induction ts as [|t tl IH]; intros [|it itl]; try reflexivity. cbn [map items_ok_m items_ok].
  rewrite case_item_ok_emb, IH. reflexivity.
Qed.
Lemma forallb_map' {A B} (f : B -> bool) (g : A -> B) : forall l, forallb f (map g l) = forallb (fun x => f (g x)) l.
Proof. induction l as [|x tl IH]; [reflexivity|]. simpl. rewrite IH. reflexivity. Qed.
Lemma single_pass_embeds s :
  run_m (embed s) = {| mo_passes := [run s]; mo_died := false |} /\
  (forall o, spec_m (embed s) {| mo_passes := [o]; mo_died := false |} = spec s o) /\
  valid_m (embed s) = valid s.
Proof.
  destruct (embed_views s) as [WS [WR PR]]. split; [|split].
  - unfold run_m. f_equal. change (run_steps new_registry 0 (embed s)) with (mo_passes (run_m (embed s))).
    destruct (every_pass_from_current_switches (embed s)) as [-> _]. cbn [embed length seq map]. f_equal.
    unfold run.
    destruct (run_tests_independent (s_all_sep s) (s_run_ign s) (s_tests s) 0) as [E1 E2].
    destruct (run_tests (s_all_sep s) (s_run_ign s) 0 (s_tests s)) as [its total]. simpl in E1, E2.
    rewrite count_cases_spec. subst its total. rewrite !N.add_0_l.
    unfold pass_view. rewrite WS, WR, PR, map_map, !filter_map_length.
    rewrite (map_ext _ _ (run_case_emb (s_all_sep s) (s_run_ign s))). reflexivity.
  - intro o. unfold spec_m. cbn [mo_died mo_passes negb length embed Nat.eqb andb passes_ok]. rewrite andb_true_r.
    unfold pass_ok, spec. fold (embed s). rewrite WS, WR, PR, items_ok_m_emb, !filter_map_length. reflexivity.
  - unfold valid_m, valid. cbn [embed forallb length seq st_add]. fold (embed s). rewrite WS, WR, PR, !andb_true_r.
    rewrite forallb_map'. cbn [emb m_case].
    assert (M : forallb (mode_ok (s_all_sep s) (s_run_ign s) 0) (map (emb (s_all_sep s)) (s_tests s)) = true).
    { apply forallb_forall. intros mc Hmc. apply in_map_iff in Hmc. destruct Hmc as [tc [<- _]].
      unfold mode_ok. cbn [emb m_from m_case m_own Nat.ltb Nat.leb negb andb].
      destruct (skipped (s_run_ign s) tc), (needs_child (c_test tc)), (s_all_sep s); reflexivity. }
    rewrite M, andb_true_r. change (fun x : tcase => case_ok x) with case_ok. destruct (s_tests s); reflexivity.
Qed.

(* ---- examples: the two programs of the red team's demonstration, with a test that is killed ---- *)
Definition ex_kill_prog : prog := {| p_pre := []; p_setup := []; p_body := [ARaise 9]; p_teardown := []; p_post := [] |}.
(* A: a pass in the runner's process during which the test does nothing, then -p, then it is killed in the second pass *)
Definition ex_A : mscenario :=
  [ {| st_sep := false; st_ri := false;
       st_add := [ {| m_from := 1; m_own := false; m_case := {| c_ign := false; c_test := TReal ex_kill_prog [] |} |}; mc0 (TPlain false)] |};
    {| st_sep := true; st_ri := false; st_add := [] |} ].
(* B: -p from the start, a pass, then the test that is killed is added (it runs first), a second pass *)
Definition ex_B : mscenario :=
  [ {| st_sep := true; st_ri := false; st_add := [mc0 (TPlain false)] |};
    {| st_sep := false; st_ri := false; st_add := [mc0 (TReal ex_kill_prog [])] |} ].
Definition brief (o : obs) := (map (fun it => (i_started it, i_fails it, i_calls it)) (o_items o), o_total o, o_failed o, o_run o).
Example ex_A_valid : valid_m ex_A = true /\ valid_m ex_B = true. Proof. split; reflexivity. Qed.
Example ex_A_run : map brief (mo_passes (run_m ex_A)) =
  [ ([(true, [], 0%nat); (true, [], 0%nat)], 0, false, 2);
    ([(true, [FKilled 9], 1%nat); (true, [], 1%nat)], 1, true, 2) ].
Proof. vm_compute. reflexivity. Qed.
Example ex_B_run : map brief (mo_passes (run_m ex_B)) =
  [ ([(true, [], 1%nat)], 0, false, 1);
    ([(true, [FKilled 9], 1%nat); (true, [], 1%nat)], 1, true, 2) ].
Proof. vm_compute. reflexivity. Qed.
(* the oracle is not vacuous over passes: it refuses a runner that died, a missing pass, and a second pass in which the
   killed test left no failure or the test behind it did not run *)
Definition it3 (st : bool) (fs : list failure) (calls : nat) : item :=
  {| i_started := st; i_fails := fs; i_calls := calls; i_conts := 0; i_lost := false |}.
Definition ex_pass0 : obs := {| o_items := [it3 true [] 0; it3 true [] 0]; o_total := 0; o_failed := false; o_run := 2; o_ign := 0; o_late := false |}.
Definition ex_pass1 : obs := {| o_items := [it3 true [FKilled 9] 1; it3 true [] 1]; o_total := 1; o_failed := true; o_run := 2; o_ign := 0; o_late := false |}.
Example ex_spec_m_rejects :
  spec_m ex_A {| mo_passes := [ex_pass0; ex_pass1]; mo_died := false |} = true /\
  spec_m ex_A {| mo_passes := [ex_pass0; ex_pass1]; mo_died := true |} = false /\
  spec_m ex_A {| mo_passes := [ex_pass0]; mo_died := false |} = false /\
  spec_m ex_A {| mo_passes := [ex_pass0; ex_pass0]; mo_died := false |} = false /\
  spec_m ex_A {| mo_passes := [ex_pass0; {| o_items := [it3 true [FKilled 9] 1]; o_total := 1; o_failed := true; o_run := 1; o_ign := 0; o_late := false |}];
                 mo_died := false |} = false /\
  spec_m ex_A {| mo_passes := [ex_pass0; {| o_items := [it3 true [FKilled 9] 1; it3 true [] 0]; o_total := 1; o_failed := true; o_run := 2; o_ign := 0; o_late := false |}];
                 mo_died := false |} = false.
Proof. vm_compute. repeat split. Qed.
Example ex_dying_contained_hyps :
  nth_error (present ex_A 1) 0 = Some {| m_from := 1; m_own := false; m_case := {| c_ign := false; c_test := TReal ex_kill_prog [] |} |} /\
  prog_ok ex_kill_prog = true /\ child_trace ex_kill_prog = ([], FateKilled 9) /\
  want_sep ex_A 0 = false /\ want_sep ex_A 1 = true.
Proof. vm_compute. repeat split. Qed.
