(* C01 -- the bytes that reach the run's standard output: the real ConsoleTestOutput on a buffered stdio stream, in one process
   and with every test in a forked child (-p).  Executable mirror of
     src/CppUTest/TestOutput.cpp            ConsoleTestOutput::printBuffer (PlatformSpecificFPuts(s, stdout); flush();) -- the flush discipline
     src/Platforms/Gcc/UtestPlatform.cpp    GccPlatformSpecificRunTestInASeperateProcess: fork; child: runOneTestInCurrentProcess,
                                            _exit(initialFailureCount < failureCount); parent: waitpid, SetTestFailureByStatusCode
     src/CppUTest/Utest.cpp                 UtestShell::runOneTest (countRun; PlatformSpecificSetJmp(helperDoRunOneTestSeperateProcess))
     src/CppUTest/TestRegistry.cpp          runAllTests (currentTestStarted before, currentTestEnded after the test: in the parent)
     src/CppUTest/CommandLineTestRunner.cpp runAllTests (printTestRun, one TestResult and one summary per repetition, returned value)
   and of the C library's contract for a buffered stream across fork: the buffer is process memory (fork copies it), _exit drops
   it, exit and fflush write it out, a full buffer is written out by the next fputs.
   The extended scenario language: a scenario of C01_Model.v plus, optionally, a console configuration (where stdout goes, -p, -v, -c,
   the buffer capacity).  No proofs in this file. *)
From Coq Require Import NArith ZArith Bool List.
From CppUVerif Require Import gen.Gen_Common lib.CInt C01_Model.
Import ListNotations.
Local Open Scope Z_scope.

(* ------------------------------------------------------------------ a buffered stream shared by a parent and (at most) one child *)
(* what one print carries: a failure record, the summary of a repetition, other text (test name, progress mark, "Test run i of n") *)
Inductive chunk := KRec (f : frec) | KSum (m : summary) | KText (k : N).
(* the flush discipline of the code that writes to the stream *)
Record disc := mkDisc { d_flush_each : bool;        (* printBuffer flushes after every fputs *)
                        d_fork_flushes : bool;      (* the stream is flushed immediately before fork *)
                        d_exit_flushes : bool }.    (* the child leaves through exit / flushes before it leaves (false: _exit, buffer dropped) *)
Definition code_disc : disc := mkDisc true false false.          (* /repo: flush after every fragment; plain fork; _exit *)
Record stdio := mkIO { io_parent : list chunk;                   (* unwritten bytes in the runner's buffer *)
                       io_child : option (list chunk);           (* ... in the buffer of the forked child, while there is one *)
                       io_file : list chunk }.                   (* what has reached the file / pipe behind descriptor 1 (shared) *)
Inductive op := OPut (c : chunk) | OFork | OChildExit.

(* fputs into the buffer b of the running process; then the explicit flush of the discipline, or the implicit one of a full buffer *)
Definition wr (d : disc) (cap : nat) (c : chunk) (b f : list chunk) : list chunk * list chunk :=
  let b' := b ++ [c] in
  if d_flush_each d || (cap <? length b')%nat then ([], f ++ b') else (b', f).
Definition io_step (d : disc) (cap : nat) (o : op) (s : stdio) : stdio :=
  match o with
  | OPut c =>
      match io_child s with
      | Some cb => let '(cb', f) := wr d cap c cb (io_file s) in mkIO (io_parent s) (Some cb') f        (* the child is the one running *)
      | None => let '(pb, f) := wr d cap c (io_parent s) (io_file s) in mkIO pb None f
      end
  | OFork =>
      if d_fork_flushes d then mkIO [] (Some []) (io_file s ++ io_parent s)
      else mkIO (io_parent s) (Some (io_parent s)) (io_file s)                                           (* fork copies the buffer *)
  | OChildExit =>
      match io_child s with
      | Some cb => mkIO (io_parent s) None (if d_exit_flushes d then io_file s ++ cb else io_file s)     (* _exit drops it *)
      | None => s
      end
  end.
Definition io_run (d : disc) (cap : nat) (ops : list op) (s : stdio) : stdio := fold_left (fun s o => io_step d cap o s) ops s.
Definition io0 : stdio := mkIO [] None [].
(* the runner's process ends through exit (the harness: fflush): what is left in its buffer is written *)
Definition stdio_run (d : disc) (cap : nat) (ops : list op) : list chunk :=
  let s := io_run d cap ops io0 in io_file s ++ io_parent s.
Fixpoint puts (ops : list op) : list chunk :=
  match ops with [] => [] | OPut c :: r => c :: puts r | _ :: r => puts r end.

(* ------------------------------------------------------------------ the extended scenario language and its observations *)
Record ioc := mkIoc { i_sink : N;          (* 1: descriptor 1 is a pipe, 2: a regular file (both: full buffering) *)
                      i_sep : bool;        (* -p *)
                      i_verbose : bool;    (* -v *)
                      i_color : bool;      (* -c *)
                      i_cap : N }.         (* capacity of the stdio buffer *)
Record xscenario := mkX { x_scn : scenario; x_io : option ioc }.
(* what is read back from the captured bytes: the failure records and the summaries, in the order they stand in the file *)
Inductive fitem := FRec (f : frec) | FSum (m : summary).
Record cobs := mkCObs { co_escaped : bool; co_ret : option Z; co_items : list fitem }.
Inductive xobs := XPlain (o : obs) | XConsole (c : cobs).

Definition items_of (l : list chunk) : list fitem :=
  flat_map (fun c => match c with KRec f => [FRec f] | KSum m => [FSum m] | KText _ => [] end) l.
Definition put_recs (l : list frec) : list op := map (fun f => OPut (KRec f)) l.

(* ---- one process: the prints of the repetitions the machine of C01_Model.v produces *)
Definition rep_ops (multi : bool) (j : N) (r : rep_obs) : list op :=
  (if multi then [OPut (KText j)] else [])                                             (* printTestRun: "Test run j of n" *)
  ++ put_recs (r_fails r)
  ++ match r_summary r with Some m => [OPut (KSum m)] | None => [] end.
Fixpoint reps_ops (multi : bool) (j : N) (l : list rep_obs) : list op :=
  match l with [] => [] | r :: l' => rep_ops multi j r ++ reps_ops multi (j + 1)%N l' end.

(* ---- every test in a forked child *)
(* the child: a copy of the machine at the fork (its log starts empty here: only what it prints itself is of interest) runs
   runOneTestInCurrentProcess and leaves with the status "did my failure count grow"; an exception that escapes kills it *)
Definition sep_child (exc rethrow : bool) (i : N) (t : test) (s : st) : list frec * bool :=
  let '(sc, oc) := run_in_process exc rethrow i t (mkSt (depth s) (overflow s) (cur s) (cn s) []) in
  (fails_of (out sc), negb (is_normal oc) || (k_fail (cn s) <? k_fail (cn sc))%N).
(* the parent after waitpid: SetTestFailureByStatusCode -> TestFailure(shell, "Failed in separate process"): at the TEST's own location *)
Definition sep_record (i : N) (t : test) : frec := mkF i 0 (t_line t) 1.
Definition sep_parent (i : N) (t : test) (failed : bool) (s : st) : st * outcome :=
  (if failed then add_failure (sep_record i t) s else s, ONormal).
Definition run_one_test_sep (exc rethrow : bool) (i : N) (t : test) (s : st) : st * list op :=
  let s1 := count one_run s in
  let at_fork := set_depth (depth s1 + 1) (mark_slot (depth s1) s1) in                 (* inside PlatformSpecificSetJmp, where fork is called *)
  let '(recs, failed) := sep_child exc rethrow i t at_fork in
  let '(s2, _, _) := setjmp_call (sep_parent i t failed) s1 in
  (s2, [OFork] ++ put_recs recs ++ [OChildExit] ++ (if failed then [OPut (KRec (sep_record i t))] else [])).
(* TestRegistry::runAllTests *)
Fixpoint sep_tests (exc : bool) (cfg : config) (verbose : bool) (i : N) (l : list test) (s : st) : st * list op :=
  match l with
  | [] => (s, [])
  | t :: r =>
      let s1 := count one_test s in
      if selected cfg t then
        let started := if verbose then [OPut (KText i)] else [] in                     (* printCurrentTestStarted: in the parent, BEFORE the fork *)
        let '(s2, ops) := if t_ignored t && negb (c_runign cfg) then (count one_ign s1, [])
                          else run_one_test_sep exc (c_rethrow cfg) i t s1 in
        let '(s3, ops') := sep_tests exc cfg verbose (i + 1)%N r s2 in
        (s3, started ++ ops ++ [OPut (KText i)] ++ ops')                               (* printCurrentTestEnded: progress mark / time *)
      else sep_tests exc cfg verbose (i + 1)%N r (count one_filt s1)
  end.
(* CommandLineTestRunner::runAllTests, the repeat loop *)
Fixpoint sep_loop (exc : bool) (cfg : config) (verbose multi : bool) (tests : list rtest) (n : nat) (loop : N) (s : st) (ft fe : N)
  : list op * N * N :=
  match n with
  | O => ([], ft, fe)
  | S n' =>
      let '(s1, ops) := sep_tests exc cfg verbose 0%N (prog_at loop tests) (fresh s) in
      let '(ops', a, b) := sep_loop exc cfg verbose multi tests n' (loop + 1)%N s1 (ft + k_fail (cn s1))%N (if is_failure (cn s1) then fe + 1 else fe)%N in
      ((if multi then [OPut (KText loop)] else []) ++ ops ++ [OPut (KSum (mk_summary (cn s1)))] ++ ops', a, b)
  end.

Definition console_ops (exc : bool) (scn : scenario) (io : ioc) : list op * bool * option Z :=
  let cfg := s_cfg scn in
  let n := eff_repeat (c_repeat cfg) in
  if i_sep io then
    let '(ops, ft, fe) := sep_loop exc cfg (i_verbose io) (1 <? n)%N (s_tests scn) (N.to_nat n) 0%N st0 0%N 0%N in
    (ops, false, Some (exit_value ft fe))
  else
    let o := C01_Model.run exc scn in
    (reps_ops (1 <? n)%N 0%N (o_reps o), o_escaped o, o_ret o).
Definition console_run (d : disc) (exc : bool) (scn : scenario) (io : ioc) : cobs :=
  let '(ops, esc, ret) := console_ops exc scn io in
  mkCObs esc ret (items_of (stdio_run d (N.to_nat (i_cap io)) ops)).

(* the run of an extended scenario under a flush discipline; [run_x] is the one of the code *)
Definition run_x_with (d : disc) (exc : bool) (xs : xscenario) : xobs :=
  match x_io xs with
  | None => XPlain (C01_Model.run exc (x_scn xs))
  | Some io => XConsole (console_run d exc (x_scn xs) io)
  end.
Definition run_x : bool -> xscenario -> xobs := run_x_with code_disc.

(* ------------------------------------------------------------------ spec of the console observation (from the program text alone) *)
Definition is_nil {A} (l : list A) : bool := match l with [] => true | _ => false end.
Definition is_some {A} (o : option A) : bool := match o with Some _ => true | None => false end.
(* the file, cut at the summaries: the records in front of each summary, and what stands behind the last one *)
Fixpoint split_sums (l : list fitem) (acc : list frec) : list (list frec * summary) * list frec :=
  match l with
  | [] => ([], acc)
  | FRec f :: r => split_sums r (acc ++ [f])
  | FSum m :: r => let '(segs, tl) := split_sums r [] in ((acc, m) :: segs, tl)
  end.
(* -p: every failure of the test (printed by the child) once, where it happened; then the runner's own record of the failed test, at the
   TEST's location *)
Definition sep_test_fails (i : N) (t : test) : list frec :=
  let w := want_fails i t in w ++ (if is_nil w then [] else [sep_record i t]).
Definition sep_fails (cfg : config) (ts : list (N * test)) : list frec :=
  flat_map (fun it => sep_test_fails (fst it) (snd it)) (filter (started cfg) ts).
Definition seg_ok (sep : bool) (cfg : config) (ts : list (N * test)) (seg : list frec * summary) : bool :=
  let c := rep_counts cfg ts in
  let m := snd seg in
  if sep then
    list_eqb frec_eqb (fst seg) (sep_fails cfg ts)
    (* the counters of a child die with it: of the summary of a -p run the property's text is taken to fix the verdict, whether it
       reports failures, and the figures the runner's own process knows (tests, ran, ignored, filtered out) *)
    && Bool.eqb (m_ok m) (rep_is_ok c) && Bool.eqb (is_some (m_nfail m)) (0 <? k_fail c)%N
    && ((m_tests m =? k_tests c) && (m_run m =? k_run c) && (m_ign m =? k_ign c) && (m_filt m =? k_filt c))%N
  else
    list_eqb frec_eqb (fst seg) (rep_fails cfg ts) && summary_ok c m.
Fixpoint segs_ok (sep : bool) (scn : scenario) (j : N) (l : list (list frec * summary)) : bool :=
  match l with [] => true | sg :: l' => seg_ok sep (s_cfg scn) (rep_tests scn j) sg && segs_ok sep scn (j + 1)%N l' end.

Definition spec_console (scn : scenario) (io : ioc) (o : cobs) : bool :=
  let cfg := s_cfg scn in
  let n := eff_repeat (c_repeat cfg) in
  if c_rethrow cfg && existsb rhas_throw (s_tests scn) then true
  else
    negb (co_escaped o)
    && (let '(segs, tl) := split_sums (co_items o) [] in
        is_nil tl                                                      (* nothing behind the last summary *)
        && (N.of_nat (length segs) =? n)%N                             (* one summary per repetition: none lost, none twice *)
        && segs_ok (i_sep io) scn 0%N segs)                            (* every record of repetition j exactly once, in front of ITS summary *)
    && match co_ret o with Some z => Bool.eqb (z =? 0) (every_rep_ok scn n) | None => false end.

Definition spec_x (xs : xscenario) (o : xobs) : bool :=
  match x_io xs, o with
  | None, XPlain p => C01_Model.spec (x_scn xs) p
  | Some io, XConsole c => spec_console (x_scn xs) io c
  | _, _ => false
  end.
Definition valid_x (exc : bool) (xs : xscenario) : bool :=
  C01_Model.valid exc (x_scn xs)
  && match x_io xs with None => true | Some io => c_cli (s_cfg (x_scn xs)) && ((i_sink io =? 1) || (i_sink io =? 2))%N end.
