(* C09 -- value objects whose earlier life was a custom-type object: every read and both comparisons are functions of the LAST
   store, whatever comparator_ / copier_ the object still carries.  The stale members are really in the model's state
   (ex_stale_members_kept); equals looks at comparator_ only when the type name is a custom one (oequals), and a built-in
   store makes the type name a built-in one. *)
From Coq Require Import ZArith Bool List Lia.
From CppUVerif Require Import lib.CInt lib.Dbl lib.Str C09_Model C09_Proofs C09_AliasProofs C09_Access C09_AccessProofs
  C09_Reuse C09_ReuseProofs C09_Edge C09_EdgeProofs C09_Stale.
Import ListNotations.
Local Open Scope Z_scope.

(* ---- the cell level: ANY object (any bytes, any type name, any comparator_ / copier_), any repository, any user comparator ---- *)

Lemma stale_equals_last_store cf rp h ca cb sa sb :
  c_valid sa = true -> c_valid sb = true ->
  oequals cf h (ocell_store rp ca (OCVal sa)) (ocell_store rp cb (OCVal sb)) = equals (cabs h sa) (cabs h sb).
Proof.
  intros Ha Hb. unfold oequals. cbn [ocell_store oc_obj oc_cell]. rewrite !store_decode by assumption. reflexivity.
Qed.

Lemma stale_equals_math cf rp h ca cb sa sb e :
  c_valid sa = true -> c_valid sb = true -> math_equal (cabs h sa) (cabs h sb) = Some e ->
  oequals cf h (ocell_store rp ca (OCVal sa)) (ocell_store rp cb (OCVal sb)) = e.
Proof.
  intros Ha Hb He. rewrite stale_equals_last_store by assumption.
  exact (equals_math _ _ e (cabs_valid h sa Ha) (cabs_valid h sb Hb) He).
Qed.

Lemma stale_int_equal_iff cf rp h ca cb t1 z1 t2 z2 :
  in_range t1 z1 = true -> in_range t2 z2 = true ->
  oequals cf h (ocell_store rp ca (OCVal (CInt t1 z1))) (ocell_store rp cb (OCVal (CInt t2 z2))) = (z1 =? z2)
  /\ oequals cf h (ocell_store rp cb (OCVal (CInt t2 z2))) (ocell_store rp ca (OCVal (CInt t1 z1))) = (z1 =? z2).
Proof.
  intros H1 H2. rewrite !stale_equals_last_store by assumption. cbn [cabs]. split.
  - exact (int_equals_math t1 t2 z1 z2 H1 H2).
  - rewrite Z.eqb_sym. exact (int_equals_math t2 t1 z2 z1 H2 H1).
Qed.

(* the stale members take no part: two objects that differ in comparator_ / copier_ only are answered alike *)
Lemma stale_members_irrelevant cf cf' rp rp' h c cmp cop cmp' cop' cb s sb :
  oequals cf h (ocell_store rp {| oc_cell := c; oc_obj := None; oc_cmp := cmp; oc_cop := cop |} (OCVal s)) (ocell_store rp cb (OCVal sb))
  = oequals cf' h (ocell_store rp' {| oc_cell := c; oc_obj := None; oc_cmp := cmp'; oc_cop := cop' |} (OCVal s)) (ocell_store rp' cb (OCVal sb))
  /\ oequals cf h (ocell_store rp cb (OCVal sb)) (ocell_store rp {| oc_cell := c; oc_obj := None; oc_cmp := cmp; oc_cop := cop |} (OCVal s))
  = oequals cf' h (ocell_store rp' cb (OCVal sb)) (ocell_store rp' {| oc_cell := c; oc_obj := None; oc_cmp := cmp'; oc_cop := cop' |} (OCVal s)).
Proof. split; reflexivity. Qed.

(* a built-in value and a custom-type object are of different types: never equal, in either direction *)
Lemma stale_builtin_never_equals_object cf rp h ca cb s ty cst a :
  oequals cf h (ocell_store rp ca (OCVal s)) (ocell_store rp cb (OCObj ty cst a)) = false
  /\ oequals cf h (ocell_store rp cb (OCObj ty cst a)) (ocell_store rp ca (OCVal s)) = false.
Proof. split; reflexivity. Qed.

(* the harmless rewrite answers as the code does *)
Lemma guard_first_harmless cf h a p : oequals_guard_first cf h a p = oequals cf h a p.
Proof.
  unfold oequals_guard_first, oequals. destruct (oc_obj a) as [ta|], (oc_obj p) as [tp|]; try reflexivity.
  destruct (oc_cmp a); [reflexivity | symmetry; apply andb_false_r].
Qed.

(* ---- the red-team comparison (C09-1, round 7): exact while comparator_ is NULL, wrong on an object that had a custom-type life ---- *)
Definition cmp_first_stmt : Prop :=
  forall cf rp h ca cb sa sb, c_valid sa = true -> c_valid sb = true ->
    oequals_cmp_first cf h (ocell_store rp ca (OCVal sa)) (ocell_store rp cb (OCVal sb)) = equals (cabs h sa) (cabs h sb).
Definition stale_witness : ocell := ocell_after [(true, false)] ocell_zero [OCObj 0 true 4096].
Lemma cmp_first_refuted : ~ cmp_first_stmt.
Proof.
  intro H. specialize (H cf_foreign [(true, false)] (fun _ => []) stale_witness ocell_zero (CInt TInt 5) (CInt TInt 5) eq_refl eq_refl).
  discriminate H.
Qed.
(* why the project's tests (objects that never carried a comparator) do not see it *)
Lemma cmp_first_exact_without_comparator cf rp h ca cb sa sb :
  oc_cmp ca = None -> oc_cmp cb = None ->
  oequals_cmp_first cf h (ocell_store rp ca (OCVal sa)) (ocell_store rp cb (OCVal sb))
  = oequals cf h (ocell_store rp ca (OCVal sa)) (ocell_store rp cb (OCVal sb))
  /\ oequals_cmp_first cf h (ocell_store rp cb (OCVal sb)) (ocell_store rp ca (OCVal sa))
  = oequals cf h (ocell_store rp cb (OCVal sb)) (ocell_store rp ca (OCVal sa)).
Proof.
  intros Ha Hb. unfold oequals_cmp_first, oequals. cbn [ocell_store oc_obj oc_cell oc_cmp]. rewrite Ha, Hb.
  split; match goal with |- (if ?c then _ else _) = _ => destruct c; reflexivity end.
Qed.

(* ---- the executable run ---- *)

(* the bytes of the union after a history with object stores are those after the history with "const void*" stores in their place *)
Lemma oc_cell_after rp : forall l i c,
  oc_cell (ocell_after rp c (oplace_from i l)) = cell_after (oc_cell c) (place_from i (map erase l)).
Proof.
  induction l as [|o l IH]; intros i c; [reflexivity|].
  cbn [oplace_from map place_from]. unfold ocell_after, cell_after. cbn [fold_left].
  fold (ocell_after rp (ocell_store rp c (oplace i o)) (oplace_from (S i) l)).
  fold (cell_after (cell_store (oc_cell c) (place i (erase o))) (place_from (S i) (map erase l))).
  rewrite IH. f_equal. destruct o; reflexivity.
Qed.

Lemma st_cell_a r : oc_cell (st_ocell_a r) = ru_cell_a (st_erase r).
Proof.
  unfold st_ocell_a, ru_cell_a. cbn [ocell_store oc_cell st_erase ru_before ru_last]. rewrite oc_cell_after, map_length. reflexivity.
Qed.
Lemma st_cell_b r : oc_cell (st_ocell_b r) = ru_cell_b (st_erase r).
Proof.
  unfold st_ocell_b, ru_cell_b. cbv zeta. cbn [ocell_store oc_cell st_erase ru_before ru_obefore ru_other].
  rewrite oc_cell_after, !map_length. reflexivity.
Qed.
Lemma st_obj_a r : oc_obj (st_ocell_a r) = None. Proof. reflexivity. Qed.
Lemma st_obj_b r : oc_obj (st_ocell_b r) = None. Proof. reflexivity. Qed.

Lemma st_valid_erased r : st_valid r = true -> ru_valid (st_erase r) = true.
Proof. unfold st_valid. intro H. apply andb_prop in H. exact (proj2 H). Qed.

(* the run on the cells with their stale members is the run of C09_Reuse.v on the same bytes, for ANY user comparator *)
Lemma st_run_with_any_comparator cf r : st_run_with (oequals cf) r = ru_run (st_erase r).
Proof.
  unfold st_run_with, ru_run, oequals. cbv zeta. rewrite !st_obj_a, !st_obj_b, !st_cell_a, !st_cell_b. reflexivity.
Qed.
Lemma st_run_erased r : st_run r = ru_run (st_erase r).
Proof. exact (st_run_with_any_comparator cf_foreign r). Qed.

Lemma st_run_refines r : st_valid r = true -> st_run r = ru_run_abs (st_erase r).
Proof. intro H. rewrite st_run_erased. exact (ru_run_refines _ (st_valid_erased r H)). Qed.

(* two scenarios that differ in the earlier lives of the objects, in the repository and in the box are answered alike *)
Lemma st_history_irrelevant r r' :
  st_valid r = true -> st_valid r' = true -> st_last r = st_last r' -> st_other r = st_other r' -> st_run r = st_run r'.
Proof.
  intros Hv Hv' Hl Ho. rewrite (st_run_refines r Hv), (st_run_refines r' Hv'). unfold ru_run_abs. cbn [st_erase ru_fam ru_last ru_other].
  rewrite Hl, Ho. reflexivity.
Qed.

Lemma st_run_meets_spec r : st_valid r = true -> st_spec r (st_run r) = true.
Proof. intro H. unfold st_spec. rewrite st_run_erased. exact (ru_run_meets_spec _ (st_valid_erased r H)). Qed.

Lemma v_run_meets_spec s : v_valid s = true -> v_spec s (v_run s) = true.
Proof.
  destruct s as [s|r]; cbn [v_valid v_run v_spec]; intro H.
  - exact (w_run_meets_spec s H).
  - exact (st_run_meets_spec r H).
Qed.

(* the harmless rewrite runs as the code does; the red-team comparison does not *)
Lemma st_run_guard_first r : st_run_with (oequals_guard_first cf_foreign) r = st_run r.
Proof. unfold st_run, st_run_with. cbv zeta. rewrite !guard_first_harmless. reflexivity. Qed.

(* ---- non-vacuity ---- *)
(* the stale members are really in the model's state: a Config object (comparator and copier installed), then int 5 *)
Example ex_stale_members_kept :
  let c := ocell_after [(true, true); (false, false); (false, true)] ocell_zero [OCObj 0 false 4096; OCVal (CInt TInt 5)] in
  oc_cmp c = Some 0%nat /\ oc_cop c = Some 0%nat /\ oc_obj c = None /\ decode (fun _ => []) (oc_cell c) = VInt TInt 5
  /\ k_w0 (oc_cell c) = 5.
Proof. repeat split; reflexivity. Qed.
Definition ex_stale : stale :=
  {| st_box := BData; st_repo := [(true, false); (false, true); (false, false)];
     st_before := [OVal (SInt TUInt 7); OObj 0 true 1]; st_last := SInt TInt 5;
     st_obefore := [OObj 1 false 2]; st_other := SInt TInt 5 |}.
Example ex_stale_valid :
  st_valid ex_stale = true /\ oc_cmp (st_ocell_a ex_stale) = Some 0%nat /\ oc_cop (st_ocell_b ex_stale) = Some 1%nat
  /\ q_ab (st_run ex_stale) = true /\ q_ba (st_run ex_stale) = true /\ nth 1 (q_get (st_run ex_stale)) None = Some (RInt 5)
  /\ q_ab (st_run_with (oequals_cmp_first cf_foreign) ex_stale) = false
  /\ q_ba (st_run_with (oequals_cmp_first cf_foreign) ex_stale) = true
  /\ st_spec ex_stale (st_run_with (oequals_cmp_first cf_foreign) ex_stale) = false.
Proof. vm_compute. repeat split; reflexivity. Qed.
Example ex_stale_other_type :
  let r := {| st_box := BNamed; st_repo := [(true, true); (true, true); (true, true)];
              st_before := [OObj 2 false 3]; st_last := SStr (Some [97%N]); st_obefore := [OObj 2 false 3]; st_other := SBool true |} in
  st_valid r = true /\ q_ab (st_run r) = false /\ q_ba (st_run r) = false /\ nth 8 (q_get (st_run r)) None = Some (RStr (Some [97%N])).
Proof. vm_compute. repeat split; reflexivity. Qed.
