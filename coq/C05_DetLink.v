(* C05 <-> the detector's allocation paths as translated from /repo (gen/Gen_HeapC04D.v, theorems in C04_DetTie.v):
   the size arithmetic of C05_Model for the configuration the translated code is built in (guard bytes on, sizeof of the record 64)
   is the arithmetic the theorems about the translated allocMemory / reallocMemory use. Only links here; the theorems about the
   translated functions are restated in Properties_C05.v. *)
From Coq Require Import ZArith NArith Bool Lia.
From CppUVerif Require Import gen.Gen_Common gen.Gen_C05 C05_Model.
From CppUVerif Require C04_DetTie.
Local Open Scope Z_scope.

Definition real_cfg : cfg := {| guard_on := true; node_size := 64 |}.

Lemma real_cfg_valid : valid_cfg real_cfg = true. Proof. reflexivity. Qed.

(* sizeLeavesRoomForAccountingInformation: the model's `fits` is the bound of the translated test *)
Lemma link_fits (n : N) : fits real_cfg n = (Z.of_N n <=? C04_DetTie.max_user_size).
Proof.
  unfold fits. rewrite C04_DetTie.max_user_size_val.
  change ((W - 1) - (G real_cfg + c05_ptr_size + node_size real_cfg))%N with 18446744073709551540%N.
  destruct (N.leb_spec n 18446744073709551540) as [L|L]; symmetry; [apply Z.leb_le | apply Z.leb_gt]; lia.
Qed.

(* sizeOfMemoryWithCorruptionInfo: user bytes + 3 guard bytes, rounded up to the next multiple of 8 (always at least one byte more) *)
Lemma link_with_guard (n : N) : Z.of_N n <= C04_DetTie.max_user_size ->
  Z.of_N (with_guard real_cfg n) = C04_DetTie.size_with_guard (Z.of_N n).
Proof.
  rewrite C04_DetTie.max_user_size_val. intro H.
  rewrite C04_DetTie.size_with_guard_alt. unfold with_guard, aligned.
  change (guard_on real_cfg) with true. cbv iota. change (G real_cfg) with 3%N. change c05_ptr_size with 8%N.
  assert (E1 : wrap (n + 3) = (n + 3)%N) by (unfold wrap; apply N.mod_small; unfold W; lia).
  rewrite E1.
  assert (B : ((n + 3) mod 8 < 8)%N) by (apply N.mod_lt; discriminate).
  assert (M : Z.of_N ((n + 3) mod 8) = (Z.of_N n + 3) mod 8) by (rewrite N2Z.inj_mod, N2Z.inj_add; reflexivity).
  set (m := ((n + 3) mod 8)%N) in *. rewrite <- M.
  assert (E2 : wrap (8 - m + (n + 3)) = (8 - m + (n + 3))%N) by (unfold wrap; apply N.mod_small; unfold W; lia).
  rewrite E2. lia.
Qed.

(* the request handed to the underlying allocator: allocate/reallocateMemoryWithAccountingInformation *)
Lemma link_request (sep : bool) (n : N) : Z.of_N n <= C04_DetTie.max_user_size ->
  Z.of_N (request real_cfg sep n) = C04_DetTie.alloc_request (if sep then 1 else 0) (Z.of_N n).
Proof.
  intro H. unfold request, C04_DetTie.alloc_request. pose proof (link_with_guard n H) as E.
  pose proof (C04_DetTie.size_with_guard_bounds (Z.of_N n)) as [[_ B] _]. rewrite C04_DetTie.max_user_size_val in H.
  destruct sep; cbn [CSem.z2b Z.eqb negb]; [exact E|].
  change (node_size real_cfg) with 64%N. unfold wrap. rewrite N.mod_small by (unfold W; lia). lia.
Qed.

(* a request the model refuses for its size is one the translated allocMemory / reallocMemory refuse without asking the allocator *)
Lemma link_oversize (n : N) : fits real_cfg n = false <-> C04_DetTie.max_user_size < Z.of_N n.
Proof. rewrite link_fits. split; intro H; [apply Z.leb_gt; exact H | apply Z.leb_gt; exact H]. Qed.
