(* C18 -- environment mode: the string the underlying allocator builds for itself, served by the cache it sits under, keeps
   both invariants (three cases: an idle block of the class is lent and comes back; a new block is made and stays idle; a
   non-cached block is made and destroyed). *)
From Coq Require Import NArith Arith Bool List Lia Permutation.
From CppUVerif Require Import gen.Gen_C18 C18_Model C18_Lists C18_Inv C18_Sim C18_ModelG C18_GInv C18_GSim C18_ModelE C18_EInv C18_EBooks.
Import ListNotations.
Local Open Scope N_scope.

(* ---------------------------------------------------------------- what is held but not handed out *)
Definition fb_node (nd : node) : list kblock := map (pair (Some (n_size nd))) (n_free nd).
Definition fblocks (st : state) : list kblock := flat_map fb_node (s_cache st).
Definition rest (st : state) : list N := map (fun kb => b_hdr (snd kb)) (ublocks st) ++ flat_map kb_ids (fblocks st).

Lemma kblocks_split : forall st, Permutation (kblocks st) (ublocks st ++ fblocks st).
Proof.
  intros st. unfold kblocks, ublocks, fblocks.
  assert (P : Permutation (flat_map kb_node (s_cache st)) (flat_map ub_node (s_cache st) ++ flat_map fb_node (s_cache st))).
  { induction (s_cache st) as [|nd r IH]; [constructor|]. simpl.
    unfold kb_node at 1. rewrite map_app. fold (fb_node nd). fold (ub_node nd).
    eapply perm_trans; [apply Permutation_app; [apply Permutation_app_comm | exact IH]|].
    rewrite <- !app_assoc. apply Permutation_app_head. rewrite !app_assoc. apply Permutation_app_tail. apply Permutation_app_comm. }
  eapply perm_trans; [apply Permutation_app_tail; exact P|]. rewrite <- !app_assoc. apply Permutation_app_head. apply Permutation_app_comm.
Qed.
Lemma ids_of_blocks : forall (l : list kblock),
  Permutation (flat_map kb_ids l) (map (fun kb => b_mem (snd kb)) l ++ map (fun kb => b_hdr (snd kb)) l).
Proof.
  induction l as [|kb r IH]; [constructor|]. simpl. eapply perm_trans; [apply perm_swap|]. constructor.
  eapply perm_trans; [|apply Permutation_middle]. constructor. exact IH.
Qed.
Lemma map_fst_outk : forall st, map fst (outk st) = map (fun kb => b_mem (snd kb)) (ublocks st).
Proof. intros. unfold outk. rewrite map_map. reflexivity. Qed.
Lemma ids_split : forall st, Permutation (ids st) (map fst (outk st) ++ rest st).
Proof.
  intros st. unfold ids, rest. rewrite map_fst_outk.
  eapply perm_trans; [apply Permutation_flat_map; apply kblocks_split|]. rewrite flat_map_app. rewrite app_assoc.
  apply Permutation_app_tail. apply ids_of_blocks.
Qed.
Lemma free_in_rest : forall st nd blk, In nd (s_cache st) -> In blk (n_free nd) -> In (b_mem blk) (rest st) /\ In (b_hdr blk) (rest st).
Proof.
  intros st nd blk H1 H2. unfold rest.
  assert (G : In (Some (n_size nd), blk) (fblocks st)).
  { unfold fblocks. apply in_flat_map. exists nd. split; [exact H1|]. unfold fb_node. apply in_map. exact H2. }
  split; apply in_or_app; right; apply in_flat_map; exists (Some (n_size nd), blk); (split; [exact G | simpl; auto]).
Qed.
Lemma hdr_in_rest : forall st k blk, In (k, blk) (kblocks st) -> In (b_hdr blk) (rest st).
Proof.
  intros st k blk H. eapply Permutation_in in H; [|apply kblocks_split]. unfold rest. apply in_app_iff in H. apply in_or_app.
  destruct H as [H|H].
  - left. apply in_map_iff. exists (k, blk). auto.
  - right. apply in_flat_map. exists (k, blk). split; [exact H | simpl; auto].
Qed.
Lemma rest_not_out : forall st id, NoDup (ids st) -> In id (rest st) -> ~ In id (map fst (outk st)).
Proof.
  intros st id N H G. eapply Permutation_NoDup in N; [|apply ids_split]. eapply NoDup_app_disj; eauto.
Qed.
Lemma in_kblocks_node : forall st l1 nd l2 blk, s_cache st = l1 ++ nd :: l2 -> In blk (n_free nd ++ n_used nd) -> In (Some (n_size nd), blk) (kblocks st).
Proof.
  intros st l1 nd l2 blk H1 H2. unfold kblocks. apply in_or_app. left. apply in_flat_map. exists nd. split.
  - rewrite H1. apply in_or_app. right. left. reflexivity.
  - unfold kb_node. apply in_map. exact H2.
Qed.
Lemma in_ids_kb : forall st k blk, In (k, blk) (kblocks st) -> In (b_hdr blk) (ids st) /\ In (b_mem blk) (ids st).
Proof. intros st k blk H. split; apply in_ids; exists k, blk; auto. Qed.

Lemma BI_ids_nodup : forall pend st tab t base b live, BI pend (Some (st, tab)) t base b live -> NoDup (ids st).
Proof.
  intros pend st tab t base b live B. pose proof (bi_nodup _ _ _ _ _ _ B) as N. apply NoDup_app_r in N. apply NoDup_app_l in N.
  simpl in N. inversion N; assumption.
Qed.
Lemma held_fresh : forall pend st tab t base b live id, BI pend (Some (st, tab)) t base b live -> In id (ids st) -> id < xlen b /\ ~ In id (xf b).
Proof.
  intros pend st tab t base b live id B H. apply (bi_rng _ _ _ _ _ _ B id).
  apply in_or_app. right. simpl. right. exact H.
Qed.

Lemma x_applies_app : forall c live l1 l2 b,
  x_applies c live b (l1 ++ l2) = match x_applies c live b l1 with Some b1 => x_applies c live b1 l2 | None => None end.
Proof.
  induction l1 as [|e r IH]; intros l2 b; simpl; [reflexivity|]. destruct (x_apply c live b e); [apply IH | reflexivity].
Qed.

(* ---------------------------------------------------------------- one life *)
Definition life_post (pend : list N) (tab t base : N) (b : xbk) (live : list lentry) (st st' : state) (nx' : N) (b' : xbk) : Prop :=
  nx' = xlen b' /\ bgrow b b' /\ BI pend (Some (st', tab)) t base b' live /\ KI st' tab t b' live /\ s_non st' = s_non st /\
  (forall id, In id pend -> seen_cls (xs b') id = seen_cls (xs b) id).

Lemma life_ok : forall pend st tab t base b live r c st' nx' evs,
  BI pend (Some (st, tab)) t base b live -> KI st tab t b live -> life r st (xlen b) = (st', nx', evs) ->
  exists b', x_applies c live b evs = Some b' /\ life_post pend tab t base b live st st' nx' b'.
Proof.
  intros pend st tab t base b live r c st' nx' evs B K L.
  pose proof (ki_sizes _ _ _ _ _ K) as Hs.
  assert (Hlive : forall id, In id (lids live) -> id < xlen b) by (intros id H; eapply live_lt; [exact B | exact K | exact H]).
  destruct (life_cases _ _ _ _ _ _ Hs L) as [l1 nd l2 blk fr H1 H2 H3 H4 H5 H6 H7|l1 nd l2 H1 H2 H3 H4 H5 H6 H7|H1 H4 H5 H6 H7].
  - (* an idle block of the class is lent to the string and comes back *)
    subst evs nx'. exists b.
    assert (Hk : In (Some (n_size nd), blk) (kblocks st)) by (eapply in_kblocks_node; [exact H1 | rewrite H2; left; reflexivity]).
    destruct (ki_blk _ _ _ _ _ K _ Hk) as [_ [Hm Hseen]]. cbn [fst snd] in Hm, Hseen.
    destruct (in_ids_kb _ _ _ Hk) as [_ Hi]. destruct (held_fresh _ _ _ _ _ _ _ _ B Hi) as [_ Hnf].
    assert (Hnd : In nd (s_cache st)) by (rewrite H1; apply in_or_app; right; left; reflexivity).
    assert (Hnl : ~ In (b_mem blk) (lids live)).
    { eapply idle_not_live; [exact B | exact K | apply in_or_app; right; simpl; right; exact Hi|].
      apply rest_not_out; [eapply BI_ids_nodup; exact B|]. eapply free_in_rest; [exact Hnd | rewrite H2; left; reflexivity]. }
    split.
    + cbn [x_applies x_apply]. rewrite (handout_seen live b (b_mem blk) r who_U (n_size nd)); auto.
      * apply cls_some_cached in H3. tauto.
      * rewrite Hseen, H3. reflexivity.
    + split; [reflexivity|]. split; [apply bgrow_refl|]. split; [|split; [|split; [exact H5 | reflexivity]]].
      * apply (BI_move pend pend (Some (st, tab)) (Some (st', tab))); [|split; discriminate | exact B]. simpl. unfold ids.
        destruct (kblocks_eq st st' H4 H5) as [E _]. rewrite E. apply Permutation_refl.
      * eapply KI_state; eauto.
  - (* a new block is made for the string and stays idle in its class *)
    subst evs nx'. set (nx := xlen b) in *. set (nb := {| b_hdr := nx; b_mem := nx + 1 |}) in *.
    set (b1 := grow1 b who_U block_hdr_size). set (b2 := grow1 b1 who_U (n_size nd)). set (b3 := see b2 (nx + 1) (cls r)).
    assert (L1 : xlen b1 = nx + 1) by apply xlen_grow1.
    assert (L2 : xlen b2 = nx + 2) by (unfold b2; rewrite xlen_grow1, L1; lia).
    assert (O1 : xszof (xo b2) nx = Some (who_U, block_hdr_size)) by (apply xszof_app; apply grow1_new).
    assert (O2 : xszof (xo b2) (nx + 1) = Some (who_U, n_size nd)) by (rewrite <- L1; apply grow1_new).
    assert (S0 : seen_cls (xs b) (nx + 1) = None) by (eapply seen_lt_none; [exact (bi_seenp _ _ _ _ _ _ B) | unfold nx; lia]).
    assert (G3 : bgrow b b3).
    { eapply bgrow_trans; [apply bgrow_grow1|]. eapply bgrow_trans; [apply bgrow_grow1|]. apply bgrow_see. exact S0. }
    exists b3. split.
    + cbn [x_applies]. unfold nx. rewrite apply_XA. fold b1. fold nx. rewrite <- L1. rewrite apply_XA. fold b2. rewrite L1.
      change (x_apply c live b2 (XR (nx + 1) 0 r)) with (handout live b2 (nx + 1) 0 r).
      rewrite (handout_fresh live b2 (nx + 1) r who_U (n_size nd)); auto.
      * cbn [b2 b1 grow1 xf]. intros H. apply (bi_freed _ _ _ _ _ _ B) in H. fold nx in H. lia.
      * apply cls_some_cached in H3. tauto.
      * intros H. apply Hlive in H. fold nx in H. lia.
    + assert (B2 : BI (nx + 1 :: nx :: pend) (Some (st, tab)) t base b2 live).
      { unfold b2. rewrite <- L1. apply BI_XA. unfold b1, nx. apply BI_XA. exact B. }
      assert (B3 : BI (nx + 1 :: nx :: pend) (Some (st, tab)) t base b3 live) by (apply BI_see; [rewrite L2; lia | exact B2]).
      assert (Pk : Permutation (kblocks st') ([(Some (n_size nd), nb)] ++ kblocks st)).
      { eapply kblocks_node; [exact H1 | exact H4 | exact H5|]. unfold kb_node. cbn [n_size n_free n_used]. rewrite H2. reflexivity. }
      assert (Pu : Permutation (ublocks st') ([] ++ ublocks st)).
      { eapply ublocks_node; [exact H1 | exact H4 | exact H5|]. unfold ub_node. cbn [n_size n_used]. reflexivity. }
      split; [unfold b3, see, xlen in *; cbn [xo] in *; rewrite L2; lia|]. split; [exact G3|].
      split; [|split; [|split; [exact H5|]]].
      * apply (BI_move (nx + 1 :: nx :: pend) pend (Some (st, tab)) (Some (st', tab))); [|split; discriminate | exact B3]. simpl.
        apply ids_perm in Pk. cbn [flat_map kb_ids snd nb b_hdr b_mem app] in Pk.
        eapply perm_trans; [apply perm_swap|].
        change (nx :: nx + 1 :: pend ++ tab :: ids st) with ([nx; nx + 1] ++ pend ++ tab :: ids st).
        eapply perm_trans; [apply Permutation_app_swap_app|]. apply Permutation_app_head.
        eapply perm_trans; [apply Permutation_sym; apply Permutation_middle|]. constructor. apply Permutation_sym. exact Pk.
      * constructor.
        -- rewrite H4, <- Hs, H1. apply map_mid_size. reflexivity.
        -- intros kb Hkb. eapply Permutation_in in Hkb; [|exact Pk]. destruct Hkb as [<-|Hkb].
           ++ split; [|split]; cbn [fst snd nb b_hdr b_mem b3 see xo xs]; [exact O1 | exact O2|].
              rewrite seen_cls_here. f_equal. exact H3.
           ++ eapply blk_sat_grow; [exact G3|]. apply (ki_blk _ _ _ _ _ K). exact Hkb.
        -- eapply perm_trans; [|exact (ki_live _ _ _ _ _ K)]. apply outk_perm in Pu. exact Pu.
        -- destruct G3 as [G _]. apply G. exact (ki_tab _ _ _ _ _ K).
        -- exact (ki_off _ _ _ _ _ K).
        -- exact (ki_tag _ _ _ _ _ K).
      * intros id Hp. cbn [b3 see xs b2 b1 grow1]. apply seen_cls_skip. intros ->.
        destruct (bi_rng _ _ _ _ _ _ B (nx + 1)) as [G _]; [apply in_or_app; left; exact Hp | fold nx in G; lia].
  - (* a block above the bound is made for the string and destroyed with it *)
    subst evs nx'. set (nx := xlen b) in *.
    set (b1 := grow1 b who_U block_hdr_size). set (b2 := grow1 b1 who_U r). set (b3 := see b2 (nx + 1) (cls r)).
    set (b4 := free1 b3 (nx + 1)). set (b5 := free1 b4 nx).
    assert (L1 : xlen b1 = nx + 1) by apply xlen_grow1.
    assert (L2 : xlen b2 = nx + 2) by (unfold b2; rewrite xlen_grow1, L1; lia).
    assert (O1 : xszof (xo b2) nx = Some (who_U, block_hdr_size)) by (apply xszof_app; apply grow1_new).
    assert (O2 : xszof (xo b2) (nx + 1) = Some (who_U, r)) by (rewrite <- L1; apply grow1_new).
    assert (S0 : seen_cls (xs b) (nx + 1) = None) by (eapply seen_lt_none; [exact (bi_seenp _ _ _ _ _ _ B) | unfold nx; lia]).
    assert (F0 : forall i, In i (xf b) -> i < nx) by (intros i H; apply (bi_freed _ _ _ _ _ _ B) in H; exact H).
    assert (G5 : bgrow b b5).
    { eapply bgrow_trans; [apply bgrow_grow1|]. eapply bgrow_trans; [apply bgrow_grow1|]. eapply bgrow_trans; [apply bgrow_see; exact S0|].
      eapply bgrow_trans; apply bgrow_free1. }
    assert (Hnl1 : ~ In (nx + 1) (lids live)) by (intros H; apply Hlive in H; fold nx in H; lia).
    assert (Hnl0 : ~ In nx (lids live)) by (intros H; apply Hlive in H; fold nx in H; lia).
    exists b5. split.
    + cbn [x_applies]. unfold nx. rewrite apply_XA. fold b1. fold nx. rewrite <- L1. rewrite apply_XA. fold b2. rewrite L1.
      change (x_apply c live b2 (XR (nx + 1) 0 r)) with (handout live b2 (nx + 1) 0 r).
      rewrite (handout_fresh live b2 (nx + 1) r who_U r);
        [|exact O2 | cbn [b2 b1 grow1 xf]; intros H; apply F0 in H; lia | lia | exact Hnl1 | exact S0].
      fold (see b2 (nx + 1) (cls r)). fold b3.
      rewrite (apply_XF c live b3 who_U r (nx + 1) r);
        [|exact O2 | cbn [b3 see b2 b1 grow1 xf]; intros H; apply F0 in H; lia | apply size_ok_same | exact Hnl1].
      fold b4. rewrite (apply_XF c live b4 who_U block_hdr_size nx block_hdr_size);
        [reflexivity | exact O1 | | apply size_ok_same | exact Hnl0].
      cbn [b4 free1 b3 see b2 b1 grow1 xf]. intros [H|H]; [lia | apply F0 in H; lia].
    + assert (B2 : BI (nx + 1 :: nx :: pend) (Some (st, tab)) t base b2 live).
      { unfold b2. rewrite <- L1. apply BI_XA. unfold b1, nx. apply BI_XA. exact B. }
      assert (B3 : BI (nx + 1 :: nx :: pend) (Some (st, tab)) t base b3 live) by (apply BI_see; [rewrite L2; lia | exact B2]).
      assert (B4 : BI (nx :: pend) (Some (st, tab)) t base b4 live) by (eapply BI_XF; [apply Permutation_refl | exact B3]).
      assert (B5 : BI pend (Some (st, tab)) t base b5 live) by (eapply BI_XF; [apply Permutation_refl | exact B4]).
      split; [unfold b5, b4, b3, free1, see, xlen in *; cbn [xo] in *; rewrite L2; lia|]. split; [exact G5|].
      split; [|split; [|split; [exact H5|]]].
      * apply (BI_move pend pend (Some (st, tab)) (Some (st', tab))); [|split; discriminate | exact B5]. simpl. unfold ids.
        destruct (kblocks_eq st st' H4 H5) as [E _]. rewrite E. apply Permutation_refl.
      * eapply KI_state; [exact H4 | exact H5|]. eapply KI_grow; [exact G5 | exact K].
      * intros id Hp. cbn [b5 b4 b3 free1 see xs b2 b1 grow1]. apply seen_cls_skip. intros ->.
        destruct (bi_rng _ _ _ _ _ _ B (nx + 1)) as [G _]; [apply in_or_app; left; exact Hp | fold nx in G; lia].
Qed.

Lemma life_post_trans : forall pend tab t base b live st st1 st2 nx1 nx2 b1 b2,
  life_post pend tab t base b live st st1 nx1 b1 -> life_post pend tab t base b1 live st1 st2 nx2 b2 ->
  life_post pend tab t base b live st st2 nx2 b2.
Proof.
  intros pend tab t base b live st st1 st2 nx1 nx2 b1 b2 [A1 [A2 [A3 [A4 [A5 A6]]]]] [C1 [C2 [C3 [C4 [C5 C6]]]]].
  split; [exact C1|]. split; [eapply bgrow_trans; eauto|]. split; [exact C3|]. split; [exact C4|]. split; [congruence|].
  intros id H. rewrite C6, A6; auto.
Qed.

Lemma olife_ok : forall pend st tab t base b live r c st' nx' evs,
  BI pend (Some (st, tab)) t base b live -> KI st tab t b live -> olife r st (xlen b) = (st', nx', evs) ->
  exists b', x_applies c live b evs = Some b' /\ life_post pend tab t base b live st st' nx' b'.
Proof.
  intros pend st tab t base b live [r|] c st' nx' evs B K L; cbn [olife] in L.
  - eapply life_ok; eauto.
  - inversion L; subst. exists b. split; [reflexivity|]. split; [reflexivity|]. split; [apply bgrow_refl|]. auto.
Qed.
