(* C05 -- proofs about the model in C05_Model.v *)
From Coq Require Import NArith Bool List Lia Permutation ZifyBool.
From CppUVerif Require Import gen.Gen_Common gen.Gen_C05 lib.Str C05_Model.
Import ListNotations.
Local Open Scope N_scope.

(* ------------------------------------------------------------------ size arithmetic *)
Lemma W_val : W = 18446744073709551616. Proof. reflexivity. Qed.
Lemma G_cases c : (guard_on c = true /\ G c = 3) \/ (guard_on c = false /\ G c = 0).
Proof. unfold G. destruct (guard_on c); [left|right]; split; reflexivity. Qed.

Lemma valid_cfg_spec c : valid_cfg c = true -> node_size c mod 8 = 0 /\ 0 < node_size c < 65536.
Proof.
  unfold valid_cfg. intro H. apply andb_true_iff in H. destruct H as [H H3]. apply andb_true_iff in H. destruct H as [H1 H2].
  apply N.eqb_eq in H1. apply N.ltb_lt in H2. apply N.ltb_lt in H3. lia.
Qed.

Lemma fits_spec c n : node_size c < 65536 -> (fits c n = true <-> n + G c + 8 + node_size c < W).
Proof.
  intro Hns. unfold fits. change c05_ptr_size with 8. rewrite N.leb_le. rewrite W_val.
  destruct (G_cases c) as [[_ E]|[_ E]]; rewrite E; lia.
Qed.

Lemma too_big_spec c n : node_size c < 65536 -> too_big c n = negb (fits c n).
Proof.
  intro Hns. unfold too_big, fits. change c05_ptr_size with 8. rewrite W_val.
  destruct (G_cases c) as [[_ E]|[_ E]]; rewrite E; lia.
Qed.

Lemma wrap_small x : x < W -> wrap x = x.
Proof. intro H. unfold wrap. apply N.mod_small. exact H. Qed.

(* with the guard on: the padded size is the next multiple of 8 strictly above n + G *)
Lemma with_guard_on c n : guard_on c = true -> n + G c + 8 < W ->
  with_guard c n = n + G c + (8 - (n + G c) mod 8) /\ with_guard c n mod 8 = 0 /\ n + G c < with_guard c n <= n + G c + 8.
Proof.
  intros Hg Hn. pose proof W_val as HW. unfold with_guard, aligned. rewrite Hg. change c05_ptr_size with 8.
  rewrite (wrap_small (n + G c)) by lia.
  pose proof (N.mod_upper_bound (n + G c) 8 ltac:(lia)) as Hm.
  pose proof (N.div_mod (n + G c) 8 ltac:(lia)) as Hd.
  set (m := (n + G c) mod 8) in *. set (q := (n + G c) / 8) in *.
  rewrite wrap_small by lia.
  split; [lia|]. split; [|lia].
  replace (8 - m + (n + G c)) with ((q + 1) * 8) by lia.
  apply N.mod_mul. lia.
Qed.

Lemma with_guard_off c n : guard_on c = false -> n < W -> with_guard c n = n.
Proof.
  intros Hg Hn. unfold with_guard, aligned, G. rewrite Hg. change c05_guard_size_disabled with 0. rewrite N.add_0_r. apply wrap_small. exact Hn.
Qed.

(* C05_layout_sound, arithmetic core: a size that leaves room yields a request that does not wrap and a sound layout *)
Lemma layout_fine_fits c sep n :
  valid_cfg c = true -> fits c n = true -> (sep = false -> guard_on c = true) ->
  let req := request c sep n in
  layout_fine c sep n req = true /\ req < W /\
  (if sep then n + G c <= req else n + G c <= with_guard c n /\ with_guard c n mod 8 = 0 /\ with_guard c n + node_size c = req).
Proof.
  intros Hc Hf Hs. pose proof W_val as HW. apply valid_cfg_spec in Hc. apply fits_spec in Hf; [|lia]. cbv zeta.
  unfold layout_fine, request.
  destruct (G_cases c) as [[Hg E]|[Hg E]].
  - destruct (with_guard_on c n Hg ltac:(lia)) as (E1 & E2 & E3).
    destruct sep.
    + split; [apply N.leb_le; lia|]. split; lia.
    + rewrite (wrap_small (with_guard c n + node_size c)) by lia.
      split; [apply andb_true_iff; split; apply N.leb_le; lia|]. split; [lia|]. split; [lia|]. split; [exact E2|reflexivity].
  - destruct sep; [|specialize (Hs eq_refl); congruence].
    rewrite (with_guard_off c n Hg) by lia. rewrite E. split; [apply N.leb_le; lia|]. split; lia.
Qed.

(* ------------------------------------------------------------------ association-list facts *)
Definition proj (b : block) : N * N * list N := (b_id b, b_fam b, b_data b).
Definition liveof (s : st) : live := map proj (s_blocks s).
Definition regions_of (b : block) : list N := b_region b :: (if b_sep b then [b_node b] else []).

Lemma find_block_some i bs b : find_block i bs = Some b -> In b bs /\ b_id b = i.
Proof.
  unfold find_block. intro H. apply find_some in H. destruct H as [H1 H2]. apply N.eqb_eq in H2. tauto.
Qed.
Lemma find_block_none i bs : find_block i bs = None -> ~ In i (map b_id bs).
Proof.
  unfold find_block. intros H Hin. apply in_map_iff in Hin. destruct Hin as (b & E & Hb).
  pose proof (find_none _ _ H b Hb) as Hn. cbn in Hn. rewrite E, N.eqb_refl in Hn. discriminate Hn.
Qed.
Lemma l_find_proj i bs : l_find i (map proj bs) = option_map (fun b => (b_fam b, b_data b)) (find_block i bs).
Proof.
  unfold l_find, find_block. induction bs as [|b bs IH]; cbn; [reflexivity|].
  destruct (b_id b =? i); cbn; [reflexivity|exact IH].
Qed.
Lemma l_remove_proj i bs : l_remove i (map proj bs) = map proj (remove_block i bs).
Proof.
  unfold l_remove, remove_block. induction bs as [|b bs IH]; cbn; [reflexivity|].
  destruct (b_id b =? i); cbn; [exact IH|f_equal; exact IH].
Qed.
Lemma l_update_proj i d bs : l_update i d (map proj bs) = map proj (update_block i d bs).
Proof.
  unfold l_update, update_block. induction bs as [|b bs IH]; cbn; [reflexivity|].
  rewrite IH. f_equal. destruct (b_id b =? i); reflexivity.
Qed.
Lemma ids_remove i bs : map b_id (remove_block i bs) = remove_id i (map b_id bs).
Proof.
  unfold remove_block, remove_id. induction bs as [|b bs IH]; cbn; [reflexivity|].
  destruct (b_id b =? i); cbn; [exact IH|f_equal; exact IH].
Qed.
Lemma ids_update i d bs : map b_id (update_block i d bs) = map b_id bs.
Proof.
  unfold update_block. induction bs as [|b bs IH]; cbn; [reflexivity|]. rewrite IH. f_equal. destruct (b_id b =? i); reflexivity.
Qed.
Lemma perm_filter {A} (f : A -> bool) l l' : Permutation l l' -> Permutation (filter f l) (filter f l').
Proof.
  induction 1; cbn.
  - constructor.
  - destruct (f x); [constructor|]; assumption.
  - destruct (f x), (f y); try constructor; try apply Permutation_refl.
  - eapply Permutation_trans; eassumption.
Qed.
Lemma remove_id_notin i t : ~ In i t -> remove_id i t = t.
Proof.
  unfold remove_id. induction t as [|x t IH]; cbn; intro H; [reflexivity|].
  destruct (N.eqb_spec x i); cbn; [exfalso; apply H; left; assumption|]. f_equal. apply IH. tauto.
Qed.
Lemma remove_id_in i t : In i (remove_id i t) -> False.
Proof. unfold remove_id. intro H. apply filter_In in H. destruct H as [_ H]. rewrite N.eqb_refl in H. discriminate H. Qed.
Lemma remove_id_incl i j t : In j (remove_id i t) -> In j t.
Proof. unfold remove_id. intro H. apply filter_In in H. tauto. Qed.
Lemma nodup_remove_id i t : NoDup t -> NoDup (remove_id i t).
Proof. intro H. unfold remove_id. apply NoDup_filter. exact H. Qed.
Lemma perm_readd i t : NoDup t -> In i t -> Permutation (i :: remove_id i t) t.
Proof.
  induction t as [|x t IH]; intros Hn Hin; [destruct Hin|].
  inversion Hn as [|? ? Hx Hn']; subst. unfold remove_id in *. cbn.
  destruct (N.eqb_spec x i) as [E|E]; cbn.
  - subst x. fold (remove_id i t). rewrite remove_id_notin by assumption. apply Permutation_refl.
  - destruct Hin as [Hin|Hin]; [congruence|].
    eapply Permutation_trans; [apply perm_swap|]. apply perm_skip. apply IH; assumption.
Qed.
Lemma length_readd i t : NoDup t -> In i t -> length (i :: remove_id i t) = length t.
Proof. intros. apply Permutation_length. apply perm_readd; assumption. Qed.
Lemma mem_in x l : mem x l = true <-> In x l.
Proof.
  unfold mem. rewrite existsb_exists. split.
  - intros (y & Hy & E). apply N.eqb_eq in E. subst. exact Hy.
  - intro H. exists x. split; [exact H|apply N.eqb_refl].
Qed.
Lemma remove_block_incl i bs b : In b (remove_block i bs) -> In b bs /\ b_id b <> i.
Proof.
  unfold remove_block. intro H. apply filter_In in H. destruct H as [H1 H2]. split; [exact H1|].
  destruct (N.eqb_spec (b_id b) i); [discriminate H2|assumption].
Qed.
Lemma forall_remove_block {P : block -> Prop} i bs : Forall P bs -> Forall P (remove_block i bs).
Proof. intro H. apply Forall_forall. intros b Hb. apply remove_block_incl in Hb. rewrite Forall_forall in H. apply H. tauto. Qed.
Lemma regions_remove_incl i bs r : In r (flat_map regions_of (remove_block i bs)) -> In r (flat_map regions_of bs).
Proof.
  intro H. apply in_flat_map in H. destruct H as (b & Hb & Hr). apply remove_block_incl in Hb. apply in_flat_map. exists b. tauto.
Qed.
Lemma nodup_app_r {A} (a b : list A) : NoDup (a ++ b) -> NoDup b.
Proof. induction a as [|x a IH]; cbn; intro H; [exact H|]. inversion H; subst. apply IH. assumption. Qed.
Lemma nodup_app_sub {A} (a b b' : list A) : NoDup (a ++ b) -> NoDup b' -> (forall x, In x b' -> In x b) -> NoDup (a ++ b').
Proof.
  induction a as [|x a IH]; cbn; intros H Hb Hi; [exact Hb|].
  inversion H as [|? ? Hx Hn]; subst. constructor; [|apply IH; assumption].
  intro Hin. apply Hx. apply in_app_iff in Hin. apply in_app_iff. destruct Hin as [Hin|Hin]; [left; exact Hin|right; apply Hi; exact Hin].
Qed.
Lemma nodup_flat_remove i bs : NoDup (flat_map regions_of bs) -> NoDup (flat_map regions_of (remove_block i bs)).
Proof.
  induction bs as [|b bs IH]; cbn [flat_map]; intro H; [constructor|].
  pose proof (nodup_app_r _ _ H) as H2.
  unfold remove_block in *. cbn [filter]. destruct (negb (b_id b =? i)); cbn [flat_map]; [|apply IH; exact H2].
  apply (nodup_app_sub _ _ _ H (IH H2)). intros x Hx. eapply regions_remove_incl. exact Hx.
Qed.

(* ------------------------------------------------------------------ what one allocation does (repaired code) *)
Definition block_layout_ok (c : cfg) (b : block) : Prop :=
  b_req b < W /\
  if b_sep b then b_size b + G c <= b_req b
  else b_size b + G c <= b_node b /\ b_node b mod 8 = 0 /\ b_node b + node_size c <= b_req b.

Definition new_block_ok (c : cfg) (s s' : st) (idx fam n : N) (d : list N) (b : block) : Prop :=
  b_id b = idx /\ b_fam b = fam /\ b_size b = n /\ b_data b = d /\ block_layout_ok c b /\
  NoDup (regions_of b) /\ Forall (fun r => s_calls s <= r < s_calls s') (regions_of b).

Definition alloc_post (c : cfg) (s : st) (idx fam n : N) (d : list N) (r : ares * st * list call) : Prop :=
  let '(a, s', cs) := r in
  calls_ok c n cs = true /\ s_calls s <= s_calls s' /\ s_err s' = s_err s /\
  match a with
  | ANull => (any_failed cs = true \/ too_big c n = true) /\ s_blocks s' = s_blocks s /\ s_table s' = s_table s /\
             (too_big c n = true -> cs = [] /\ s' = s) /\ balanced cs = true
  | ABlock b => any_failed cs = false /\ s_blocks s' = b :: s_blocks s /\ s_table s' = idx :: s_table s /\ new_block_ok c s s' idx fam n d b
  | AErr => False
  end.

Lemma separate_false c ws : separate c ws = false -> guard_on c = true.
Proof. unfold separate. destruct (guard_on c); [reflexivity|discriminate]. Qed.

Ltac call_ok_tac := unfold call_ok; cbn [fst snd]; rewrite ?N.eqb_refl, ?orb_true_r; cbn [orb]; try reflexivity.

Lemma alloc_mem_post c f s idx fam ws n data :
  valid_cfg c = true -> n < W -> alloc_post c s idx fam n (data tt) (alloc_mem fixed c f s idx fam ws n data).
Proof.
  intros Hc Hn. pose proof (valid_cfg_spec c Hc) as Hns.
  unfold alloc_mem. cbn [v_fits v_node fixed andb].
  destruct (fits c n) eqn:Hf; cbn [negb].
  2:{ cbn. rewrite too_big_spec, Hf by lia. cbn. repeat split; try lia; try (right; reflexivity). }
  assert (Htb : too_big c n = false) by (rewrite too_big_spec, Hf by lia; reflexivity).
  destruct (layout_fine_fits c (separate c ws) n Hc Hf (separate_false c ws)) as (HL & HW & Hlay). cbv zeta in HL, HW, Hlay.
  set (req := request c (separate c ws) n) in *.
  assert (Hreq : n + G c <= req).
  { destruct (separate c ws); [exact Hlay|]. destruct Hlay as (H1 & H2 & H3). lia. }
  assert (Hcall : forall k ok, call_ok c n (k, req, ok) = true).
  { intros. unfold call_ok. cbn [fst snd]. apply orb_true_iff. right. apply N.leb_le. exact Hreq. }
  assert (Hnode : forall k ok, call_ok c n (k, node_size c, ok) = true).
  { intros. unfold call_ok. cbn [fst snd]. rewrite N.eqb_refl, orb_true_r. reflexivity. }
  assert (Hfree : forall sz ok, call_ok c n (2, sz, ok) = true).
  { intros. unfold call_ok. cbn [fst snd]. reflexivity. }
  set (wg := with_guard c n) in *. clearbody req wg.
  Ltac fin := repeat split; cbn; try lia; try (intro; congruence); try (left; reflexivity); try assumption.
  destruct (oracle_fails f (s_calls s) req) eqn:O1.
  { cbn. rewrite Hcall. fin. }
  destruct (separate c ws) eqn:Hsep.
  - destruct (oracle_fails f (s_calls s + 1) (node_size c)) eqn:O2.
    { cbn. rewrite Hcall, Hnode. fin. }
    rewrite HL. cbn. rewrite Hcall, Hnode. fin.
    + unfold regions_of; cbn. constructor; [intros [E|[]]; lia|]. constructor; [intros []|constructor].
    + unfold regions_of; cbn. repeat constructor; lia.
  - rewrite HL. cbn. rewrite Hcall. destruct Hlay as (H1 & H2 & H3). fin.
    + unfold regions_of; cbn. constructor; [intros []|constructor].
    + unfold regions_of; cbn. repeat constructor; lia.
Qed.

Definition realloc_post (c : cfg) (s : st) (idx : N) (ob : option block) (n : N) (r : ares * st * list call) : Prop :=
  let '(a, s', cs) := r in
  let old_data := match ob with Some b => b_data b | None => [] end in
  let others := match ob with Some b => remove_block (b_id b) (s_blocks s) | None => s_blocks s end in
  let table' := match ob with Some b => remove_id (b_id b) (s_table s) | None => s_table s end in
  calls_ok c n cs = true /\ s_calls s <= s_calls s' /\ s_err s' = s_err s /\
  match a with
  | ANull => (any_failed cs = true \/ too_big c n = true) /\ s_blocks s' = s_blocks s /\
             (s_table s' = s_table s \/ exists b, ob = Some b /\ s_table s' = b_id b :: table') /\
             (too_big c n = true -> cs = [] /\ s' = s) /\ balanced cs = true
  | ABlock b => any_failed cs = false /\ s_blocks s' = b :: others /\ s_table s' = idx :: table' /\
                new_block_ok c s s' idx 0 n (realloc_data old_data n) b
  | AErr => False
  end.

Lemma separate_true c : separate c true = true.
Proof. unfold separate. apply orb_true_r. Qed.

Lemma realloc_new_post c f s idx ob n :
  valid_cfg c = true -> n < W -> realloc_post c s idx ob n (realloc_new fixed c f s idx ob n).
Proof.
  intros Hc Hn. pose proof (valid_cfg_spec c Hc) as Hns.
  unfold realloc_new. cbn [v_fits fixed andb].
  destruct (fits c n) eqn:Hf; cbn [negb].
  2:{ cbn. rewrite too_big_spec, Hf by lia. cbn. repeat split; try lia; try (right; reflexivity). left; reflexivity. }
  assert (Htb : too_big c n = false) by (rewrite too_big_spec, Hf by lia; reflexivity).
  assert (Hall : forall sep, (sep = false -> guard_on c = true) ->
     layout_fine c sep n (request c sep n) = true /\ request c sep n < W /\ (if sep then n + G c <= request c sep n else n + G c <= with_guard c n /\ with_guard c n mod 8 = 0 /\ with_guard c n + node_size c = request c sep n) /\ (forall k ok, call_ok c n (k, request c sep n, ok) = true)).
  { intros sep Hsg. destruct (layout_fine_fits c sep n Hc Hf Hsg) as (HL & HW & Hlay). cbv zeta in HL, HW, Hlay.
    repeat split; try assumption. intros. unfold call_ok. cbn [fst snd]. apply orb_true_iff. right. apply N.leb_le.
    destruct sep; [exact Hlay|]. destruct Hlay as (H1 & H2 & H3). lia. }
  assert (Hnode : forall k ok, call_ok c n (k, node_size c, ok) = true).
  { intros. unfold call_ok. cbn [fst snd]. rewrite N.eqb_refl, orb_true_r. reflexivity. }
  Ltac solve_post Hcall Hnode :=
    cbn; rewrite ?Hcall, ?Hnode; cbn; repeat split; cbn; try lia; try (intro; congruence); try (left; reflexivity); try assumption;
    try (right; eexists; split; reflexivity);
    try (unfold regions_of; cbn; repeat constructor; try lia; try (intros [E|[]]; lia); try (intros [])).
  destruct ob as [b0|].
  - destruct (separate c (b_sep b0)) eqn:Hs.
    + destruct (Hall true ltac:(discriminate)) as (HL & HW & Hlay & Hcall). set (req := request c true n) in *. clearbody req.
      destruct (oracle_fails f (s_calls s) (node_size c)) eqn:O1; [solve_post Hcall Hnode|].
      destruct (oracle_fails f (s_calls s + 1) req) eqn:O2; [solve_post Hcall Hnode|].
      rewrite HL. solve_post Hcall Hnode.
    + destruct (Hall false ltac:(intros _; eapply separate_false; exact Hs)) as (HL & HW & Hlay & Hcall).
      set (req := request c false n) in *. set (wg := with_guard c n) in *. clearbody req wg. destruct Hlay as (H1 & H2 & H3).
      destruct (oracle_fails f (s_calls s) req) eqn:O1; [solve_post Hcall Hnode|].
      rewrite HL. solve_post Hcall Hnode.
  - rewrite separate_true.
    destruct (Hall true ltac:(discriminate)) as (HL & HW & Hlay & Hcall). set (req := request c true n) in *. clearbody req.
    destruct (oracle_fails f (s_calls s) (node_size c)) eqn:O1; [solve_post Hcall Hnode|].
    destruct (oracle_fails f (s_calls s + 1) req) eqn:O2; [solve_post Hcall Hnode|].
    rewrite HL. solve_post Hcall Hnode.
Qed.
