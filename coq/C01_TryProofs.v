(* C01 -- user try blocks, CHECK_THROWS and tests made by the public macros: statements about the compound statements STry / SThrows
   of C01_Model.v (machine level: any state, the build with exceptions; spec level: from the program text) and about ignored tests
   run with -ri.  The closed form of a statement (exec_stmt_closed) and of a run (run_closed) are in C01_Proofs.v. *)
From Coq Require Import NArith ZArith Bool List Lia ZifyBool.
From CppUVerif Require Import gen.Gen_Common lib.CInt C01_Model C01_Proofs.
Import ListNotations.
Local Open Scope Z_scope.

(* ------------------------------------------------------------------ which handler catches the exit of a failing check *)
Theorem catches_failed_iff h : catches h XFailed = true <-> h = HAll.
Proof. split; [destruct h as [[]|]; cbn; try discriminate; reflexivity | intros ->; reflexivity]. Qed.
Theorem typed_handler_in_scope blk e hd : intercepts (STry blk (HType e) hd) = false.
Proof. reflexivity. Qed.
Theorem intercepts_iff x :
  intercepts x = true <->
  (exists blk hd, x = STry blk HAll hd /\ existsb b_cxx_fail blk = true) \/ (exists e blk f l, x = SThrows e blk f l /\ existsb b_cxx_fail blk = true).
Proof.
  split.
  - destruct x as [| | | | | | | blk h hd | e blk f l]; cbn; try discriminate.
    + destruct h; [discriminate|]. intro H. left. exists blk, hd. split; [reflexivity | exact H].
    + intro H. right. exists e, blk, f, l. split; [reflexivity | exact H].
  - intros [[blk [hd [-> H]]] | [e [blk [f [l [-> H]]]]]]; exact H.
Qed.
Theorem spec_out_of_scope scn o : existsb rintercepts (s_tests scn) = true -> spec scn o = true.
Proof. intro H. unfold spec. rewrite H. destruct (c_rethrow (s_cfg scn) && existsb rhas_throw (s_tests scn)); reflexivity. Qed.

(* ------------------------------------------------------------------ one statement, machine level (any state, build with exceptions) *)
Definition outcome_of (w : how) (s : st) : outcome :=
  match w with HowDone => ONormal | HowJump => OJump (depth s - 1) | HowThrow e => OThrow e end.
Theorem stmt_step i ph k x s :
  let r := exec_stmt true i ph k x s in
  k_checks (cn (fst r)) = (k_checks (cn s) + n_checks x)%N /\
  k_fail (cn (fst r)) = (k_fail (cn s) + n_checkfails x)%N /\
  events_of (out (fst r)) = events_of (out s) ++ [mkEv i ph k (depth s)] /\
  subs_of (out (fst r)) = subs_of (out s) ++ stmt_subs i ph k x /\
  (forall t, fails_of (out (fst r)) ++ (if how_escapes (stmt_how x) then [exc_failure i t] else []) = fails_of (out s) ++ stmt_failure i t x) /\
  snd r = outcome_of (stmt_how x) s /\
  (snd r = ONormal <-> is_pass x = true).
Proof.
  intro r. unfold r. rewrite (exec_stmt_closed true i ph k x s (or_introl eq_refl)).
  assert (E : fst (leave_how true (stmt_how x) (upd s (depth s) (overflow s) (cur s) (stmt_cnt x) (stmt_items i ph (depth s) (k, x)))) =
              upd s (match stmt_how x with HowJump => depth s - 1 | _ => depth s end) (overflow s) (cur s) (stmt_cnt x) (stmt_items i ph (depth s) (k, x))).
  { destruct (stmt_how x) as [| |[]]; cbn [leave_how fst]; unfold jump_st; cbn [fst]; norm; rewrite ?cadd_zero_r, ?app_nil_r; reflexivity. }
  rewrite E. unfold upd. cbn [cn out]. rewrite events_app, subs_app, fails_app, stmt_events, stmt_subs_eq.
  unfold cadd, stmt_cnt. cbn [k_checks k_fail].
  repeat split.
  - intro t. rewrite <- app_assoc, (stmt_fails i t ph (depth s) k x). reflexivity.
  - destruct (stmt_how x) as [| |[]]; reflexivity.
  - rewrite is_pass_how. destruct (stmt_how x) as [| |[]]; cbn; [reflexivity | discriminate..].
  - rewrite is_pass_how. destruct (stmt_how x) as [| |[]]; cbn; [reflexivity | discriminate..].
Qed.

(* ------------------------------------------------------------------ a failing check inside a try block, spec level *)
(* the block ends in a failing check (C-style: longjmp; C++-style: the exception object of the framework) *)
Definition ends_in_check (blk : list base) : Prop := bases_how blk = HowJump \/ bases_how blk = HowThrow XFailed.
Lemma bases_one_failure i l : ends_in_check l -> exists f, flat_map (b_failure i) (b_executed l) = [f] /\ f_kind f = 0%N /\ f_test f = i.
Proof.
  unfold ends_in_check. induction l as [|b r IH]; intro H; [destruct H as [H|H]; discriminate H|]. cbn [b_executed].
  destruct (b_pass b) eqn:P.
  - rewrite (bases_how_cons_pass b r P) in H. destruct (IH H) as [f [F K]]. exists f. cbn [flat_map]. rewrite (b_pass_no_failure i b P), F. split; [reflexivity | exact K].
  - rewrite (bases_how_cons_stop b r P) in H. cbn [flat_map]. rewrite app_nil_r.
    destruct b; cbn in *; try (destruct H as [H|H]; discriminate H); try (eexists; repeat split; reflexivity).
    destruct (passes k agree); [destruct H as [H|H]; discriminate H|]. eexists; repeat split; reflexivity.
Qed.
Lemma bases_one_nfail l : ends_in_check l -> sumN b_nfail (b_executed l) = 1%N.
Proof. intro H. rewrite (bases_nfail 0%N). destruct (bases_one_failure 0%N l H) as [f [F _]]. rewrite F. reflexivity. Qed.

(* try { ...; failing check; ... } catch (<any type>) { hd }: the handler is not entered, the statement does not pass (nothing behind
   the try block runs), the statements of the block run up to and including the failing check and no further, and exactly one
   failure is recorded: that of the check *)
Theorem try_failing_check i t ph k blk e hd :
  ends_in_check blk ->
  let x := STry blk (HType e) hd in
  handler_entered blk (HType e) = false /\
  stmt_how x = bases_how blk /\
  is_pass x = false /\
  stmt_subs i ph k x = map (fun jb => mkSub i ph k (fst jb)) (number 0 (b_executed blk)) /\
  (exists f, stmt_failure i t x = [f] /\ f_kind f = 0%N /\ f_test f = i) /\
  n_checkfails x = 1%N.
Proof.
  intros H x. unfold x.
  assert (HE : handler_entered blk (HType e) = false) by (unfold handler_entered; destruct H as [-> | ->]; [reflexivity | destruct e; reflexivity]).
  assert (HW : try_how blk (HType e) hd = bases_how blk) by (unfold try_how; destruct H as [-> | ->]; [reflexivity | destruct e; reflexivity]).
  split; [exact HE|]. split; [exact HW|]. split; [cbn [is_pass]; rewrite HW; destruct H as [-> | ->]; reflexivity|].
  split; [cbn [stmt_subs]; rewrite HE, app_nil_r; reflexivity|]. split.
  - destruct (bases_one_failure i blk H) as [f [F K]]. exists f. split; [|exact K]. cbn [stmt_failure]. rewrite HE, HW, F.
    destruct H as [-> | ->]; reflexivity.
  - cbn [n_checkfails]. rewrite HE, (bases_one_nfail blk H). reflexivity.
Qed.
(* ... and in the phase: what stands behind the try block is not executed *)
Theorem nothing_after_try_check pre blk e hd post :
  completes pre = true -> ends_in_check blk -> executed (pre ++ STry blk (HType e) hd :: post) = pre ++ [STry blk (HType e) hd].
Proof.
  intros C H. rewrite (executed_app_pass pre _ C). cbn [executed].
  destruct (try_failing_check 0%N (mkTest false true 0 [] [] [] [] []) 0%N 0%N blk e hd H) as [_ [_ [P _]]]. rewrite P. reflexivity.
Qed.
(* machine level: from any state the statement logs the block up to the failing check, no statement of the handler, one failure record,
   and leaves the phase the way the check does *)
Theorem try_failing_check_step i ph k blk e hd s :
  ends_in_check blk ->
  let r := exec_stmt true i ph k (STry blk (HType e) hd) s in
  subs_of (out (fst r)) = subs_of (out s) ++ map (fun jb => mkSub i ph k (fst jb)) (number 0 (b_executed blk)) /\
  (exists f, fails_of (out (fst r)) = fails_of (out s) ++ [f] /\ f_kind f = 0%N) /\
  k_fail (cn (fst r)) = (k_fail (cn s) + 1)%N /\
  snd r = outcome_of (bases_how blk) s /\ snd r <> ONormal.
Proof.
  intros H r. set (t0 := mkTest false true 0 [] [] [] [] []).
  destruct (stmt_step i ph k (STry blk (HType e) hd) s) as [_ [F [_ [S [FL [O _]]]]]]. fold r in F, S, FL, O.
  destruct (try_failing_check i t0 ph k blk e hd H) as [_ [HW [_ [SU [[f [FF [FK _]]] NF]]]]].
  rewrite SU in S. rewrite NF in F. rewrite HW in O. split; [exact S|]. split.
  - exists f. specialize (FL t0). rewrite HW, FF in FL. split; [|exact FK].
    destruct H as [E | E]; rewrite E in FL; cbn [how_escapes] in FL; rewrite app_nil_r in FL; exact FL.
  - split; [exact F|]. split; [exact O|]. rewrite O. destruct H as [-> | ->]; discriminate.
Qed.

(* ------------------------------------------------------------------ an exception of the program's own that a handler catches *)
(* the block throws (std or foreign), the handler's type matches: the handler runs; when it completes the statement passes, nothing
   is recorded, and the phase goes on behind the try block *)
Theorem try_caught_exception i t ph k blk h hd ex :
  bases_how blk = HowThrow ex -> ex <> XFailed -> catches h ex = true ->
  let x := STry blk h hd in
  handler_entered blk h = true /\ stmt_how x = bases_how hd /\
  stmt_subs i ph k x = map (fun jb => mkSub i ph k (fst jb)) (number 0 (b_executed blk))
                       ++ map (fun jb => mkSub i ph k (fst jb)) (number (N.of_nat (length blk)) (b_executed hd)) /\
  (bases_how hd = HowDone -> is_pass x = true /\ stmt_failure i t x = []).
Proof.
  intros HB NX C x. unfold x.
  assert (HE : handler_entered blk h = true) by (unfold handler_entered; rewrite HB; exact C).
  assert (HW : try_how blk h hd = bases_how hd) by (unfold try_how; rewrite HB, C; reflexivity).
  split; [exact HE|]. split; [exact HW|]. split; [cbn [stmt_subs]; rewrite HE; reflexivity|].
  intro HD. split; [cbn [is_pass]; rewrite HW, HD; reflexivity|].
  cbn [stmt_failure]. rewrite HE, HW, HD. cbn [how_escapes].
  rewrite (bases_quiet i blk) by (rewrite HB; first [discriminate | intro Q; inversion Q; contradiction]).
  rewrite (bases_quiet i hd) by (rewrite HD; discriminate). reflexivity.
Qed.
(* no handler matches: the exception escapes the phase (one record at the TEST's location), the handler is not entered *)
Theorem try_uncaught_exception i t blk h hd ex :
  bases_how blk = HowThrow ex -> ex <> XFailed -> catches h ex = false ->
  let x := STry blk h hd in
  handler_entered blk h = false /\ stmt_how x = HowThrow ex /\ is_pass x = false /\ stmt_failure i t x = [mkF i 0 (t_line t) 1].
Proof.
  intros HB NX C x. unfold x.
  assert (HE : handler_entered blk h = false) by (unfold handler_entered; rewrite HB; exact C).
  assert (HW : try_how blk h hd = HowThrow ex) by (unfold try_how; rewrite HB, C; reflexivity).
  split; [exact HE|]. split; [exact HW|]. split; [cbn [is_pass]; rewrite HW; reflexivity|].
  cbn [stmt_failure]. rewrite HE, HW.
  rewrite (bases_quiet i blk) by (rewrite HB; first [discriminate | intro Q; inversion Q; contradiction]).
  destruct ex; [contradiction | reflexivity | reflexivity].
Qed.

(* ------------------------------------------------------------------ CHECK_THROWS(expected, helper()) with checks inside helper() *)
Theorem check_throws_cases i t ex blk f l :
  let x := SThrows ex blk f l in
  (* the helper throws the expected type: counted, passes, nothing recorded *)
  (forall e, bases_how blk = HowThrow e -> catches_type ex e = true ->
     is_pass x = true /\ stmt_failure i t x = [] /\ n_checks x = (sumN b_counts (b_executed blk) + 1)%N) /\
  (* the helper completes: "threw nothing", one failure at the macro's own location *)
  (bases_how blk = HowDone -> is_pass x = false /\ stmt_failure i t x = [mkF i f l 0] /\ n_checks x = (sumN b_counts (b_executed blk) + 1)%N) /\
  (* the helper throws another type of its own: "threw a different type", one failure at the macro's own location, nothing escapes *)
  (forall e, bases_how blk = HowThrow e -> e <> XFailed -> catches_type ex e = false ->
     is_pass x = false /\ stmt_failure i t x = [mkF i f l 0] /\ stmt_how x = HowThrow XFailed) /\
  (* a C-style check of the helper fails: the test leaves at once; the macro's own verdict is never reached (not counted, no second record) *)
  (bases_how blk = HowJump ->
     is_pass x = false /\ stmt_how x = HowJump /\ n_checks x = sumN b_counts (b_executed blk) /\ exists r, stmt_failure i t x = [r] /\ f_kind r = 0%N).
Proof.
  intro x. unfold x. repeat split.
  - cbn [is_pass]. unfold throws_how. rewrite H, H0. reflexivity.
  - cbn [stmt_failure]. rewrite H, H0, app_nil_r.
    apply bases_quiet; rewrite H; first [discriminate | intro Q; inversion Q; subst; destruct ex; discriminate H0].
  - cbn [n_checks]. rewrite H. reflexivity.
  - cbn [is_pass]. unfold throws_how. rewrite H. reflexivity.
  - cbn [stmt_failure]. rewrite H. rewrite (bases_quiet i blk) by (rewrite H; discriminate). reflexivity.
  - cbn [n_checks]. rewrite H. reflexivity.
  - cbn [is_pass]. unfold throws_how. rewrite H, H1. reflexivity.
  - cbn [stmt_failure]. rewrite H, H1. rewrite (bases_quiet i blk) by (rewrite H; first [discriminate | intro Q; inversion Q; contradiction]). reflexivity.
  - cbn [stmt_how]. unfold throws_how. rewrite H, H1. reflexivity.
  - cbn [is_pass]. unfold throws_how. rewrite H. reflexivity.
  - cbn [stmt_how]. unfold throws_how. rewrite H. reflexivity.
  - cbn [n_checks]. rewrite H. lia.
  - destruct (bases_one_failure i blk (or_introl H)) as [r [R [K _]]]. exists r. cbn [stmt_failure]. rewrite H, R. split; [reflexivity | exact K].
Qed.

(* ------------------------------------------------------------------ ignored tests and -ri *)
(* IgnoredUtestShell::runOneTest: without -ri the test is counted as ignored and nothing of it runs; with -ri the very same shell goes
   through UtestShell::runOneTest, whose createTest() builds the test's own class: its setup / body / teardown run like any other
   test's, its failing checks are recorded, it is counted as run *)
Theorem ignored_not_run exc cfg i t s :
  t_ignored t = true -> c_runign cfg = false -> shell_run exc cfg i t s = (count one_ign s, ONormal).
Proof. intros I R. unfold shell_run. rewrite I, R. reflexivity. Qed.
Theorem run_ignored_runs_own_phases exc cfg i t s :
  c_runign cfg = true -> ok_test exc (c_rethrow cfg) t = true ->
  let s' := fst (shell_run exc cfg i t s) in
  events_of (out s') = events_of (out s) ++ map (fun e => mkEv (fst (fst e)) (snd (fst e)) (snd e) (depth s + 2)) (want_events i t) /\
  subs_of (out s') = subs_of (out s) ++ want_subs i t /\
  fails_of (out s') = fails_of (out s) ++ want_fails i t /\
  k_fail (cn s') = (k_fail (cn s) + N.of_nat (length (want_fails i t)))%N /\
  k_checks (cn s') = (k_checks (cn s) + want_checks t)%N /\
  k_run (cn s') = (k_run (cn s) + 1)%N /\ k_ign (cn s') = k_ign (cn s).
Proof.
  intros R OK s'. unfold s', shell_run. rewrite R, andb_false_r.
  destruct (one_test_fails exc (c_rethrow cfg) i t s OK) as [A [B [C D]]].
  split; [exact (one_test_events exc (c_rethrow cfg) i t s OK)|]. split.
  - rewrite (run_one_test_closed exc _ i t s OK). cbn [fst upd out]. rewrite subs_app, test_subs. reflexivity.
  - repeat split; try assumption. rewrite (run_one_test_closed exc _ i t s OK). cbn [fst upd cn]. rewrite (test_cnt_eq i t). cbn. lia.
Qed.
(* spec level: under -ri every selected test is started, ignored or not, and nothing is counted as ignored *)
Theorem run_ignored_started cfg ts :
  c_runign cfg = true ->
  filter (started cfg) ts = filter (fun it => selected cfg (snd it)) ts /\ k_ign (rep_counts cfg ts) = 0%N.
Proof.
  intro R. split.
  - apply filter_ext. intros [i t]. unfold started, runs. rewrite R, orb_true_r, andb_true_r. reflexivity.
  - unfold rep_counts, nb. cbn [k_ign]. induction ts as [|[i t] r IH]; [reflexivity|]. cbn [filter snd]. unfold runs at 1. rewrite R, orb_true_r, andb_false_r. exact IH.
Qed.

(* ------------------------------------------------------------------ the oracle on concrete programs *)
Lemma list_eqb_eq {A} (e : A -> A -> bool) : (forall x y, e x y = true -> x = y) -> forall a b, list_eqb e a b = true -> a = b.
Proof.
  intros H a. induction a as [|x a IH]; intros [|y b] E; cbn in E; try discriminate E; [reflexivity|].
  apply andb_true_iff in E. destruct E as [E1 E2]. rewrite (H _ _ E1), (IH _ E2). reflexivity.
Qed.
Lemma sub_eqb_eq a b : sub_eqb a b = true -> a = b.
Proof.
  destruct a, b. unfold sub_eqb. cbn. rewrite !andb_true_iff. intros [[[A B] C] D]. apply N.eqb_eq in A, B, C, D. subst. reflexivity.
Qed.
Lemma ev3_eqb_eq a b : ev3_eqb a b = true -> a = b.
Proof.
  destruct a as [[a1 a2] a3], b as [[b1 b2] b3]. cbn. rewrite !andb_true_iff. intros [[A B] C]. apply N.eqb_eq in A, B, C. subst. reflexivity.
Qed.

(* the program of red-team change C01-1: a failing LONGS_EQUAL inside try { } catch (const std::exception&) { FAIL }, a statement behind
   the try block, teardown; then a passing test *)
Definition ex_try : scenario :=
  mkScn (mkCfg false false false false 1)
        [ mkRTest false true 100 [] [RS (STry [BCheck; BCheckK KLongs false 0 105; BNop] (HType EStd) [BFailX 0 107]); RS SNop] [RS SCheck] [] [];
          mkRTest false true 200 [] [RS SCheck] [] [] [] ].
Example ex_try_valid : valid true ex_try = true /\ existsb rintercepts (s_tests ex_try) = false. Proof. split; vm_compute; reflexivity. Qed.
Example ex_try_run :
  map (fun r => (map strip (r_events r), r_subs r, r_fails r)) (o_reps (run true ex_try))
  = [([(0, 1, 0); (0, 2, 0); (1, 1, 0)]%N, [mkSub 0 1 0 0; mkSub 0 1 0 1], [mkF 0 0 105 0])].
Proof. vm_compute. reflexivity. Qed.
Example ex_try_ends_in_check : ends_in_check [BCheck; BCheckK KLongs false 0 105; BNop] /\ ends_in_check [BNop; BFailC 1 3].
Proof. split; [right | left]; reflexivity. Qed.
(* whatever else an observation of that program says: if the oracle accepts it, no statement of the handler (sub 3) and no statement
   behind the failing check (sub 2) has run, the statement behind the try block (body 1) has not run, and one failure is recorded *)
Theorem ex_try_oracle o :
  spec ex_try o = true ->
  forall rp, In rp (o_reps o) ->
    r_subs rp = [mkSub 0 1 0 0; mkSub 0 1 0 1] /\ map strip (r_events rp) = [(0, 1, 0); (0, 2, 0); (1, 1, 0)]%N /\ length (r_fails rp) = 1%nat.
Proof.
  intros S rp IN. unfold spec in S. change (c_rethrow (s_cfg ex_try) && existsb rhas_throw (s_tests ex_try)) with false in S.
  change (existsb rintercepts (s_tests ex_try)) with false in S. cbv iota in S.
  change (c_cli (s_cfg ex_try)) with false in S. cbv iota in S.
  rewrite !andb_true_iff in S. destruct S as [[[_ L] R] _].
  apply N.eqb_eq in L. destruct (o_reps o) as [|r0 [|r1 l]]; cbn [length] in L; try lia. cbn in IN. destruct IN as [<- | []].
  cbn [reps_ok] in R. rewrite andb_true_r in R. unfold rep_ok in R. rewrite !andb_true_iff in R.
  destruct R as [[[[[[[EV _] FL] _] _] _] _] SU].
  apply (list_eqb_eq _ sub_eqb_eq) in SU. apply (list_eqb_eq _ ev3_eqb_eq) in EV.
  split; [rewrite SU; vm_compute; reflexivity|]. split; [unfold strip; rewrite EV; vm_compute; reflexivity|].
  assert (LEN : forall a b, list_eqb frec_eqb a b = true -> length a = length b).
  { induction a as [|x a IH]; intros [|y b] E; cbn in E; try discriminate E; [reflexivity|]. apply andb_true_iff in E. cbn. f_equal. apply IH. tauto. }
  rewrite (LEN _ _ FL). vm_compute. reflexivity.
Qed.
(* what the tree with the seeded change (CppUTestFailedException made a std::exception) shows on that program -- the handler ran and
   failed again: two records, three sub events -- is rejected *)
Example ex_try_std_handler_rejected :
  spec ex_try (mkObs false None [mkRep [mkEv 0 1 0 2; mkEv 0 2 0 2; mkEv 1 1 0 2] [mkF 0 0 105 0; mkF 0 0 107 0] [(0, true); (0, true)]
                                       (Some (mkSum false (Some 2%N) 2 2 5 0 0)) (Some (mkCnt 2 2 5 2 0 0))
                                       [mkSub 0 1 0 0; mkSub 0 1 0 1; mkSub 0 1 0 3]]) = false.
Proof. vm_compute. reflexivity. Qed.
(* ... and so is a handler that swallows: no second record, but the statement behind the try block ran *)
Example ex_try_swallowed_rejected :
  spec ex_try (mkObs false None [mkRep [mkEv 0 1 0 2; mkEv 0 1 1 2; mkEv 0 2 0 2; mkEv 1 1 0 2] [mkF 0 0 105 0] [(0, true); (0, true)]
                                       (Some (mkSum false (Some 1%N) 2 2 4 0 0)) (Some (mkCnt 2 2 4 1 0 0))
                                       [mkSub 0 1 0 0; mkSub 0 1 0 1]]) = false.
Proof. vm_compute. reflexivity. Qed.

(* handlers that do catch: a std exception caught by catch (const std::exception&) whose handler completes (the body goes on), a
   foreign exception that passes it and escapes, CHECK_THROWS around a helper with checks *)
Definition ex_caught : scenario :=
  mkScn (mkCfg true false false false 1)
        [ mkRTest false true 100 [] [RS (STry [BCheck; BThrowStd; BCheck] (HType EStd) [BCheck; BNop]); RS SCheck] [] [] [];
          mkRTest false true 200 [] [RS (STry [BThrowOther] (HType EStd) [BCheck]); RS SCheck] [RS SCheck] [] [];
          mkRTest false true 300 [] [RS (SThrows EStd [BCheck; BThrowStd] 0 7000); RS (SThrows EInt [BCheck; BFailC 1 9] 1 7017); RS SCheck] [] [] [] ].
Example ex_caught_valid : valid true ex_caught = true /\ existsb rintercepts (s_tests ex_caught) = false. Proof. split; vm_compute; reflexivity. Qed.
Example ex_caught_run :
  map (fun r => (map strip (r_events r), r_subs r, r_fails r, match r_summary r with Some m => m_checks m | None => 0%N end)) (o_reps (run true ex_caught))
  = [([(0, 1, 0); (0, 1, 1); (1, 1, 0); (1, 2, 0); (2, 1, 0); (2, 1, 1)]%N,
      [mkSub 0 1 0 0; mkSub 0 1 0 1; mkSub 0 1 0 3; mkSub 0 1 0 4; mkSub 1 1 0 0; mkSub 2 1 0 0; mkSub 2 1 0 1; mkSub 2 1 1 0; mkSub 2 1 1 1],
      [mkF 1 0 200 1; mkF 2 1 9 0], 8%N)].
Proof. vm_compute. reflexivity. Qed.
Example ex_caught_spec : spec ex_caught (run true ex_caught) = true. Proof. vm_compute. reflexivity. Qed.
Example ex_caught_hyps :
  bases_how [BCheck; BThrowStd; BCheck] = HowThrow XStd /\ catches (HType EStd) XStd = true /\ catches (HType EStd) XOther = false /\
  bases_how [BCheck; BNop] = HowDone /\ bases_how [BCheck; BFailC 1 9] = HowJump.
Proof. repeat split. Qed.

(* catch (...) around a failing C++-style check, CHECK_THROWS around one: outside what the oracle judges; the model mirrors the
   language (the handler runs, CHECK_THROWS fails "threw a different type" on top of the check's own record) *)
Definition ex_catch_all : scenario :=
  mkScn (mkCfg false false false false 1)
        [ mkRTest false true 100 [] [RS (STry [BFailX 0 105] HAll [BCheck]); RS SCheck] [] [] [];
          mkRTest false true 200 [] [RS (SThrows EStd [BFailX 0 205] 0 7000); RS SCheck] [] [] [] ].
Example ex_catch_all_out_of_scope : existsb rintercepts (s_tests ex_catch_all) = true /\ forall o, spec ex_catch_all o = true.
Proof. split; [vm_compute; reflexivity | intro o; apply spec_out_of_scope; vm_compute; reflexivity]. Qed.
Example ex_catch_all_run :
  map (fun r => (map strip (r_events r), r_subs r, r_fails r)) (o_reps (run true ex_catch_all))
  = [([(0, 1, 0); (0, 1, 1); (1, 1, 0)]%N, [mkSub 0 1 0 0; mkSub 0 1 0 1; mkSub 1 1 0 0], [mkF 0 0 105 0; mkF 1 0 205 0; mkF 1 0 7000 0])].
Proof. vm_compute. reflexivity. Qed.

(* the program of red-team change C01-2: TEST_GROUP with setup and teardown, a TEST, an IGNORE_TEST with a failing check; run with -ri *)
Definition ex_ri : scenario :=
  mkScn (mkCfg true false false true 1)
        [ mkRTest false true 100 [RS SNop] [RS SCheck] [RS SNop] [] [];
          mkRTest true true 200 [RS SNop] [RS SNop; RS (SCheckK KLongs false 0 205); RS SNop] [RS SNop] [] [] ].
Example ex_ri_valid : valid true ex_ri = true /\ valid false ex_ri = true. Proof. split; vm_compute; reflexivity. Qed.
Example ex_ri_run :
  map (fun r => (map strip (r_events r), r_fails r, r_summary r)) (o_reps (run true ex_ri))
  = [([(0, 0, 0); (0, 1, 0); (0, 2, 0); (1, 0, 0); (1, 1, 0); (1, 1, 1); (1, 2, 0)]%N, [mkF 1 0 205 0], Some (mkSum false (Some 1%N) 2 2 2 0 0))]
  /\ o_ret (run true ex_ri) = Some 1.
Proof. split; vm_compute; reflexivity. Qed.
(* an accepted observation of that program shows setup, body up to the failing check and teardown of the ignored test, its failure,
   a summary that does not read OK, and a returned value that is not zero *)
Theorem ex_ri_oracle o :
  spec ex_ri o = true ->
  (forall rp, In rp (o_reps o) ->
     map strip (r_events rp) = [(0, 0, 0); (0, 1, 0); (0, 2, 0); (1, 0, 0); (1, 1, 0); (1, 1, 1); (1, 2, 0)]%N /\
     exists m, r_summary rp = Some m /\ m_ok m = false /\ m_run m = 2%N /\ m_checks m = 2%N) /\
  exists z, o_ret o = Some z /\ z <> 0.
Proof.
  intros S. unfold spec in S. change (c_rethrow (s_cfg ex_ri) && existsb rhas_throw (s_tests ex_ri)) with false in S.
  change (existsb rintercepts (s_tests ex_ri)) with false in S. cbv iota in S.
  change (c_cli (s_cfg ex_ri)) with true in S. cbv iota in S. change (eff_repeat (c_repeat (s_cfg ex_ri))) with 1%N in S.
  rewrite !andb_true_iff in S. destruct S as [[[_ L] R] RET]. split.
  - intros rp IN. apply N.eqb_eq in L. destruct (o_reps o) as [|r0 [|r1 l]]; cbn [length] in L; try lia. cbn in IN. destruct IN as [<- | []].
    cbn [reps_ok] in R. rewrite andb_true_r in R. unfold rep_ok in R. rewrite !andb_true_iff in R.
    destruct R as [[[[[[[EV _] _] _] _] SM] _] _].
    apply (list_eqb_eq _ ev3_eqb_eq) in EV. split; [unfold strip; rewrite EV; vm_compute; reflexivity|].
    destruct (r_summary r0) as [m|]; [|discriminate SM]. exists m. split; [reflexivity|].
    unfold summary_ok in SM. rewrite !andb_true_iff in SM. destruct SM as [[OK _] [[[[_ RUN] CH] _] _]].
    apply eqb_prop in OK. apply N.eqb_eq in RUN, CH. rewrite OK, RUN, CH. vm_compute. repeat split.
  - destruct (o_ret o) as [z|]; [|discriminate RET]. exists z. split; [reflexivity|]. apply eqb_prop in RET.
    change (every_rep_ok ex_ri (eff_repeat (c_repeat (s_cfg ex_ri)))) with false in RET. apply Z.eqb_neq. exact RET.
Qed.
(* what the tree with the seeded change (IGNORE_TEST without createTest()) shows: the ignored test is counted as run, nothing of it ran,
   the summary reads OK and the runner returns 0 -- rejected *)
Example ex_ri_not_instantiated_rejected :
  spec ex_ri (mkObs false (Some 0) [mkRep [mkEv 0 0 0 2; mkEv 0 1 0 2; mkEv 0 2 0 2] [] [(0, true); (0, true)]
                                          (Some (mkSum true None 2 2 1 0 0)) None []]) = false.
Proof. vm_compute. reflexivity. Qed.
Example ex_ri_hyps : c_runign (s_cfg ex_ri) = true /\ ok_test false false (at_rep 0 (nth 1 (s_tests ex_ri) (mkRTest false true 0 [] [] [] [] []))) = true.
Proof. split; reflexivity. Qed.
