(* C04: the three STORING member functions of the translated MemoryLeakDetectorList (gen/Gen_HeapC04.v: src_list_addNewNode,
   src_list_removeNode, src_list_clearAllAccounting) run on a heap that represents a model bucket (C04_HeapRep.v: list_at)
   return FOk and a heap that represents the model's new bucket (C04_Model.v: l_add, l_remove, l_clear); every block that is
   not mentioned is unchanged.  The walks are proved with a LOCAL invariant: `prev` is a block holding a node whose next_ is
   `cur`, and from `cur` the heap holds the rest of the bucket; the result is a chain from `prev`.  The model's accumulator
   form (l_remove_walk / l_clear_walk) is related to the direct recursive form (w_without / w_keep) once, below. *)
From Coq Require Import ZArith NArith Bool List Lia.
From CppUVerif Require Import lib.CSem lib.CMem lib.CMemFacts lib.CHeap gen.Gen_Common gen.Gen_HeapC04 C04_Model C04_HeapRep.
Import ListNotations.
Local Open Scope Z_scope.

(* ------------------------------------------------------------------ small facts *)
Lemma w_z2b_ptr b i : z2b (hp_bool (HPtr b i)) = true. Proof. reflexivity. Qed.
Lemma w_z2b_null : z2b (hp_bool HNull) = false. Proof. reflexivity. Qed.
Lemma w_key_eq x y : z2b (c_eq (Z.of_N x) (Z.of_N y)) = (x =? y)%N.
Proof.
  unfold c_eq. rewrite b2z_z2b. destruct (N.eqb_spec x y) as [E|E].
  - subst. apply Z.eqb_refl.
  - apply Z.eqb_neq. intro H. apply E. apply N2Z.inj. exact H.
Qed.

(* cell access in a block that holds a node *)
Section Cells.
  Variables (h : heap) (b : nat) (n : node) (nxt : hptr).
  Hypothesis Hb : hblock h b = node_cells n nxt.
  Lemma w_padd2 : hpadd h (HPtr b 0) 2 = Some (HPtr b 2). Proof. unfold hpadd. rewrite Hb. reflexivity. Qed.
  Lemma w_padd6 : hpadd h (HPtr b 0) 6 = Some (HPtr b 6). Proof. unfold hpadd. rewrite Hb. reflexivity. Qed.
  Lemma w_padd8 : hpadd h (HPtr b 0) 8 = Some (HPtr b 8). Proof. unfold hpadd. rewrite Hb. reflexivity. Qed.
  Lemma w_load_key : hload_int h (HPtr b 2) = Some (Z.of_N (n_addr n)).
  Proof. unfold hload_int, hload. rewrite Hb. reflexivity. Qed.
  Lemma w_load_period : hload_int h (HPtr b 6) = Some (stamp_code (n_period n)).
  Proof. unfold hload_int, hload. rewrite Hb. reflexivity. Qed.
  Lemma w_load_next : hload_ptr h (HPtr b 8) = Some nxt.
  Proof. unfold hload_ptr, hload. rewrite Hb. reflexivity. Qed.
  (* node->next_ = q : the block becomes the cells of the same node with next_ = q, nothing else moves *)
  Lemma w_store_next q : (b < length h)%nat ->
    exists h', hstore h (HPtr b 8) (VPtr q) = Some h' /\ hblock h' b = node_cells n q /\ length h' = length h /\
               (forall b', b' <> b -> hblock h' b' = hblock h b').
  Proof.
    intro L. exists (upd h b (node_cells n q)). split; [|split; [|split]].
    - unfold hstore. rewrite Hb. replace (Nat.ltb b (length h)) with true by (symmetry; apply Nat.ltb_lt; exact L). reflexivity.
    - apply hblock_upd_same. exact L.
    - apply heap_upd_length.
    - intros b' Hne. apply hblock_upd_other. intro E. apply Hne. symmetry. exact E.
  Qed.
End Cells.

(* the head_ cell of the list object *)
Lemma w_load_same_block h h' bt i : hblock h' bt = hblock h bt -> hload_ptr h' (HPtr bt i) = hload_ptr h (HPtr bt i).
Proof. intro H. unfold hload_ptr, hload. rewrite H. reflexivity. Qed.

Lemma w_this_store h bt i hd v : hload_ptr h (HPtr bt i) = Some hd -> (bt < length h)%nat ->
  exists h', hstore h (HPtr bt i) (VPtr v) = Some h' /\ hload_ptr h' (HPtr bt i) = Some v /\ length h' = length h /\
    (forall b', b' <> bt -> hblock h' b' = hblock h b') /\
    (forall k, k <> Z.to_nat i -> nth_error (hblock h' bt) k = nth_error (hblock h bt) k).
Proof.
  intros Hl Hlt. unfold hload_ptr, hload in Hl. destruct (0 <=? i) eqn:Hi; [|discriminate Hl].
  destruct (nth_error (hblock h bt) (Z.to_nat i)) as [[z|q]|] eqn:Hn; try discriminate Hl.
  assert (L : (Z.to_nat i < length (hblock h bt))%nat) by (apply nth_error_Some; rewrite Hn; discriminate).
  apply Z.leb_le in Hi.
  exists (upd h bt (upd (hblock h bt) (Z.to_nat i) (VPtr v))). split; [|split; [|split; [|split]]].
  - unfold hstore. replace (0 <=? i) with true by (symmetry; apply Z.leb_le; exact Hi).
    replace (i <? Z.of_nat (length (hblock h bt))) with true by (symmetry; apply Z.ltb_lt; lia).
    replace (Nat.ltb bt (length h)) with true by (symmetry; apply Nat.ltb_lt; exact Hlt). reflexivity.
  - unfold hload_ptr, hload. replace (0 <=? i) with true by (symmetry; apply Z.leb_le; exact Hi).
    rewrite hblock_upd_same by exact Hlt. rewrite nth_error_upd_same by exact L. reflexivity.
  - apply heap_upd_length.
  - intros b' Hne. apply hblock_upd_other. intro E. apply Hne. symmetry. exact E.
  - intros k Hk. rewrite hblock_upd_same by exact Hlt. apply nth_error_upd_other. intro E. apply Hk. symmetry. exact E.
Qed.

(* MemoryLeakDetectorList::isInPeriod on a represented node *)
Lemma w_isInPeriod fuel0 h this b n nxt per : hblock h b = node_cells n nxt ->
  src_list_isInPeriod fuel0 h this (HPtr b 0) (period_code per) = FOk (b2z (is_in_period n per)).
Proof.
  intro H. unfold src_list_isInPeriod. rewrite (w_padd6 _ _ _ _ H). cbv beta iota. rewrite (w_load_period _ _ _ _ H).
  unfold is_in_period. destruct per, (n_period n); reflexivity.
Qed.

(* ------------------------------------------------------------------ the model walks without the accumulator *)
Fixpoint w_without (a : N) (ns : list node) : list node :=
  match ns with [] => [] | c :: r => if (n_addr c =? a)%N then r else c :: w_without a r end.
Fixpoint w_keep (per : period) (ns : list node) : list node :=
  match ns with [] => [] | c :: r => if is_in_period c per then w_keep per r else c :: w_keep per r end.
(* the blocks that stay *)
Fixpoint w_bwithout (a : N) (bs : list nat) (ns : list node) : list nat :=
  match ns, bs with
  | c :: r, b :: bs' => if (n_addr c =? a)%N then bs' else b :: w_bwithout a bs' r
  | _, _ => bs
  end.
Fixpoint w_bkeep (per : period) (bs : list nat) (ns : list node) : list nat :=
  match ns, bs with
  | c :: r, b :: bs' => if is_in_period c per then w_bkeep per bs' r else b :: w_bkeep per bs' r
  | _, _ => []
  end.

Lemma w_remove_walk_eq a : forall ns acc, l_remove_walk a acc ns = (l_retrieve a ns, rev acc ++ w_without a ns).
Proof.
  induction ns as [|c ns IH]; intro acc; cbn [l_remove_walk l_retrieve w_without].
  - rewrite app_nil_r. reflexivity.
  - destruct (n_addr c =? a)%N; [reflexivity|]. rewrite IH. cbn [rev]. rewrite <- app_assoc. reflexivity.
Qed.
Lemma w_remove_eq a ns : l_remove a ns = (l_retrieve a ns, w_without a ns).
Proof. unfold l_remove. rewrite w_remove_walk_eq. reflexivity. Qed.
Lemma w_clear_walk_eq per : forall ns acc, l_clear_walk per acc ns = rev acc ++ w_keep per ns.
Proof.
  induction ns as [|c ns IH]; intro acc; cbn [l_clear_walk w_keep].
  - rewrite app_nil_r. reflexivity.
  - destruct (is_in_period c per).
    + destruct acc; apply IH.
    + rewrite IH. cbn [rev]. rewrite <- app_assoc. reflexivity.
Qed.
Lemma w_clear_eq per ns : l_clear per ns = w_keep per ns.
Proof. unfold l_clear. rewrite w_clear_walk_eq. reflexivity. Qed.
Lemma w_keep_filter per : forall ns, w_keep per ns = filter (fun c => negb (is_in_period c per)) ns.
Proof. induction ns as [|c ns IH]; cbn [w_keep filter]; [reflexivity|]. destruct (is_in_period c per); cbn [negb]; rewrite IH; reflexivity. Qed.

Lemma w_without_incl a x : forall ns, In x (w_without a ns) -> In x ns.
Proof.
  induction ns as [|c ns IH]; cbn [w_without]; [intros []|]. destruct (n_addr c =? a)%N; intro H.
  - right. exact H.
  - destruct H as [H|H]; [left; exact H | right; exact (IH H)].
Qed.
Lemma w_keep_incl per x : forall ns, In x (w_keep per ns) -> In x ns.
Proof.
  induction ns as [|c ns IH]; cbn [w_keep]; [intros []|]. destruct (is_in_period c per); intro H.
  - right. exact (IH H).
  - destruct H as [H|H]; [left; exact H | right; exact (IH H)].
Qed.
Lemma w_bwithout_incl a x : forall ns bs, In x (w_bwithout a bs ns) -> In x bs.
Proof.
  induction ns as [|c ns IH]; intros [|b bs]; cbn [w_bwithout]; try (intro H; exact H).
  destruct (n_addr c =? a)%N; intro H.
  - right. exact H.
  - destruct H as [H|H]; [left; exact H | right; exact (IH _ H)].
Qed.
Lemma w_bkeep_incl per x : forall ns bs, In x (w_bkeep per bs ns) -> In x bs.
Proof.
  induction ns as [|c ns IH]; intros [|b bs]; cbn [w_bkeep]; try (intros []).
  destruct (is_in_period c per); intro H.
  - right. exact (IH _ H).
  - destruct H as [H|H]; [left; exact H | right; exact (IH _ H)].
Qed.
Lemma w_bwithout_NoDup a : forall ns bs, NoDup bs -> NoDup (w_bwithout a bs ns).
Proof.
  induction ns as [|c ns IH]; intros [|b bs] H; cbn [w_bwithout]; try exact H.
  inversion H as [|? ? Hn Hd]; subst. destruct (n_addr c =? a)%N; [exact Hd|].
  constructor; [|exact (IH _ Hd)]. intro Hin. apply Hn. exact (w_bwithout_incl _ _ _ _ Hin).
Qed.
Lemma w_bkeep_NoDup per : forall ns bs, NoDup bs -> NoDup (w_bkeep per bs ns).
Proof.
  induction ns as [|c ns IH]; intros [|b bs] H; cbn [w_bkeep]; try (constructor; fail).
  inversion H as [|? ? Hn Hd]; subst. destruct (is_in_period c per); [exact (IH _ Hd)|].
  constructor; [|exact (IH _ Hd)]. intro Hin. apply Hn. exact (w_bkeep_incl _ _ _ _ Hin).
Qed.

(* ptr_of and the blocks that stay after a removal *)
Lemma w_ptr_of_in a b i : forall ns bs, ptr_of a bs ns = HPtr b i -> In b bs /\ i = 0.
Proof.
  induction ns as [|c ns IH]; intros [|b0 bs]; cbn [ptr_of]; try discriminate.
  destruct (n_addr c =? a)%N; intro H.
  - inversion H; subst. split; [left; reflexivity | reflexivity].
  - destruct (IH _ H) as [H1 H2]. split; [right; exact H1 | exact H2].
Qed.
Lemma w_ptr_of_gone a b i : forall ns bs, NoDup bs -> ptr_of a bs ns = HPtr b i -> ~ In b (w_bwithout a bs ns).
Proof.
  induction ns as [|c ns IH]; intros [|b0 bs] Hd; cbn [ptr_of w_bwithout]; try discriminate.
  inversion Hd as [|? ? Hn Hd']; subst. destruct (n_addr c =? a)%N; intro H.
  - inversion H; subst. exact Hn.
  - intros [E|Hin]; [|exact (IH _ Hd' H Hin)]. subst. apply Hn. exact (proj1 (w_ptr_of_in _ _ _ _ _ H)).
Qed.
Lemma w_bwithout_other a x : forall ns bs, In x bs -> ptr_of a bs ns <> HPtr x 0 -> In x (w_bwithout a bs ns).
Proof.
  induction ns as [|c ns IH]; intros [|b bs] Hin; cbn [ptr_of w_bwithout]; try (intros _; exact Hin).
  destruct (n_addr c =? a)%N; intro H.
  - destruct Hin as [E|Hin]; [subst; exfalso; apply H; reflexivity | exact Hin].
  - destruct Hin as [E|Hin]; [left; exact E | right; exact (IH _ Hin H)].
Qed.
(* the pointer returned by removeNode / retrieveNode is the block that holds the node the model returns *)
Lemma w_ptr_of_retrieve a h : forall ns p bs, chain h p bs ns ->
  match l_retrieve a ns with
  | Some n => exists b nxt, ptr_of a bs ns = HPtr b 0 /\ In b bs /\ hblock h b = node_cells n nxt
  | None => ptr_of a bs ns = HNull
  end.
Proof.
  induction ns as [|c ns IH]; intros p bs H.
  - apply chain_nil_inv in H. destruct H as [_ ->]. reflexivity.
  - apply chain_cons_inv in H. destruct H as [b [bs' [nxt [-> [_ [Hb Hc]]]]]]. cbn [l_retrieve ptr_of].
    destruct (n_addr c =? a)%N.
    + exists b, nxt. split; [reflexivity|]. split; [left; reflexivity | exact Hb].
    + specialize (IH _ _ Hc). destruct (l_retrieve a ns) as [n|]; [|exact IH].
      destruct IH as [b1 [nxt1 [H1 [H2 H3]]]]. exists b1, nxt1. split; [exact H1|]. split; [right; exact H2 | exact H3].
Qed.

(* ------------------------------------------------------------------ addNewNode *)
Theorem src_list_addNewNode_full : forall fuel h this bs ns b n nxt0,
  list_at h this bs ns -> node_ok n -> (b < length h)%nat -> ~ In b bs ->
  (match this with HPtr bt _ => b <> bt | HNull => True end) -> hblock h b = node_cells n nxt0 ->
  exists h' hd, src_list_addNewNode fuel h this (HPtr b 0) = FOk (tt, h') /\ list_at h' this (b :: bs) (l_add n ns) /\
    length h' = length h /\ hload_ptr h this = Some hd /\ hblock h' b = node_cells n hd /\
    (forall b', b' <> b -> (match this with HPtr bt _ => b' <> bt | HNull => True end) -> hblock h' b' = hblock h b') /\
    match this with
    | HPtr bt i => forall k, (k <> Z.to_nat i)%nat -> nth_error (hblock h' bt) k = nth_error (hblock h bt) k
    | HNull => True
    end.
Proof.
  intros fuel h this bs ns b n nxt0 [hd [Hl [Hc [Hd [Hok [Hlt Ht]]]]]] Hn Hb Hnin Hne Hbk.
  destruct this as [|bt i]; [destruct Ht|]. destruct Ht as [Htn Htl].
  destruct (w_store_next h b n nxt0 Hbk hd Hb) as [h1 [Hs1 [Hb1 [Hlen1 Hfr1]]]].
  assert (Hl1 : hload_ptr h1 (HPtr bt i) = Some hd).
  { rewrite (w_load_same_block h h1 bt i); [exact Hl|]. apply Hfr1. intro E. apply Hne. symmetry. exact E. }
  assert (Htl1 : (bt < length h1)%nat) by (rewrite Hlen1; exact Htl).
  destruct (w_this_store h1 bt i hd (HPtr b 0) Hl1 Htl1) as [h2 [Hs2 [Hl2 [Hlen2 [Hfr2 Hcell2]]]]].
  exists h2, hd. split; [|split; [|split; [|split; [|split; [|split]]]]].
  - unfold src_list_addNewNode. rewrite Hl. cbv beta iota. rewrite (w_padd8 _ _ _ _ Hbk). cbv beta iota. rewrite Hs1.
    cbv beta iota. rewrite Hs2. reflexivity.
  - exists (HPtr b 0). split; [exact Hl2|]. split; [|split; [|split; [|split; [|split]]]].
    + unfold l_add. cbn [chain]. split; [reflexivity|]. exists hd. split.
      * rewrite Hfr2 by exact Hne. exact Hb1.
      * apply chain_frame with (h := h); [|exact Hc]. intros x Hx. rewrite Hfr2 by (intro E; subst; exact (Htn Hx)).
        apply Hfr1. intro E. subst. exact (Hnin Hx).
    + constructor; assumption.
    + constructor; assumption.
    + constructor; [rewrite Hlen2, Hlen1; exact Hb|]. apply Forall_forall. intros x Hx. rewrite Hlen2, Hlen1.
      exact (proj1 (Forall_forall _ _) Hlt x Hx).
    + intros [E|Hin]; [apply Hne; exact E | exact (Htn Hin)].
    + rewrite Hlen2, Hlen1. exact Htl.
  - rewrite Hlen2. exact Hlen1.
  - exact Hl.
  - rewrite Hfr2 by exact Hne. exact Hb1.
  - intros b' H1 H2. rewrite Hfr2 by exact H2. apply Hfr1. exact H1.
  - intros k Hk. rewrite (Hcell2 k Hk). rewrite Hfr1; [reflexivity|]. intro E. apply Hne. symmetry. exact E.
Qed.

Theorem src_list_addNewNode_spec : forall fuel h this bs ns b n nxt0,
  list_at h this bs ns -> node_ok n -> (b < length h)%nat -> ~ In b bs ->
  (match this with HPtr bt _ => b <> bt | HNull => True end) -> hblock h b = node_cells n nxt0 ->
  exists h', src_list_addNewNode fuel h this (HPtr b 0) = FOk (tt, h') /\ list_at h' this (b :: bs) (l_add n ns) /\
    length h' = length h /\
    (forall b', b' <> b -> (match this with HPtr bt _ => b' <> bt | HNull => True end) -> hblock h' b' = hblock h b').
Proof.
  intros fuel h this bs ns b n nxt0 H1 H2 H3 H4 H5 H6.
  destruct (src_list_addNewNode_full fuel h this bs ns b n nxt0 H1 H2 H3 H4 H5 H6) as [h' [hd [A [B [C [_ [_ [D _]]]]]]]].
  exists h'. repeat split; assumption.
Qed.

(* ------------------------------------------------------------------ removeNode *)
(* the walk with prev <> NULL: prev's block bp holds np with next_ = cur; afterwards bp heads the chain without the node *)
Lemma w_remove_loop_prev fuel0 this a : forall ns fuel h bp np cur bs,
  hblock h bp = node_cells np cur -> chain h cur bs ns -> NoDup (bp :: bs) ->
  Forall (fun b => (b < length h)%nat) (bp :: bs) -> (length ns < fuel)%nat ->
  exists h',
    (src_list_removeNode_loop1 fuel0 fuel this (Z.of_N a) h cur (HPtr bp 0) = Done (ptr_of a bs ns, h') \/
     (ptr_of a bs ns = HNull /\
      exists c p, src_list_removeNode_loop1 fuel0 fuel this (Z.of_N a) h cur (HPtr bp 0) = Go (h', c, p))) /\
    chain h' (HPtr bp 0) (bp :: w_bwithout a bs ns) (np :: w_without a ns) /\ length h' = length h /\
    (forall b', ~ In b' (bp :: w_bwithout a bs ns) -> hblock h' b' = hblock h b').
Proof.
  induction ns as [|c ns IH]; intros fuel h bp np cur bs Hbp Hc Hd Hlt Hf.
  - apply chain_nil_inv in Hc. destruct Hc as [-> ->]. destruct fuel as [|fuel]; [cbn in Hf; lia|].
    cbn [src_list_removeNode_loop1]. rewrite w_z2b_null. cbv beta iota. exists h. split; [|split; [|split]].
    + right. split; [reflexivity|]. exists HNull, (HPtr bp 0). reflexivity.
    + cbn [chain w_bwithout w_without]. split; [reflexivity|]. exists HNull. split; [exact Hbp | reflexivity].
    + reflexivity.
    + intros; reflexivity.
  - apply chain_cons_inv in Hc. destruct Hc as [bc [bs' [nxt [-> [-> [Hbc Hc]]]]]].
    destruct fuel as [|fuel]; [cbn in Hf; lia|]. cbn [length] in Hf.
    inversion Hd as [|? ? Hn1 Hd1]; subst. inversion Hd1 as [|? ? Hn2 Hd2]; subst.
    inversion Hlt as [|? ? Hl1 Hlt1]; subst.
    cbn [src_list_removeNode_loop1]. rewrite w_z2b_ptr. cbv beta iota.
    rewrite (w_padd2 _ _ _ _ Hbc). cbv beta iota. rewrite (w_load_key _ _ _ _ Hbc). cbv beta iota. rewrite w_key_eq.
    cbn [ptr_of w_bwithout w_without]. destruct (n_addr c =? a)%N.
    + rewrite w_z2b_ptr. cbv beta iota. rewrite (w_padd8 _ _ _ _ Hbc). cbv beta iota. rewrite (w_load_next _ _ _ _ Hbc).
      cbv beta iota. rewrite (w_padd8 _ _ _ _ Hbp). cbv beta iota.
      destruct (w_store_next h bp np (HPtr bc 0) Hbp nxt Hl1) as [h' [Hs [Hb' [Hlen Hfr]]]]. rewrite Hs. cbv beta iota.
      exists h'. split; [left; reflexivity|]. split; [|split].
      * cbn [chain]. split; [reflexivity|]. exists nxt. split; [exact Hb'|]. apply chain_frame with (h := h); [|exact Hc].
        intros x Hx. apply Hfr. intro E. subst. apply Hn1. right. exact Hx.
      * exact Hlen.
      * intros b' Hb'n. apply Hfr. intro E. apply Hb'n. left. symmetry. exact E.
    + cbv beta iota zeta. rewrite (w_padd8 _ _ _ _ Hbc). cbv beta iota. rewrite (w_load_next _ _ _ _ Hbc). cbv beta iota.
      destruct (IH fuel h bc c nxt bs' Hbc Hc Hd1 Hlt1 ltac:(lia)) as [h' [Hr [Hch [Hlen Hfr]]]].
      assert (Hnp : ~ In bp (bc :: w_bwithout a bs' ns)).
      { intros [E|Hin]; [apply Hn1; left; exact E | apply Hn1; right; exact (w_bwithout_incl _ _ _ _ Hin)]. }
      exists h'. split; [exact Hr|]. split; [|split].
      * cbn [chain]. split; [reflexivity|]. exists (HPtr bc 0). split; [rewrite (Hfr bp Hnp); exact Hbp | exact Hch].
      * exact Hlen.
      * intros b' Hb'n. apply Hfr. intro Hin. apply Hb'n. right. exact Hin.
Qed.

Theorem src_list_removeNode_full : forall fuel h this bs ns a,
  list_at h this bs ns -> (length ns < fuel)%nat ->
  exists h', src_list_removeNode fuel h this (Z.of_N a) = FOk (ptr_of a bs ns, h') /\
    list_at h' this (w_bwithout a bs ns) (w_without a ns) /\ length h' = length h /\
    (forall b', (match this with HPtr bt _ => b' <> bt | HNull => True end) -> ~ In b' (w_bwithout a bs ns) ->
                hblock h' b' = hblock h b') /\
    match this with
    | HPtr bt i => forall k, (k <> Z.to_nat i)%nat -> nth_error (hblock h' bt) k = nth_error (hblock h bt) k
    | HNull => True
    end.
Proof.
  intros fuel h this bs ns a [hd [Hl [Hc [Hd [Hok [Hlt Ht]]]]]] Hf.
  destruct this as [|bt i]; [destruct Ht|]. destruct Ht as [Htn Htl].
  unfold src_list_removeNode. rewrite Hl. cbv beta iota zeta.
  destruct ns as [|c ns].
  - apply chain_nil_inv in Hc. destruct Hc as [-> ->]. destruct fuel as [|fuel]; [cbn in Hf; lia|].
    cbn [src_list_removeNode_loop1]. rewrite w_z2b_null. cbv beta iota. exists h. split; [reflexivity|]. split; [|split; [|split]].
    + exists HNull. split; [exact Hl|]. split; [reflexivity|]. split; [constructor|]. split; [constructor|]. split; [constructor|].
      split; [intros [] | exact Htl].
    + reflexivity.
    + intros; reflexivity.
    + intros; reflexivity.
  - apply chain_cons_inv in Hc. destruct Hc as [bc [bs' [nxt [-> [-> [Hbc Hc]]]]]].
    destruct fuel as [|fuel]; [cbn in Hf; lia|]. cbn [length] in Hf.
    inversion Hd as [|? ? Hn1 Hd1]; subst. inversion Hlt as [|? ? Hl1 Hlt1]; subst. inversion Hok as [|? ? Hok1 Hok2]; subst.
    cbn [src_list_removeNode_loop1]. rewrite w_z2b_ptr. cbv beta iota.
    rewrite (w_padd2 _ _ _ _ Hbc). cbv beta iota. rewrite (w_load_key _ _ _ _ Hbc). cbv beta iota. rewrite w_key_eq.
    cbn [ptr_of w_bwithout w_without]. destruct (n_addr c =? a)%N.
    + rewrite w_z2b_null. cbv beta iota. rewrite (w_padd8 _ _ _ _ Hbc). cbv beta iota. rewrite (w_load_next _ _ _ _ Hbc).
      cbv beta iota. destruct (w_this_store h bt i (HPtr bc 0) nxt Hl Htl) as [h' [Hs [Hl' [Hlen [Hfr Hcell]]]]].
      rewrite Hs. cbv beta iota. exists h'. split; [reflexivity|]. split; [|split; [|split]].
      * exists nxt. split; [exact Hl'|]. split; [|split; [exact Hd1|split; [exact Hok2|split; [|split]]]].
        -- apply chain_frame with (h := h); [|exact Hc]. intros x Hx. apply Hfr. intro E. subst. apply Htn. right. exact Hx.
        -- rewrite Hlen. exact Hlt1.
        -- intro Hin. apply Htn. right. exact Hin.
        -- rewrite Hlen. exact Htl.
      * exact Hlen.
      * intros b' Hne _. apply Hfr. exact Hne.
      * exact Hcell.
    + cbv beta iota zeta. rewrite (w_padd8 _ _ _ _ Hbc). cbv beta iota. rewrite (w_load_next _ _ _ _ Hbc). cbv beta iota.
      destruct (w_remove_loop_prev (S fuel) (HPtr bt i) a ns fuel h bc c nxt bs' Hbc Hc Hd Hlt ltac:(lia))
        as [h' [Hr [Hch [Hlen Hfr]]]].
      assert (Hnt : ~ In bt (bc :: w_bwithout a bs' ns)).
      { intros [E|Hin]; [apply Htn; left; exact E | apply Htn; right; exact (w_bwithout_incl _ _ _ _ Hin)]. }
      exists h'. split; [|split; [|split; [|split]]].
      * destruct Hr as [Hr|[Hp [c0 [p0 Hr]]]]; rewrite Hr; [reflexivity | rewrite Hp; reflexivity].
      * exists (HPtr bc 0). split; [rewrite (w_load_same_block h h' bt i (Hfr bt Hnt)); exact Hl|]. split; [exact Hch|].
        split.
        { constructor; [|exact (w_bwithout_NoDup a ns bs' Hd1)]. intro Hin. apply Hn1. exact (w_bwithout_incl _ _ _ _ Hin). }
        split.
        { constructor; [exact Hok1|]. apply Forall_forall. intros x Hx. apply (proj1 (Forall_forall _ _) Hok2).
          exact (w_without_incl a x ns Hx). }
        split; [|split; [exact Hnt | rewrite Hlen; exact Htl]].
        constructor; [rewrite Hlen; exact Hl1|]. apply Forall_forall. intros x Hx. rewrite Hlen.
        apply (proj1 (Forall_forall _ _) Hlt1). exact (w_bwithout_incl a x ns bs' Hx).
      * exact Hlen.
      * intros b' _ Hb'. apply Hfr. exact Hb'.
      * intros k _. rewrite (Hfr bt Hnt). reflexivity.
Qed.

(* the statement with the model's own functions *)
Theorem src_list_removeNode_spec : forall fuel h this bs ns a,
  list_at h this bs ns -> (length ns < fuel)%nat ->
  exists h' bs', src_list_removeNode fuel h this (Z.of_N a) = FOk (ptr_of a bs ns, h') /\
    list_at h' this bs' (snd (l_remove a ns)) /\ length h' = length h /\
    (forall b', (match this with HPtr bt _ => b' <> bt | HNull => True end) -> ~ In b' bs -> hblock h' b' = hblock h b') /\
    (forall x, In x bs' -> In x bs).
Proof.
  intros fuel h this bs ns a H Hf. destruct (src_list_removeNode_full fuel h this bs ns a H Hf) as [h' [A [B [C [D _]]]]].
  exists h', (w_bwithout a bs ns). rewrite w_remove_eq. cbn [snd]. split; [exact A|]. split; [exact B|]. split; [exact C|]. split.
  - intros b' H1 H2. apply D; [exact H1|]. intro Hin. apply H2. exact (w_bwithout_incl _ _ _ _ Hin).
  - intros x Hx. exact (w_bwithout_incl _ _ _ _ Hx).
Qed.

(* l_remove returns the first node with key a, and the pointer returned is the block holding it *)
Lemma l_remove_fst a ns : fst (l_remove a ns) = l_retrieve a ns.
Proof. rewrite w_remove_eq. reflexivity. Qed.

(* everything about removeNode in one statement: the returned pointer is NULL iff the model returns None, otherwise it is the
   block of the node the model returns; that block is not touched at all (its next_ still points into the list) and is the
   only one leaving the list; the only cell written is the next_ of its predecessor or head_ *)
Theorem src_list_removeNode_complete : forall fuel h this bs ns a,
  list_at h this bs ns -> (length ns < fuel)%nat ->
  exists h' bs', src_list_removeNode fuel h this (Z.of_N a) = FOk (ptr_of a bs ns, h') /\
    list_at h' this bs' (snd (l_remove a ns)) /\ length h' = length h /\
    (forall b', (match this with HPtr bt _ => b' <> bt | HNull => True end) -> ~ In b' bs' -> hblock h' b' = hblock h b') /\
    (forall x, In x bs' <-> In x bs /\ ptr_of a bs ns <> HPtr x 0) /\
    (forall b, ptr_of a bs ns = HPtr b 0 -> hblock h' b = hblock h b) /\
    match fst (l_remove a ns) with
    | Some n => exists b nxt, ptr_of a bs ns = HPtr b 0 /\ In b bs /\ hblock h' b = node_cells n nxt
    | None => ptr_of a bs ns = HNull
    end /\
    match this with
    | HPtr bt i => forall k, (k <> Z.to_nat i)%nat -> nth_error (hblock h' bt) k = nth_error (hblock h bt) k
    | HNull => True
    end.
Proof.
  intros fuel h this bs ns a H Hf. destruct (src_list_removeNode_full fuel h this bs ns a H Hf) as [h' [A [B [C [D E]]]]].
  destruct H as [hd [Hl [Hc [Hd [Hok [Hlt Ht]]]]]].
  assert (Hkeep : forall b, ptr_of a bs ns = HPtr b 0 -> hblock h' b = hblock h b).
  { intros b Hp. apply D.
    - destruct this as [|bt i]; [exact I|]. intro Eq. subst. apply (proj1 Ht). exact (proj1 (w_ptr_of_in _ _ _ _ _ Hp)).
    - exact (w_ptr_of_gone _ _ _ _ _ Hd Hp). }
  exists h', (w_bwithout a bs ns). rewrite w_remove_eq. cbn [snd fst].
  split; [exact A|]. split; [exact B|]. split; [exact C|]. split; [exact D|]. split; [|split; [exact Hkeep|split; [|exact E]]].
  - intro x. split.
    + intro Hx. split; [exact (w_bwithout_incl _ _ _ _ Hx)|]. intro Hp. exact (w_ptr_of_gone _ _ _ _ _ Hd Hp Hx).
    + intros [H1 H2]. exact (w_bwithout_other _ _ _ _ H1 H2).
  - pose proof (w_ptr_of_retrieve a h ns hd bs Hc) as Hr. destruct (l_retrieve a ns) as [n|]; [|exact Hr].
    destruct Hr as [b [nxt [H1 [H2 H3]]]]. exists b, nxt. split; [exact H1|]. split; [exact H2|].
    rewrite (Hkeep b H1). exact H3.
Qed.

(* ------------------------------------------------------------------ clearAllAccounting *)
(* the walk with prev <> NULL; every node costs exactly one iteration (after an unlink behind prev the source sets cur = prev and
   advances in the same iteration), the last iteration sees cur = NULL: length ns + 1 iterations *)
Lemma w_clear_loop_prev fuel0 this per : forall ns fuel h bp np cur bs,
  hblock h bp = node_cells np cur -> chain h cur bs ns -> NoDup (bp :: bs) ->
  Forall (fun b => (b < length h)%nat) (bp :: bs) -> (length ns < fuel)%nat ->
  exists h' c p,
    src_list_clearAllAccounting_loop1 fuel0 fuel this (period_code per) h cur (HPtr bp 0) = Go (h', c, p) /\
    chain h' (HPtr bp 0) (bp :: w_bkeep per bs ns) (np :: w_keep per ns) /\ length h' = length h /\
    (forall b', ~ In b' (bp :: w_bkeep per bs ns) -> hblock h' b' = hblock h b').
Proof.
  induction ns as [|c ns IH]; intros fuel h bp np cur bs Hbp Hc Hd Hlt Hf.
  - apply chain_nil_inv in Hc. destruct Hc as [-> ->]. destruct fuel as [|fuel]; [cbn in Hf; lia|].
    cbn [src_list_clearAllAccounting_loop1]. rewrite w_z2b_null. cbv beta iota. exists h, HNull, (HPtr bp 0).
    split; [reflexivity|]. split; [|split].
    + cbn [chain w_bkeep w_keep]. split; [reflexivity|]. exists HNull. split; [exact Hbp | reflexivity].
    + reflexivity.
    + intros; reflexivity.
  - apply chain_cons_inv in Hc. destruct Hc as [bc [bs' [nxt [-> [-> [Hbc Hc]]]]]].
    destruct fuel as [|fuel]; [cbn in Hf; lia|]. cbn [length] in Hf.
    inversion Hd as [|? ? Hn1 Hd1]; subst. inversion Hd1 as [|? ? Hn2 Hd2]; subst.
    inversion Hlt as [|? ? Hl1 Hlt1]; subst. inversion Hlt1 as [|? ? Hl2 Hlt2]; subst.
    cbn [src_list_clearAllAccounting_loop1]. rewrite w_z2b_ptr. cbv beta iota.
    rewrite (w_isInPeriod fuel0 h this bc c nxt per Hbc). cbv beta iota. rewrite b2z_z2b.
    cbn [w_bkeep w_keep]. destruct (is_in_period c per).
    + rewrite w_z2b_ptr. cbv beta iota. rewrite (w_padd8 _ _ _ _ Hbc). cbv beta iota. rewrite (w_load_next _ _ _ _ Hbc).
      cbv beta iota. rewrite (w_padd8 _ _ _ _ Hbp). cbv beta iota.
      destruct (w_store_next h bp np (HPtr bc 0) Hbp nxt Hl1) as [h1 [Hs [Hb1 [Hlen1 Hfr1]]]]. rewrite Hs. cbv beta iota zeta.
      rewrite (w_padd8 _ _ _ _ Hb1). cbv beta iota. rewrite (w_load_next _ _ _ _ Hb1). cbv beta iota.
      assert (Hc1 : chain h1 nxt bs' ns).
      { apply chain_frame with (h := h); [|exact Hc]. intros x Hx. apply Hfr1. intro E. subst. apply Hn1. right. exact Hx. }
      assert (Hd' : NoDup (bp :: bs')).
      { constructor; [|exact Hd2]. intro Hin. apply Hn1. right. exact Hin. }
      assert (Hlt' : Forall (fun b => (b < length h1)%nat) (bp :: bs')).
      { rewrite Hlen1. constructor; assumption. }
      destruct (IH fuel h1 bp np nxt bs' Hb1 Hc1 Hd' Hlt' ltac:(lia)) as [h' [c0 [p0 [Hr [Hch [Hlen Hfr]]]]]].
      exists h', c0, p0. split; [exact Hr|]. split; [exact Hch|]. split; [rewrite Hlen; exact Hlen1|].
      intros b' Hb'. rewrite (Hfr b' Hb'). apply Hfr1. intro E. apply Hb'. left. symmetry. exact E.
    + cbv beta iota zeta. rewrite (w_padd8 _ _ _ _ Hbc). cbv beta iota. rewrite (w_load_next _ _ _ _ Hbc). cbv beta iota.
      destruct (IH fuel h bc c nxt bs' Hbc Hc Hd1 Hlt1 ltac:(lia)) as [h' [c0 [p0 [Hr [Hch [Hlen Hfr]]]]]].
      assert (Hnp : ~ In bp (bc :: w_bkeep per bs' ns)).
      { intros [E|Hin]; [apply Hn1; left; exact E | apply Hn1; right; exact (w_bkeep_incl _ _ _ _ Hin)]. }
      exists h', c0, p0. split; [exact Hr|]. split; [|split].
      * cbn [chain]. split; [reflexivity|]. exists (HPtr bc 0). split; [rewrite (Hfr bp Hnp); exact Hbp | exact Hch].
      * exact Hlen.
      * intros b' Hb'n. apply Hfr. intro Hin. apply Hb'n. right. exact Hin.
Qed.

(* the walk with prev = NULL: cur is what head_ holds *)
Lemma w_clear_loop_head fuel0 per bt i : forall ns fuel h hd bs,
  hload_ptr h (HPtr bt i) = Some hd -> chain h hd bs ns -> NoDup bs -> ~ In bt bs -> (bt < length h)%nat ->
  Forall (fun b => (b < length h)%nat) bs -> (length ns < fuel)%nat ->
  exists h' c p hd',
    src_list_clearAllAccounting_loop1 fuel0 fuel (HPtr bt i) (period_code per) h hd HNull = Go (h', c, p) /\
    hload_ptr h' (HPtr bt i) = Some hd' /\ chain h' hd' (w_bkeep per bs ns) (w_keep per ns) /\ length h' = length h /\
    (forall b', b' <> bt -> ~ In b' (w_bkeep per bs ns) -> hblock h' b' = hblock h b') /\
    (forall k, (k <> Z.to_nat i)%nat -> nth_error (hblock h' bt) k = nth_error (hblock h bt) k).
Proof.
  induction ns as [|c ns IH]; intros fuel h hd bs Hl Hc Hd Htn Htl Hlt Hf.
  - apply chain_nil_inv in Hc. destruct Hc as [-> ->]. destruct fuel as [|fuel]; [cbn in Hf; lia|].
    cbn [src_list_clearAllAccounting_loop1]. rewrite w_z2b_null. cbv beta iota. exists h, HNull, HNull, HNull.
    split; [reflexivity|]. split; [exact Hl|]. split; [reflexivity|]. split; [reflexivity|]. split; intros; reflexivity.
  - apply chain_cons_inv in Hc. destruct Hc as [bc [bs' [nxt [-> [-> [Hbc Hc]]]]]].
    destruct fuel as [|fuel]; [cbn in Hf; lia|]. cbn [length] in Hf.
    inversion Hd as [|? ? Hn1 Hd1]; subst. inversion Hlt as [|? ? Hl1 Hlt1]; subst.
    cbn [src_list_clearAllAccounting_loop1]. rewrite w_z2b_ptr. cbv beta iota.
    rewrite (w_isInPeriod fuel0 h (HPtr bt i) bc c nxt per Hbc). cbv beta iota. rewrite b2z_z2b.
    cbn [w_bkeep w_keep]. destruct (is_in_period c per).
    + rewrite w_z2b_null. cbv beta iota. rewrite (w_padd8 _ _ _ _ Hbc). cbv beta iota. rewrite (w_load_next _ _ _ _ Hbc).
      cbv beta iota. destruct (w_this_store h bt i (HPtr bc 0) nxt Hl Htl) as [h1 [Hs [Hl1' [Hlen1 [Hfr1 Hcell1]]]]].
      rewrite Hs. cbv beta iota. rewrite Hl1'. cbv beta iota zeta.
      assert (Hc1 : chain h1 nxt bs' ns).
      { apply chain_frame with (h := h); [|exact Hc]. intros x Hx. apply Hfr1. intro E. subst. apply Htn. right. exact Hx. }
      assert (Htn' : ~ In bt bs') by (intro Hin; apply Htn; right; exact Hin).
      assert (Hlt' : Forall (fun b => (b < length h1)%nat) bs') by (rewrite Hlen1; exact Hlt1).
      assert (Htl' : (bt < length h1)%nat) by (rewrite Hlen1; exact Htl).
      destruct (IH fuel h1 nxt bs' Hl1' Hc1 Hd1 Htn' Htl' Hlt' ltac:(lia))
        as [h' [c0 [p0 [hd' [Hr [Hl' [Hch [Hlen [Hfr Hcell]]]]]]]]].
      exists h', c0, p0, hd'. split; [exact Hr|]. split; [exact Hl'|]. split; [exact Hch|].
      split; [rewrite Hlen; exact Hlen1|]. split.
      * intros b' H1 H2. rewrite (Hfr b' H1 H2). apply Hfr1. exact H1.
      * intros k Hk. rewrite (Hcell k Hk). exact (Hcell1 k Hk).
    + cbv beta iota zeta. rewrite (w_padd8 _ _ _ _ Hbc). cbv beta iota. rewrite (w_load_next _ _ _ _ Hbc). cbv beta iota.
      destruct (w_clear_loop_prev fuel0 (HPtr bt i) per ns fuel h bc c nxt bs' Hbc Hc Hd Hlt ltac:(lia))
        as [h' [c0 [p0 [Hr [Hch [Hlen Hfr]]]]]].
      assert (Hnt : ~ In bt (bc :: w_bkeep per bs' ns)).
      { intros [E|Hin]; [apply Htn; left; exact E | apply Htn; right; exact (w_bkeep_incl _ _ _ _ Hin)]. }
      exists h', c0, p0, (HPtr bc 0). split; [exact Hr|].
      split; [rewrite (w_load_same_block h h' bt i (Hfr bt Hnt)); exact Hl|]. split; [exact Hch|]. split; [exact Hlen|]. split.
      * intros b' _ Hb'. apply Hfr. exact Hb'.
      * intros k _. rewrite (Hfr bt Hnt). reflexivity.
Qed.

Theorem src_list_clearAllAccounting_full : forall fuel h this bs ns per,
  list_at h this bs ns -> (length ns < fuel)%nat ->
  exists h', src_list_clearAllAccounting fuel h this (period_code per) = FOk (tt, h') /\
    list_at h' this (w_bkeep per bs ns) (w_keep per ns) /\ length h' = length h /\
    (forall b', (match this with HPtr bt _ => b' <> bt | HNull => True end) -> ~ In b' (w_bkeep per bs ns) ->
                hblock h' b' = hblock h b') /\
    match this with
    | HPtr bt i => forall k, (k <> Z.to_nat i)%nat -> nth_error (hblock h' bt) k = nth_error (hblock h bt) k
    | HNull => True
    end.
Proof.
  intros fuel h this bs ns per [hd [Hl [Hc [Hd [Hok [Hlt Ht]]]]]] Hf.
  destruct this as [|bt i]; [destruct Ht|]. destruct Ht as [Htn Htl].
  destruct (w_clear_loop_head fuel per bt i ns fuel h hd bs Hl Hc Hd Htn Htl Hlt Hf)
    as [h' [c0 [p0 [hd' [Hr [Hl' [Hch [Hlen [Hfr Hcell]]]]]]]]].
  exists h'. split; [|split; [|split; [|split]]].
  - unfold src_list_clearAllAccounting. rewrite Hl. cbv beta iota zeta. rewrite Hr. reflexivity.
  - exists hd'. split; [exact Hl'|]. split; [exact Hch|]. split; [exact (w_bkeep_NoDup per ns bs Hd)|]. split.
    { apply Forall_forall. intros x Hx. apply (proj1 (Forall_forall _ _) Hok). exact (w_keep_incl per x ns Hx). }
    split; [|split; [|rewrite Hlen; exact Htl]].
    + apply Forall_forall. intros x Hx. rewrite Hlen. apply (proj1 (Forall_forall _ _) Hlt). exact (w_bkeep_incl per x ns bs Hx).
    + intro Hin. apply Htn. exact (w_bkeep_incl _ _ _ _ Hin).
  - exact Hlen.
  - exact Hfr.
  - exact Hcell.
Qed.

(* with the model's own function; the blocks of the unlinked nodes are not written at all (they are outside bs'), the blocks
   that stay change at most in their next_ cell (they hold the same node in h': list_at h' ... (l_clear per ns)) *)
Theorem src_list_clearAllAccounting_spec : forall fuel h this bs ns per,
  list_at h this bs ns -> (length ns < fuel)%nat ->
  exists h' bs', src_list_clearAllAccounting fuel h this (period_code per) = FOk (tt, h') /\
    list_at h' this bs' (l_clear per ns) /\ length h' = length h /\
    (forall b', (match this with HPtr bt _ => b' <> bt | HNull => True end) -> ~ In b' bs -> hblock h' b' = hblock h b') /\
    (forall x, In x bs' -> In x bs).
Proof.
  intros fuel h this bs ns per H Hf.
  destruct (src_list_clearAllAccounting_full fuel h this bs ns per H Hf) as [h' [A [B [C [D _]]]]].
  exists h', (w_bkeep per bs ns). rewrite w_clear_eq. split; [exact A|]. split; [exact B|]. split; [exact C|]. split.
  - intros b' H1 H2. apply D; [exact H1|]. intro Hin. apply H2. exact (w_bkeep_incl _ _ _ _ Hin).
  - intros x Hx. exact (w_bkeep_incl _ _ _ _ Hx).
Qed.

(* ------------------------------------------------------------------ the blocks that stay hold the same node: only next_ may differ *)
Lemma w_chain_pair h b n : forall ns p bs, chain h p bs ns -> In (b, n) (combine bs ns) -> exists nxt, hblock h b = node_cells n nxt.
Proof.
  induction ns as [|c ns IH]; intros p bs H Hin.
  - apply chain_nil_inv in H. destruct H as [_ ->]. destruct Hin.
  - apply chain_cons_inv in H. destruct H as [b0 [bs' [nxt [-> [_ [Hb Hc]]]]]]. cbn [combine] in Hin. destruct Hin as [E|Hin].
    + inversion E; subst. exists nxt. exact Hb.
    + exact (IH _ _ Hc Hin).
Qed.
Lemma w_in_combine b : forall (ns : list node) (bs : list nat), length bs = length ns -> In b bs -> exists n, In (b, n) (combine bs ns).
Proof.
  induction ns as [|c ns IH]; intros [|b0 bs] Hlen Hin; cbn [length] in Hlen; try discriminate Hlen; [destruct Hin|].
  destruct Hin as [E|Hin].
  - subst. exists c. left. reflexivity.
  - destruct (IH bs ltac:(lia) Hin) as [n Hn]. exists n. right. exact Hn.
Qed.
Lemma w_bkeep_pair per b n : forall ns bs,
  In (b, n) (combine (w_bkeep per bs ns) (w_keep per ns)) -> In (b, n) (combine bs ns).
Proof.
  induction ns as [|c ns IH]; intros [|b0 bs]; cbn [w_bkeep w_keep combine]; try (intros []).
  destruct (is_in_period c per); intro H.
  - right. exact (IH _ H).
  - destruct H as [H|H]; [left; exact H | right; exact (IH _ H)].
Qed.
Lemma w_bwithout_pair a b n : forall ns bs,
  In (b, n) (combine (w_bwithout a bs ns) (w_without a ns)) -> In (b, n) (combine bs ns).
Proof.
  induction ns as [|c ns IH]; intros [|b0 bs]; cbn [w_bwithout w_without combine]; try (intros []).
  destruct (n_addr c =? a)%N; intro H.
  - right. exact H.
  - destruct H as [H|H]; [left; exact H | right; exact (IH _ H)].
Qed.
Lemma w_same_node h h' b n x y : hblock h b = node_cells n x -> hblock h' b = node_cells n y ->
  forall k, (k <> 8)%nat -> nth_error (hblock h' b) k = nth_error (hblock h b) k.
Proof.
  intros H1 H2 k Hk. rewrite H1, H2. unfold node_cells.
  do 8 (destruct k as [|k]; [reflexivity|]). destruct k as [|k]; [exfalso; apply Hk; reflexivity|]. destruct k; reflexivity.
Qed.
Lemma w_kept_cells h h' p p' bs ns bs' ns' : chain h p bs ns -> chain h' p' bs' ns' ->
  (forall b n, In (b, n) (combine bs' ns') -> In (b, n) (combine bs ns)) ->
  forall b, In b bs' -> forall k, (k <> 8)%nat -> nth_error (hblock h' b) k = nth_error (hblock h b) k.
Proof.
  intros Hc Hc' Hsub b Hin k Hk. destruct (w_in_combine b ns' bs' (chain_length _ _ _ _ Hc') Hin) as [n Hn].
  destruct (w_chain_pair h' b n _ _ _ Hc' Hn) as [y Hy]. destruct (w_chain_pair h b n _ _ _ Hc (Hsub _ _ Hn)) as [x Hx].
  exact (w_same_node h h' b n x y Hx Hy k Hk).
Qed.

(* clearAllAccounting, everything in one statement: bs' are the blocks of the nodes that stay, in order; the blocks of the
   unlinked nodes are NOT written (not even their next_, which still points into the list); a block that stays changes at most
   in its next_ cell; the list object changes at most in its head_ cell; all other blocks are unchanged *)
Theorem src_list_clearAllAccounting_complete : forall fuel h this bs ns per,
  list_at h this bs ns -> (length ns < fuel)%nat ->
  exists h', src_list_clearAllAccounting fuel h this (period_code per) = FOk (tt, h') /\
    list_at h' this (w_bkeep per bs ns) (l_clear per ns) /\ length h' = length h /\
    l_clear per ns = filter (fun c => negb (is_in_period c per)) ns /\
    (forall b', (match this with HPtr bt _ => b' <> bt | HNull => True end) -> ~ In b' (w_bkeep per bs ns) ->
                hblock h' b' = hblock h b') /\
    (forall b, In b (w_bkeep per bs ns) -> forall k, (k <> 8)%nat -> nth_error (hblock h' b) k = nth_error (hblock h b) k) /\
    match this with
    | HPtr bt i => forall k, (k <> Z.to_nat i)%nat -> nth_error (hblock h' bt) k = nth_error (hblock h bt) k
    | HNull => True
    end.
Proof.
  intros fuel h this bs ns per H Hf.
  destruct (src_list_clearAllAccounting_full fuel h this bs ns per H Hf) as [h' [A [B [C [D E]]]]].
  exists h'. rewrite w_clear_eq. split; [exact A|]. split; [exact B|]. split; [exact C|]. split; [apply w_keep_filter|].
  split; [exact D|]. split; [|exact E].
  destruct H as [hd [_ [Hc _]]]. destruct B as [hd' [_ [Hc' _]]].
  exact (w_kept_cells h h' hd hd' bs ns _ _ Hc Hc' (fun b n => w_bkeep_pair per b n ns bs)).
Qed.

(* the same for removeNode: the blocks that stay change at most in their next_ cell *)
Theorem src_list_removeNode_kept_cells : forall fuel h this bs ns a,
  list_at h this bs ns -> (length ns < fuel)%nat ->
  exists h', src_list_removeNode fuel h this (Z.of_N a) = FOk (ptr_of a bs ns, h') /\
    list_at h' this (w_bwithout a bs ns) (snd (l_remove a ns)) /\
    (forall b, In b (w_bwithout a bs ns) -> forall k, (k <> 8)%nat -> nth_error (hblock h' b) k = nth_error (hblock h b) k).
Proof.
  intros fuel h this bs ns a H Hf. destruct (src_list_removeNode_full fuel h this bs ns a H Hf) as [h' [A [B _]]].
  exists h'. rewrite w_remove_eq. cbn [snd]. split; [exact A|]. split; [exact B|].
  destruct H as [hd [_ [Hc _]]]. destruct B as [hd' [_ [Hc' _]]].
  exact (w_kept_cells h h' hd hd' bs ns _ _ Hc Hc' (fun b n => w_bwithout_pair a b n ns bs)).
Qed.

(* ------------------------------------------------------------------ segments (not used above; for walks that keep the prefix) *)
(* chain_to h p q bs ns: from p the blocks bs hold the nodes ns linked by next_, the last next_ is q *)
Fixpoint chain_to (h : heap) (p q : hptr) (bs : list nat) (ns : list node) : Prop :=
  match ns, bs with
  | [], [] => p = q
  | n :: ns', b :: bs' => p = HPtr b 0 /\ exists nxt, hblock h b = node_cells n nxt /\ chain_to h nxt q bs' ns'
  | _, _ => False
  end.
Lemma chain_to_null h : forall ns p bs, chain h p bs ns <-> chain_to h p HNull bs ns.
Proof.
  induction ns as [|n ns IH]; intros p [|b bs]; cbn [chain chain_to]; try tauto.
  split; intros [Hp [nxt [Hb Hc]]]; (split; [exact Hp|]); exists nxt; (split; [exact Hb|]); apply IH; exact Hc.
Qed.
Lemma chain_to_app h r : forall ns1 p q bs1 bs2 ns2,
  chain_to h p q bs1 ns1 -> chain_to h q r bs2 ns2 -> chain_to h p r (bs1 ++ bs2) (ns1 ++ ns2).
Proof.
  induction ns1 as [|n ns1 IH]; intros p q [|b bs1] bs2 ns2 H1 H2; cbn [chain_to] in H1; try (exfalso; exact H1).
  - subst. exact H2.
  - destruct H1 as [Hp [nxt [Hb Hc]]]. cbn [app chain_to]. split; [exact Hp|]. exists nxt. split; [exact Hb|].
    exact (IH _ _ _ _ _ Hc H2).
Qed.
Lemma chain_to_split h r : forall ns1 p bs1 bs2 ns2, length bs1 = length ns1 ->
  chain_to h p r (bs1 ++ bs2) (ns1 ++ ns2) -> exists q, chain_to h p q bs1 ns1 /\ chain_to h q r bs2 ns2.
Proof.
  induction ns1 as [|n ns1 IH]; intros p [|b bs1] bs2 ns2 Hlen H; cbn [length] in Hlen; try discriminate Hlen.
  - exists p. split; [reflexivity | exact H].
  - cbn [app chain_to] in H. destruct H as [Hp [nxt [Hb Hc]]]. destruct (IH nxt bs1 bs2 ns2 ltac:(lia) Hc) as [q [H1 H2]].
    exists q. split; [|exact H2]. cbn [chain_to]. split; [exact Hp|]. exists nxt. split; [exact Hb | exact H1].
Qed.
(* a chain splits / joins at a block *)
Lemma chain_app h p bs1 bs2 ns1 ns2 : length bs1 = length ns1 ->
  (chain h p (bs1 ++ bs2) (ns1 ++ ns2) <-> exists q, chain_to h p q bs1 ns1 /\ chain h q bs2 ns2).
Proof.
  intro Hlen. split.
  - intro H. apply chain_to_null in H. destruct (chain_to_split h HNull ns1 p bs1 bs2 ns2 Hlen H) as [q [H1 H2]].
    exists q. split; [exact H1 | apply chain_to_null; exact H2].
  - intros [q [H1 H2]]. apply chain_to_null. apply chain_to_app with (q := q); [exact H1 | apply chain_to_null; exact H2].
Qed.
Lemma chain_to_frame h h' q : forall ns p bs, (forall b, In b bs -> hblock h' b = hblock h b) -> chain_to h p q bs ns -> chain_to h' p q bs ns.
Proof.
  induction ns as [|n ns IH]; intros p [|b bs] Hf H; cbn [chain_to] in *; try exact H.
  destruct H as [Hp [nxt [Hb Hc]]]. split; [exact Hp|]. exists nxt. split.
  - rewrite Hf by (left; reflexivity). exact Hb.
  - apply IH; [|exact Hc]. intros b' Hin. apply Hf. right. exact Hin.
Qed.

(* ------------------------------------------------------------------ non-vacuity: the translated functions on a concrete heap *)
Module WExamples.
  Definition n1 := mkNode 100 8 1 7 10 0 SEnabled 0.
  Definition n2 := mkNode 200 16 2 7 20 1 SChecking 0.
  Definition n3 := mkNode 300 24 3 7 30 2 SDisabled 1.
  Definition n4 := mkNode 400 32 4 7 40 0 SEnabled 1.
  (* block 0: a table of two list objects (cell 1 is the list used); blocks 1..3: the bucket [n1; n2; n3]; block 4: a loose record *)
  Definition h0 : heap :=
    [[VPtr HNull; VPtr (HPtr 1 0)]; node_cells n1 (HPtr 2 0); node_cells n2 (HPtr 3 0); node_cells n3 HNull; node_cells n4 HNull].
  Definition this0 := HPtr 0 1.

  Example h0_represents : list_at h0 this0 [1; 2; 3]%nat [n1; n2; n3].
  Proof.
    exists (HPtr 1 0). split; [reflexivity|]. split.
    { cbn [chain]. split; [reflexivity|]. exists (HPtr 2 0). split; [reflexivity|]. split; [reflexivity|]. exists (HPtr 3 0).
      split; [reflexivity|]. split; [reflexivity|]. exists HNull. split; reflexivity. }
    split. { repeat constructor; cbn; intuition lia. }
    split. { repeat constructor; cbn; lia. }
    split. { repeat constructor; cbn; lia. }
    split; [cbn; intuition lia | cbn; lia].
  Qed.

  Example ex_add : src_list_addNewNode 0 h0 this0 (HPtr 4 0) =
    FOk (tt, [[VPtr HNull; VPtr (HPtr 4 0)]; node_cells n1 (HPtr 2 0); node_cells n2 (HPtr 3 0); node_cells n3 HNull;
              node_cells n4 (HPtr 1 0)]).
  Proof. vm_compute. reflexivity. Qed.

  (* behind prev / the head / absent *)
  Example ex_remove_mid : src_list_removeNode 4 h0 this0 200 =
    FOk (HPtr 2 0, [[VPtr HNull; VPtr (HPtr 1 0)]; node_cells n1 (HPtr 3 0); node_cells n2 (HPtr 3 0); node_cells n3 HNull;
                    node_cells n4 HNull]).
  Proof. vm_compute. reflexivity. Qed.
  Example ex_remove_head : src_list_removeNode 4 h0 this0 100 =
    FOk (HPtr 1 0, [[VPtr HNull; VPtr (HPtr 2 0)]; node_cells n1 (HPtr 2 0); node_cells n2 (HPtr 3 0); node_cells n3 HNull;
                    node_cells n4 HNull]).
  Proof. vm_compute. reflexivity. Qed.
  Example ex_remove_absent : src_list_removeNode 4 h0 this0 999 = FOk (HNull, h0).
  Proof. vm_compute. reflexivity. Qed.
  Example ex_remove_model : l_remove 200 [n1; n2; n3] = (Some n2, [n1; n3]). Proof. reflexivity. Qed.
  (* the fuel bound is the least one: a walk to the end of a bucket of 3 takes 4 iterations *)
  Example ex_remove_fuel : src_list_removeNode 3 h0 this0 999 = FNoFuel. Proof. vm_compute. reflexivity. Qed.

  (* mem_leak_period_enabled (2): n1 and n2 go through the head branch, n3 stays *)
  Example ex_clear_enabled : src_list_clearAllAccounting 4 h0 this0 2 =
    FOk (tt, [[VPtr HNull; VPtr (HPtr 3 0)]; node_cells n1 (HPtr 2 0); node_cells n2 (HPtr 3 0); node_cells n3 HNull;
              node_cells n4 HNull]).
  Proof. vm_compute. reflexivity. Qed.
  (* mem_leak_period_checking (3): n2 is unlinked behind n1 *)
  Example ex_clear_checking : src_list_clearAllAccounting 4 h0 this0 3 =
    FOk (tt, [[VPtr HNull; VPtr (HPtr 1 0)]; node_cells n1 (HPtr 3 0); node_cells n2 (HPtr 3 0); node_cells n3 HNull;
              node_cells n4 HNull]).
  Proof. vm_compute. reflexivity. Qed.
  (* mem_leak_period_all (0): everything goes, no node block is written *)
  Example ex_clear_all : src_list_clearAllAccounting 4 h0 this0 0 =
    FOk (tt, [[VPtr HNull; VPtr HNull]; node_cells n1 (HPtr 2 0); node_cells n2 (HPtr 3 0); node_cells n3 HNull;
              node_cells n4 HNull]).
  Proof. vm_compute. reflexivity. Qed.
  Example ex_clear_model : l_clear PChecking [n1; n2; n3] = [n1; n3] /\ l_clear PEnabled [n1; n2; n3] = [n3] /\
                           l_clear PAll [n1; n2; n3] = [].
  Proof. repeat split; reflexivity. Qed.
  (* one iteration per node, whichever branch it takes, and one for the NULL at the end: 3 is not enough in any of the cases *)
  Example ex_clear_fuel : src_list_clearAllAccounting 3 h0 this0 0 = FNoFuel /\ src_list_clearAllAccounting 3 h0 this0 3 = FNoFuel /\
                          src_list_clearAllAccounting 3 h0 this0 1 = FNoFuel.
  Proof. repeat split; vm_compute; reflexivity. Qed.
End WExamples.
