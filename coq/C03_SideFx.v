(* C03 -- operand EXPRESSIONS WITH SIDE EFFECTS in the macros of UtestMacros.h that evaluate an operand more than once:
     CHECK_EQUAL_LOCATION (CHECK_EQUAL, CHECK_EQUAL_TEXT, CHECK_EQUAL_ZERO, CHECK_EQUAL_ZERO_TEXT):
        if ((expected) != (actual)) {                    1st read of each operand: THE comparison of the check
           if ((actual) != (actual)) print(WARNING)       2nd, 3rd read of actual
           if ((expected) != (expected)) print(WARNING)   2nd, 3rd read of expected
           assertEquals(true, StringFrom(expected), StringFrom(actual), ...)      4th read of each, for the message
        } else assertLongsEqual(0, 0)
     CHECK_COMPARE_LOCATION (CHECK_COMPARE, CHECK_COMPARE_TEXT):
        bool success = (first) relop (second);           1st read of each operand
        if (!success) { ... StringFrom(first) ... StringFrom(second) ... assertCompare(false, ...) }     2nd read of each
   Every other macro of the header hands each operand once to a function (BITS_LOCATION names actual a second time inside
   sizeof only: unevaluated).
   An operand expression is a SCRIPT: the values its successive evaluations yield (1st, 2nd, 3rd ... read; after the script
   the last value repeats).  Each operand has its own evaluation counter, so the unspecified order in which the language
   evaluates the two operands of one != / relop / argument list does not matter.
   No proofs in this file. *)
From Coq Require Import ZArith NArith Bool List.
From CppUVerif Require Import lib.CInt C03_Model.
Import ListNotations.
Local Open Scope Z_scope.

Record script := { s_first : Z; s_later : list Z }.
Definition s_values (s : script) : list Z := s_first s :: s_later s.
Definition s_read (s : script) (k : nat) : Z := nth k (s_values s) (last (s_later s) (s_first s)).
Definition s_const (z : Z) : script := {| s_first := z; s_later := [] |}.

(* how often each of the two operand expressions has been evaluated so far *)
Record evals := { n_e : nat; n_a : nat }.
Definition ev0 : evals := {| n_e := 0; n_a := 0 |}.
Definition ev_e (se : script) (s : evals) : Z * evals := (s_read se (n_e s), {| n_e := S (n_e s); n_a := n_a s |}).
Definition ev_a (sa : script) (s : evals) : Z * evals := (s_read sa (n_a s), {| n_e := n_e s; n_a := S (n_a s) |}).

(* CHECK_EQUAL_LOCATION(expected, actual, ...) *)
Definition se_check_equal (te ta : oty) (se sa : script) : res * evals :=
  let '(e, s) := ev_e se ev0 in
  let '(a, s) := ev_a sa s in
  if negb (c_eq (promote te) e (promote ta) a) then
    let '(a1, s) := ev_a sa s in let '(a2, s) := ev_a sa s in      (* if ((actual) != (actual)) print(WARNING) *)
    let '(e1, s) := ev_e se s in let '(e2, s) := ev_e se s in      (* if ((expected) != (expected)) print(WARNING) *)
    let '(e3, s) := ev_e se s in let '(a3, s) := ev_a sa s in      (* StringFrom(expected), StringFrom(actual) *)
    (assertEquals true, s)
  else (assertLongsEqual (cast TLong 0) (cast TLong 0), s).

(* the shape a red team gave the macro (seeded C03-18): the verdict handed to assertEquals is a LATER evaluation of
   (expected) != (actual); kept to refute it *)
Definition se_check_equal_reread (te ta : oty) (se sa : script) : res * evals :=
  let '(e, s) := ev_e se ev0 in
  let '(a, s) := ev_a sa s in
  if negb (c_eq (promote te) e (promote ta) a) then
    let '(a1, s) := ev_a sa s in let '(a2, s) := ev_a sa s in
    let '(e1, s) := ev_e se s in let '(e2, s) := ev_e se s in
    let '(e4, s) := ev_e se s in let '(a4, s) := ev_a sa s in
    let '(e3, s) := ev_e se s in let '(a3, s) := ev_a sa s in
    (assertEquals (negb (c_eq (promote te) e4 (promote ta) a4)), s)
  else (assertLongsEqual (cast TLong 0) (cast TLong 0), s).

(* CHECK_COMPARE_LOCATION(first, relop, second, ...) *)
Definition se_check_compare (op : relop) (tf ts : oty) (sf ss : script) : res * evals :=
  let '(f, s) := ev_e sf ev0 in
  let '(x, s) := ev_a ss s in
  let success := c_rel op (promote tf) f (promote ts) x in
  if negb success then
    let '(f1, s) := ev_e sf s in let '(x1, s) := ev_a ss s in      (* StringFrom(first), StringFrom(second) *)
    (assertCompare false, s)
  else ((false, 0%N), s).

(* scenarios: both operands of type t *)
Inductive se_check :=
| SeEqual (t : oty) (se sa : script)                  (* CHECK_EQUAL / CHECK_EQUAL_TEXT (expected, actual) *)
| SeZero (t : oty) (sa : script)                      (* CHECK_EQUAL_ZERO / _TEXT (actual) = CHECK_EQUAL(0, (actual)) *)
| SeCompare (op : relop) (t : oty) (sf ss : script).  (* CHECK_COMPARE / _TEXT (first, relop, second) *)

Definition se_run_check (c : se_check) : res * evals :=
  match c with
  | SeEqual t se sa => se_check_equal t t se sa
  | SeZero t sa => se_check_equal (OI TInt) t (s_const 0) sa
  | SeCompare op t sf ss => se_check_compare op t t sf ss
  end.

(* the extended scenario language and observation *)
Inductive xcheck := XOld (c : check) | XSe (c : se_check).
(* xo: what the fixture shows (as before); xo_ne / xo_na: how often the first / second operand expression was evaluated
   (modelled and compared with the implementation; NOT read by the oracle: the property does not fix them).
   The literal 0 of CHECK_EQUAL_ZERO has no observable evaluations: reported as 0 *)
Record xobs := { xo : obs; xo_ne : N; xo_na : N }.
Definition obs_of (r : res) : obs :=
  let '(f, n) := r in {| o_failures := if f then 1%N else 0%N; o_checks := n; o_after := negb f |}.
Definition se_run (c : se_check) : xobs :=
  let '(r, s) := se_run_check c in
  {| xo := obs_of r;
     xo_ne := match c with SeZero _ _ => 0%N | _ => N.of_nat (n_e s) end;
     xo_na := N.of_nat (n_a s) |}.
Definition x_run (x : xcheck) : xobs :=
  match x with
  | XOld c => {| xo := run c; xo_ne := 0%N; xo_na := 0%N |}
  | XSe c => se_run c
  end.

Definition script_ok (t : oty) (s : script) : bool := forallb (o_in_range t) (s_values s).
Definition se_valid (c : se_check) : bool :=
  match c with
  | SeEqual t se sa | SeCompare _ t se sa => script_ok t se && script_ok t sa
  | SeZero t sa => script_ok t sa
  end.
Definition x_valid (x : xcheck) : bool := match x with XOld c => valid c | XSe c => se_valid c end.

(* ------------------------------------------------------------------ spec *)
(* "the operands" of a check whose operand expressions have side effects: the values of the comparison the check makes,
   i.e. the first value of each script.  The oracle is the property's oracle (C03_Model.spec) on the check with these
   values; it reads neither later values nor the evaluation counts. *)
Definition first_check (c : se_check) : check :=
  match c with
  | SeEqual t se sa => Int2 CHECK_EQUAL t (s_first se) t (s_first sa)
  | SeZero t sa => EqualZero t (s_first sa)
  | SeCompare op t sf ss => Compare op t (s_first sf) t (s_first ss)
  end.
Definition x_spec (x : xcheck) (o : xobs) : bool :=
  match x with
  | XOld c => spec c (xo o)
  | XSe c => spec (first_check c) (xo o)
  end.
