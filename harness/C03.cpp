// C03 harness: one check macro per scenario line, executed inside a TestTestingFixture test.
// Observation: <failure count> <check count> <1 if the statement after the check executed>
//   (+ <evaluations of the 1st operand expression> <of the 2nd> for the SE_ kinds: operands with side effects).
// Scenario grammar: see checks/C03.py.  The C-language macros are expanded in harness/C03_c.c (compiled as C).
#include "CppUTest/TestHarness.h"
#include "CppUTest/TestTestingFixture.h"
#include "hlib.h"
#include <type_traits>
#include "C03_shared.h"
using namespace hl;

struct c03_scn c03;
static std::string K;          // macro name
static volatile int after_;

struct ExpectedEx { int x; };
struct OtherEx { int y; };
static void thrower(int what)
{
    if (what == 1) throw ExpectedEx{1};
    if (what == 2) throw OtherEx{2};
}

template <class F> static void withInt(int ty, unsigned long long b, F f)
{
    switch (ty) {
    case 0: f((signed char)b); break;
    case 1: f((unsigned char)b); break;
    case 2: f((short)b); break;
    case 3: f((unsigned short)b); break;
    case 4: f((int)b); break;
    case 5: f((unsigned int)b); break;
    case 6: f((long)b); break;
    case 7: f((unsigned long)b); break;
    case 8: f((long long)b); break;
    default: f((unsigned long long)b); break;
    }
}

#define DONE after_ = 1

// operand expressions with side effects: the k-th evaluation yields the k-th value of the script (the last one repeats)
#include <vector>
struct SeSrc {
    std::vector<long long> v; unsigned reads;
    long long next() { long long x = reads < v.size() ? v[reads] : v.back(); reads++; return x; }
};
static SeSrc seE, seA;
template <class T> static T rdE() { return (T)seE.next(); }
template <class T> static T rdA() { return (T)seA.next(); }
#define SE_TYPED(STMT_TEXT, STMT) withInt(c03.ta, 0, [](auto w_) { typedef decltype(w_) T; if (c03.text) { STMT_TEXT; } else { STMT; } DONE; })
#define SE_CMP(OP) SE_TYPED(CHECK_COMPARE_TEXT(rdE<T>(), OP, rdA<T>(), "txt"), CHECK_COMPARE(rdE<T>(), OP, rdA<T>()))
static void unsupported() { fprintf(stderr, "C03 harness: operand type combination not instantiated\n"); exit(3); }
// the _TEXT variants are instantiated for same-type operand pairs only, CHECK_COMPARE for the six int..unsigned long long
// types plus same-type pairs (compile time); the generator respects this (checks/C03.py)
#define SAME(a, b) (std::is_same<typename std::decay<decltype(a)>::type, typename std::decay<decltype(b)>::type>::value)
#define WIDE(a, b) (SAME(a, b) || (sizeof(a) >= 4 && sizeof(b) >= 4))
#define K2(M) withInt(c03.ta, c03.za, [](auto a) { withInt(c03.tb, c03.zb, [a](auto b) { \
    if (c03.text) { if constexpr (SAME(a, b)) { M##_TEXT(a, b, "txt"); DONE; } else unsupported(); } else { M(a, b); DONE; } }); })
#define K1(M) withInt(c03.ta, c03.za, [](auto a) { if (c03.text) { M##_TEXT(a, "txt"); } else { M(a); } DONE; })
#define CMP(OP) withInt(c03.ta, c03.za, [](auto a) { withInt(c03.tb, c03.zb, [a](auto b) { \
    if (c03.text) { if constexpr (SAME(a, b)) { CHECK_COMPARE_TEXT(a, OP, b, "txt"); DONE; } else unsupported(); } \
    else { if constexpr (WIDE(a, b)) { CHECK_COMPARE(a, OP, b); DONE; } else unsupported(); } }); })
#define ENUMT(T) withInt(c03.ta, c03.za, [](auto a) { decltype(a) b = (decltype(a))c03.zb; if (c03.text) { ENUMS_EQUAL_TYPE_TEXT(T, a, b, "txt"); } else { ENUMS_EQUAL_TYPE(T, a, b); } DONE; })

static void body()
{
    const char* e = c03.e; const char* a = c03.a;
    if (K == "SE_CHECK_EQUAL") SE_TYPED(CHECK_EQUAL_TEXT(rdE<T>(), rdA<T>(), "txt"), CHECK_EQUAL(rdE<T>(), rdA<T>()));
    else if (K == "SE_CHECK_EQUAL_ZERO") SE_TYPED(CHECK_EQUAL_ZERO_TEXT(rdA<T>(), "txt"), CHECK_EQUAL_ZERO(rdA<T>()));
    else if (K == "SE_CHECK_COMPARE") {
        switch (c03.op) {
        case 0: SE_CMP(<); break;
        case 1: SE_CMP(<=); break;
        case 2: SE_CMP(>); break;
        case 3: SE_CMP(>=); break;
        case 4: SE_CMP(==); break;
        default: SE_CMP(!=); break;
        }
    }
    else if (K == "CHECK_EQUAL") K2(CHECK_EQUAL);
    else if (K == "LONGS_EQUAL") K2(LONGS_EQUAL);
    else if (K == "UNSIGNED_LONGS_EQUAL") K2(UNSIGNED_LONGS_EQUAL);
    else if (K == "LONGLONGS_EQUAL") K2(LONGLONGS_EQUAL);
    else if (K == "UNSIGNED_LONGLONGS_EQUAL") K2(UNSIGNED_LONGLONGS_EQUAL);
    else if (K == "BYTES_EQUAL") K2(BYTES_EQUAL);
    else if (K == "SIGNED_BYTES_EQUAL") K2(SIGNED_BYTES_EQUAL);
    else if (K == "CHECK") K1(CHECK);
    else if (K == "CHECK_TRUE") K1(CHECK_TRUE);
    else if (K == "CHECK_FALSE") K1(CHECK_FALSE);
    else if (K == "CHECK_EQUAL_ZERO") K1(CHECK_EQUAL_ZERO);
    else if (K == "CHECK_COMPARE") {
        switch (c03.op) {
        case 0: CMP(<); break;
        case 1: CMP(<=); break;
        case 2: CMP(>); break;
        case 3: CMP(>=); break;
        case 4: CMP(==); break;
        default: CMP(!=); break;
        }
    }
    else if (K == "ENUMS_EQUAL_INT") {
        withInt(c03.ta, c03.za, [](auto x) { decltype(x) y = (decltype(x))c03.zb; if (c03.text) { ENUMS_EQUAL_INT_TEXT(x, y, "txt"); } else { ENUMS_EQUAL_INT(x, y); } DONE; });
    }
    else if (K == "ENUMS_EQUAL_TYPE") {
        switch (c03.tc) {
        case 0: ENUMT(signed char); break;
        case 1: ENUMT(unsigned char); break;
        case 2: ENUMT(short); break;
        case 3: ENUMT(unsigned short); break;
        case 4: ENUMT(int); break;
        case 5: ENUMT(unsigned int); break;
        case 6: ENUMT(long); break;
        case 7: ENUMT(unsigned long); break;
        case 8: ENUMT(long long); break;
        default: ENUMT(unsigned long long); break;
        }
    }
    else if (K == "POINTERS_EQUAL") {
        const void* p = (const void*)(uintptr_t)c03.za; const void* q = (const void*)(uintptr_t)c03.zb;
        if (c03.text) { POINTERS_EQUAL_TEXT(p, q, "txt"); } else { POINTERS_EQUAL(p, q); } DONE;
    }
    else if (K == "FUNCTIONPOINTERS_EQUAL") {
        void (*p)() = (void (*)())(uintptr_t)c03.za; void (*q)() = (void (*)())(uintptr_t)c03.zb;
        if (c03.text) { FUNCTIONPOINTERS_EQUAL_TEXT(p, q, "txt"); } else { FUNCTIONPOINTERS_EQUAL(p, q); } DONE;
    }
    else if (K == "DOUBLES_EQUAL") {
        if (c03.text) { DOUBLES_EQUAL_TEXT(c03.d1, c03.d2, c03.d3, "txt"); } else { DOUBLES_EQUAL(c03.d1, c03.d2, c03.d3); } DONE;
    }
    else if (K == "STRCMP_EQUAL") { if (c03.text) { STRCMP_EQUAL_TEXT(e, a, "txt"); } else { STRCMP_EQUAL(e, a); } DONE; }
    else if (K == "STRNCMP_EQUAL") { if (c03.text) { STRNCMP_EQUAL_TEXT(e, a, c03.n, "txt"); } else { STRNCMP_EQUAL(e, a, c03.n); } DONE; }
    else if (K == "STRCMP_NOCASE_EQUAL") { if (c03.text) { STRCMP_NOCASE_EQUAL_TEXT(e, a, "txt"); } else { STRCMP_NOCASE_EQUAL(e, a); } DONE; }
    else if (K == "STRCMP_CONTAINS") { if (c03.text) { STRCMP_CONTAINS_TEXT(e, a, "txt"); } else { STRCMP_CONTAINS(e, a); } DONE; }
    else if (K == "STRCMP_NOCASE_CONTAINS") { if (c03.text) { STRCMP_NOCASE_CONTAINS_TEXT(e, a, "txt"); } else { STRCMP_NOCASE_CONTAINS(e, a); } DONE; }
    else if (K == "MEMCMP_EQUAL") { if (c03.text) { MEMCMP_EQUAL_TEXT(e, a, c03.n, "txt"); } else { MEMCMP_EQUAL(e, a, c03.n); } DONE; }
    else if (K == "BITS_EQUAL") {
        // byte count = sizeof(actual): the type of the second operand
        withInt(c03.tb, c03.zb, [](auto act) {
            withInt(c03.ta, c03.za, [act](auto ex) {
                unsigned long long m = c03.zc;
                if (c03.text) { BITS_EQUAL_TEXT(ex, act, m, "txt"); } else { BITS_EQUAL(ex, act, m); } DONE; }); });
    }
    else if (K == "CHECK_THROWS") { CHECK_THROWS(ExpectedEx, thrower(c03.op)); DONE; }
    else if (K == "FAIL") { FAIL("txt"); DONE; }
    else if (K == "FAIL_TEST") { FAIL_TEST("txt"); DONE; }
    else { c03.after = 0; c03_c_body(K.c_str()); if (c03.after) DONE; }
}

static char* exact(const std::string& s, bool cstr)
{
    size_t n = s.size() + (cstr ? 1 : 0);
    char* p = (char*)malloc(n ? n : 1);   // exact size so that ASan sees any over-read
    if (n) memcpy(p, s.data(), s.size());
    if (cstr) p[s.size()] = 0;
    if (!n) { free(p); p = (char*)malloc(0); }
    return p;
}

static bool isK2(const std::string& k)
{
    return k == "CHECK_EQUAL" || k == "LONGS_EQUAL" || k == "UNSIGNED_LONGS_EQUAL" || k == "LONGLONGS_EQUAL" || k == "UNSIGNED_LONGLONGS_EQUAL" ||
           k == "BYTES_EQUAL" || k == "SIGNED_BYTES_EQUAL" || k == "CHECK_COMPARE" ||
           k == "CHECK_EQUAL_C_BOOL" || k == "CHECK_EQUAL_C_INT" || k == "CHECK_EQUAL_C_UINT" || k == "CHECK_EQUAL_C_LONG" || k == "CHECK_EQUAL_C_ULONG" ||
           k == "CHECK_EQUAL_C_LONGLONG" || k == "CHECK_EQUAL_C_ULONGLONG" || k == "CHECK_EQUAL_C_CHAR" || k == "CHECK_EQUAL_C_UBYTE" || k == "CHECK_EQUAL_C_SBYTE";
}

int main()
{
    Toks t; Out o;
    setvbuf(stdout, NULL, _IOLBF, 0);
    while (readline(t)) {
        memset(&c03, 0, sizeof c03);
        c03.text = t.n();
        K = t.next();
        char* pe = 0; char* pa = 0;
        bool se = K.compare(0, 3, "SE_") == 0;
        if (se) {
            if (K != "SE_CHECK_EQUAL" && K != "SE_CHECK_EQUAL_ZERO" && K != "SE_CHECK_COMPARE") { fprintf(stderr, "C03 harness: unknown check %s\n", K.c_str()); return 3; }
            if (K == "SE_CHECK_COMPARE") c03.op = t.n();
            c03.ta = t.n();
            seE.v.clear(); seA.v.clear(); seE.reads = seA.reads = 0;
            if (K != "SE_CHECK_EQUAL_ZERO") { int n = t.n(); for (int i = 0; i < n; i++) seE.v.push_back(t.z()); }
            { int n = t.n(); for (int i = 0; i < n; i++) seA.v.push_back(t.z()); }
            if (seA.v.empty() || (K != "SE_CHECK_EQUAL_ZERO" && seE.v.empty())) { fprintf(stderr, "C03 harness: empty script\n"); return 3; }
        }
        else
        if (K == "CHECK_COMPARE") c03.op = t.n();
        if (se) { }
        else if (isK2(K)) { c03.ta = t.n(); c03.za = (unsigned long long)t.z(); c03.tb = t.n(); c03.zb = (unsigned long long)t.z(); }
        else if (K == "CHECK" || K == "CHECK_TRUE" || K == "CHECK_FALSE" || K == "CHECK_EQUAL_ZERO" || K == "CHECK_C") { c03.ta = t.n(); c03.za = (unsigned long long)t.z(); }
        else if (K == "ENUMS_EQUAL_INT") { c03.ta = t.n(); c03.za = (unsigned long long)t.z(); c03.zb = (unsigned long long)t.z(); }
        else if (K == "ENUMS_EQUAL_TYPE") { c03.tc = t.n(); c03.ta = t.n(); c03.za = (unsigned long long)t.z(); c03.zb = (unsigned long long)t.z(); }
        else if (K == "POINTERS_EQUAL" || K == "FUNCTIONPOINTERS_EQUAL" || K == "CHECK_EQUAL_C_POINTER") { c03.za = t.u(); c03.zb = t.u(); }
        else if (K == "DOUBLES_EQUAL" || K == "CHECK_EQUAL_C_REAL") {
            unsigned long long x = t.u(), y = t.u(), z = t.u();
            memcpy(&c03.d1, &x, 8); memcpy(&c03.d2, &y, 8); memcpy(&c03.d3, &z, 8);
        }
        else if (K == "STRCMP_EQUAL" || K == "STRNCMP_EQUAL" || K == "STRCMP_NOCASE_EQUAL" || K == "STRCMP_CONTAINS" || K == "STRCMP_NOCASE_CONTAINS" ||
                 K == "CHECK_EQUAL_C_STRING" || K == "MEMCMP_EQUAL" || K == "CHECK_EQUAL_C_MEMCMP") {
            bool mem = (K == "MEMCMP_EQUAL" || K == "CHECK_EQUAL_C_MEMCMP");
            std::string s;
            if (t.bytes(s)) pe = exact(s, !mem);
            if (t.bytes(s)) pa = exact(s, !mem);
            c03.e = pe; c03.a = pa;
            if (mem || K == "STRNCMP_EQUAL") c03.n = (size_t)t.u();
        }
        else if (K == "BITS_EQUAL" || K == "CHECK_EQUAL_C_BITS") {
            c03.ta = t.n(); c03.za = (unsigned long long)t.z(); c03.tb = t.n(); c03.zb = (unsigned long long)t.z(); c03.zc = (unsigned long long)t.z();
        }
        else if (K == "CHECK_THROWS") c03.op = t.n();
        else if (K == "FAIL" || K == "FAIL_TEST" || K == "FAIL_C" || K == "FAIL_TEXT_C") { }
        else { fprintf(stderr, "C03 harness: unknown check %s\n", K.c_str()); return 3; }
        {
            TestTestingFixture fx;
            after_ = 0;
            fx.setTestFunction(body);
            fx.runAllTests();
            o << hx(fx.getFailureCount()) << hx(fx.getCheckCount()) << (after_ ? "1" : "0");
            if (se) o << hx(seE.reads) << hx(seA.reads);      // evaluations of the first / second operand expression
        }
        o.flush();
        free(pe); free(pa);
    }
    return 0;
}
