// C17 harness: a session of plugin-chain operations and scripted tests run through a real TestRegistry, by single
// tests, by whole runs (TestRegistry::runAllTests over several tests whose statements and whose plugins' pre / post
// actions install, remove, enable and disable plugins while the run is going on) and by the real command line runner
// (CommandLineTestRunner::runAllTestsMain on top of whatever the registry already holds).
// Scenario (see checks/C17.py):
//   op    :inst <name> <kind 0 plain|1 setptr> | :act <name> <post 0|1> <n> act*n | :en <id> | :dis <id> | :rm <name> | :reset
//         | :reinst <id> | :test xtest | :run <k> xtest*k | :runner <rep> <k> xtest*k
//   xtest <n> xstmt*n <n> xstmt*n <n> xstmt*n          (setup, body, teardown)
//   xstmt :set <loc> <val> | :wr <loc> <val> | :fail | :failc | :thr | :thrstd | act
//   act   :ai <name> <kind> | :ar <name> | :ae <id> | :ad <id> | :az | :ab <id>
// :reinst / :ab hand the EXISTING plugin object <id> (one that was removed by name or dropped by resetPlugins, with whatever
// next_ link it was left with) to installPlugin once more.  An object that is in the chain at that moment is not handed over
// (the chain would become circular; such scenarios are outside the property and the model refuses them).
// Process level (several runs in ONE process, each with its own command line; the process-wide switches are NOT reset in between):
//   op    :runnerx <e> <f> <p> <v 0|1|2> <c> <rep> <k> xtest*k   runAllTestsMain with the arguments -e -f -p -v|-vv -c -r<rep> as flagged
//         | :rethrow <0|1>       UtestShell::setRethrowExceptions(b)
//         | :crashonfail <0|1>   UtestShell::setCrashOnFail() / UtestShell::restoreDefaultTestTerminator()
// (:runner <rep> .. is the old form: -e iff a scripted test throws, -r<rep>, and UtestShell::setRethrowExceptions(false) after it.)
// An exception that leaves runAllTests / runAllTestsMain is caught by the harness: item ":x", the rest of the scenario is not run.
// The crash method is one that returns (-f would otherwise end the process).  The pool and the event log live in memory shared
// with forked children (-p), so what a test run in a separate process and its plugins did to them is seen.
// Plugin ids are creation ordinals (the runner's own pointer plugin takes one too); name a0 is DEF_PLUGIN_SET_POINTER.
// Observation: per test  ":t <failed> <npre> ids.. <npost> ids.. <pool[0..39]>"  where the id lists leave out the plugins
// an action of that very test named (whether those were installed / enabled "for that test" the property does not say);
// per :rm/:reset/:reinst and after every :run / :runner  ":c <n> ids.."  (after :runner: the plugins not named a0; an id ffff in
// front if a pool pointer changed between the last test's post actions and the return of the run).
#include <stdexcept>
#include <map>
#include <set>
#include <sys/mman.h>
#include <unistd.h>
#include "hlib.h"
#define private public
#include "CppUTest/Utest.h"
#undef private
#include "CppUTest/TestHarness.h"
#include "CppUTest/PlatformSpecificFunctions.h"
#include "CppUTest/TestRegistry.h"
#include "CppUTest/TestOutput.h"
#include "CppUTest/TestPlugin.h"
#include "CppUTest/TestResult.h"
#include "CppUTest/CommandLineTestRunner.h"
using namespace hl;

enum { POOL = 40 };
static const unsigned long long RUNNER_NAME = 0xa0;

// event log: (kind, id)  kind 0 = pre action, 1 = post action, 2 = test object created, 3 = test object destroyed
struct Ev { int kind; int id; };
// shared with the children that -p forks: the pointers the tests redirect and the log the plugins write
struct Shared { void* pool[POOL]; int logN; Ev log[8192]; };
static Shared* gSh;
#define pool (gSh->pool)
#define gLog (gSh->log)
#define gLogN (gSh->logN)
static void logEv(int kind, int id) { if (gLogN < 8192) { gLog[gLogN].kind = kind; gLog[gLogN].id = id; gLogN++; } }
static void crashThatReturns() {}
static pid_t gMainPid;
// an exception that leaves a run: in the harness process it is recorded; in a child forked by -p nobody would catch it
static void escaped(bool& dead) { if (getpid() != gMainPid) _exit(70); dead = true; }

// ------------------------------------------------------------------ the session's registry and plugin objects
struct Act { int kind; unsigned long long name; int arg; };        // 0 install (arg = plugin kind) 1 remove 2 enable 3 disable 4 reset 5 install an existing object again (arg = id)
static TestRegistry* gReg;
static std::vector<TestPlugin*> gObjs;                             // by id; 0 for the runner's plugin while it is not known / not alive
static std::vector<unsigned long long> gNames;                     // by id
static std::map<TestPlugin*, int> gIds;
static std::set<int> gNamed;                                       // ids the actions of the current test named
static std::vector<std::string> gItems;                            // observation items of the tests of the current run
static void* gPoolAfterTest[POOL];                                  // the pool as the last test's post actions left it

static std::string pname(unsigned long long n) { return n == RUNNER_NAME ? std::string(DEF_PLUGIN_SET_POINTER) : "p" + hx(n); }
static void doAct(const Act& a);

class RecPlugin : public TestPlugin
{
public:
    int id_;
    RecPlugin(const SimpleString& name, int id) : TestPlugin(name), id_(id) {}
    void preTestAction(UtestShell&, TestResult&) CPPUTEST_OVERRIDE { logEv(0, id_); }
    void postTestAction(UtestShell&, TestResult&) CPPUTEST_OVERRIDE { logEv(1, id_); }
};
class RecSetPointerPlugin : public SetPointerPlugin
{
public:
    int id_;
    RecSetPointerPlugin(const SimpleString& name, int id) : SetPointerPlugin(name), id_(id) {}
    void preTestAction(UtestShell& t, TestResult& r) CPPUTEST_OVERRIDE { logEv(0, id_); SetPointerPlugin::preTestAction(t, r); }
    void postTestAction(UtestShell& t, TestResult& r) CPPUTEST_OVERRIDE { logEv(1, id_); SetPointerPlugin::postTestAction(t, r); }
};
class ActorPlugin : public TestPlugin
{
public:
    int id_; bool post_; std::vector<Act> acts_;
    ActorPlugin(const SimpleString& name, int id, bool post, const std::vector<Act>& acts) : TestPlugin(name), id_(id), post_(post), acts_(acts) {}
    void preTestAction(UtestShell&, TestResult&) CPPUTEST_OVERRIDE { logEv(0, id_); if (!post_) for (size_t i = 0; i < acts_.size(); i++) doAct(acts_[i]); }
    void postTestAction(UtestShell&, TestResult&) CPPUTEST_OVERRIDE { logEv(1, id_); if (post_) for (size_t i = 0; i < acts_.size(); i++) doAct(acts_[i]); }
};

static void addObj(TestPlugin* p, unsigned long long name)
{
    if (p) gIds[p] = (int)gObjs.size();
    gObjs.push_back(p); gNames.push_back(name);
}
static void doAct(const Act& a)
{
    switch (a.kind) {
    case 0: {
        int id = (int)gObjs.size();
        gNamed.insert(id);
        TestPlugin* p = a.arg ? (TestPlugin*)new RecSetPointerPlugin(pname(a.name).c_str(), id) : (TestPlugin*)new RecPlugin(pname(a.name).c_str(), id);
        addObj(p, a.name);
        gReg->installPlugin(p);
        break; }
    case 1:
        for (size_t i = 0; i < gNames.size(); i++) if (gNames[i] == a.name) gNamed.insert((int)i);
        gReg->removePluginByName(pname(a.name).c_str());
        break;
    case 2: case 3:
        gNamed.insert(a.arg);
        if (a.arg >= 0 && (size_t)a.arg < gObjs.size() && gObjs[(size_t)a.arg]) { if (a.kind == 2) gObjs[(size_t)a.arg]->enable(); else gObjs[(size_t)a.arg]->disable(); }
        break;
    case 5: {
        gNamed.insert(a.arg);
        if (a.arg < 0 || (size_t)a.arg >= gObjs.size() || !gObjs[(size_t)a.arg]) break;       // no such object (not a valid scenario)
        TestPlugin* obj = gObjs[(size_t)a.arg];
        bool linkedIn = false; int guard = 0;
        for (TestPlugin* p = gReg->getFirstPlugin(); p && p != NullTestPlugin::instance() && guard < 100000; p = p->getNext(), guard++)
            if (p == obj) linkedIn = true;
        if (!linkedIn) gReg->installPlugin(obj);       // the object comes with the next_ link it was left with
        break; }
    default:
        for (size_t i = 0; i < gNames.size(); i++) gNamed.insert((int)i);
        gReg->resetPlugins();
    }
}
static std::string chainItem(bool withoutRunnerName, bool poolMoved = false)
{
    std::vector<int> c; int guard = 0;
    if (poolMoved) c.push_back(0xffff);        // a pointer changed between the last test's post actions and the end of the run: the oracle rejects
    for (TestPlugin* p = gReg->getFirstPlugin(); p && p != NullTestPlugin::instance() && guard < 1000; p = p->getNext(), guard++) {
        int id = gIds.count(p) ? gIds[p] : 0xffff;                 // 0xffff: not an object of this session (never a plugin id)
        if (withoutRunnerName && id != 0xffff && gNames[(size_t)id] == RUNNER_NAME) continue;
        c.push_back(id);
    }
    std::string s = ":c " + hx(c.size());
    for (size_t i = 0; i < c.size(); i++) s += " " + hx((unsigned)c[i]);
    return s;
}

// ------------------------------------------------------------------ scripted tests
struct St { int kind; int loc; void* val; Act act; };   // 0 set 1 write 2 FAIL 3 longjmp-style fail 4 throw int 5 throw std::exception 6 action
struct Script { std::vector<St> ph[3]; };
static const Script* gScript;

// no objects with destructors in these frames: kind 3 leaves them by longjmp
static void interp(int phase)
{
    const std::vector<St>& vec = gScript->ph[phase];
    const St* v = vec.empty() ? 0 : &vec[0]; int n = (int)vec.size();
    for (int i = 0; i < n; i++) {
        switch (v[i].kind) {
        case 0: UT_PTR_SET(pool[v[i].loc], v[i].val); break;
        case 1: pool[v[i].loc] = v[i].val; break;
        case 2: FAIL("scripted failure"); break;
        case 3: UtestShell::getCurrent()->fail("scripted C failure", __FILE__, __LINE__, UtestShell::getCurrentTestTerminatorWithoutExceptions()); break;
        case 4: throw 42;
        case 5: throw std::runtime_error("scripted exception");
        default: doAct(v[i].act);
        }
    }
}
class ScriptedUtest : public Utest
{
public:
    void setup() CPPUTEST_OVERRIDE { interp(0); }
    void testBody() CPPUTEST_OVERRIDE { interp(1); }
    void teardown() CPPUTEST_OVERRIDE { interp(2); }
};
static int gRunnerId = -1;                                          // id waiting for the runner's plugin object
class ScriptedShell : public UtestShell
{
public:
    Script script_;
    ScriptedShell() : UtestShell("G", "T", "script.cpp", 1) {}
    Utest* createTest() CPPUTEST_OVERRIDE { logEv(2, 0); return new ScriptedUtest; }
    void destroyTest(Utest* t) CPPUTEST_OVERRIDE { logEv(3, 0); delete t; }
    // the registry hands every test the head of the chain here; the observation of one test is taken around the call
    void runOneTest(TestPlugin* plugin, TestResult& result) CPPUTEST_OVERRIDE
    {
        if (gRunnerId >= 0 && gObjs[(size_t)gRunnerId] == 0 && plugin && !gIds.count(plugin) && plugin != NullTestPlugin::instance()
            && plugin->getName() == DEF_PLUGIN_SET_POINTER) {
            gObjs[(size_t)gRunnerId] = plugin; gIds[plugin] = gRunnerId;     // the runner's own plugin: on top at the first test
        }
        gNamed.clear();
        int ev0 = gLogN; size_t f0 = result.getFailureCount();
        gScript = &script_;
        UtestShell::runOneTest(plugin, result);
        // pre actions must all lie before the creation of the test object, post actions after its destruction
        std::vector<int> pre, post; int stage = 0; bool shape = true;
        for (int i = ev0; i < gLogN; i++) {
            const Ev& e = gLog[i];
            if (e.kind == 0) { if (stage != 0) shape = false; pre.push_back(e.id); }
            else if (e.kind == 2) { if (stage != 0) shape = false; stage = 1; }
            else if (e.kind == 3) { if (stage != 1) shape = false; stage = 2; }
            else { if (stage != 2) shape = false; post.push_back(e.id); }
        }
        if (stage != 2) shape = false;
        std::vector<int> pre2, post2;
        for (size_t i = 0; i < pre.size(); i++) if (!gNamed.count(pre[i])) pre2.push_back(pre[i]);
        for (size_t i = 0; i < post.size(); i++) if (!gNamed.count(post[i])) post2.push_back(post[i]);
        if (!shape) pre2.push_back(0xffff);      // never a plugin id: the oracle rejects the observation
        std::string s = std::string(":t ") + (result.getFailureCount() > f0 ? "1" : "0") + " " + hx(pre2.size());
        for (size_t i = 0; i < pre2.size(); i++) s += " " + hx((unsigned)pre2[i]);
        s += " " + hx(post2.size());
        for (size_t i = 0; i < post2.size(); i++) s += " " + hx((unsigned)post2[i]);
        for (int i = 0; i < POOL; i++) { s += " " + hx((unsigned long long)(uintptr_t)pool[i]); gPoolAfterTest[i] = pool[i]; }
        gItems.push_back(s);
    }
};

class QuietRunner : public CommandLineTestRunner
{
public:
    QuietRunner(int ac, const char* const* av, TestRegistry* r) : CommandLineTestRunner(ac, av, r) {}
protected:
    TestOutput* createConsoleOutput() CPPUTEST_OVERRIDE { return new StringBufferTestOutput; }
};

static Act parseAct(const std::string& k, Toks& t)
{
    Act a; a.kind = 4; a.name = 0; a.arg = 0;
    if (k == "ai") { a.kind = 0; a.name = t.u(); a.arg = t.n(); }
    else if (k == "ar") { a.kind = 1; a.name = t.u(); }
    else if (k == "ae" || k == "ad") { a.kind = k == "ae" ? 2 : 3; unsigned long long id = t.u(); a.arg = id > 0x7fffffffULL ? 0x7fffffff : (int)id; }
    else if (k == "az") a.kind = 4;
    else if (k == "ab") { a.kind = 5; unsigned long long id = t.u(); a.arg = id > 0x7fffffffULL ? 0x7fffffff : (int)id; }
    else { fprintf(stderr, "harness: bad action %s\n", k.c_str()); exit(3); }
    return a;
}
static bool gThrows;
static St parseStmt(Toks& t)
{
    St s; s.kind = 2; s.loc = 0; s.val = 0; s.act.kind = 4; s.act.name = 0; s.act.arg = 0;
    std::string k = t.sym();
    if (k == "set" || k == "wr") {
        s.kind = k == "set" ? 0 : 1; s.loc = t.n(); s.val = (void*)(uintptr_t)t.u();
        if (s.loc < 0 || s.loc >= POOL) { fprintf(stderr, "harness: location out of the pool\n"); exit(3); }
    }
    else if (k == "fail") s.kind = 2;
    else if (k == "failc") s.kind = 3;
    else if (k == "thr") { s.kind = 4; gThrows = true; }
    else if (k == "thrstd") { s.kind = 5; gThrows = true; }
    else { s.kind = 6; s.act = parseAct(k, t); }
    return s;
}
static void parseTest(Toks& t, Script& sc)
{
    for (int p = 0; p < 3; p++) { int n = t.n(); for (int i = 0; i < n; i++) sc.ph[p].push_back(parseStmt(t)); }
}

int main()
{
    Toks t; Out o;
    gSh = (Shared*)mmap(0, sizeof(Shared), PROT_READ | PROT_WRITE, MAP_SHARED | MAP_ANONYMOUS, -1, 0);
    if (gSh == (Shared*)MAP_FAILED) { fprintf(stderr, "harness: mmap failed\n"); return 3; }
    UtestShell::setCrashMethod(crashThatReturns);
    gMainPid = getpid();
    while (readline(t)) {
        // every scenario is a process of its own as far as the process-wide switches go
        UtestShell::rethrowExceptions_ = false;         // the variable itself: the API that sets it is under test
        UtestShell::restoreDefaultTestTerminator();
        UtestShell::currentTest_ = 0; UtestShell::testResult_ = 0;
        bool dead = false;                              // an exception has left a run: the rest of the scenario is not run
        for (int i = 0; i < POOL; i++) pool[i] = (void*)(uintptr_t)(0x100 + i);
        { SetPointerPlugin fresh("fresh"); }            // every scenario starts with an empty table (the constructor resets the index)
        TestRegistry reg;
        TestRegistry* savedReg = TestRegistry::getCurrentRegistry();
        reg.setCurrentRegistry(&reg);
        gReg = &reg; gObjs.clear(); gNames.clear(); gIds.clear(); gNamed.clear(); gRunnerId = -1;
        std::vector<std::string> out;
        while (!t.end() && !dead) {
            std::string k = t.sym();
            if (k == "rethrow") UtestShell::setRethrowExceptions(t.n() != 0);
            else if (k == "crashonfail") { if (t.n() != 0) UtestShell::setCrashOnFail(); else UtestShell::restoreDefaultTestTerminator(); }
            else if (k == "inst") { Act a; a.kind = 0; a.name = t.u(); a.arg = t.n(); doAct(a); }
            else if (k == "act") {
                unsigned long long name = t.u(); bool post = t.n() != 0; int n = t.n();
                std::vector<Act> acts;
                for (int i = 0; i < n; i++) { std::string ak = t.sym(); acts.push_back(parseAct(ak, t)); }
                TestPlugin* p = new ActorPlugin(pname(name).c_str(), (int)gObjs.size(), post, acts);
                addObj(p, name);
                reg.installPlugin(p);
            }
            else if (k == "en" || k == "dis") { Act a; a.name = 0; a.kind = k == "en" ? 2 : 3; unsigned long long id = t.u(); a.arg = id > 0x7fffffffULL ? 0x7fffffff : (int)id; doAct(a); }
            else if (k == "rm" || k == "reset" || k == "reinst") {
                Act a; a.arg = 0; a.name = 0;
                if (k == "rm") { a.kind = 1; a.name = t.u(); }
                else if (k == "reinst") { a.kind = 5; unsigned long long id = t.u(); a.arg = id > 0x7fffffffULL ? 0x7fffffff : (int)id; }
                else a.kind = 4;
                doAct(a);
                out.push_back(chainItem(false));
            }
            else if (k == "test" || k == "run" || k == "runner" || k == "runnerx") {
                bool legacy = k == "runner";
                int fe = 0, ff = 0, fp = 0, fv = 0, fc = 0;
                if (k == "runnerx") { fe = t.n(); ff = t.n(); fp = t.n(); fv = t.n(); fc = t.n(); k = "runner"; }
                int rep = k == "runner" ? t.n() : 1;
                int ntests = k == "test" ? 1 : t.n();
                gThrows = false;
                std::vector<ScriptedShell*> shells;
                for (int i = 0; i < ntests; i++) { shells.push_back(new ScriptedShell); parseTest(t, shells.back()->script_); }
                for (int i = ntests - 1; i >= 0; i--) reg.addTest(shells[(size_t)i]);      // addTest prepends
                gLogN = 0; gItems.clear();
                for (int i = 0; i < POOL; i++) gPoolAfterTest[i] = pool[i];
                if (k == "runner") {
                    // the runner's pointer plugin is the next plugin object created: it takes an id
                    gRunnerId = (int)gObjs.size(); addObj(0, RUNNER_NAME);
                    std::vector<std::string> args; args.push_back("harness");
                    if (legacy ? gThrows : fe != 0) args.push_back("-e");   // the runner's default is to rethrow what a test throws
                    if (ff) args.push_back("-f");
                    if (fp) args.push_back("-p");
                    if (fv) args.push_back(fv == 1 ? "-v" : "-vv");
                    if (fc) args.push_back("-c");
                    if (rep != 1) args.push_back("-r" + std::to_string(rep));
                    std::vector<const char*> av; for (size_t i = 0; i < args.size(); i++) av.push_back(args[i].c_str());
                    try {
                        QuietRunner runner((int)av.size(), &av[0], &reg);
                        runner.runAllTestsMain();
                    }
                    catch (...) { escaped(dead); }
                    if (legacy) UtestShell::setRethrowExceptions(false);
                    if (gObjs[(size_t)gRunnerId]) { gIds.erase(gObjs[(size_t)gRunnerId]); gObjs[(size_t)gRunnerId] = 0; }   // that object is gone
                    gRunnerId = -1;
                }
                else {
                    StringBufferTestOutput sink;
                    TestResult result(sink);
                    try { reg.runAllTests(result); }
                    catch (...) { escaped(dead); }
                }
                if (dead) {
                    // the exception skipped the bookkeeping of UtestShell::runOneTest's PlatformSpecificSetJmp frame; the registry may
                    // still point at the runner's plugin object, which is gone
                    PlatformSpecificRestoreJumpBuffer();
                    reg.resetPlugins();
                }
                for (int i = 0; i < ntests; i++) reg.unDoLastAddTest();
                for (size_t i = 0; i < gItems.size(); i++) out.push_back(gItems[i]);
                bool moved = false;             // after the run every pointer still holds what it held after the last test
                for (int i = 0; i < POOL; i++) if (pool[i] != gPoolAfterTest[i]) moved = true;
                if (dead) out.push_back(":x");
                else if (k != "test") out.push_back(chainItem(k == "runner", moved));
                for (int i = 0; i < ntests; i++) delete shells[(size_t)i];
            }
            else { fprintf(stderr, "harness: bad op %s\n", k.c_str()); exit(3); }
        }
        reg.setCurrentRegistry(savedReg);
        for (size_t i = 0; i < gObjs.size(); i++) delete gObjs[i];
        gReg = 0;
        if (out.empty()) o << ":none";
        for (size_t i = 0; i < out.size(); i++) o << out[i];
        o.flush();
    }
    return 0;
}
