// C17 harness: a session of plugin-chain operations and scripted tests run through a real TestRegistry.
// Scenario (see checks/C17.py):  ops  :inst <name> <kind 0 plain|1 setptr> | :en <id> | :dis <id> | :rm <name> | :reset
//                                     | :test <n> stmt*n <n> stmt*n <n> stmt*n          (setup, body, teardown)
//                                stmt :set <loc> <val> | :wr <loc> <val> | :fail | :failc | :thr | :thrstd
// Observation: per :test  ":t <failed> <npre> ids.. <npost> ids.. <pool[0..39]>", per :rm/:reset  ":c <n> ids.."
#include <stdexcept>
#include <map>
#include "hlib.h"
#include "CppUTest/TestHarness.h"
#include "CppUTest/TestRegistry.h"
#include "CppUTest/TestOutput.h"
#include "CppUTest/TestPlugin.h"
#include "CppUTest/TestResult.h"
using namespace hl;

enum { POOL = 40 };
static void* pool[POOL];

// event log: (kind, id)  kind 0 = pre action, 1 = post action, 2 = test object created, 3 = test object destroyed
struct Ev { int kind; int id; };
static Ev gLog[4096]; static int gLogN;
static void logEv(int kind, int id) { if (gLogN < 4096) { gLog[gLogN].kind = kind; gLog[gLogN].id = id; gLogN++; } }

class RecPlugin : public TestPlugin
{
public:
    int id_;
    RecPlugin(const SimpleString& name, int id) : TestPlugin(name), id_(id) {}
    void preTestAction(UtestShell&, TestResult&) CPPUTEST_OVERRIDE { logEv(0, id_); }
    void postTestAction(UtestShell&, TestResult&) CPPUTEST_OVERRIDE { logEv(1, id_); }
};
class RecSetPointerPlugin : public SetPointerPlugin
{
public:
    int id_;
    RecSetPointerPlugin(const SimpleString& name, int id) : SetPointerPlugin(name), id_(id) {}
    void preTestAction(UtestShell& t, TestResult& r) CPPUTEST_OVERRIDE { logEv(0, id_); SetPointerPlugin::preTestAction(t, r); }
    void postTestAction(UtestShell& t, TestResult& r) CPPUTEST_OVERRIDE { logEv(1, id_); SetPointerPlugin::postTestAction(t, r); }
};

struct St { int kind; int loc; void* val; };      // 0 set 1 write 2 FAIL 3 longjmp-style fail 4 throw int 5 throw std::exception
struct Script { St* s[3]; int n[3]; };
static Script gScript;

// no objects with destructors in these frames: kind 3 leaves them by longjmp
static void interp(int phase)
{
    const St* v = gScript.s[phase]; int n = gScript.n[phase];
    for (int i = 0; i < n; i++) {
        switch (v[i].kind) {
        case 0: UT_PTR_SET(pool[v[i].loc], v[i].val); break;
        case 1: pool[v[i].loc] = v[i].val; break;
        case 2: FAIL("scripted failure"); break;
        case 3: UtestShell::getCurrent()->fail("scripted C failure", __FILE__, __LINE__, UtestShell::getCurrentTestTerminatorWithoutExceptions()); break;
        case 4: throw 42;
        default: throw std::runtime_error("scripted exception");
        }
    }
}
class ScriptedUtest : public Utest
{
public:
    void setup() CPPUTEST_OVERRIDE { interp(0); }
    void testBody() CPPUTEST_OVERRIDE { interp(1); }
    void teardown() CPPUTEST_OVERRIDE { interp(2); }
};
class ScriptedShell : public UtestShell
{
public:
    ScriptedShell() : UtestShell("G", "T", "script.cpp", 1) {}
    Utest* createTest() CPPUTEST_OVERRIDE { logEv(2, 0); return new ScriptedUtest; }
    void destroyTest(Utest* t) CPPUTEST_OVERRIDE { logEv(3, 0); delete t; }
};

static std::string pname(unsigned long long n) { return "p" + hx(n); }

static St parseStmt(Toks& t)
{
    St s; s.kind = 2; s.loc = 0; s.val = 0;
    std::string k = t.sym();
    if (k == "set" || k == "wr") {
        s.kind = k == "set" ? 0 : 1; s.loc = t.n(); s.val = (void*)(uintptr_t)t.u();
        if (s.loc < 0 || s.loc >= POOL) { fprintf(stderr, "harness: location out of the pool\n"); exit(3); }
    }
    else if (k == "fail") s.kind = 2;
    else if (k == "failc") s.kind = 3;
    else if (k == "thr") s.kind = 4;
    else if (k == "thrstd") s.kind = 5;
    else { fprintf(stderr, "harness: bad statement %s\n", k.c_str()); exit(3); }
    return s;
}

int main()
{
    Toks t; Out o;
    while (readline(t)) {
        for (int i = 0; i < POOL; i++) pool[i] = (void*)(uintptr_t)(0x100 + i);
        { SetPointerPlugin fresh("fresh"); }            // every scenario starts with an empty table (the constructor resets the index)
        TestRegistry reg;
        TestRegistry* savedReg = TestRegistry::getCurrentRegistry();
        reg.setCurrentRegistry(&reg);
        std::vector<TestPlugin*> objs; std::map<TestPlugin*, int> ids;
        while (!t.end()) {
            std::string k = t.sym();
            if (k == "inst") {
                unsigned long long name = t.u(); int kind = t.n(); int id = (int)objs.size();
                TestPlugin* p = kind ? (TestPlugin*)new RecSetPointerPlugin(pname(name).c_str(), id) : (TestPlugin*)new RecPlugin(pname(name).c_str(), id);
                objs.push_back(p); ids[p] = id;
                reg.installPlugin(p);
            }
            else if (k == "en") { size_t id = (size_t)t.u(); if (id < objs.size()) objs[id]->enable(); }
            else if (k == "dis") { size_t id = (size_t)t.u(); if (id < objs.size()) objs[id]->disable(); }
            else if (k == "rm" || k == "reset") {
                if (k == "rm") reg.removePluginByName(pname(t.u()).c_str()); else reg.resetPlugins();
                std::vector<int> c; int guard = 0;
                for (TestPlugin* p = reg.getFirstPlugin(); p && p != NullTestPlugin::instance() && guard < 1000; p = p->getNext(), guard++)
                    c.push_back(ids.count(p) ? ids[p] : 0xffff);
                o << ":c" << hx(c.size());
                for (size_t i = 0; i < c.size(); i++) o << hx((unsigned)c[i]);
            }
            else if (k == "test") {
                std::vector<St> ph[3];
                for (int p = 0; p < 3; p++) { int n = t.n(); for (int i = 0; i < n; i++) ph[p].push_back(parseStmt(t)); }
                for (int p = 0; p < 3; p++) { gScript.s[p] = ph[p].empty() ? 0 : &ph[p][0]; gScript.n[p] = (int)ph[p].size(); }
                gLogN = 0;
                ScriptedShell shell;
                StringBufferTestOutput out;
                TestResult result(out);
                reg.addTest(&shell);
                reg.runAllTests(result);
                reg.unDoLastAddTest();
                // pre actions must all lie before the creation of the test object, post actions after its destruction
                std::vector<int> pre, post; int stage = 0; bool shape = true;
                for (int i = 0; i < gLogN; i++) {
                    const Ev& e = gLog[i];
                    if (e.kind == 0) { if (stage != 0) shape = false; pre.push_back(e.id); }
                    else if (e.kind == 2) { if (stage != 0) shape = false; stage = 1; }
                    else if (e.kind == 3) { if (stage != 1) shape = false; stage = 2; }
                    else { if (stage != 2) shape = false; post.push_back(e.id); }
                }
                if (stage != 2) shape = false;
                if (!shape) pre.push_back(0xffff);      // never a plugin id: the oracle rejects the observation
                o << ":t" << (result.getFailureCount() ? "1" : "0") << hx(pre.size());
                for (size_t i = 0; i < pre.size(); i++) o << hx((unsigned)pre[i]);
                o << hx(post.size());
                for (size_t i = 0; i < post.size(); i++) o << hx((unsigned)post[i]);
                for (int i = 0; i < POOL; i++) o << hx((unsigned long long)(uintptr_t)pool[i]);
            }
            else { fprintf(stderr, "harness: bad op %s\n", k.c_str()); exit(3); }
        }
        reg.setCurrentRegistry(savedReg);
        for (size_t i = 0; i < objs.size(); i++) delete objs[i];
        if (o.s.empty()) o << ":none";
        o.flush();
    }
    return 0;
}
