// C04 harness: drives a PRIVATE MemoryLeakDetector (public API only) with a recording MemoryLeakFailure and arena allocators
// that place every block at the address the scenario names: scenario address a (0 <= a < NSLOTS) lives in slot a of the arena,
// at an 8-aligned offset chosen so that  real_address % MEMORY_LEAK_HASH_TABLE_SIZE == a % MEMORY_LEAK_HASH_TABLE_SIZE.
// Scenario/observation grammar: ocaml/c04_driver.ml.
#include "CppUTest/TestHarness.h"
#include "CppUTest/MemoryLeakDetector.h"
#include "CppUTest/TestMemoryAllocator.h"
#include "CppUTest/MemoryLeakWarningPlugin.h"
#include "CppUTest/PlatformSpecificFunctions.h"
#include "hlib.h"
#include <algorithm>
#include <tuple>
#include <csetjmp>
#include <csignal>
#include <unistd.h>
using namespace hl;

static const size_t HP = MEMORY_LEAK_HASH_TABLE_SIZE;
static const size_t NSLOTS = 73 * 64;
static const size_t CAP = 320;                       // user block + guard + inline node
static size_t stride;
static char* arena;
static char* nodepool; static size_t nodepool_used; static const size_t NODEPOOL = 1 << 20;
static char* next_real;                              // where the next alloc_memory / realloc has to put its block
// failure injection (ops :af / :rf): which underlying call answers NULL.  1 = the block (alloc_memory / PlatformSpecificRealloc),
// 2 = the separate bookkeeping record (allocMemoryLeakNode); from the first refused call on the allocator stays out of memory
static int failWhich;
static char scratchBlock[CAP + 64];                  // the block alloc_memory hands out when only the record is to fail

static char* real_of(unsigned long long a)
{
    if (a >= NSLOTS) { fprintf(stderr, "harness: address %llx out of range\n", a); exit(3); }
    char* base = arena + a * stride;
    for (size_t k = 0; k < HP; k++)
        if (((uintptr_t)(base + 8 * k)) % HP == a % HP) return base + 8 * k;
    fprintf(stderr, "harness: no offset\n"); exit(3);
}
static long long scen_of(const void* p)
{
    const char* c = (const char*)p;
    if (c < arena || c >= arena + NSLOTS * stride) return 0xffffff;
    long long a = (c - arena) / (long long)stride;
    return real_of((unsigned long long)a) == c ? a : 0xfffffe;
}

class ArenaAllocator : public TestMemoryAllocator
{
public:
    ArenaAllocator(const char* n, const char* a, const char* f) : TestMemoryAllocator(n, a, f) {}
    char* alloc_memory(size_t size, const char*, size_t) override
    {
        if (failWhich == 1) return nullptr;
        if (failWhich == 2 && size <= CAP) { memset(scratchBlock, 'A', size); return scratchBlock; }
        if (size > CAP || !next_real) { fprintf(stderr, "harness: block of %lu bytes / no address\n", (unsigned long)size); exit(3); }
        char* p = next_real; next_real = nullptr;
        memset(p, 'A', size);
        return p;
    }
    void free_memory(char*, size_t, const char*, size_t) override {}
    char* allocMemoryLeakNode(size_t size) override
    {
        if (failWhich == 2) return nullptr;
        size = (size + 15) & ~(size_t)15;
        if (nodepool_used + size > NODEPOOL) { fprintf(stderr, "harness: node pool exhausted\n"); exit(3); }
        char* p = nodepool + nodepool_used; nodepool_used += size; return p;
    }
    void freeMemoryLeakNode(char*) override {}
};
static void* arena_realloc(void* mem, size_t size)
{
    if (failWhich) return nullptr;                   // the old block stays where it is, untouched
    if (size > CAP || !next_real) { fprintf(stderr, "harness: realloc of %lu bytes / no address\n", (unsigned long)size); exit(3); }
    char* p = next_real; next_real = nullptr;
    if (mem && mem != p) memmove(p, mem, size);
    if (!mem) memset(p, 'A', size);
    return p;
}

static std::vector<std::string> fileNames;     // filled once in main (the detector keeps the pointers): f<id>.c, and for ids >= 0x80 long names
                                               // f<id>_LLL...L.c of 12 to 140 characters so that few entries fill the report buffer
static const char* fileName(unsigned id) { if (id >= fileNames.size()) { fprintf(stderr, "harness: file id\n"); exit(3); } return fileNames[id].c_str(); }

struct Recorder : public MemoryLeakFailure
{
    int nonalloc = 0, other = 0;
    void fail(char* s) override { if (strstr(s, "Deallocating non-allocated memory")) nonalloc++; else other++; }
};


struct Entry { long long addr; unsigned long size; unsigned number; unsigned file; int line; int kind; };
static void parseReport(const char* txt, Out& o)
{
    bool noleaks = strstr(txt, "No memory leaks were detected") != nullptr;
    bool many = strstr(txt, "Too many memory leaks to report") != nullptr;
    bool mnote = strstr(txt, "Memory leak reports about malloc and free") != nullptr;
    long total = 0;
    const char* ft = strstr(txt, "Total number of leaks:");
    if (ft) total = strtol(ft + strlen("Total number of leaks:"), nullptr, 10);
    std::vector<Entry> es;
    for (const char* p = strstr(txt, "Alloc num ("); p; p = strstr(p + 1, "Alloc num (")) {
        Entry e; char file[256], type[32]; void* mem = nullptr; int n = -1;
        if (sscanf(p, "Alloc num (%u) Leak size: %lu Allocated at: %255s and line: %d. Type: \"%31[^\"]\"\n\tMemory: <%p> Content:%n",
                   &e.number, &e.size, file, &e.line, type, &mem, &n) != 6 || n < 0) continue;
        unsigned fid = 0xffff; int m = -1;
        if (sscanf(file, "f%x%n", &fid, &m) != 1 || m < 0 || fid >= fileNames.size() || fileNames[fid] != file) fid = 0xffff;
        e.file = fid;
        e.kind = !strcmp(type, "new") ? 0 : !strcmp(type, "new []") ? 1 : !strcmp(type, "malloc") ? 2 : 0xff;
        e.addr = scen_of(mem);
        es.push_back(e);
    }
    std::sort(es.begin(), es.end(), [](const Entry& a, const Entry& b) {
        return std::make_tuple(a.number, a.addr, a.size, a.file, a.line, a.kind) < std::make_tuple(b.number, b.addr, b.size, b.file, b.line, b.kind); });
    o << "R" << (noleaks ? "1" : "0") << (many ? "1" : "0") << hx((unsigned long long)total) << (mnote ? "1" : "0") << hx(es.size());
    for (auto& e : es) o << hz(e.addr) << hx(e.size) << hx(e.number) << hx(e.file) << hz(e.line) << hx((unsigned)e.kind);
}

// a list walk that never ends (a cycle made by a broken unlink) must not stall the whole run: the scenario is abandoned after
// 2 s and its observation ends with the item HANG, which no oracle accepts
static sigjmp_buf hangJmp;
static void onAlarm(int) { siglongjmp(hangJmp, 1); }

int main()
{
    MemoryLeakWarningPlugin::turnOffNewDeleteOverloads();
    signal(SIGALRM, onAlarm);
    for (unsigned i = 0; i < 256; i++)
        fileNames.push_back("f" + hx(i) + (i < 0x80 ? std::string() : "_" + std::string(8 + 2 * (i & 0x3f), 'L')) + ".c");
    stride = (8 * HP + CAP + 7) & ~(size_t)7;
    arena = (char*)malloc(NSLOTS * stride + 64);
    arena = (char*)(((uintptr_t)arena + 15) & ~(uintptr_t)15);
    nodepool = (char*)malloc(NODEPOOL);
    static ArenaAllocator alloc[3] = { ArenaAllocator("Standard New Allocator", "new", "delete"),
                                       ArenaAllocator("Standard New [] Allocator", "new []", "delete []"),
                                       ArenaAllocator("Standard Malloc Allocator", "malloc", "free") };
    void* (*savedRealloc)(void*, size_t) = PlatformSpecificRealloc;
    Toks t; Out o;
    while (readline(t)) {
        bool sep = t.u() != 0;
        nodepool_used = 0;
        Recorder rec;
        failWhich = 0;
        if (sigsetjmp(hangJmp, 1)) { PlatformSpecificRealloc = savedRealloc; failWhich = 0; o << "HANG"; o.flush(); continue; }
        alarm(2);
        MemoryLeakDetector* det = new MemoryLeakDetector(&rec);
        int cur = 0;    // 0 disabled, 1 enabled, 2 checking: what the harness asked for last
        // the report/failure text accumulates in one buffer that only startChecking() empties (its size limit is property C14):
        // empty it through the public API and put the period back
        auto clearBuffer = [&]() { det->startChecking(); if (cur == 0) det->disable(); else if (cur == 1) det->enable(); };
        auto kindOf = [&](unsigned k) -> TestMemoryAllocator* { if (k > 2) { fprintf(stderr, "harness: kind\n"); exit(3); } return &alloc[k]; };
        while (!t.end()) {
            std::string op = t.sym();
            rec.nonalloc = rec.other = 0;
            if (op == "a") {
                unsigned long long a = t.u(); size_t sz = t.u(); unsigned k = t.n(); unsigned f = t.n(); size_t line = t.u();
                next_real = real_of(a);
                char* got = det->allocMemory(kindOf(k), sz, fileName(f), line, sep);
                if (got != real_of(a)) { fprintf(stderr, "harness: allocMemory returned another address\n"); exit(3); }
            } else if (op == "f") {
                std::string as = t.next(); unsigned k = t.n();
                char* mem = as == "~" ? nullptr : real_of(strtoull(as.c_str(), nullptr, 16));
                det->deallocMemory(kindOf(k), mem, "free.c", 1, sep);
                o << "F" << (rec.nonalloc ? "1" : "0") << (rec.other ? "1" : "0");
                if (rec.nonalloc || rec.other) clearBuffer();
            } else if (op == "r") {
                std::string as = t.next(); unsigned long long na = t.u(); size_t sz = t.u(); unsigned k = t.n(); unsigned f = t.n(); size_t line = t.u();
                char* mem = as == "~" ? nullptr : real_of(strtoull(as.c_str(), nullptr, 16));
                next_real = real_of(na);
                PlatformSpecificRealloc = arena_realloc;
                char* got = det->reallocMemory(kindOf(k), mem, sz, fileName(f), line, sep);
                PlatformSpecificRealloc = savedRealloc;
                next_real = nullptr;
                if (got && got != real_of(na)) { fprintf(stderr, "harness: reallocMemory returned another address\n"); exit(3); }
                o << "F" << (rec.nonalloc ? "1" : "0") << (rec.other ? "1" : "0");
                if (rec.nonalloc || rec.other) clearBuffer();
            }
            else if (op == "af" || op == "rf") {
                // a request the underlying allocator refuses
                char* mem = nullptr;
                if (op == "rf") { std::string as = t.next(); mem = as == "~" ? nullptr : real_of(strtoull(as.c_str(), nullptr, 16)); }
                size_t sz = t.u(); unsigned k = t.n(); unsigned f = t.n(); size_t line = t.u(); unsigned w = t.n();
                if (w != 1 && w != 2) { fprintf(stderr, "harness: which call fails?\n"); exit(3); }
                failWhich = (w == 2 && sep) ? 2 : 1;           // no separate record with the inline layout: the block fails
                next_real = nullptr;
                char* got;
                if (op == "af") got = det->allocMemory(kindOf(k), sz, fileName(f), line, sep);
                else {
                    PlatformSpecificRealloc = arena_realloc;
                    got = det->reallocMemory(kindOf(k), mem, sz, fileName(f), line, sep);
                    PlatformSpecificRealloc = savedRealloc;
                }
                failWhich = 0;
                o << "F" << (rec.nonalloc ? "1" : "0") << ((rec.other || got) ? "1" : "0");
                if (rec.nonalloc || rec.other) clearBuffer();
            }
            else if (op == "dis") { det->disable(); cur = 0; }
            else if (op == "en") { det->enable(); cur = 1; }
            else if (op == "start") { det->startChecking(); cur = 2; }
            else if (op == "stop") { det->stopChecking(); cur = 1; }
            else if (op == "inc") det->increaseAllocationStage();
            else if (op == "dec") det->decreaseAllocationStage();
            else if (op == "das") {
                det->deallocAllMemoryInCurrentAllocationStage();
                o << "S" << hx(rec.nonalloc) << hx(rec.other);
                if (rec.nonalloc || rec.other) clearBuffer();
            }
            else if (op == "mark") det->markCheckingPeriodLeaksAsNonCheckingPeriod();
            else if (op == "clr") det->clearAllAccounting((MemLeakPeriod)t.n());
            else if (op == "q") {
                o << "T" << hx(det->totalMemoryLeaks(mem_leak_period_all)) << hx(det->totalMemoryLeaks(mem_leak_period_disabled))
                  << hx(det->totalMemoryLeaks(mem_leak_period_enabled)) << hx(det->totalMemoryLeaks(mem_leak_period_checking));
            }
            else if (op == "rep") {
                MemLeakPeriod p = (MemLeakPeriod)t.n();
                clearBuffer();
                parseReport(det->report(p), o);
                clearBuffer();
            }
            else { fprintf(stderr, "harness: bad op %s\n", op.c_str()); exit(3); }
        }
        alarm(0);
        delete det;
        o.flush();
    }
    return 0;
}
