// C11 harness: tests run through a real TestRegistry, some of them in a separate process; one or several runAllTests passes.
// Scenario (see checks/C11.py):   [:ri] <all_sep 0|1> <ntests> ([:ign] test)*                                  one pass
//                             |   :m <nsteps> step*                                                         several passes over ONE registry
//   step ::= <sep 0|1> <ri 0|1> <nadd> ([:from <k>] [:own] [:ign] test)*nadd
//           before the pass: TestRegistry::setRunTestsInSeperateProcess() if sep, TestRegistry::setRunIgnored() if ri, then the
//           listed tests are added (addTest in reverse, so that they are met in the listed order, in front of all older tests);
//           then runAllTests with a TestResult of its own.  :from k = the test is an empty passing test in the passes before pass k
//           (passes count from 0);  :own = the shell gets UtestShell::setRunInSeperateProcess() when it is made
//   :ri   = registry-wide run-ignored switch (TestRegistry::setRunIgnored, "-ri");  :ign = the test is an IGNORE_TEST (its shell
//           derives from IgnoredUtestShell)
//   test ::= :plain <fail 0|1>
//          | :scr <fork_ok 0|1> <n> wout*n         wout ::= :ei | :er <errno> | :x <k> | :k <sig> <core 0|1> | :s <sig> | :c
//          | :real <n> act*n (x5: plugin pre action, setup, body, teardown, plugin post action) <n> inj*n
//                                                  act ::= :r <sig> | :e <k> | :f        inj ::= :ei | :er | :re
//          | :env <chld 0..5> <n> sib*n <eintr> <the fields of :real>      a real child under a process-level configuration:
//                 chld = what the program did to SIGCHLD: 0 SIG_DFL, 1 SIG_IGN, 2 SIG_DFL + SA_NOCLDWAIT, 3 handler + SA_NOCLDWAIT,
//                        4 a handler that reaps with waitpid(-1, .., WNOHANG) and has run before the runner's wait, 5 a handler that only counts
//                 sib ::= :sx <late 0|1> <k> | :sk <late 0|1> <sig>   another child of the runner: _exit(k) / killed by sig; dead before the
//                        test's child is forked (late = 0: a zombie under chld 0 / 5) or ending while the test's child is waited for
//                 eintr = number of GENUINE EINTR answers: the child is held back, a periodic timer signal with a non-restarting handler
//                        interrupts the blocked wait; the child is let go in front of real wait number <eintr>
// Observation, per pass:  per test met ":t <started> <nf> cat*nf <waitpid calls> <SIGCONT seen> <lost>"   cat ::= :x | :k <sig> | :s | :fk | :wi | :w | :ck | :o
//                         then         ":end <failure count> <isFailure> <run count> <ignored count> <late>"
//              and, if the runner's own process did not live through all the passes,  ":died <pass> :killed|:exited|:stopped <n>"
// Every scenario is run in a runner process of its own under this harness as supervisor (fork, waitpid with WUNTRACED): a test
// that is executed in the runner's own process and kills, ends or stops it is SEEN -- as ":died" -- instead of taking the harness
// down; the passes that were over by then are still reported.
// <started> of a test that is to run in a separate process: the runner asked for a child; of a test run in the current process and
// of an ignored test that is not to run at all: it reached its first action point (plugin pre action) or a child was asked for.
// Separate process: a one-pass line with all_sep = 0 gives scripted and real tests a flag of their own (:own); with all_sep = 1 NO
// test carries its own flag, every child comes from the registry-wide flag alone.
// Scripted tests replace PlatformSpecificFork / PlatformSpecificWaitPid by stubs replaying the outcome list (errno set); the "child"
// pid they report is the runner's own pid, so the runner's kill(pid, SIGCONT) is counted by a SIGCONT handler.  Real tests go
// through the library's OWN implementations of the two seams (the values PlatformSpecificFork / PlatformSpecificWaitPid had at
// start-up: PlatformSpecificForkImplementation / PlatformSpecificWaitPidImplementation) behind a wrapper that counts calls and can
// inject EINTR / an error in front of the real call -- so what those implementations do with the kernel's answers (the status, -1
// with ECHILD, -1 with EINTR) is inside what is observed.
#include <unistd.h>
#include <signal.h>
#include <errno.h>
#include <sys/wait.h>
#include <sys/mman.h>
#include <sys/prctl.h>
#include <sys/resource.h>
#include <sys/time.h>
#include <time.h>
#include "hlib.h"
#include "CppUTest/TestHarness.h"
#include "CppUTest/TestRegistry.h"
#include "CppUTest/TestOutput.h"
#include "CppUTest/TestPlugin.h"
#include "CppUTest/TestResult.h"
#include "CppUTest/TestFailure.h"
#include "CppUTest/PlatformSpecificFunctions.h"
using namespace hl;

enum { RUNAWAY = 300 };
// deadline of one scenario: generous until the implementation has shown that it hangs, then short (never shortened on a healthy run)
static int gLates = 0;
static long deadlineMs();
static long deadlineMs() { return gLates == 0 ? 4000 : gLates == 1 ? 1000 : 100; }
static void setDeadline(long ms) { struct itimerval it; memset(&it, 0, sizeof it); it.it_value.tv_sec = ms / 1000; it.it_value.tv_usec = (ms % 1000) * 1000; setitimer(ITIMER_REAL, &it, 0); }

struct Act { int kind; int arg; };                      // 0 raise, 1 _exit, 2 fail
struct Wout { int kind; int status; };                  // 0 EINTR, 1 other error, 2 status word
struct TestDef {
    int kind;                                           // 0 plain, 1 scripted, 2 real
    bool ign;                                           // IGNORE_TEST
    bool own;                                           // own separate-process flag
    int from;                                           // shows its behaviour from this pass on
    bool fail, forkOk;
    std::vector<Wout> ws;
    std::vector<Act> ph[5];
    std::vector<int> inj;                               // 0 EINTR, 1 error, 2 real
    bool env; int chld; int eintr;                      // process-level configuration (see the head of the file)
    std::vector<Act> sibs;                              // kind 0/1 = _exit(arg) early/late, 2/3 = killed by arg early/late
    int realCalls;                                      // calls that reached the real wait
    // what happened
    int calls, conts; pid_t cpid; bool forkCalled; bool lost; bool settled;
    std::vector<std::string> cats;
};
struct Step { bool sep, ri; std::vector<int> add; };   // add: indices into gT, in the order in which the tests are to be met
static std::vector<TestDef> gT;
static std::vector<Step> gSteps;
static int gCur = -1;
static int gPass = 0;
struct Shared { volatile int pass; volatile int late; volatile int done; volatile int chunks; volatile int release; volatile int sibgo; volatile unsigned char marks[4000]; };
static Shared* gSh;                                     // shared with the runner and its children
#define gMarks (gSh->marks)                             // test i reached its first action point (in the current pass)
static int effKind(int i) { return gPass < gT[i].from ? 0 : gT[i].kind; }          // before its pass a test is an empty passing test
static bool effFail(int i) { return gPass < gT[i].from ? false : gT[i].fail; }
static volatile sig_atomic_t gLate;
static volatile pid_t gLiveChild;
static bool gRunaway;

static void setDeadline(long ms);
static void onAlarm(int) { gLate = 1; if (gLiveChild > 0) kill(gLiveChild, SIGKILL); setDeadline(100); }   // re-armed: later tests of the scenario may hang too
static void onCont(int) { if (gCur >= 0) gT[gCur].conts++; }   // only ever raised synchronously by the runner's kill(own pid, SIGCONT)

static void envOff();                                   // back to the default configuration (defined with the wrappers below)
// a child the runner left behind when it returned from test i: found (and ended) before anything else happens in the process
static void settle(int i)
{
    TestDef& d = gT[i];
    if (d.cpid <= 0 || d.settled) return;
    d.settled = true;
    int cs = 0; pid_t r = waitpid(d.cpid, &cs, WNOHANG);
    if (r == d.cpid) d.lost = true;
    else if (r == 0) { d.lost = true; kill(d.cpid, SIGKILL); while (waitpid(d.cpid, &cs, 0) < 0 && errno == EINTR) {} }
    // a child the kernel / the program's handler takes away is never "left behind" by the runner (and whether it was still there
    // at this moment would be a race)
    if (effKind(i) == 2 && d.env && d.chld != 0 && d.chld != 5) d.lost = false;
}

static void interp(const std::vector<Act>& v, bool plugin, TestResult* res, UtestShell* sh)
{
    for (size_t i = 0; i < v.size(); i++) {
        switch (v[i].kind) {
        case 0: raise(v[i].arg); break;
        case 1: _exit(v[i].arg);
        default:
            if (plugin) res->addFailure(TestFailure(sh, "check failed in a plugin action"));
            else FAIL("check failed");
        }
    }
}

class ActionPlugin : public TestPlugin
{
public:
    ActionPlugin() : TestPlugin("C11Actions") {}
    void preTestAction(UtestShell& t, TestResult& r) CPPUTEST_OVERRIDE
    {
        if (gCur < 0) return;
        gMarks[gCur] = 1;
        if (effKind(gCur) == 2) interp(gT[gCur].ph[0], true, &r, &t);
    }
    void postTestAction(UtestShell& t, TestResult& r) CPPUTEST_OVERRIDE
    {
        if (gCur >= 0 && effKind(gCur) == 2) interp(gT[gCur].ph[4], true, &r, &t);
    }
};

class ScriptedUtest : public Utest
{
public:
    int idx_;
    explicit ScriptedUtest(int i) : idx_(i) {}
    void setup() CPPUTEST_OVERRIDE { if (effKind(idx_) == 2) interp(gT[idx_].ph[1], false, 0, 0); }
    void testBody() CPPUTEST_OVERRIDE
    {
        if (effKind(idx_) == 2) interp(gT[idx_].ph[2], false, 0, 0);
        else if (effFail(idx_)) FAIL("check failed");
    }
    void teardown() CPPUTEST_OVERRIDE { if (effKind(idx_) == 2) interp(gT[idx_].ph[3], false, 0, 0); }
};
class ScriptedShell : public UtestShell
{
public:
    int idx_;
    ScriptedShell(int i, const char* name) : UtestShell("G", name, "script.cpp", 1), idx_(i) {}
    Utest* createTest() CPPUTEST_OVERRIDE { return new ScriptedUtest(idx_); }
};
class IgnoredScriptedShell : public IgnoredUtestShell      // what IGNORE_TEST(G, Ti) declares
{
public:
    int idx_;
    IgnoredScriptedShell(int i, const char* name) : IgnoredUtestShell("G", name, "script.cpp", 1), idx_(i) {}
    Utest* createTest() CPPUTEST_OVERRIDE { return new ScriptedUtest(idx_); }
};

// canonicaliser, mirrored by C11_Model.categorise: keywords, first match wins
static std::string categorise(const std::string& m)
{
    if (m.find("fork") != std::string::npos) return ":fk";
    if (m.find("EINTR") != std::string::npos) return ":wi";
    if (m.find("waitpid") != std::string::npos) return ":w";
    size_t p = m.find("signal ");
    if (p != std::string::npos) {
        unsigned long long v = 0; size_t i = p + 7;
        while (i < m.size() && m[i] >= '0' && m[i] <= '9' && v < (1ULL << 40)) { v = v * 10 + (unsigned)(m[i] - '0'); i++; }
        return ":k " + hx(v);
    }
    if (m.find("topped") != std::string::npos) return ":s";
    if (m.find("separate process") != std::string::npos) return ":x";
    if (m.find("check") != std::string::npos) return ":ck";
    return ":o";
}

class RecOutput : public TestOutput
{
public:
    void printBuffer(const char*) CPPUTEST_OVERRIDE {}
    void flush() CPPUTEST_OVERRIDE {}
    void printCurrentTestStarted(const UtestShell& t) CPPUTEST_OVERRIDE
    {
        if (gCur >= 0) settle(gCur);                          // the test before: its child, if left behind, and
        envOff();                                             // its configuration
        gCur = atoi(t.getName().asCharString() + 1);
        if (gCur < 0 || gCur >= (int)gT.size()) gCur = -1;
    }
    void printFailure(const TestFailure& f) CPPUTEST_OVERRIDE
    {
        int i = atoi(f.getTestNameOnly().asCharString() + 1);
        std::string c = categorise(f.getMessage().asCharString());
        if (i >= 0 && i < (int)gT.size()) gT[i].cats.push_back(c);
    }
};

// ---- process-level configuration of the runner while one test's child is waited for ----
static int (*origFork)(void);
static int (*origWait)(int, int*, int);
static volatile sig_atomic_t gChldSeen;
static void chldReaper(int) { int e = errno; int st; while (waitpid(-1, &st, WNOHANG) > 0) {} gChldSeen = 1; errno = e; }
static void chldCounter(int) { gChldSeen = gChldSeen + 1; }
static void usr2Noop(int) {}
static std::vector<pid_t> gSibs;
static bool gEnvOn = false;
static timer_t gTimer; static bool gTimerMade = false;

static void setChld(int mode)
{
    struct sigaction sa; memset(&sa, 0, sizeof sa); sigemptyset(&sa.sa_mask);
    switch (mode) {
    case 1: sa.sa_handler = SIG_IGN; break;
    case 2: sa.sa_handler = SIG_DFL; sa.sa_flags = SA_NOCLDWAIT; break;
    case 3: sa.sa_handler = chldCounter; sa.sa_flags = SA_NOCLDWAIT | SA_RESTART; break;
    case 4: sa.sa_handler = chldReaper; sa.sa_flags = SA_RESTART; break;
    case 5: sa.sa_handler = chldCounter; sa.sa_flags = SA_NOCLDSTOP | SA_RESTART; break;
    default: sa.sa_handler = SIG_DFL; break;
    }
    sigaction(SIGCHLD, &sa, 0);
}
static void armTimer(bool on)
{
    struct itimerspec its; memset(&its, 0, sizeof its);
    if (on) { its.it_value.tv_nsec = 150000; its.it_interval.tv_nsec = 150000; }
    timer_settime(gTimer, 0, &its, 0);
}
// wait (without reaping) until this child of ours has changed state or is no longer ours
static void untilChanged(pid_t p, int what)
{
    siginfo_t si;
    for (;;) { memset(&si, 0, sizeof si); if (waitid(P_PID, (id_t)p, &si, what | WNOWAIT) < 0 && errno == EINTR) continue; break; }
}
static void envOff()
{
    if (!gEnvOn) return;
    gEnvOn = false;
    if (gTimerMade) armTimer(false);
    gSh->release = 1; gSh->sibgo = 1;
    setChld(0);
    signal(SIGUSR2, SIG_DFL);
    for (size_t i = 0; i < gSibs.size(); i++) {
        int st = 0; pid_t r = waitpid(gSibs[i], &st, WNOHANG);
        if (r == 0) { kill(gSibs[i], SIGKILL); while (waitpid(gSibs[i], &st, 0) < 0 && errno == EINTR) {} }
    }
    gSibs.clear();
}
static void childSide()
{
    prctl(PR_SET_PDEATHSIG, SIGKILL);
    signal(SIGALRM, SIG_DFL);
    signal(SIGCONT, SIG_DFL);
    signal(SIGCHLD, SIG_DFL);
    signal(SIGUSR2, SIG_DFL);
    { struct itimerval z; memset(&z, 0, sizeof z); setitimer(ITIMER_REAL, &z, 0); }
}
static void envOn(TestDef& d)
{
    gEnvOn = true;
    gSh->release = d.eintr > 0 ? 0 : 1; gSh->sibgo = 0; gChldSeen = 0;
    setChld(d.chld);
    if (d.eintr > 0) {
        struct sigaction sa; memset(&sa, 0, sizeof sa); sigemptyset(&sa.sa_mask); sa.sa_handler = usr2Noop;   // no SA_RESTART
        sigaction(SIGUSR2, &sa, 0);
        if (!gTimerMade) {
            struct sigevent ev; memset(&ev, 0, sizeof ev); ev.sigev_notify = SIGEV_SIGNAL; ev.sigev_signo = SIGUSR2;
            if (timer_create(CLOCK_MONOTONIC, &ev, &gTimer) < 0) { perror("timer_create"); _exit(3); }
            gTimerMade = true;
        }
    }
    for (size_t i = 0; i < d.sibs.size(); i++) {
        const Act& b = d.sibs[i];
        fflush(stdout);
        pid_t s = fork();
        if (s == 0) {
            childSide();
            if (b.kind & 1) while (!gSh->sibgo) usleep(50);
            if (b.kind < 2) _exit(b.arg);
            raise(b.arg); _exit(99);
        }
        if (s < 0) { perror("fork (sibling)"); _exit(3); }
        gSibs.push_back(s);
        if (!(b.kind & 1)) untilChanged(s, WEXITED);         // dead (a zombie, or already taken away) before the test's child exists
    }
}

extern "C" {
static int forkWrapper(void)
{
    if (gCur < 0) return -1;
    TestDef& d = gT[gCur];
    d.forkCalled = true;
    if (effKind(gCur) == 1) {
        if (!d.forkOk) { errno = EAGAIN; return -1; }
        return (int)getpid();
    }
    envOff();
    if (effKind(gCur) == 2 && d.env) envOn(d);
    fflush(stdout);
    pid_t p = (pid_t)origFork();                 // the library's own implementation of the seam
    if (p == 0) {
        childSide();
        while (!gSh->release) usleep(50);        // held back while genuine EINTRs are produced
        return 0;
    }
    if (p > 0) { d.cpid = p; gLiveChild = p; }
    return (int)p;
}

static int waitWrapper(int pid, int* status, int options)
{
    if (gCur < 0) { errno = ECHILD; return -1; }
    TestDef& d = gT[gCur];
    int k = d.calls++;
    if (d.calls > RUNAWAY) {                 // a loop that does not end: leave it the way a failing test leaves its body
        gRunaway = true;
        if (d.cpid > 0) kill(d.cpid, SIGKILL);
        PlatformSpecificLongJmp();
    }
    if (effKind(gCur) == 1) {
        if (k >= (int)d.ws.size()) { *status = 0; return (int)getpid(); }
        const Wout& w = d.ws[k];
        if (w.kind == 0) { errno = EINTR; return -1; }
        if (w.kind == 1) { errno = w.status; return -1; }
        *status = w.status;
        return (int)getpid();
    }
    if (effKind(gCur) == 2 && k < (int)d.inj.size()) {          // faults are injected only while the test shows its behaviour
        if (d.inj[k] == 0) { errno = EINTR; return -1; }
        if (d.inj[k] == 1) { errno = EIO; return -1; }
    }
    bool env = effKind(gCur) == 2 && d.env && gEnvOn;
    int j = d.realCalls++;
    if (env && !gSh->sibgo) gSh->sibgo = 1;                     // the late siblings end while this child is waited for
    if (env && j < d.eintr) {                                   // the child is held back: the kernel answers EINTR
        armTimer(true);
        int r = origWait(pid, status, options);
        int e = errno;
        armTimer(false);                                        // nothing of it is pending any more when this returns
        errno = e;
        if (r == pid && (WIFEXITED(*status) || WIFSIGNALED(*status))) gLiveChild = 0;
        return r;
    }
    if (env && j == d.eintr) gSh->release = 1;
    if (env && d.chld == 4 && d.cpid > 0) untilChanged(d.cpid, WEXITED | WSTOPPED);   // the program's handler has run before this wait
    int r = origWait(pid, status, options);                     // the library's own implementation of the seam
    int e = errno;
    if (r == pid && (WIFEXITED(*status) || WIFSIGNALED(*status))) gLiveChild = 0;
    errno = e;
    return r;
}
}

static std::vector<Act> parseActs(Toks& t)
{
    std::vector<Act> v; int n = t.n();
    for (int i = 0; i < n; i++) {
        std::string k = t.sym(); Act a; a.kind = 2; a.arg = 0;
        if (k == "r") { a.kind = 0; a.arg = t.n(); if (a.arg < 1 || a.arg > 31) { fprintf(stderr, "harness: signal out of 1..31\n"); exit(3); } }
        else if (k == "e") { a.kind = 1; a.arg = t.n() & 255; }
        else if (k == "f") a.kind = 2;
        else { fprintf(stderr, "harness: bad action %s\n", k.c_str()); exit(3); }
        v.push_back(a);
    }
    return v;
}

static TestDef parseTest(Toks& t)
{
    TestDef d; d.kind = 0; d.ign = false; d.own = false; d.from = 0; d.fail = false; d.forkOk = true;
    d.calls = 0; d.conts = 0; d.cpid = 0; d.forkCalled = false; d.lost = false; d.settled = false;
    d.env = false; d.chld = 0; d.eintr = 0; d.realCalls = 0;
    if (t.peek() == ":from") { t.next(); d.from = t.n(); }
    if (t.peek() == ":own") { t.next(); d.own = true; }
    if (t.peek() == ":ign") { t.next(); d.ign = true; }
    std::string k = t.sym();
    if (k == "plain") { d.kind = 0; d.fail = t.n() != 0; }
    else if (k == "scr") {
        d.kind = 1; d.forkOk = t.n() != 0;
        int m = t.n();
        for (int j = 0; j < m; j++) {
            std::string wk = t.sym(); Wout w; w.kind = 2; w.status = 0;
            if (wk == "ei") w.kind = 0;
            else if (wk == "er") { w.kind = 1; w.status = t.n(); }      // errno of the failing wait
            else if (wk == "x") w.status = (t.n() & 255) << 8;                       // the kernel's packing of a status word
            else if (wk == "k") { int sg = t.n(); int core = t.n(); w.status = (sg & 127) | (core ? 128 : 0); }
            else if (wk == "s") w.status = ((t.n() & 255) << 8) | 0x7f;
            else if (wk == "c") w.status = 0xffff;
            else { fprintf(stderr, "harness: bad outcome %s\n", wk.c_str()); exit(3); }
            d.ws.push_back(w);
        }
    }
    else if (k == "real" || k == "env") {
        d.kind = 2;
        if (k == "env") {
            d.env = true;
            d.chld = t.n(); if (d.chld < 0 || d.chld > 5) { fprintf(stderr, "harness: bad SIGCHLD configuration\n"); exit(3); }
            int ns = t.n(); if (ns > 8) { fprintf(stderr, "harness: too many siblings\n"); exit(3); }
            for (int j = 0; j < ns; j++) {
                std::string sk = t.sym(); Act b; int late = t.n() != 0 ? 1 : 0; b.arg = t.n();
                if (sk == "sx") { b.kind = late; b.arg &= 255; }
                else if (sk == "sk") { b.kind = 2 + late; if (b.arg < 1 || b.arg > 31) { fprintf(stderr, "harness: sibling signal out of 1..31\n"); exit(3); } }
                else { fprintf(stderr, "harness: bad sibling %s\n", sk.c_str()); exit(3); }
                d.sibs.push_back(b);
            }
            d.eintr = t.n(); if (d.eintr > 64) { fprintf(stderr, "harness: too many interruptions\n"); exit(3); }
        }
        for (int p = 0; p < 5; p++) d.ph[p] = parseActs(t);
        int m = t.n();
        for (int j = 0; j < m; j++) { std::string ik = t.sym(); d.inj.push_back(ik == "ei" ? 0 : ik == "er" ? 1 : 2); }
    }
    else { fprintf(stderr, "harness: bad test %s\n", k.c_str()); exit(3); }
    return d;
}

static void parseScenario(Toks& t)
{
    gT.clear(); gSteps.clear();
    if (t.peek() == ":m") {
        t.next();
        int ns = t.n();
        if (ns > 64) { fprintf(stderr, "harness: too many passes\n"); exit(3); }
        for (int k = 0; k < ns; k++) {
            Step st; st.sep = t.n() != 0; st.ri = t.n() != 0;
            int n = t.n();
            for (int i = 0; i < n; i++) { st.add.push_back((int)gT.size()); gT.push_back(parseTest(t)); }
            gSteps.push_back(st);
        }
    } else {
        Step st; st.ri = false;
        if (t.peek() == ":ri") { t.next(); st.ri = true; }
        st.sep = t.n() != 0;
        int n = t.n();
        for (int i = 0; i < n; i++) {
            TestDef d = parseTest(t);
            d.own = d.kind != 0 && !st.sep;                   // own flag only without the registry-wide one
            st.add.push_back((int)gT.size()); gT.push_back(d);
        }
        gSteps.push_back(st);
    }
    if (gT.size() > 4000) { fprintf(stderr, "harness: too many tests\n"); exit(3); }
    if (!t.end()) { fprintf(stderr, "harness: trailing tokens\n"); exit(3); }
}

// the runner: one registry, the passes of the scenario one after the other; the observation of a pass is written when the pass is over
static int runScenario()
{
    TestRegistry reg;
    reg.setCurrentRegistry(&reg);
    ActionPlugin plugin;
    reg.installPlugin(&plugin);
    std::vector<UtestShell*> shells(gT.size(), (UtestShell*)0);
    std::vector<std::string> names;
    for (size_t i = 0; i < gT.size(); i++) names.push_back("T" + std::to_string(i));
    std::vector<int> present;                                // the tests of the registry, in the order in which a pass meets them
    bool sepOn = false, riOn = false;                        // what the program has switched on so far
    for (size_t k = 0; k < gSteps.size(); k++) {
        const Step& st = gSteps[k];
        gPass = (int)k; gSh->pass = (int)k;
        if (st.sep) { reg.setRunTestsInSeperateProcess(); sepOn = true; }
        if (st.ri) { reg.setRunIgnored(); riOn = true; }
        for (int j = (int)st.add.size() - 1; j >= 0; j--) {  // addTest puts the new test in front
            int i = st.add[j];
            if (gT[i].ign) shells[i] = new IgnoredScriptedShell(i, names[i].c_str());
            else shells[i] = new ScriptedShell(i, names[i].c_str());
            if (gT[i].own) shells[i]->setRunInSeperateProcess();
            reg.addTest(shells[i]);
        }
        present.insert(present.begin(), st.add.begin(), st.add.end());
        for (size_t q = 0; q < present.size(); q++) {
            TestDef& d = gT[present[q]];
            d.calls = 0; d.conts = 0; d.cpid = 0; d.forkCalled = false; d.lost = false; d.settled = false; d.cats.clear(); d.realCalls = 0;
        }
        memset((void*)gMarks, 0, sizeof gSh->marks);
        gCur = -1; gLate = 0; gRunaway = false; gLiveChild = 0;
        size_t total = 0, runCount = 0, ignCount = 0; bool isFail = false;
        {
            RecOutput out;
            TestResult result(out);                          // every pass has a result of its own (as every repetition of -r has)
            setDeadline(deadlineMs());
            reg.runAllTests(result);
            setDeadline(0);
            if (gCur >= 0) settle(gCur);
            envOff();
            if (gLate) { gLates++; gSh->late = 1; }
            total = result.getFailureCount(); runCount = result.getRunCount(); ignCount = result.getIgnoredCount(); isFail = result.isFailure();
        }
        gCur = -1;
        // children the runner left behind
        for (size_t q = 0; q < present.size(); q++) settle(present[q]);
        Out o;
        for (size_t q = 0; q < present.size(); q++) {
            int i = present[q];
            TestDef& d = gT[i];
            bool sepMode = d.own || sepOn;
            bool started = (d.ign && !riOn) ? (d.forkCalled || gMarks[i] != 0)                 // not to run at all
                         : (effKind(i) != 0 || sepMode) ? d.forkCalled : gMarks[i] != 0;       // separate process: the runner asked for a child
            o << ":t" << (started ? "1" : "0") << hx(d.cats.size());
            for (size_t j = 0; j < d.cats.size(); j++) o << d.cats[j];
            o << hx((unsigned)d.calls) << hx((unsigned)d.conts) << (d.lost ? "1" : "0");
        }
        o << ":end" << hx(total) << (isFail ? "1" : "0") << hx(runCount) << hx(ignCount) << ((gLate || gRunaway) ? "1" : "0");
        if (gSh->chunks) fputc(' ', stdout);
        fputs(o.s.c_str(), stdout); fflush(stdout); gSh->chunks = gSh->chunks + 1;
    }
    gSh->done = 1;
    return 0;
}

// the supervisor: one runner process per scenario
static int mainLoop()
{
    // default disposition for every signal, nothing blocked, no core files
    for (int s = 1; s < 32; s++) if (s != SIGKILL && s != SIGSTOP) signal(s, SIG_DFL);
    sigset_t none; sigemptyset(&none); sigprocmask(SIG_SETMASK, &none, 0);
    struct rlimit rl; rl.rlim_cur = rl.rlim_max = 0; setrlimit(RLIMIT_CORE, &rl);
    gSh = (Shared*)mmap(0, sizeof(Shared), PROT_READ | PROT_WRITE, MAP_SHARED | MAP_ANONYMOUS, -1, 0);
    if (gSh == MAP_FAILED) { perror("mmap"); return 3; }
    origFork = PlatformSpecificFork;                         // PlatformSpecificForkImplementation
    origWait = PlatformSpecificWaitPid;                      // PlatformSpecificWaitPidImplementation
    PlatformSpecificFork = forkWrapper;
    PlatformSpecificWaitPid = waitWrapper;

    Toks t;
    while (readline(t)) {
        parseScenario(t);
        gSh->pass = 0; gSh->late = 0; gSh->done = 0; gSh->chunks = 0; gSh->release = 1; gSh->sibgo = 0;
        fflush(stdout);
        pid_t runner = fork();
        if (runner < 0) { perror("fork"); return 3; }
        if (runner == 0) {
            prctl(PR_SET_PDEATHSIG, SIGKILL);
            struct sigaction sa; memset(&sa, 0, sizeof sa); sa.sa_flags = SA_RESTART; sigemptyset(&sa.sa_mask);
            sa.sa_handler = onAlarm; sigaction(SIGALRM, &sa, 0);
            sa.sa_handler = onCont; sigaction(SIGCONT, &sa, 0);
            int rc = runScenario();
            fflush(stdout);
            _exit(rc);
        }
        int st = 0;
        for (;;) {
            pid_t r = waitpid(runner, &st, WUNTRACED);
            if (r < 0 && errno == EINTR) continue;
            if (r < 0) { perror("waitpid"); return 3; }
            break;
        }
        if (WIFSTOPPED(st)) {                          // nobody would ever continue it
            int sg = WSTOPSIG(st);
            kill(runner, SIGKILL);
            while (waitpid(runner, &st, 0) < 0 && errno == EINTR) {}
            printf("%s:died %x :stopped %x\n", gSh->chunks ? " " : "", (unsigned)gSh->pass, (unsigned)sg);
        }
        else if (WIFSIGNALED(st)) printf("%s:died %x :killed %x\n", gSh->chunks ? " " : "", (unsigned)gSh->pass, (unsigned)WTERMSIG(st));
        else if (WEXITSTATUS(st) != 0 || !gSh->done) printf("%s:died %x :exited %x\n", gSh->chunks ? " " : "", (unsigned)gSh->pass, (unsigned)WEXITSTATUS(st));
        else printf("\n");
        fflush(stdout);
        if (gSh->late) gLates++;
    }
    return 0;
}

int main()
{
    setvbuf(stdout, NULL, _IOLBF, 0);
    // Run the sessions in a process group of their own whose leader's parent stays in the old group of the same session: the
    // group is then not orphaned, so SIGTSTP/SIGTTIN/SIGTTOU stop a child exactly like SIGSTOP (an orphaned group discards them).
    if (!isatty(0)) {
        pid_t w = fork();
        if (w == 0) {
            prctl(PR_SET_PDEATHSIG, SIGKILL);
            setpgid(0, 0);
            int rc = mainLoop(); fflush(stdout); _exit(rc);
        }
        if (w > 0) {
            int st = 0;
            for (;;) {
                pid_t r = waitpid(w, &st, WUNTRACED);
                if (r < 0 && errno == EINTR) continue;
                if (r == w && WIFSTOPPED(st)) {
                    // the session process itself was stopped: a test that should have had a child ran in the runner's own process.
                    // Nobody would ever continue it -- report it as a death of the harness instead of hanging.
                    fprintf(stderr, "harness: the runner's own process was stopped by signal %d\n", WSTOPSIG(st));
                    kill(w, SIGKILL);
                    while (waitpid(w, &st, 0) < 0 && errno == EINTR) {}
                    return 70;
                }
                break;
            }
            if (WIFSIGNALED(st)) { signal(WTERMSIG(st), SIG_DFL); raise(WTERMSIG(st)); return 128 + WTERMSIG(st); }
            return WEXITSTATUS(st);
        }
    }
    return mainLoop();
}
