// C01 harness: a private TestRegistry of scripted tests (setup/body/teardown = statement lists), a plugin that adds scripted
// failures before/after a test, run either by TestRegistry::runAllTests (StringBufferTestOutput) or by
// CommandLineTestRunner(ac, av, &registry).runAllTestsMain() (console captured through PlatformSpecificFPuts).
// Scenario:  <cli> <rethrow> <filter> <runign> <repeat> <ntests> { <ignored> <sel> <line> <setup> <body> <teardown> <pre> <post> }
//            stmt list = <n> { <base> | :r <cond> <k> <base> <base> } ; base = :n | :c | :x <file> <line> | :j <file> <line> | :s | :o
//                                                                      | :k :<kind> <agree> <file> <line>
//            ":k" = a check through one assert entry point (CKNAMES below: the member functions of UtestShell with the current terminator,
//            the C-interface functions of TestHarness_c.cpp, the CHECK_COMPARE_LOCATION macro), handed the location FILES[file]:line and
//            operands that satisfy the asserted relation (agree = 1) or do not (agree = 0); the operands are a function of (kind, agree,
//            line): odd lines take the NULL-operand branches of the string / binary / pointer functions (doCheckK).
//            pre/post = <n> { <line> | :r <cond> <k> <line> } ; cond = :eq | :ne | :lt | :ge
//            ":r c k A B" behaves as A in the runs of this test whose number (0,1,2,... = static counter in the test) satisfies c k, as B in
//            the others; a conditional plugin line is reported only in the matching runs (static counter in the plugin).
//            compound statements (builds with exceptions only):
//              :t :<hk> <n> { inner } <m> { inner }          try { the n inner statements } catch (<hk>) { the m inner statements }
//                                                            hk = :std (const std::exception&) | :int (int) | :unrel (const Unrelated&) | :all (...)
//              :w :<ek> <file> <line> <n> { inner }          CHECK_THROWS(<ek>, helper()) with helper() = the n inner statements; ek = :std | :int | :unrel;
//                                                            the macro takes __FILE__, __LINE__: (file, line) must be FILES[file]:(7000 + 16*file + ek)
//              inner = :n | :c | :x <file> <line> | :j <file> <line> | :s | :o | :k :<kind> <agree> <file> <line>
//            an executed inner statement is logged as a SUB event (test phase idx sub): sub counts the statements of the block from 0, those of
//            the handler go on behind the block's
//            optional suffix  :mac  = the tests are made by the PUBLIC MACROS: TEST_GROUP / TEST / IGNORE_TEST (tests without setup and teardown
//            statements) and TEST_GROUP with TEST_SETUP / TEST_TEARDOWN (the others); an ignored test is an IGNORE_TEST.  The shells the macros
//            define are taken from a fixed pool (at most MAC_RUN / MAC_IGN of each kind per scenario, else "skip"), relabelled (group, name,
//            file, line) and put into the private registry in place of the hand-made shells.
//            optional suffix  :io <sink> <sep> <verbose> <color> <cap>  = console mode: the run goes through CommandLineTestRunner and the REAL
//            ConsoleTestOutput / stdio (no capture of PlatformSpecificFPuts), descriptor 1 redirected to a pipe (sink 1) or a regular file
//            (sink 2), stdout fully buffered with a buffer of <cap> bytes, -p / -v / -c as given; afterwards the stream is flushed (as exit
//            does) and the captured BYTES are read back.  Observation in that mode:
//              :io <escaped> <ret|~> <n> { :f test file line kind | :s ok nfail|~ tests run checks ignored filtered }   (in file order)
// Observation: <escaped> <ret|~> <nreps> { <nev> {test phase idx depth} <nfail> {test file line kind} <nafter> {depth ctx_ok}
//              (~ | :s ok nfail|~ tests run checks ignored filtered) (~ | :k tests run checks fail filtered ignored) <nsub> {test phase idx sub} }
#include "hlib.h"
#include <map>
#include <stdexcept>
#include <unistd.h>
#include <fcntl.h>
#include <sys/stat.h>
#include <climits>
#define private public
#define protected public
#include "CppUTest/TestHarness.h"
#include "CppUTest/TestRegistry.h"
#include "CppUTest/TestOutput.h"
#include "CppUTest/TestPlugin.h"
#include "CppUTest/TestFilter.h"
#include "CppUTest/CommandLineTestRunner.h"
#include "CppUTest/TestHarness_c.h"
#include "CppUTest/PlatformSpecificFunctions.h"
#undef private
#undef protected
using namespace hl;

extern int PlatformSpecificVerifJumpDepth();

struct Base { char kind; int file; size_t line; int ck; bool agree; int hk; std::vector<Base> blk, hd; };   // hk: 0 std, 1 int, 2 unrelated, 3 catch-all
struct Cond { char op; unsigned long long k; };              // op 0 = unconditional, else 'e' == , 'n' != , 'l' < , 'g' >=
static bool holds(const Cond& c, unsigned long long run)
{
    switch (c.op) { case 0: return true; case 'e': return run == c.k; case 'n': return run != c.k; case 'l': return run < c.k; default: return run >= c.k; }
}
struct Stmt { Cond cond; Base a, b; };
struct PLine { Cond cond; size_t line; };
struct TestDef {
    int idx; bool ignored, sel; size_t line;
    std::vector<Stmt> ph[3]; std::vector<PLine> pre, post;
    std::string group, name;
    unsigned long long created, preCalls, postCalls;         // the static state the scripted test / the plugin keep across repetitions
};
struct Entry { char kind; int a, b, c, d; std::string text; };   // 'E' event, 'T' text chunk, 'A' after-test mark, 'U' sub event
static std::vector<Entry> gLog;
static TestRegistry* gSepRegistry;       // -p: every test runs in a forked child, whose statics die with it; the number of the repetition is
                                         // then read from the registry (it lives in the runner's process and is copied by fork)
static UtestShell* gOutsideTest; static TestResult* gOutsideResult;
static const char* const FILES[3] = { "tst.cpp", "oth.cpp", "plg.cpp" };
static char gMsg[64];

static void logText(const char* s)
{
    Entry e; e.kind = 'T'; e.a = e.b = e.c = e.d = 0; e.text = s; gLog.push_back(e);
    if (e.text == "." || e.text == "!") {     // progress indicator = printCurrentTestEnded: the test that was started has ended
        Entry a; a.kind = 'A'; a.a = PlatformSpecificVerifJumpDepth();
        a.b = (UtestShell::getCurrent() == gOutsideTest && UtestShell::getCurrent()->getTestResult() == gOutsideResult) ? 1 : 0; a.c = a.d = 0;
        gLog.push_back(a);
    }
}
static void logEvent(int test, int phase, int idx)
{
    Entry e; e.kind = 'E'; e.a = test; e.b = phase; e.c = idx; e.d = PlatformSpecificVerifJumpDepth(); gLog.push_back(e);
}

static void logSub(int test, int phase, int idx, int sub)
{
    Entry e; e.kind = 'U'; e.a = test; e.b = phase; e.c = idx; e.d = sub; gLog.push_back(e);
}

// ---------------------------------------------------------------- check kinds
enum CK { K_TRUE, K_CSTREQ, K_CSTRNEQ, K_NOCASEEQ, K_CONTAINS, K_NOCASECONTAINS, K_LONGS, K_ULONGS, K_LLONGS, K_ULLONGS, K_SBYTES, K_PTRS,
          K_FPTRS, K_DOUBLES, K_EQUALS, K_BINARY, K_BINARY0, K_BITS, K_COMPARE, K_FAIL,
          C_BOOL, C_INT, C_UINT, C_LONG, C_ULONG, C_LLONG, C_ULLONG, C_REAL, C_CHAR, C_UBYTE, C_SBYTE, C_STRING, C_POINTER, C_MEMCMP,
          C_MEMCMP0, C_BITS, C_FAILTEXT, C_FAIL, C_CHECK, M_COMPARE, CK_COUNT };
static const char* const CKNAMES[CK_COUNT] = {
    "true", "cstreq", "cstrneq", "nocaseeq", "contains", "nocasecontains", "longs", "ulongs", "llongs", "ullongs", "sbytes", "ptrs",
    "fptrs", "doubles", "equals", "binary", "binary0", "bits", "compare", "fail",
    "c_bool", "c_int", "c_uint", "c_long", "c_ulong", "c_llong", "c_ullong", "c_real", "c_char", "c_ubyte", "c_sbyte", "c_string", "c_pointer",
    "c_memcmp", "c_memcmp0", "c_bits", "c_failtext", "c_fail", "c_check", "m_compare" };
static void fnA() {}
static void fnB() { gMsg[sizeof gMsg - 1] = 0; }     // a different body: the two functions must not be folded into one address
static int gPa, gPb;

// Calls the real function of kind ck with the location file:line and operands that make it pass (agree) or fail (!agree).
// The C++ entry points are called with their default terminator argument (getCurrentTestTerminator(): the harness restores the
// default NormalTestTerminator before every scenario), exactly as the CHECK macros of UtestMacros.h do.
static void doCheckK(int ck, bool agree, const char* file, size_t line)
{
    UtestShell* u = UtestShell::getCurrent();
    const bool v = (line & 1) != 0, w = (line & 2) != 0;        // operand variant
    static const char s1[] = "abcde", s1copy[] = "abcde", s2[] = "abdde", up1[] = "ABCDE", up2[] = "ABDDE";
    static const char pre1[] = "abcXX", pre1b[] = "abcYY", pre2[] = "abdYY";
    static const unsigned char b1[5] = {1, 2, 0, 4, 5}, b1copy[5] = {1, 2, 0, 4, 5}, b2[5] = {1, 2, 0, 4, 6};
    // (expected, actual) for the functions that treat NULL operands: both NULL passes, one NULL fails
    #define PICK(T, eq_e, eq_a, ne_e, ne_a) \
        const T* e = agree ? (v ? (const T*)NULLPTR : (eq_e)) : (v ? (w ? (const T*)NULLPTR : (ne_e)) : (ne_e)); \
        const T* a = agree ? (v ? (const T*)NULLPTR : (eq_a)) : (v ? (w ? (ne_a) : (const T*)NULLPTR) : (ne_a));
    switch (ck) {
    case K_TRUE: u->assertTrue(agree, "CHECK", "cond", gMsg, file, line); break;
    case K_CSTREQ: { PICK(char, s1, s1copy, s1, s2) u->assertCstrEqual(e, a, gMsg, file, line); break; }
    case K_CSTRNEQ: { PICK(char, pre1, pre1b, pre1, pre2) u->assertCstrNEqual(e, a, 3, gMsg, file, line); break; }
    case K_NOCASEEQ: { PICK(char, up1, s1, up2, s1) u->assertCstrNoCaseEqual(e, a, gMsg, file, line); break; }
    case K_CONTAINS: { PICK(char, "bcd", s1, "bdd", s1) u->assertCstrContains(e, a, gMsg, file, line); break; }
    case K_NOCASECONTAINS: { PICK(char, "BCD", s1, "BDD", s1) u->assertCstrNoCaseContains(e, a, gMsg, file, line); break; }
    case K_LONGS: u->assertLongsEqual(v ? LONG_MIN : -5L, agree ? (v ? LONG_MIN : -5L) : (v ? LONG_MAX : 5L), gMsg, file, line); break;
    case K_ULONGS: u->assertUnsignedLongsEqual(v ? ULONG_MAX : 5UL, agree ? (v ? ULONG_MAX : 5UL) : 6UL, gMsg, file, line); break;
    case K_LLONGS: u->assertLongLongsEqual(v ? LLONG_MIN : -5LL, agree ? (v ? LLONG_MIN : -5LL) : 5LL, gMsg, file, line); break;
    case K_ULLONGS: u->assertUnsignedLongLongsEqual(v ? ULLONG_MAX : 5ULL, agree ? (v ? ULLONG_MAX : 5ULL) : 6ULL, gMsg, file, line); break;
    case K_SBYTES: u->assertSignedBytesEqual((signed char)-1, agree ? (signed char)-1 : (signed char)1, gMsg, file, line); break;
    case K_PTRS: { PICK(int, &gPa, &gPa, &gPa, &gPb) u->assertPointersEqual(e, a, gMsg, file, line); break; }
    case K_FPTRS: u->assertFunctionPointersEqual(v && agree ? (void (*)())NULLPTR : fnA, agree ? (v ? (void (*)())NULLPTR : fnA) : fnB, gMsg, file, line); break;
    case K_DOUBLES: u->assertDoublesEqual(1.0, agree ? 1.05 : 1.5, 0.1, gMsg, file, line); break;
    case K_EQUALS: u->assertEquals(!agree, "exp", "act", gMsg, file, line); break;
    case K_BINARY: { PICK(unsigned char, b1, b1copy, b1, b2) u->assertBinaryEqual(e, a, 5, gMsg, file, line); break; }
    case K_BINARY0: { PICK(unsigned char, b1, b1copy, b1, b2) u->assertBinaryEqual(e, a, 0, gMsg, file, line); break; }
    case K_BITS: u->assertBitsEqual(0x5AUL, agree ? 0xF5AUL : 0x5BUL, 0xFFUL, 2, gMsg, file, line); break;
    case K_COMPARE: u->assertCompare(agree, "CHECK_COMPARE", "1 < 2", gMsg, file, line); break;
    case K_FAIL: u->fail(gMsg, file, line); break;
    case C_BOOL: CHECK_EQUAL_C_BOOL_LOCATION(1, agree ? 2 : 0, gMsg, file, line); break;
    case C_INT: CHECK_EQUAL_C_INT_LOCATION(-5, agree ? -5 : 5, gMsg, file, line); break;
    case C_UINT: CHECK_EQUAL_C_UINT_LOCATION(5u, agree ? 5u : 6u, gMsg, file, line); break;
    case C_LONG: CHECK_EQUAL_C_LONG_LOCATION(-5L, agree ? -5L : 5L, gMsg, file, line); break;
    case C_ULONG: CHECK_EQUAL_C_ULONG_LOCATION(5UL, agree ? 5UL : 6UL, gMsg, file, line); break;
    case C_LLONG: CHECK_EQUAL_C_LONGLONG_LOCATION(-5LL, agree ? -5LL : 5LL, gMsg, file, line); break;
    case C_ULLONG: CHECK_EQUAL_C_ULONGLONG_LOCATION(5ULL, agree ? 5ULL : 6ULL, gMsg, file, line); break;
    case C_REAL: CHECK_EQUAL_C_REAL_LOCATION(1.0, agree ? 1.05 : 1.5, 0.1, gMsg, file, line); break;
    case C_CHAR: CHECK_EQUAL_C_CHAR_LOCATION('a', agree ? 'a' : 'b', gMsg, file, line); break;
    case C_UBYTE: CHECK_EQUAL_C_UBYTE_LOCATION(200, agree ? 200 : 201, gMsg, file, line); break;
    case C_SBYTE: CHECK_EQUAL_C_SBYTE_LOCATION(-3, agree ? -3 : 3, gMsg, file, line); break;
    case C_STRING: { PICK(char, s1, s1copy, s1, s2) CHECK_EQUAL_C_STRING_LOCATION(e, a, gMsg, file, line); break; }
    case C_POINTER: { PICK(int, &gPa, &gPa, &gPa, &gPb) CHECK_EQUAL_C_POINTER_LOCATION(e, a, gMsg, file, line); break; }
    case C_MEMCMP: { PICK(unsigned char, b1, b1copy, b1, b2) CHECK_EQUAL_C_MEMCMP_LOCATION(e, a, 5, gMsg, file, line); break; }
    case C_MEMCMP0: { PICK(unsigned char, b1, b1copy, b1, b2) CHECK_EQUAL_C_MEMCMP_LOCATION(e, a, 0, gMsg, file, line); break; }
    case C_BITS: CHECK_EQUAL_C_BITS_LOCATION(0x5Au, agree ? 0xF5Au : 0x5Bu, 0xFFu, 2, gMsg, file, line); break;
    case C_FAILTEXT: FAIL_TEXT_C_LOCATION(gMsg, file, line); break;
    case C_FAIL: FAIL_C_LOCATION(file, line); break;
    case C_CHECK: CHECK_C_LOCATION(agree ? 1 : 0, "cond", gMsg, file, line); break;
    case M_COMPARE: CHECK_COMPARE_LOCATION(agree ? 1 : 3, <, 2, gMsg, file, line); break;
    default: fprintf(stderr, "harness: check kind %d\n", ck); exit(3);
    }
    #undef PICK
}

// one simple statement (top level or inside a try block)
static void execSimple(TestDef* d, int ph, int k, const Base& s)
{
    switch (s.kind) {
    case 'n': break;
    case 'c': UtestShell::getCurrent()->assertTrue(true, "CHECK", "true", NULLPTR, FILES[s.file], s.line); break;
    case 'x': UtestShell::getCurrent()->fail(gMsg, FILES[s.file], s.line); break;
    case 'j': FAIL_TEXT_C_LOCATION(gMsg, FILES[s.file], s.line); break;
    case 'k': doCheckK(s.ck, s.agree, FILES[s.file], s.line); break;
#if CPPUTEST_HAVE_EXCEPTIONS
    case 's': throw std::runtime_error("boom");
    case 'o': throw 42;
#endif
    default: fprintf(stderr, "harness: statement kind %c not available in this build\n", s.kind); exit(3);
    }
    (void)d; (void)ph; (void)k;
}
#if CPPUTEST_HAVE_EXCEPTIONS
struct Unrelated { int x; };             // a class of the program's own: nothing that is thrown here is an instance of it
// the statements of a try block / of a handler / of the helper inside CHECK_THROWS: each is logged, then executed
static void execInner(TestDef* d, int ph, int k, int from, const std::vector<Base>& v)
{
    for (size_t j = 0; j < v.size(); j++) {
        logSub(d->idx, ph, k, from + (int)j);
        snprintf(gMsg, sizeof gMsg, "VM%d.%d.%d.%d", d->idx, ph, k, from + (int)j);
        execSimple(d, ph, k, v[j]);
    }
}
static void execThrows(TestDef* d, int ph, int k, const Base& s);
static void execTry(TestDef* d, int ph, int k, const Base& s)
{
    const int n = (int)s.blk.size();
    switch (s.hk) {
    case 0: try { execInner(d, ph, k, 0, s.blk); } catch (const std::exception&) { execInner(d, ph, k, n, s.hd); } break;
    case 1: try { execInner(d, ph, k, 0, s.blk); } catch (int) { execInner(d, ph, k, n, s.hd); } break;
    case 2: try { execInner(d, ph, k, 0, s.blk); } catch (const Unrelated&) { execInner(d, ph, k, n, s.hd); } break;
    default: try { execInner(d, ph, k, 0, s.blk); } catch (...) { execInner(d, ph, k, n, s.hd); } break;
    }
}
#endif

static void execPhase(TestDef* d, int ph, unsigned long long run)
{
    std::vector<Stmt>& v = d->ph[ph];
    for (size_t k = 0; k < v.size(); k++) {
        logEvent(d->idx, ph, (int)k);
        const Base& s = holds(v[k].cond, run) ? v[k].a : v[k].b;
        snprintf(gMsg, sizeof gMsg, "VM%d.%d.%d", d->idx, ph, (int)k);
        switch (s.kind) {
#if CPPUTEST_HAVE_EXCEPTIONS
        case 't': execTry(d, ph, (int)k, s); break;
        case 'w': execThrows(d, ph, (int)k, s); break;
#endif
        default: execSimple(d, ph, (int)k, s);
        }
    }
}

class ScriptedUtest : public Utest {
public:
    explicit ScriptedUtest(TestDef* d) : d_(d), run_(gSepRegistry ? (unsigned long long)gSepRegistry->getCurrentRepetition() : d->created++) {}     // how many times this test has been created before
    void setup() CPPUTEST_OVERRIDE { execPhase(d_, 0, run_); }
    void testBody() CPPUTEST_OVERRIDE { execPhase(d_, 1, run_); }
    void teardown() CPPUTEST_OVERRIDE { execPhase(d_, 2, run_); }
private:
    TestDef* d_; unsigned long long run_;
};
class ScriptedShell : public UtestShell {
public:
    ScriptedShell(TestDef* d) : UtestShell(d->group.c_str(), d->name.c_str(), FILES[0], d->line), d_(d) {}
    Utest* createTest() CPPUTEST_OVERRIDE { return new ScriptedUtest(d_); }
private:
    TestDef* d_;
};
class ScriptedIgnoredShell : public IgnoredUtestShell {
public:
    ScriptedIgnoredShell(TestDef* d) : IgnoredUtestShell(d->group.c_str(), d->name.c_str(), FILES[0], d->line), d_(d) {}
    Utest* createTest() CPPUTEST_OVERRIDE { return new ScriptedUtest(d_); }
private:
    TestDef* d_;
};
static std::map<UtestShell*, TestDef*> gDefOf;
class FailPlugin : public TestPlugin {
public:
    FailPlugin() : TestPlugin("VerifFailPlugin") {}
    void preTestAction(UtestShell& t, TestResult& r) CPPUTEST_OVERRIDE { TestDef* d = gDefOf[&t]; add(t, r, d->pre, gSepRegistry ? (unsigned long long)gSepRegistry->getCurrentRepetition() : d->preCalls++); }
    void postTestAction(UtestShell& t, TestResult& r) CPPUTEST_OVERRIDE { TestDef* d = gDefOf[&t]; add(t, r, d->post, gSepRegistry ? (unsigned long long)gSepRegistry->getCurrentRepetition() : d->postCalls++); }
private:
    static void add(UtestShell& t, TestResult& r, std::vector<PLine>& lines, unsigned long long run)
    {
        for (size_t k = 0; k < lines.size(); k++)
            if (holds(lines[k].cond, run)) r.addFailure(TestFailure(&t, FILES[2], lines[k].line, "VP"));
    }
};
// ---------------------------------------------------------------- tests made by the public macros
// The scripted test a macro-made Utest stands for is found through the shell that is running (the registry has made it current before
// createTest()); its run number is taken when the object is created, like ScriptedUtest does.
static TestDef* currentDef() { return gDefOf[UtestShell::getCurrent()]; }
static unsigned long long nextRun(TestDef* d) { return gSepRegistry ? (unsigned long long)gSepRegistry->getCurrentRepetition() : d->created++; }
TEST_GROUP(VerifPlain)
{
    TestDef* d_ = currentDef();
    unsigned long long run_ = nextRun(d_);
};
TEST_GROUP(VerifFull)
{
    TestDef* d_ = currentDef();
    unsigned long long run_ = nextRun(d_);
    TEST_SETUP() { execPhase(d_, 0, run_); }
    TEST_TEARDOWN() { execPhase(d_, 2, run_); }
};
#define MAC_RUN 16
#define MAC_IGN 8
#define VT(g, n) TEST(g, n) { execPhase(d_, 1, run_); }
#define VI(g, n) IGNORE_TEST(g, n) { execPhase(d_, 1, run_); }
VT(VerifPlain, t0) VT(VerifPlain, t1) VT(VerifPlain, t2) VT(VerifPlain, t3) VT(VerifPlain, t4) VT(VerifPlain, t5) VT(VerifPlain, t6) VT(VerifPlain, t7)
VT(VerifPlain, t8) VT(VerifPlain, t9) VT(VerifPlain, t10) VT(VerifPlain, t11) VT(VerifPlain, t12) VT(VerifPlain, t13) VT(VerifPlain, t14) VT(VerifPlain, t15)
VT(VerifFull, t0) VT(VerifFull, t1) VT(VerifFull, t2) VT(VerifFull, t3) VT(VerifFull, t4) VT(VerifFull, t5) VT(VerifFull, t6) VT(VerifFull, t7)
VT(VerifFull, t8) VT(VerifFull, t9) VT(VerifFull, t10) VT(VerifFull, t11) VT(VerifFull, t12) VT(VerifFull, t13) VT(VerifFull, t14) VT(VerifFull, t15)
VI(VerifPlain, i0) VI(VerifPlain, i1) VI(VerifPlain, i2) VI(VerifPlain, i3) VI(VerifPlain, i4) VI(VerifPlain, i5) VI(VerifPlain, i6) VI(VerifPlain, i7)
VI(VerifFull, i0) VI(VerifFull, i1) VI(VerifFull, i2) VI(VerifFull, i3) VI(VerifFull, i4) VI(VerifFull, i5) VI(VerifFull, i6) VI(VerifFull, i7)
#define ST(g, n) &TEST_##g##_##n##_TestShell_instance
#define SI(g, n) &IGNORE##g##_##n##_TestShell_instance
static UtestShell* const MAC_POOL[4][MAC_RUN] = {        // [ignored * 2 + has setup or teardown statements]
    { ST(VerifPlain, t0), ST(VerifPlain, t1), ST(VerifPlain, t2), ST(VerifPlain, t3), ST(VerifPlain, t4), ST(VerifPlain, t5), ST(VerifPlain, t6), ST(VerifPlain, t7),
      ST(VerifPlain, t8), ST(VerifPlain, t9), ST(VerifPlain, t10), ST(VerifPlain, t11), ST(VerifPlain, t12), ST(VerifPlain, t13), ST(VerifPlain, t14), ST(VerifPlain, t15) },
    { ST(VerifFull, t0), ST(VerifFull, t1), ST(VerifFull, t2), ST(VerifFull, t3), ST(VerifFull, t4), ST(VerifFull, t5), ST(VerifFull, t6), ST(VerifFull, t7),
      ST(VerifFull, t8), ST(VerifFull, t9), ST(VerifFull, t10), ST(VerifFull, t11), ST(VerifFull, t12), ST(VerifFull, t13), ST(VerifFull, t14), ST(VerifFull, t15) },
    { SI(VerifPlain, i0), SI(VerifPlain, i1), SI(VerifPlain, i2), SI(VerifPlain, i3), SI(VerifPlain, i4), SI(VerifPlain, i5), SI(VerifPlain, i6), SI(VerifPlain, i7) },
    { SI(VerifFull, i0), SI(VerifFull, i1), SI(VerifFull, i2), SI(VerifFull, i3), SI(VerifFull, i4), SI(VerifFull, i5), SI(VerifFull, i6), SI(VerifFull, i7) } };

#if CPPUTEST_HAVE_EXCEPTIONS
// CHECK_THROWS reports at __FILE__:__LINE__ of its expansion: one expansion per (file, expected type), at the location the scenario names
static void execThrows(TestDef* d, int ph, int k, const Base& s)
{
    const size_t want = 7000 + 16 * (size_t)s.file + (size_t)s.hk;
    if (s.hk < 0 || s.hk > 2 || s.line != want) { fprintf(stderr, "harness: CHECK_THROWS at %d:%zu, must be at line %zu\n", s.file, s.line, want); exit(3); }
    switch (s.file * 3 + s.hk) {
#line 7000 "tst.cpp"
    case 0: CHECK_THROWS(std::exception, execInner(d, ph, k, 0, s.blk)); break;
#line 7001 "tst.cpp"
    case 1: CHECK_THROWS(int, execInner(d, ph, k, 0, s.blk)); break;
#line 7002 "tst.cpp"
    case 2: CHECK_THROWS(Unrelated, execInner(d, ph, k, 0, s.blk)); break;
#line 7016 "oth.cpp"
    case 3: CHECK_THROWS(std::exception, execInner(d, ph, k, 0, s.blk)); break;
#line 7017 "oth.cpp"
    case 4: CHECK_THROWS(int, execInner(d, ph, k, 0, s.blk)); break;
#line 7018 "oth.cpp"
    default: CHECK_THROWS(Unrelated, execInner(d, ph, k, 0, s.blk)); break;
#line 400 "harness/C01.cpp"
    }
}
#endif

class LoggingOutput : public StringBufferTestOutput {
public:
    void printBuffer(const char* s) CPPUTEST_OVERRIDE { StringBufferTestOutput::printBuffer(s); logText(s); }
};
static void captureFPuts(const char* s, PlatformSpecificFile) { logText(s); }
static void captureFlush() {}

// ---------------------------------------------------------------- reading the printed text of one repetition
static int fileId(const std::string& f) { for (int k = 0; k < 3; k++) if (f == FILES[k]) return k; return 99; }
static void failureRecords(const std::string& txt, std::vector<std::string>& recs)
{
    size_t p = 0; std::string test;
    while ((p = txt.find(": error:", p)) != std::string::npos) {
        size_t ls = txt.rfind('\n', p); ls = (ls == std::string::npos) ? 0 : ls + 1;
        std::string loc = txt.substr(ls, p - ls);
        size_t q = p + 8;
        if (txt.compare(q, 12, " Failure in ") == 0) {
            size_t e = txt.find('\n', q); if (e == std::string::npos) e = txt.size();
            test = txt.substr(q + 12, e - (q + 12)); q = e;
        }
        if (txt.compare(q, 2, "\n\t") == 0) {
            size_t me = txt.find("\n\n", q + 2); if (me == std::string::npos) me = txt.size();
            std::string msg = txt.substr(q + 2, me - (q + 2));
            size_t c = loc.rfind(':');
            std::string file = c == std::string::npos ? loc : loc.substr(0, c);
            unsigned long long line = c == std::string::npos ? 0 : strtoull(loc.c_str() + c + 1, nullptr, 10);
            size_t us = test.rfind('_');
            unsigned long long ti = us == std::string::npos ? 0xffff : strtoull(test.c_str() + us + 1, nullptr, 10);
            // what kind of record: a check of a scripted statement (its text, bare or behind "Message: "; FAIL_C_LOCATION has no text),
            // the plugin's, or (anything else; the wording is not the property's business) an escaped exception's
            // (CHECK_THROWS words its own failure: "expected to throw <type> but threw ...")
            int kind = (msg.compare(0, 2, "VM") == 0 || msg.compare(0, 11, "Message: VM") == 0 || msg.empty() || msg.compare(0, 18, "expected to throw ") == 0) ? 0
                     : msg.compare(0, 2, "VP") == 0 ? 3 : 1;
            recs.push_back(hx(ti) + " " + hx((unsigned long long)fileId(file)) + " " + hx(line) + " " + hx((unsigned long long)kind));
            test.clear();
            q = me;
        }
        p = q;
    }
}
static void parseFailures(const std::string& txt, Out& o)
{
    std::vector<std::string> recs;
    failureRecords(txt, recs);
    o << hx(recs.size());
    for (size_t k = 0; k < recs.size(); k++) o << recs[k];
}
static void parseSummary(const std::string& txt, Out& o)
{
    size_t a = txt.rfind("\nOK ("), b = txt.rfind("\nErrors (");
    unsigned long long nf = 0, n[6] = {0, 0, 0, 0, 0, 0};
    if (a != std::string::npos && (b == std::string::npos || a > b)) {
        if (sscanf(txt.c_str() + a, "\nOK (%llu tests, %llu ran, %llu checks, %llu ignored, %llu filtered out, %llu ms)", &n[0], &n[1], &n[2], &n[3], &n[4], &n[5]) != 6) { o << "~"; return; }
        o << ":s" << "1" << "~";
    } else if (b != std::string::npos) {
        const char* s = txt.c_str() + b;
        if (sscanf(s, "\nErrors (%llu failures, %llu tests, %llu ran, %llu checks, %llu ignored, %llu filtered out, %llu ms)", &nf, &n[0], &n[1], &n[2], &n[3], &n[4], &n[5]) == 7)
            o << ":s" << "0" << hx(nf);
        else if (sscanf(s, "\nErrors (ran nothing, %llu tests, %llu ran, %llu checks, %llu ignored, %llu filtered out, %llu ms)", &n[0], &n[1], &n[2], &n[3], &n[4], &n[5]) == 6)
            o << ":s" << "0" << "~";
        else { o << "~"; return; }
    } else { o << "~"; return; }
    for (int k = 0; k < 5; k++) o << hx(n[k]);
}
static void emitRep(size_t from, size_t to, Out& o, const std::string& counters)
{
    std::string txt; size_t nev = 0, na = 0, nsub = 0;
    for (size_t k = from; k < to; k++) { if (gLog[k].kind == 'T') txt += gLog[k].text; else if (gLog[k].kind == 'E') nev++; else if (gLog[k].kind == 'U') nsub++; else na++; }
    o << hx(nev);
    for (size_t k = from; k < to; k++) if (gLog[k].kind == 'E') o << hx(gLog[k].a) << hx(gLog[k].b) << hx(gLog[k].c) << hz(gLog[k].d);
    parseFailures(txt, o);
    o << hx(na);
    for (size_t k = from; k < to; k++) if (gLog[k].kind == 'A') o << hz(gLog[k].a) << hx(gLog[k].b);
    parseSummary(txt, o);
    o << counters;
    o << hx(nsub);
    for (size_t k = from; k < to; k++) if (gLog[k].kind == 'U') o << hx(gLog[k].a) << hx(gLog[k].b) << hx(gLog[k].c) << hx(gLog[k].d);
}

// ---------------------------------------------------------------- console mode: the bytes that reached descriptor 1
static std::string stripColour(const std::string& in)        // "\033[...m" (the -c option) is not the property's business
{
    std::string out;
    for (size_t k = 0; k < in.size(); k++) {
        if (in[k] == '\033' && k + 1 < in.size() && in[k + 1] == '[') { size_t e = in.find('m', k); if (e == std::string::npos) break; k = e; }
        else out += in[k];
    }
    return out;
}
// the failure records and the summaries in the order they stand in the text
static void emitFileItems(const std::string& raw, Out& o)
{
    const std::string txt = stripColour(raw);
    std::vector<std::string> items;
    size_t pos = 0;
    for (;;) {
        size_t a = txt.find("\nOK (", pos), b = txt.find("\nErrors (", pos);
        size_t s = a < b ? a : b;
        if (s == std::string::npos) break;
        size_t e = txt.find(" ms)", s + 1);
        size_t nl = txt.find('\n', s + 1);
        Out one;
        if (e != std::string::npos && (nl == std::string::npos || e < nl)) parseSummary(txt.substr(s, e + 4 - s), one);
        if (one.s.empty() || one.s == "~") { pos = s + 1; continue; }          // not a summary line: ordinary text
        failureRecords(txt.substr(pos, s - pos), items);
        items.push_back(one.s);
        pos = e + 4;
    }
    failureRecords(txt.substr(pos), items);
    o << hx(items.size());
    for (size_t k = 0; k < items.size(); k++) o << ((items[k][0] == ':') ? items[k] : ":f " + items[k]);
}
static std::string readAllFd(int fd)
{
    std::string s; char buf[65536]; ssize_t n;
    while ((n = read(fd, buf, sizeof buf)) > 0) s.append(buf, (size_t)n);
    return s;
}

static Cond readCond(Toks& t)
{
    std::string op = t.sym(); Cond c; c.k = t.u();
    c.op = op == "eq" ? 'e' : op == "ne" ? 'n' : op == "lt" ? 'l' : op == "ge" ? 'g' : '?';
    if (c.op == '?') { fprintf(stderr, "harness: condition %s\n", op.c_str()); exit(3); }
    return c;
}
static Base readBase(const std::string& kind, Toks& t, bool& needExc);
static void readInner(Toks& t, std::vector<Base>& v, bool& needExc)
{
    int n = t.n();
    for (int k = 0; k < n; k++) {
        std::string kind = t.sym();
        if (kind == "t" || kind == "w" || kind == "r") { fprintf(stderr, "harness: statement %s inside a try block\n", kind.c_str()); exit(3); }
        v.push_back(readBase(kind, t, needExc));
    }
}
static int readHandlerKind(Toks& t, bool all)
{
    std::string h = t.sym();
    int k = h == "std" ? 0 : h == "int" ? 1 : h == "unrel" ? 2 : (h == "all" && all) ? 3 : -1;
    if (k < 0) { fprintf(stderr, "harness: handler type %s\n", h.c_str()); exit(3); }
    return k;
}
static Base readBase(const std::string& kind, Toks& t, bool& needExc)
{
    Base s; s.kind = kind[0]; s.file = 0; s.line = 0; s.ck = 0; s.agree = true; s.hk = 0;
    if (s.kind == 't') { s.hk = readHandlerKind(t, true); readInner(t, s.blk, needExc); readInner(t, s.hd, needExc); needExc = true; return s; }
    if (s.kind == 'w') {
        s.hk = readHandlerKind(t, false); s.file = t.n(); s.line = (size_t)t.u(); if (s.file < 0 || s.file > 1) s.file = 1;
        readInner(t, s.blk, needExc); needExc = true; return s;
    }
    if (s.kind == 'k') {
        std::string name = t.sym(); s.ck = -1;
        for (int k = 0; k < CK_COUNT; k++) if (name == CKNAMES[k]) s.ck = k;
        if (s.ck < 0) { fprintf(stderr, "harness: check kind %s\n", name.c_str()); exit(3); }
        s.agree = t.u() != 0;
    }
    if (s.kind == 'x' || s.kind == 'j' || s.kind == 'k') { s.file = t.n(); s.line = (size_t)t.u(); if (s.file < 0 || s.file > 1) s.file = 1; }
    if (s.kind == 's' || s.kind == 'o') needExc = true;
    return s;
}
static void readStmts(Toks& t, std::vector<Stmt>& v, bool& needExc)
{
    int n = t.n();
    for (int k = 0; k < n; k++) {
        Stmt s; s.cond.op = 0; s.cond.k = 0;
        std::string kind = t.sym();
        if (kind == "r") { s.cond = readCond(t); s.a = readBase(t.sym(), t, needExc); s.b = readBase(t.sym(), t, needExc); }
        else { s.a = readBase(kind, t, needExc); s.b = s.a; }
        v.push_back(s);
    }
}
static void readLines(Toks& t, std::vector<PLine>& v)
{
    int n = t.n();
    for (int k = 0; k < n; k++) {
        PLine p; p.cond.op = 0; p.cond.k = 0;
        if (t.peek() == ":r") { t.sym(); p.cond = readCond(t); }
        p.line = (size_t)t.u();
        v.push_back(p);
    }
}

int main()
{
    setvbuf(stdout, NULL, _IONBF, 0);
    Toks t; Out o;
    while (readline(t)) {
        bool cli = t.u() != 0, rethrow = t.u() != 0, filter = t.u() != 0, runign = t.u() != 0; unsigned long long repeat = t.u();
        int nt = t.n(); bool needExc = false;
        std::vector<TestDef> defs(nt);
        for (int i = 0; i < nt; i++) {
            TestDef& d = defs[i]; d.idx = i; d.ignored = t.u() != 0; d.sel = t.u() != 0; d.line = (size_t)t.u();
            for (int p = 0; p < 3; p++) readStmts(t, d.ph[p], needExc);
            readLines(t, d.pre); readLines(t, d.post); d.created = d.preCalls = d.postCalls = 0;
            char b[40]; snprintf(b, sizeof b, "G%d", i / 3); d.group = b;
            snprintf(b, sizeof b, "%s_%d", d.sel ? "sel" : "out", i); d.name = b;
        }
        bool macros = false;
        if (!t.end() && t.peek() == ":mac") { t.sym(); macros = true; }
        // console mode
        bool console = false, sep = false, verbose = false, colour = false; int sink = 0; size_t cap = 4096;
        if (!t.end() && t.peek() == ":io") {
            t.sym(); console = true; sink = t.n(); sep = t.u() != 0; verbose = t.u() != 0; colour = t.u() != 0; cap = (size_t)t.u();
            if (cap < 1) cap = 1;
            if (cap > 65536) cap = 65536;
            if (!cli || (sink != 1 && sink != 2)) { fprintf(stderr, "harness: console mode needs the command-line runner and sink 1 or 2\n"); exit(3); }
        }
#if !CPPUTEST_HAVE_EXCEPTIONS
        if (needExc) { o << "skip"; o.flush(); continue; }
#endif
        // a clean machine for every scenario (a previous scenario may have left drift behind on a broken library)
        while (PlatformSpecificVerifJumpDepth() > 0) PlatformSpecificRestoreJumpBuffer();
        UtestShell::currentTest_ = NULLPTR; UtestShell::testResult_ = NULLPTR;
        UtestShell::setRethrowExceptions(false); UtestShell::restoreDefaultTestTerminator();
        gOutsideTest = UtestShell::getCurrent(); gOutsideResult = gOutsideTest->getTestResult();
        gLog.clear(); gDefOf.clear(); gSepRegistry = NULLPTR;

        TestRegistry reg; FailPlugin plugin; reg.installPlugin(&plugin);
        std::vector<UtestShell*> shells(nt);
        if (macros) {
            int used[4] = {0, 0, 0, 0}; bool fits = true;
            for (int i = 0; i < nt && fits; i++) {
                int cls = (defs[i].ignored ? 2 : 0) + ((defs[i].ph[0].empty() && defs[i].ph[2].empty()) ? 0 : 1);
                if (used[cls] >= (defs[i].ignored ? MAC_IGN : MAC_RUN)) { fits = false; break; }
                UtestShell* sh = MAC_POOL[cls][used[cls]++];
                // a clean shell: what the installer and earlier scenarios have left behind is reset, the labels are this scenario's
                sh->next_ = NULLPTR; sh->hasFailed_ = false; sh->isRunAsSeperateProcess_ = false;
                if (defs[i].ignored) static_cast<IgnoredUtestShell*>(sh)->runIgnored_ = false;
                sh->setGroupName(defs[i].group.c_str()); sh->setTestName(defs[i].name.c_str());
                sh->setFileName(FILES[0]); sh->setLineNumber(defs[i].line);
                shells[i] = sh;
            }
            if (!fits) { o << "skip"; o.flush(); continue; }
        }
        for (int i = 0; i < nt; i++) {
            if (!macros) shells[i] = defs[i].ignored ? (UtestShell*)new ScriptedIgnoredShell(&defs[i]) : (UtestShell*)new ScriptedShell(&defs[i]);
            gDefOf[shells[i]] = &defs[i];
        }
        for (int i = nt - 1; i >= 0; i--) reg.addTest(shells[i]);

        bool escaped = false; std::string ret = "~", counters = "~";
        if (!cli) {
            TestFilter nameFilter("sel_");
            if (filter) reg.setNameFilters(&nameFilter);
            if (runign) reg.setRunIgnored();
            UtestShell::setRethrowExceptions(rethrow);
            LoggingOutput out; TestResult result(out);
#if CPPUTEST_HAVE_EXCEPTIONS
            try { reg.runAllTests(result); } catch (...) { escaped = true; }
#else
            reg.runAllTests(result);
#endif
            counters = ":k " + hx(result.getTestCount()) + " " + hx(result.getRunCount()) + " " + hx(result.getCheckCount()) + " "
                     + hx(result.getFailureCount()) + " " + hx(result.getFilteredOutCount()) + " " + hx(result.getIgnoredCount());
            reg.setNameFilters(NULLPTR);
        } else {
            std::vector<std::string> args; args.push_back("prog");
            if (!rethrow) args.push_back("-e");
            if (runign) args.push_back("-ri");
            if (filter) { args.push_back("-n"); args.push_back("sel_"); }
            char b[40]; snprintf(b, sizeof b, "-r%llu", repeat); args.push_back(b);
            if (sep) { args.push_back("-p"); gSepRegistry = &reg; }
            if (verbose) args.push_back("-v");
            if (colour) args.push_back("-c");
            std::vector<const char*> av; for (size_t k = 0; k < args.size(); k++) av.push_back(args[k].c_str());
            void (*savedFPuts)(const char*, PlatformSpecificFile) = PlatformSpecificFPuts; void (*savedFlush)() = PlatformSpecificFlush;
            int savedStdout = -1, readFd = -1;
            static char ioBuffer[65536];
            if (!console) { PlatformSpecificFPuts = captureFPuts; PlatformSpecificFlush = captureFlush; }
            else {
                // the real ConsoleTestOutput on the real stdio stream: descriptor 1 becomes a pipe or a regular file, stdout fully buffered
                fflush(stdout);
                savedStdout = dup(1);
                int writeFd = -1;
                if (sink == 1) {
                    int pp[2];
                    if (pipe(pp) != 0) { perror("harness: pipe"); exit(3); }
                    readFd = pp[0]; writeFd = pp[1];
                    if (fcntl(writeFd, F_SETPIPE_SZ, 1 << 20) < 0) { perror("harness: F_SETPIPE_SZ"); exit(3); }
                } else {
                    char path[] = "/tmp/c01-stdout-XXXXXX";
                    writeFd = mkstemp(path);
                    if (writeFd < 0) { perror("harness: mkstemp"); exit(3); }
                    readFd = open(path, O_RDONLY);
                    unlink(path);
                }
                if (savedStdout < 0 || readFd < 0 || dup2(writeFd, 1) < 0) { perror("harness: redirect"); exit(3); }
                close(writeFd);
                setvbuf(stdout, ioBuffer, _IOFBF, cap);
            }
            int rv = 0;
            {
                CommandLineTestRunner* runner = new CommandLineTestRunner((int)av.size(), av.data(), &reg);
#if CPPUTEST_HAVE_EXCEPTIONS
                try { rv = runner->runAllTestsMain(); } catch (...) { escaped = true; reg.resetPlugins(); }
#else
                rv = runner->runAllTestsMain();
#endif
                delete runner;
            }
            PlatformSpecificFPuts = savedFPuts; PlatformSpecificFlush = savedFlush;
            if (!escaped) ret = hz(rv);
            if (console) {
                fflush(stdout);                               // what exit() does when main returns the runner's value
                dup2(savedStdout, 1); close(savedStdout);     // (the only write end of the pipe is gone with this)
                setvbuf(stdout, NULL, _IONBF, 0);
                std::string bytes = readAllFd(readFd);
                close(readFd);
                gSepRegistry = NULLPTR;
                o << ":io" << (escaped ? "1" : "0") << ret;
                emitFileItems(bytes, o);
                o.flush();
                if (!macros) for (int i = 0; i < nt; i++) delete shells[i];
                continue;
            }
        }
        // split the log into repetitions: a repetition ends with the "\n\n" that follows " ms)"
        std::vector<std::pair<size_t, size_t> > reps; size_t from = 0; bool sawMs = false;
        for (size_t k = 0; k < gLog.size(); k++) {
            if (gLog[k].kind != 'T') continue;
            if (gLog[k].text == " ms)") sawMs = true;
            else if (sawMs && gLog[k].text == "\n\n") { reps.push_back(std::make_pair(from, k + 1)); from = k + 1; sawMs = false; }
        }
        if (from < gLog.size() || escaped) reps.push_back(std::make_pair(from, gLog.size()));
        o << (escaped ? "1" : "0") << ret << hx(reps.size());
        for (size_t r = 0; r < reps.size(); r++) emitRep(reps[r].first, reps[r].second, o, counters);
        o.flush();
        if (!macros) for (int i = 0; i < nt; i++) delete shells[i];
    }
    fflush(stdout);
    _exit(0);   // no static destructors: the leak detector's allocators may already be gone when the registry's statics die
}
