// C06 harness: drives the real release entry points (operator delete / delete[], cpputest_free, cpputest_realloc and
// MemoryLeakAllocator::free_memory) on a private MemoryLeakDetector installed as the global one, with
//   * a recording MemoryLeakFailure (category = first line of the text handed to fail(); optionally it does not return but
//     longjmps out, like the plugin's own reporter which ends the running test),
//   * arena allocators that place every block at the address the scenario names and record, at free_memory time, the user
//     bytes of the block they are handed,
//   * real wrapper allocators of the library (AccountingTestMemoryAllocator, MemoryLeakAllocator) around them.
// Model address A = slot * SLOT + offset; the arena lays slot bases out so that real address == A modulo the hash prime.
// Addresses NSLOTS*SLOT + k (k = 0,1,2) are a stack object, a static object and a block from the C library's malloc.
// The detector is left exactly as the scenario's history puts it: fresh from its constructor (period disabled, stage 0, type checking
// on), then enable() / disable() / startChecking() / stopChecking() / increase- / decreaseAllocationStage() / type checking switches
// only where the scenario says so.  (The text buffer of the detector accumulates reports; it is emptied before every release through
// the private member, not through startChecking(), which would also move the period.)
// Entries 4 / 5 call the detector's own allocMemory / deallocMemory with allocatNodesSeperately = false / true and an arbitrary
// allocator object; `:m 1` installs the thread-safe overloads (same bodies behind the detector's lock).
// Scenario / observation grammar: ocaml/c06_driver.ml.
#include <new>
#include <string>
#include <vector>
#include <cstdlib>
#include <cstring>
#include <csetjmp>
#include <cctype>
#include <cstdio>
#include <cstdint>
#include <cstddef>
#include <cstring>
#include <climits>
#include "CppUTest/CppUTestConfig.h"      // pulls the standard headers it wants in before the next line
#define private public                    // MemoryLeakDetector::outputBuffer_ (see above)
#include "CppUTest/TestHarness.h"
#include "CppUTest/MemoryLeakDetector.h"
#undef private
#include "CppUTest/SimpleMutex.h"
#include "CppUTest/MemoryLeakWarningPlugin.h"
#include "CppUTest/TestMemoryAllocator.h"
#include "CppUTest/PlatformSpecificFunctions.h"
#include "CppUTest/TestHarness_c.h"
#undef new
#undef malloc
#undef calloc
#undef realloc
#undef free
#undef strdup
#undef strndup
#include "hlib.h"
using namespace hl;

static const size_t HP = MEMORY_LEAK_HASH_TABLE_SIZE;
static const size_t SLOT = 4608, NSLOTS = 64, MAXSIZE = 4400;
static size_t stride;
static char* arena;
static char* slotBase[NSLOTS];
static size_t blockSize[NSLOTS];          // user size of the block last placed in the slot (the harness' own bookkeeping)
static char staticObject[64];
static char* stackObject;
static char* heapObject;

static char* real_of(unsigned long long a)
{
    if (a >= NSLOTS * SLOT) {
        unsigned long long k = a - NSLOTS * SLOT;
        if (k == 0) return stackObject;
        if (k == 1) return staticObject + 8;
        if (k == 2) return heapObject;
        fprintf(stderr, "harness: address %llx out of range\n", a); exit(3);
    }
    return slotBase[a / SLOT] + a % SLOT;
}
static unsigned long long model_of(const char* p)
{
    if (p < arena || p >= arena + NSLOTS * stride) return 0xffffffffULL;
    size_t s = (size_t)(p - arena) / stride;
    if (p < slotBase[s] || p >= slotBase[s] + SLOT) return 0xfffffffeULL;
    return s * SLOT + (size_t)(p - slotBase[s]);
}
static bool inArena(const char* p) { return p >= arena && p < arena + NSLOTS * stride; }

// ---- what the allocators saw: static storage only (this runs while operator new is overloaded)
struct Event { unsigned long long addr; size_t n; };
static const int MAXEV = 8;
static Event events[MAXEV]; static int nevents;
static unsigned char evbytes[MAXEV][MAXSIZE + 8];
static char* nextBlock;                   // where the next block allocation has to go
static char* nextRealloc;                 // where the next platform realloc has to go

class ArenaAllocator : public TestMemoryAllocator
{
public:
    ArenaAllocator(const char* n, const char* a, const char* f) : TestMemoryAllocator(n, a, f) {}
    char* alloc_memory(size_t size, const char*, size_t) override
    {
        if (nextBlock) { char* p = nextBlock; nextBlock = nullptr; if (size > SLOT) { fprintf(stderr, "harness: request of %lu bytes\n", (unsigned long)size); exit(3); } return p; }
        return (char*)malloc(size);       // bookkeeping of the library (leak records, accounting nodes)
    }
    void free_memory(char* memory, size_t, const char*, size_t) override
    {
        if (!inArena(memory)) { free(memory); return; }
        // a block comes back: remember the user bytes it holds now.  (A pointer into the middle of a slot is the inline leak record
        // of a block that was allocated with operator new and released through free/realloc: not a block, not recorded.)
        unsigned long long a = model_of(memory);
        if (a % SLOT != 0) return;
        if (nevents < MAXEV) {
            Event& e = events[nevents];
            e.addr = a; e.n = blockSize[a / SLOT]; memcpy(evbytes[nevents], memory, e.n);
            nevents++;
        }
    }
};
static void* arena_realloc(void* mem, size_t size)
{
    if (!nextRealloc || size > SLOT) { fprintf(stderr, "harness: platform realloc of %lu bytes / no address\n", (unsigned long)size); exit(3); }
    char* p = nextRealloc; nextRealloc = nullptr;
    if (mem && mem != p) memmove(p, mem, size);
    return p;
}

static jmp_buf opJmp;
static bool jumpMode, armed;
static bool threadSafe, lockHeld;         // lockHeld: the running release went in through a thread-safe overload
static MemoryLeakDetector* det;
struct Recorder : public MemoryLeakFailure
{
    int calls = 0; int cat = 0;
    void fail(char* s) override
    {
        if (calls++ == 0) {
            char line[96]; size_t k = 0;
            for (; s[k] && s[k] != '\n' && k < sizeof line - 1; k++) line[k] = (char)tolower((unsigned char)s[k]);
            line[k] = 0;
            cat = strstr(line, "non-allocated memory") ? 1 : strstr(line, "type mismatch") ? 2 : strstr(line, "memory corruption") ? 3 : 9;
        }
        if (jumpMode && armed) {
            // a reporter that leaves by longjmp from inside a thread-safe overload has to give the detector's lock back itself
            // (the plugin's own reporter does the same)
            if (lockHeld) { lockHeld = false; det->getMutex()->Unlock(); }
            longjmp(opJmp, 1);
        }
    }
};

static Recorder rep;
static std::vector<TestMemoryAllocator*> objs;
static std::vector<bool> isMla;
static std::vector<std::string*> names;

static void on() { if (threadSafe) MemoryLeakWarningPlugin::turnOnThreadSafeNewDeleteOverloads(); else MemoryLeakWarningPlugin::turnOnDefaultNotThreadSafeNewDeleteOverloads(); }
static void off() { MemoryLeakWarningPlugin::turnOffNewDeleteOverloads(); }
static TestMemoryAllocator* obj(size_t i) { if (i >= objs.size()) { fprintf(stderr, "harness: allocator index\n"); exit(3); } return objs[i]; }
static void select(int e, size_t al)
{
    if (e == 0) setCurrentNewAllocator(obj(al));
    else if (e == 1) setCurrentNewArrayAllocator(obj(al));
    else if (e == 2) setCurrentMallocAllocator(obj(al));
    else if (e == 4 || e == 5) { if (isMla[al]) { fprintf(stderr, "harness: direct entry with a MemoryLeakAllocator\n"); exit(3); } }
    else if (e != 3 || !isMla[al]) { fprintf(stderr, "harness: entry %d needs a MemoryLeakAllocator\n", e); exit(3); }
}

int main()
{
    setvbuf(stdout, NULL, _IONBF, 0);
    off();
    char onStack[64]; stackObject = onStack + 8;
    heapObject = (char*)malloc(64);
    stride = (SLOT + 8 * HP + 15) & ~(size_t)15;
    arena = (char*)malloc(NSLOTS * stride + SLOT + 64);
    arena = (char*)(((uintptr_t)arena + 15) & ~(uintptr_t)15);
    for (size_t s = 0; s < NSLOTS; s++) {
        char* b = arena + s * stride; slotBase[s] = nullptr;
        for (size_t k = 0; k < HP; k++) if (((uintptr_t)(b + 8 * k)) % HP == (s * SLOT) % HP) { slotBase[s] = b + 8 * k; break; }
        if (!slotBase[s]) { fprintf(stderr, "harness: no offset\n"); exit(3); }
    }
    void* (*savedRealloc)(void*, size_t) = PlatformSpecificRealloc;
    Toks t;
    while (readline(t)) {
        std::string out;
        jumpMode = t.u() != 0;
        MemoryAccountant* accountant = new MemoryAccountant;
        int nd = t.n();
        for (int i = 0; i < nd; i++) {
            std::string k = t.sym();
            if (k == "p") {
                std::string nm; t.bytes(nm); std::string* keep = new std::string(nm); names.push_back(keep);
                const char* a = "alloc"; const char* f = "free";
                if (nm == "Standard New Allocator") { a = "new"; f = "delete"; }
                else if (nm == "Standard New [] Allocator") { a = "new []"; f = "delete []"; }
                else if (nm == "Standard Malloc Allocator") { a = "malloc"; f = "free"; }
                objs.push_back(new ArenaAllocator(keep->c_str(), a, f)); isMla.push_back(false);
            }
            else if (k == "k") { size_t j = t.u(); objs.push_back(new AccountingTestMemoryAllocator(*accountant, obj(j))); isMla.push_back(false); }
            else if (k == "l") { size_t j = t.u(); objs.push_back(new MemoryLeakAllocator(obj(j))); isMla.push_back(true); }
            else { fprintf(stderr, "harness: bad descriptor %s\n", k.c_str()); exit(3); }
        }
        det = new MemoryLeakDetector(&rep);
        MemoryLeakWarningPlugin::setGlobalDetector(det, &rep);
        threadSafe = false; lockHeld = false;
        memset(blockSize, 0, sizeof blockSize);
        while (!t.end()) {
            std::string op = t.sym();
            if (op == "a") {
                int e = t.n(); size_t al = t.u(); unsigned long long a = t.u(); size_t n = t.u();
                if (a >= NSLOTS * SLOT || a % SLOT || n > MAXSIZE) { fprintf(stderr, "harness: bad allocation address/size\n"); exit(3); }
                select(e, al);
                nextBlock = real_of(a);
                char* p;
                if (e == 3) p = obj(al)->alloc_memory(n, "str.cpp", 3);
                else if (e >= 4) p = det->allocMemory(obj(al), n, "direct.cpp", 5, e == 5);
                else { on(); p = e == 0 ? (char*)::operator new(n) : e == 1 ? (char*)::operator new[](n) : (char*)cpputest_malloc(n); off(); }
                nextBlock = nullptr;
                if (p != real_of(a)) { fprintf(stderr, "harness: the allocation came back at another address\n"); exit(3); }
                blockSize[a / SLOT] = n;
                memset(p, 0xA5, n);                                  // the user program initialises its block
            }
            else if (op == "f" || op == "r") {
                bool isRealloc = op == "r";
                int e = 2; if (!isRealloc) e = t.n();
                size_t al = t.u(); std::string ps = t.next();
                unsigned long long na = 0; size_t n = 0;
                if (isRealloc) { na = t.u(); n = t.u(); if (na >= NSLOTS * SLOT || na % SLOT || n > MAXSIZE) { fprintf(stderr, "harness: bad realloc address/size\n"); exit(3); } }
                char* p = ps == "~" ? nullptr : real_of(strtoull(ps.c_str(), nullptr, 16));
                select(e, al);
                det->outputBuffer_.clear();                          // the report text starts at the category line; period untouched
                rep.calls = 0; rep.cat = 0; nevents = 0;
                char* volatile q = nullptr;
                if (isRealloc) { nextRealloc = real_of(na); PlatformSpecificRealloc = arena_realloc; }
                armed = true;
                if (setjmp(opJmp) == 0) {
                    if (e == 3) obj(al)->free_memory(p, 0, "str.cpp", 4);
                    else if (e >= 4) det->deallocMemory(obj(al), p, "direct.cpp", 6, e == 5);
                    else {
                        lockHeld = threadSafe;
                        on();
                        if (isRealloc) q = (char*)cpputest_realloc(p, n);
                        else if (e == 0) ::operator delete(p);
                        else if (e == 1) ::operator delete[](p);
                        else cpputest_free(p);
                    }
                }
                off(); armed = false; lockHeld = false;
                PlatformSpecificRealloc = savedRealloc; nextRealloc = nullptr;
                if (isRealloc && q) {
                    if (q != real_of(na)) { fprintf(stderr, "harness: realloc came back at another address\n"); exit(3); }
                    blockSize[na / SLOT] = n;
                    memset(q, 0x5A, n);
                }
                out += "| " + hx((unsigned long long)rep.calls) + " " + hx((unsigned long long)rep.cat) + " " + hx((unsigned long long)nevents);
                for (int i = 0; i < nevents; i++) out += " " + hx(events[i].addr) + " " + (e >= 3 ? std::string("~") : hbytes(evbytes[i], events[i].n));
                out += " " + hx(det->totalMemoryLeaks(mem_leak_period_all)) + " " + (q ? "1" : "0") + " ";
            }
            else if (op == "w") {
                unsigned long long a = t.u(); std::string bs; t.bytes(bs);
                if (a >= NSLOTS * SLOT || a % SLOT + bs.size() > SLOT) { fprintf(stderr, "harness: bad write\n"); exit(3); }
                memcpy(real_of(a), bs.data(), bs.size());
            }
            else if (op == "e") {
                int k = t.n();
                if (k == 0) det->disable(); else if (k == 1) det->enable(); else if (k == 2) det->startChecking(); else if (k == 3) det->stopChecking();
                else { fprintf(stderr, "harness: bad period operation\n"); exit(3); }
            }
            else if (op == "s") { if (t.u()) det->increaseAllocationStage(); else det->decreaseAllocationStage(); }
            else if (op == "m") { threadSafe = t.u() != 0; }
            else if (op == "t") { if (t.u()) det->enableAllocationTypeChecking(); else det->disableAllocationTypeChecking(); }
            else { fprintf(stderr, "harness: bad op %s\n", op.c_str()); exit(3); }
        }
        setCurrentNewAllocatorToDefault(); setCurrentNewArrayAllocatorToDefault(); setCurrentMallocAllocatorToDefault();
        delete det;
        for (size_t i = objs.size(); i-- > 0;) delete objs[i];
        objs.clear(); isMla.clear();
        delete accountant;
        for (auto* s : names) delete s;
        names.clear();
        while (!out.empty() && out.back() == ' ') out.pop_back();
        puts(out.c_str()); fflush(stdout);
    }
    return 0;
}
