// C06 harness: drives the real allocating and releasing entry points -- every form of operator new / new[] / delete / delete[]
// (plain, nothrow, sized, file/line with int and size_t line), cpputest_malloc / _location / calloc / strdup / strndup / free / realloc,
// MemoryLeakAllocator and the detector's own allocMemory / deallocMemory -- on a private MemoryLeakDetector installed as the global
// one, under the overload wiring the scenario's own history of turnOff / turnOnDefaultNotThreadSafe / turnOnThreadSafe /
// saveAndDisable / restoreNewDeleteOverloads calls produces, with
//   * a recording MemoryLeakFailure (category = first line of the text handed to fail(); optionally it does not return but
//     longjmps out, like the plugin's own reporter which ends the running test),
//   * arena allocators that place every block at the address the scenario names and record, at free_memory time, the user
//     bytes of the block they are handed,
//   * real wrapper allocators of the library (AccountingTestMemoryAllocator, MemoryLeakAllocator) around them.
// EVERY SCENARIO RUNS IN A FRESH PROCESS IMAGE (fork of a parent that never touches the overloads): the eleven function pointers
// are what their static initialisers made them, the harness calls no switch of its own, and from the moment the private detector
// is installed until the observation is complete the harness itself allocates nothing through operator new (the scenario is parsed
// into plain records before, the observation is built in a malloc'ed buffer), so the pointers the scenario's calls go through are
// exactly the ones its history left.  The detector's mutex is a counting stand-in (single thread): a non-returning reporter resets it.
// Model address A = slot * SLOT + offset; the arena lays slot bases out so that real address == A modulo the hash prime.
// Addresses NSLOTS*SLOT + k (k = 0,1,2) are a stack object, a static object and a block from the C library's malloc.
// The detector is left exactly as the scenario's history puts it: fresh from its constructor (period disabled, stage 0, type checking
// on), then enable() / disable() / startChecking() / stopChecking() / increase- / decreaseAllocationStage() / type checking switches
// only where the scenario says so.  (The text buffer of the detector accumulates reports; it is emptied before every release through
// the private member, not through startChecking(), which would also move the period.)
// The three current allocators start as hidden arena allocators carrying the standard names, so that a call routed to the wrong
// family's allocator still lands in the arena and shows up as a wrong report, not as a harness error.
// Scenario / observation grammar: ocaml/c06_driver.ml.
#include <new>
#include <string>
#include <vector>
#include <cstdlib>
#include <cstring>
#include <csetjmp>
#include <cctype>
#include <cstdio>
#include <cstdint>
#include <cstddef>
#include <cstring>
#include <climits>
#include <cerrno>
#include <csignal>
#include <unistd.h>
#include <sys/types.h>
#include <sys/wait.h>
#include <sys/prctl.h>
#include <sys/mman.h>
#include "CppUTest/CppUTestConfig.h"      // pulls the standard headers it wants in before the next line
#define private public                    // MemoryLeakDetector::outputBuffer_ (see above)
#include "CppUTest/TestHarness.h"
#include "CppUTest/MemoryLeakDetector.h"
#undef private
#include "CppUTest/SimpleMutex.h"
#include "CppUTest/MemoryLeakWarningPlugin.h"
#include "CppUTest/TestMemoryAllocator.h"
#include "CppUTest/PlatformSpecificFunctions.h"
#include "CppUTest/TestHarness_c.h"
#undef new
#undef malloc
#undef calloc
#undef realloc
#undef free
#undef strdup
#undef strndup
#include "hlib.h"
using namespace hl;

static const size_t HP = MEMORY_LEAK_HASH_TABLE_SIZE;
static const size_t SLOT = 4608, NSLOTS = 64, MAXSIZE = 4400;
static size_t stride;
static char* arena;
static char* slotBase[NSLOTS];
static size_t blockSize[NSLOTS];          // user size of the block last placed in the slot (the harness' own bookkeeping)
static char staticObject[64];
static char* stackObject;
static char* heapObject;

// ---- second scenario kind (":E", coq/C06_Edge.v): sizes at the edges.  Four big slots of 18 MiB at model addresses
// BIGBASE + k * BIGSLOT (mapped on demand in the scenario's own process image; real address == model address modulo the hash prime);
// the arena hands out a block when the request fits into a slot and refuses (NULL) when it does not.  At free_memory the allocator
// walks over ALL user bytes of the block and counts the ones that still hold what the program wrote there.
static const unsigned long long BIGBASE = 0x10000000ULL, BIGSLOT = 0x1200000ULL;
static const size_t NBIG = 4;
static bool edgeMode;
static char* bigArena; static size_t bigStride;
static char* bigBase[NBIG];
static size_t bigSize[NBIG];              // user size of the block last placed in the big slot (the harness' own bookkeeping)
static unsigned char bigFill[NBIG];       // what the program filled it with
static bool isBigModel(unsigned long long a) { return a >= BIGBASE && a < BIGBASE + NBIG * BIGSLOT; }
static bool inBig(const char* p) { return bigArena && p >= bigArena && p < bigArena + NBIG * bigStride; }

static char* real_of(unsigned long long a)
{
    if (edgeMode) {
        if (!isBigModel(a)) { fprintf(stderr, "harness: address %llx outside the big arena\n", a); exit(3); }
        return bigBase[(a - BIGBASE) / BIGSLOT] + (a - BIGBASE) % BIGSLOT;
    }
    if (a >= NSLOTS * SLOT) {
        unsigned long long k = a - NSLOTS * SLOT;
        if (k == 0) return stackObject;
        if (k == 1) return staticObject + 8;
        if (k == 2) return heapObject;
        fprintf(stderr, "harness: address %llx out of range\n", a); exit(3);
    }
    return slotBase[a / SLOT] + a % SLOT;
}
static unsigned long long model_of(const char* p)
{
    if (p < arena || p >= arena + NSLOTS * stride) return 0xffffffffULL;
    size_t s = (size_t)(p - arena) / stride;
    if (p < slotBase[s] || p >= slotBase[s] + SLOT) return 0xfffffffeULL;
    return s * SLOT + (size_t)(p - slotBase[s]);
}
static bool inArena(const char* p) { return p >= arena && p < arena + NSLOTS * stride; }

// ---- what the allocators saw: static storage only (this runs while operator new is overloaded)
struct Event { unsigned long long addr; size_t n; };
static const int MAXEV = 8;
static Event events[MAXEV]; static int nevents;
static unsigned char evbytes[MAXEV][MAXSIZE + 8];
static unsigned long long evSurviving[MAXEV], evFirst[MAXEV];
static char* nextBlock;                   // where the next block allocation has to go
static char* nextRealloc;                 // where the next platform realloc has to go

class ArenaAllocator : public TestMemoryAllocator
{
public:
    ArenaAllocator(const char* n, const char* a, const char* f) : TestMemoryAllocator(n, a, f) {}
    char* alloc_memory(size_t size, const char*, size_t) override
    {
        if (nextBlock && edgeMode) { char* p = nextBlock; nextBlock = nullptr; return size <= BIGSLOT ? p : nullptr; }
        if (nextBlock) { char* p = nextBlock; nextBlock = nullptr; if (size > SLOT) { fprintf(stderr, "harness: request of %lu bytes\n", (unsigned long)size); exit(3); } return p; }
        return (char*)malloc(size);       // bookkeeping of the library (leak records, accounting nodes)
    }
    void free_memory(char* memory, size_t, const char*, size_t) override
    {
        if (inBig(memory)) {
            size_t k = (size_t)(memory - bigArena) / bigStride;
            if (memory != bigBase[k]) return;                     // the inline leak record of a block (see below)
            if (nevents < MAXEV) {
                Event& e = events[nevents];
                e.addr = BIGBASE + k * BIGSLOT; e.n = bigSize[k];
                unsigned long long left = 0, first = 0; const unsigned char fill = bigFill[k];
                for (size_t i = 0; i < e.n; i++) if ((unsigned char)memory[i] == fill) { if (!left) first = i; left++; }
                evSurviving[nevents] = left; evFirst[nevents] = first;
                nevents++;
            }
            return;
        }
        if (!inArena(memory)) { free(memory); return; }
        // a block comes back: remember the user bytes it holds now.  (A pointer into the middle of a slot is the inline leak record
        // of a block that was allocated with operator new and released through free/realloc: not a block, not recorded.)
        unsigned long long a = model_of(memory);
        if (a % SLOT != 0) return;
        if (nevents < MAXEV) {
            Event& e = events[nevents];
            e.addr = a; e.n = blockSize[a / SLOT]; memcpy(evbytes[nevents], memory, e.n);
            nevents++;
        }
    }
};
static void* arena_realloc(void* mem, size_t size)
{
    if (edgeMode) {
        if (!nextRealloc) { fprintf(stderr, "harness: platform realloc without an address\n"); exit(3); }
        char* p = nextRealloc; nextRealloc = nullptr;
        if (size > BIGSLOT) return nullptr;                   // no block of that size
        if (mem && mem != p) memmove(p, mem, size);
        return p;
    }
    if (!nextRealloc || size > SLOT) { fprintf(stderr, "harness: platform realloc of %lu bytes / no address\n", (unsigned long)size); exit(3); }
    char* p = nextRealloc; nextRealloc = nullptr;
    if (mem && mem != p) memmove(p, mem, size);
    return p;
}

// every scenario is a short-lived process image: a small quarantine keeps the image (and the cost of fork) small
extern "C" const char* __asan_default_options() { return "quarantine_size_mb=8"; }

static jmp_buf opJmp;
static bool jumpMode, armed;
static int lockDepth;                     // the detector's mutex: a counter (one thread)
static MemoryLeakDetector* det;
static PlatformSpecificMutex fakeCreate(void) { return (PlatformSpecificMutex)&lockDepth; }
static void fakeLock(PlatformSpecificMutex)
{
    if (lockDepth > 0) { fprintf(stderr, "harness: the detector's mutex is taken while it is held (a real mutex would hang here)\n"); abort(); }
    lockDepth++;
}
static void fakeUnlock(PlatformSpecificMutex) { if (lockDepth > 0) lockDepth--; }
static void fakeDestroy(PlatformSpecificMutex) {}
struct Recorder : public MemoryLeakFailure
{
    int calls = 0; int cat = 0;
    void fail(char* s) override
    {
        if (calls++ == 0) {
            char line[96]; size_t k = 0;
            for (; s[k] && s[k] != '\n' && k < sizeof line - 1; k++) line[k] = (char)tolower((unsigned char)s[k]);
            line[k] = 0;
            cat = strstr(line, "non-allocated memory") ? 1 : strstr(line, "type mismatch") ? 2 : strstr(line, "memory corruption") ? 3 : 9;
        }
        if (jumpMode && armed) {
            // a reporter that leaves by longjmp from inside a thread-safe overload has to give the detector's lock back itself
            // (the plugin's own reporter does the same)
            lockDepth = 0;
            longjmp(opJmp, 1);
        }
    }
};

static Recorder rep;
static std::vector<TestMemoryAllocator*> objs;
static std::vector<bool> isMla;

// ---- the scenario, parsed before anything is switched or installed
enum Kind { K_ALLOC, K_FREE, K_REALLOC, K_WRITE, K_TC, K_PERIOD, K_STAGE, K_SWITCH };
struct Op {
    Kind kind;
    int e;                     // 0 new, 1 new[], 2 malloc family (through a form), 3 MemoryLeakAllocator, 4 / 5 detector directly
    int form;                  // allocating / releasing form (e <= 2)
    size_t al; bool isNull; unsigned long long addr, na; size_t n; std::string bytes; int k;
};
static const int AFORM_FAMILY[13] = { 0, 0, 0, 0, 1, 1, 1, 1, 2, 2, 2, 2, 2 };
static const int RFORM_FAMILY[12] = { 0, 0, 0, 0, 0, 1, 1, 1, 1, 1, 2, 2 };
static const int PLAIN_AFORM[3] = { 0, 4, 8 }, PLAIN_RFORM[3] = { 0, 5, 10 };

// ---- the observation: a malloc'ed text buffer (no operator new while the scenario runs)
static char* outBuf; static size_t outLen, outCap;
static void outRaw(const char* t, size_t n)
{
    if (outLen + n + 1 > outCap) { outCap = (outLen + n + 1) * 2 + 4096; outBuf = (char*)realloc(outBuf, outCap); if (!outBuf) { fprintf(stderr, "harness: out of memory\n"); exit(3); } }
    memcpy(outBuf + outLen, t, n); outLen += n; outBuf[outLen] = 0;
}
static void outTok(const char* t) { if (outLen) outRaw(" ", 1); outRaw(t, strlen(t)); }
static void outHex(unsigned long long v) { char b[32]; snprintf(b, sizeof b, "%llx", v); outTok(b); }
static void outBytes(const unsigned char* p, size_t n)
{
    static const char* H = "0123456789abcdef";
    static char tmp[2 * (MAXSIZE + 8) + 2];
    size_t k = 0; tmp[k++] = '$';
    for (size_t i = 0; i < n; i++) { tmp[k++] = H[p[i] >> 4]; tmp[k++] = H[p[i] & 15]; }
    tmp[k] = 0; outTok(tmp);
}

static TestMemoryAllocator* obj(size_t i) { if (i >= objs.size()) { fprintf(stderr, "harness: allocator index\n"); exit(3); } return objs[i]; }
static void select(int e, size_t al)
{
    if (e == 0) setCurrentNewAllocator(obj(al));
    else if (e == 1) setCurrentNewArrayAllocator(obj(al));
    else if (e == 2) setCurrentMallocAllocator(obj(al));
    else if (e == 4 || e == 5) { if (isMla[al]) { fprintf(stderr, "harness: direct entry with a MemoryLeakAllocator\n"); exit(3); } }
    else if (e != 3 || !isMla[al]) { fprintf(stderr, "harness: entry %d needs a MemoryLeakAllocator\n", e); exit(3); }
}

static char strSource[MAXSIZE + 16];      // MAXSIZE + 8 times 'x', NUL: what strdup / strndup copy from

static void* allocateThrough(int form, size_t n)
{
    switch (form) {
    case 0: return ::operator new(n);
    case 1: return ::operator new(n, std::nothrow);
    case 2: return ::operator new(n, "alloc.cpp", (int)11);
    case 3: return ::operator new(n, "alloc.cpp", (size_t)12);
    case 4: return ::operator new[](n);
    case 5: return ::operator new[](n, std::nothrow);
    case 6: return ::operator new[](n, "alloc.cpp", (int)13);
    case 7: return ::operator new[](n, "alloc.cpp", (size_t)14);
    case 8: return cpputest_malloc(n);
    case 9: return cpputest_malloc_location(n, "alloc.c", 15);
    case 10: return cpputest_calloc(n, 1);
    case 11: { const char* src = strSource + (MAXSIZE + 8 - (n - 1)); return cpputest_strdup(src); }       // strlen(src) == n - 1
    case 12: return cpputest_strndup(strSource, n - 1);                                                      // longer source, cut at n - 1
    default: fprintf(stderr, "harness: bad allocating form %d\n", form); exit(3);
    }
}
static void releaseThrough(int form, char* p, size_t sizeHint)
{
    switch (form) {
    case 0: ::operator delete(p); break;
    case 1: ::operator delete(p, sizeHint); break;
    case 2: ::operator delete(p, std::nothrow); break;
    case 3: ::operator delete(p, "release.cpp", (int)21); break;
    case 4: ::operator delete(p, "release.cpp", (size_t)22); break;
    case 5: ::operator delete[](p); break;
    case 6: ::operator delete[](p, sizeHint); break;
    case 7: ::operator delete[](p, std::nothrow); break;
    case 8: ::operator delete[](p, "release.cpp", (int)23); break;
    case 9: ::operator delete[](p, "release.cpp", (size_t)24); break;
    case 10: cpputest_free(p); break;
    case 11: cpputest_free_location(p, "release.c", 25); break;
    default: fprintf(stderr, "harness: bad releasing form %d\n", form); exit(3);
    }
}

static void parseEdgeOps(Toks& t, std::vector<Op>& ops)
{
    while (!t.end()) {
        std::string op = t.sym();
        Op o; o.kind = K_WRITE; o.e = 0; o.form = 0; o.al = 0; o.isNull = false; o.addr = o.na = 0; o.n = 0; o.k = 0;
        if (op == "A") {
            o.kind = K_ALLOC;
            int c = t.n(); if (c < 0 || c > 10) { fprintf(stderr, "harness: bad allocating form\n"); exit(3); }
            o.form = c; o.e = AFORM_FAMILY[c];
            o.al = t.u(); o.addr = t.u(); o.n = t.u();
            if (!isBigModel(o.addr) || (o.addr - BIGBASE) % BIGSLOT) { fprintf(stderr, "harness: bad allocation address\n"); exit(3); }
        }
        else if (op == "F" || op == "r") {
            o.kind = op == "r" ? K_REALLOC : K_FREE;
            if (op == "r") o.e = 2;
            else { int c = t.n(); if (c < 0 || c > 11) { fprintf(stderr, "harness: bad releasing form\n"); exit(3); } o.form = c; o.e = RFORM_FAMILY[c]; }
            o.al = t.u();
            std::string ps = t.next();
            o.isNull = ps == "~"; if (!o.isNull) { o.addr = strtoull(ps.c_str(), nullptr, 16); if (!isBigModel(o.addr)) { fprintf(stderr, "harness: bad address\n"); exit(3); } }
            if (op == "r") { o.na = t.u(); o.n = t.u(); if (!isBigModel(o.na) || (o.na - BIGBASE) % BIGSLOT) { fprintf(stderr, "harness: bad realloc address\n"); exit(3); } }
        }
        else if (op == "t") { o.kind = K_TC; o.k = t.u() != 0; }
        else { fprintf(stderr, "harness: bad edge op %s\n", op.c_str()); exit(3); }
        ops.push_back(o);
    }
}

static void parseOps(Toks& t, std::vector<Op>& ops)
{
    while (!t.end()) {
        std::string op = t.sym();
        Op o; o.kind = K_WRITE; o.e = 0; o.form = 0; o.al = 0; o.isNull = false; o.addr = o.na = 0; o.n = 0; o.k = 0;
        if (op == "a" || op == "A") {
            o.kind = K_ALLOC;
            int c = t.n();
            if (op == "a") { o.e = c; if (c < 0 || c > 5) { fprintf(stderr, "harness: bad entry\n"); exit(3); } if (c <= 2) o.form = PLAIN_AFORM[c]; }
            else { if (c < 0 || c > 12) { fprintf(stderr, "harness: bad allocating form\n"); exit(3); } o.form = c; o.e = AFORM_FAMILY[c]; }
            o.al = t.u(); o.addr = t.u(); o.n = t.u();
            if (o.addr >= NSLOTS * SLOT || o.addr % SLOT || o.n > MAXSIZE) { fprintf(stderr, "harness: bad allocation address/size\n"); exit(3); }
            if (o.e == 2 && (o.form == 11 || o.form == 12) && o.n == 0) { fprintf(stderr, "harness: strdup of size 0\n"); exit(3); }
        }
        else if (op == "f" || op == "F" || op == "r") {
            o.kind = op == "r" ? K_REALLOC : K_FREE;
            if (op == "r") { o.e = 2; }
            else {
                int c = t.n();
                if (op == "f") { o.e = c; if (c < 0 || c > 5) { fprintf(stderr, "harness: bad entry\n"); exit(3); } if (c <= 2) o.form = PLAIN_RFORM[c]; }
                else { if (c < 0 || c > 11) { fprintf(stderr, "harness: bad releasing form\n"); exit(3); } o.form = c; o.e = RFORM_FAMILY[c]; }
            }
            o.al = t.u();
            std::string ps = t.next();
            o.isNull = ps == "~"; if (!o.isNull) o.addr = strtoull(ps.c_str(), nullptr, 16);
            if (op == "r") { o.na = t.u(); o.n = t.u(); if (o.na >= NSLOTS * SLOT || o.na % SLOT || o.n > MAXSIZE) { fprintf(stderr, "harness: bad realloc address/size\n"); exit(3); } }
        }
        else if (op == "w") {
            o.kind = K_WRITE; o.addr = t.u(); t.bytes(o.bytes);
            if (o.addr >= NSLOTS * SLOT || o.addr % SLOT + o.bytes.size() > SLOT) { fprintf(stderr, "harness: bad write\n"); exit(3); }
        }
        else if (op == "e") { o.kind = K_PERIOD; o.k = t.n(); if (o.k < 0 || o.k > 3) { fprintf(stderr, "harness: bad period operation\n"); exit(3); } }
        else if (op == "s") { o.kind = K_STAGE; o.k = t.u() != 0; }
        else if (op == "m") { o.kind = K_SWITCH; o.k = t.u() != 0 ? 2 : 1; }
        else if (op == "o") { o.kind = K_SWITCH; o.k = t.n(); if (o.k < 0 || o.k > 4) { fprintf(stderr, "harness: bad overload switch\n"); exit(3); } }
        else if (op == "t") { o.kind = K_TC; o.k = t.u() != 0; }
        else { fprintf(stderr, "harness: bad op %s\n", op.c_str()); exit(3); }
        ops.push_back(o);
    }
}

static void runScenario(Toks& t)
{
    edgeMode = t.peek() == ":E";
    if (edgeMode) {
        t.next();
        bigStride = (size_t)((BIGSLOT + 8 * HP + 4095) & ~4095ULL);
        bigArena = (char*)mmap(nullptr, (NBIG + 1) * bigStride, PROT_READ | PROT_WRITE, MAP_PRIVATE | MAP_ANONYMOUS | MAP_NORESERVE, -1, 0);
        if (bigArena == (char*)MAP_FAILED) { perror("harness: mmap"); exit(3); }
        for (size_t k = 0; k < NBIG; k++) {
            bigBase[k] = nullptr; bigSize[k] = 0; bigFill[k] = 0;
            for (size_t j = 0; j < HP; j++) if (((uintptr_t)(bigArena + k * bigStride + 8 * j)) % HP == (BIGBASE + k * BIGSLOT) % HP) { bigBase[k] = bigArena + k * bigStride + 8 * j; break; }
            if (!bigBase[k]) { fprintf(stderr, "harness: no offset\n"); exit(3); }
        }
    }
    jumpMode = t.u() != 0;
    MemoryAccountant* accountant = new MemoryAccountant;
    std::vector<std::string*> names;
    int nd = t.n();
    for (int i = 0; i < nd; i++) {
        std::string k = t.sym();
        if (k == "p") {
            std::string nm; t.bytes(nm); std::string* keep = new std::string(nm); names.push_back(keep);
            const char* a = "alloc"; const char* f = "free";
            if (nm == "Standard New Allocator") { a = "new"; f = "delete"; }
            else if (nm == "Standard New [] Allocator") { a = "new []"; f = "delete []"; }
            else if (nm == "Standard Malloc Allocator") { a = "malloc"; f = "free"; }
            objs.push_back(new ArenaAllocator(keep->c_str(), a, f)); isMla.push_back(false);
        }
        else if (k == "k") { size_t j = t.u(); objs.push_back(new AccountingTestMemoryAllocator(*accountant, obj(j))); isMla.push_back(false); }
        else if (k == "l") { size_t j = t.u(); objs.push_back(new MemoryLeakAllocator(obj(j))); isMla.push_back(true); }
        else { fprintf(stderr, "harness: bad descriptor %s\n", k.c_str()); exit(3); }
    }
    std::vector<Op> ops;
    if (edgeMode) parseEdgeOps(t, ops); else parseOps(t, ops);
    TestMemoryAllocator* hiddenNew = new ArenaAllocator("Standard New Allocator", "new", "delete");
    TestMemoryAllocator* hiddenArr = new ArenaAllocator("Standard New [] Allocator", "new []", "delete []");
    TestMemoryAllocator* hiddenMal = new ArenaAllocator("Standard Malloc Allocator", "malloc", "free");
    memset(strSource, 'x', MAXSIZE + 8); strSource[MAXSIZE + 8] = 0;
    memset(blockSize, 0, sizeof blockSize);
    outCap = 1 << 16; outBuf = (char*)malloc(outCap); outLen = 0; outBuf[0] = 0;
    void* (*savedRealloc)(void*, size_t) = PlatformSpecificRealloc;
    det = new MemoryLeakDetector(&rep);
    lockDepth = 0;
    setCurrentNewAllocator(hiddenNew); setCurrentNewArrayAllocator(hiddenArr); setCurrentMallocAllocator(hiddenMal);
    // ---- from here to the end of the loop: no operator new / delete of the harness' own, no overload switch of the harness' own
    MemoryLeakWarningPlugin::setGlobalDetector(det, &rep);
    for (size_t oi = 0; oi < ops.size(); oi++) {
        const Op& o = ops[oi];
        if (o.kind == K_ALLOC && edgeMode) {
            // a request of any size_t: a block at the address the scenario names, or nothing (NULL / std::bad_alloc)
            select(o.e, o.al);
            det->outputBuffer_.clear(); rep.calls = 0; rep.cat = 0; nevents = 0;
            nextBlock = real_of(o.addr);
            char* p = nullptr;
            try { p = (char*)allocateThrough(o.form, o.n); } catch (const std::bad_alloc&) { p = nullptr; }
            nextBlock = nullptr; lockDepth = 0;
            if (p) {
                if (p != real_of(o.addr)) { fprintf(stderr, "harness: the allocation came back at another address\n"); exit(3); }
                size_t k = (size_t)((o.addr - BIGBASE) / BIGSLOT);
                bigSize[k] = o.n; bigFill[k] = 0xA5;
                memset(p, 0xA5, o.n);                            // the user program fills its block, all of it
            }
            outTok("|"); outHex((unsigned long long)rep.calls); outHex((unsigned long long)rep.cat); outHex(0);
            outHex(det->totalMemoryLeaks(mem_leak_period_all)); outTok(p ? "1" : "0");
        }
        else if (o.kind == K_ALLOC) {
            select(o.e, o.al);
            nextBlock = real_of(o.addr);
            char* p;
            if (o.e == 3) p = obj(o.al)->alloc_memory(o.n, "str.cpp", 3);
            else if (o.e >= 4) p = det->allocMemory(obj(o.al), o.n, "direct.cpp", 5, o.e == 5);
            else p = (char*)allocateThrough(o.form, o.n);
            nextBlock = nullptr;
            if (p != real_of(o.addr)) { fprintf(stderr, "harness: the allocation came back at another address (the overloads are off, or the request did not reach an arena allocator)\n"); exit(3); }
            blockSize[o.addr / SLOT] = o.n;
            memset(p, 0xA5, o.n);                                // the user program initialises its block
        }
        else if (o.kind == K_FREE || o.kind == K_REALLOC) {
            bool isRealloc = o.kind == K_REALLOC;
            char* p = o.isNull ? nullptr : real_of(o.addr);
            select(o.e, o.al);
            det->outputBuffer_.clear();                          // the report text starts at the category line; period untouched
            rep.calls = 0; rep.cat = 0; nevents = 0;
            char* volatile q = nullptr;
            size_t hint = edgeMode ? ((!o.isNull && (o.addr - BIGBASE) % BIGSLOT == 0) ? bigSize[(o.addr - BIGBASE) / BIGSLOT] : 0)
                                   : (!o.isNull && o.addr < NSLOTS * SLOT) ? blockSize[o.addr / SLOT] : 0;
            if (isRealloc) { nextRealloc = real_of(o.na); PlatformSpecificRealloc = arena_realloc; }
            armed = true;
            if (setjmp(opJmp) == 0) {
                if (o.e == 3) obj(o.al)->free_memory(p, 0, "str.cpp", 4);
                else if (o.e >= 4) det->deallocMemory(obj(o.al), p, "direct.cpp", 6, o.e == 5);
                else if (isRealloc) q = (char*)cpputest_realloc(p, o.n);
                else releaseThrough(o.form, p, hint);
            }
            armed = false; lockDepth = 0;
            PlatformSpecificRealloc = savedRealloc; nextRealloc = nullptr;
            if (isRealloc && q) {
                if (q != real_of(o.na)) { fprintf(stderr, "harness: realloc came back at another address\n"); exit(3); }
                if (edgeMode) { size_t k = (size_t)((o.na - BIGBASE) / BIGSLOT); bigSize[k] = o.n; bigFill[k] = 0x5A; }
                else blockSize[o.na / SLOT] = o.n;
                memset(q, 0x5A, o.n);
            }
            outTok("|"); outHex((unsigned long long)rep.calls); outHex((unsigned long long)rep.cat); outHex((unsigned long long)nevents);
            for (int i = 0; i < nevents; i++) {
                outHex(events[i].addr);
                if (edgeMode) { outHex(evSurviving[i]); outHex(evFirst[i]); }
                else if (o.e >= 3) outTok("~"); else outBytes(evbytes[i], events[i].n);
            }
            outHex(det->totalMemoryLeaks(mem_leak_period_all)); outTok(q ? "1" : "0");
        }
        else if (o.kind == K_WRITE) memcpy(real_of(o.addr), o.bytes.data(), o.bytes.size());
        else if (o.kind == K_PERIOD) { if (o.k == 0) det->disable(); else if (o.k == 1) det->enable(); else if (o.k == 2) det->startChecking(); else det->stopChecking(); }
        else if (o.kind == K_STAGE) { if (o.k) det->increaseAllocationStage(); else det->decreaseAllocationStage(); }
        else if (o.kind == K_TC) { if (o.k) det->enableAllocationTypeChecking(); else det->disableAllocationTypeChecking(); }
        else if (o.kind == K_SWITCH) {
            if (o.k == 0) MemoryLeakWarningPlugin::turnOffNewDeleteOverloads();
            else if (o.k == 1) MemoryLeakWarningPlugin::turnOnDefaultNotThreadSafeNewDeleteOverloads();
            else if (o.k == 2) MemoryLeakWarningPlugin::turnOnThreadSafeNewDeleteOverloads();
            else if (o.k == 3) MemoryLeakWarningPlugin::saveAndDisableNewDeleteOverloads();
            else MemoryLeakWarningPlugin::restoreNewDeleteOverloads();
        }
    }
    // the observation is complete; this process image ends here (nothing is torn down: whatever the overloads are now stays unused)
    fputs(outBuf, stdout); fputs("\n", stdout); fflush(stdout);
}

int main()
{
    setvbuf(stdout, NULL, _IONBF, 0);
    // nothing below touches the overload switches: the children inherit the pointers as the static initialisers left them
    PlatformSpecificMutexCreate = fakeCreate; PlatformSpecificMutexLock = fakeLock;
    PlatformSpecificMutexUnlock = fakeUnlock; PlatformSpecificMutexDestroy = fakeDestroy;
    heapObject = (char*)malloc(64);
    stride = (SLOT + 8 * HP + 15) & ~(size_t)15;
    arena = (char*)malloc(NSLOTS * stride + SLOT + 64);
    arena = (char*)(((uintptr_t)arena + 15) & ~(uintptr_t)15);
    for (size_t s = 0; s < NSLOTS; s++) {
        char* b = arena + s * stride; slotBase[s] = nullptr;
        for (size_t k = 0; k < HP; k++) if (((uintptr_t)(b + 8 * k)) % HP == (s * SLOT) % HP) { slotBase[s] = b + 8 * k; break; }
        if (!slotBase[s]) { fprintf(stderr, "harness: no offset\n"); exit(3); }
    }
    // scenarios are independent process images, so up to WORKERS of them run side by side; the observations are printed in input order,
    // and the first scenario whose process dies takes the harness down with it after everything before it has been printed (the
    // runner records the crash for that scenario and starts a new harness on the next one)
    const int WORKERS = 4;
    // the parent allocates nothing per scenario (its image is what every scenario process starts from, and what fork has to copy):
    // one getline buffer per worker, one growing buffer for the text read back
    char* lineBuf[WORKERS]; size_t lineCap[WORKERS];
    for (int b = 0; b < WORKERS; b++) { lineBuf[b] = nullptr; lineCap[b] = 0; }
    size_t textCap = 1 << 16; char* text = (char*)malloc(textCap);
    bool more = true;
    while (more) {
        int nb = 0;
        while (nb < WORKERS) { if (getline(&lineBuf[nb], &lineCap[nb], stdin) < 0) { more = false; break; } nb++; }
        if (nb == 0) break;
        fflush(stdout); fflush(stderr);
        pid_t pids[WORKERS]; int fds[WORKERS];
        for (int b = 0; b < nb; b++) {
            int pfd[2];
            if (pipe(pfd) != 0) { perror("harness: pipe"); exit(3); }
            pid_t pid = fork();
            if (pid < 0) { perror("harness: fork"); exit(3); }
            if (pid == 0) {
                prctl(PR_SET_PDEATHSIG, SIGKILL);
                close(pfd[0]);
                for (int c = 0; c < b; c++) close(fds[c]);
                if (dup2(pfd[1], 1) < 0) _exit(3);
                close(pfd[1]);
                char frame[64]; stackObject = frame + 8;
                Toks t; { std::istringstream is(lineBuf[b]); std::string w; while (is >> w) t.t.push_back(w); }
                runScenario(t);
                _exit(0);
            }
            close(pfd[1]);
            pids[b] = pid; fds[b] = pfd[0];
        }
        int failed = -1, failStatus = 0;
        for (int b = 0; b < nb; b++) {
            size_t len = 0; ssize_t r;
            for (;;) {
                if (len + 65536 + 1 > textCap) { textCap *= 2; text = (char*)realloc(text, textCap); if (!text) { fprintf(stderr, "harness: out of memory\n"); exit(3); } }
                r = read(fds[b], text + len, 65536);
                if (r > 0) len += (size_t)r; else if (r == 0 || errno != EINTR) break;
            }
            text[len] = 0;
            close(fds[b]);
            int status = 0;
            while (waitpid(pids[b], &status, 0) < 0) { if (errno != EINTR) { perror("harness: waitpid"); exit(3); } }
            if (failed >= 0) continue;                          // a scenario before this one died: this one is run again by the next harness
            if (WIFEXITED(status) && WEXITSTATUS(status) == 0 && len > 0 && text[len - 1] == '\n') { fputs(text, stdout); fflush(stdout); }
            else {
                failed = b; failStatus = status;
                for (int c = b + 1; c < nb; c++) kill(pids[c], SIGKILL);
            }
        }
        if (failed >= 0) {
            if (WIFSIGNALED(failStatus)) { fprintf(stderr, "harness: scenario process killed by signal %d\n", WTERMSIG(failStatus)); signal(WTERMSIG(failStatus), SIG_DFL); raise(WTERMSIG(failStatus)); _exit(128 + WTERMSIG(failStatus)); }
            _exit(WIFEXITED(failStatus) && WEXITSTATUS(failStatus) != 0 ? WEXITSTATUS(failStatus) : 3);
        }
    }
    return 0;
}
