// C15 harness: scripted workloads against the real FailableMemoryAllocator (installed as current malloc / new / new[]
// allocator only around each request) and against the C-level out-of-memory simulation of TestHarness_c.cpp.
// Scenario grammar: checks/C15.py.  One observation item per allocation / check / reset.
// :T scenarios: the operations of an :F scenario carried out from setup / body / teardown of ONE test run by a
// TestTestingFixture, mixed with other failures of that test (addFailure, FAIL, a plugin's); every check is observed with the
// failure count of the test before and after it.
// :R scenarios: blocks are kept in slots and released / reallocated / copied from while failures are injected; a private
// MemoryLeakDetector with a recording, non-exiting failure reporter is the global one meanwhile, the PlatformSpecific
// malloc / realloc / free seams record what the real allocator hands out and gets back.
#include <new>
#include <deque>
#include <vector>
#include <csetjmp>
#include <csignal>
#include <sys/resource.h>
#include "CppUTest/TestHarness.h"
#include "CppUTest/TestHarness_c.h"
#include "CppUTest/TestMemoryAllocator.h"
#include "CppUTest/TestTestingFixture.h"
#include "CppUTest/MemoryLeakDetector.h"
#include "CppUTest/MemoryLeakWarningPlugin.h"
#include "CppUTest/PlatformSpecificFunctions_c.h"
#include "hlib.h"
using namespace hl;

// TestHarness.h brings the location-carrying operator new family (MemoryLeakDetectorNewMacros.h) and its `#define new`
#undef new

static FailableMemoryAllocator* fa;

// A request that dies with SIGSEGV (e.g. a wrapper copying into the NULL it got) is observed as item 3 instead of
// killing the harness: the scenario stays replayable and a systematic crash does not exhaust the runner's restarts.
static sigjmp_buf crashJmp;
static volatile sig_atomic_t inRequest = 0;
static void onSegv(int sig)
{
    if (inRequest) { inRequest = 0; siglongjmp(crashJmp, 1); }
    signal(sig, SIG_DFL); raise(sig);
}
static void restoreAllocators()
{
    setCurrentMallocAllocatorToDefault(); setCurrentNewAllocatorToDefault(); setCurrentNewArrayAllocatorToDefault();
}
static void checkBody() { fa->checkAllFailedAllocsWereDone(); }

static std::string checkItem()
{
    TestTestingFixture fx;
    fx.setTestFunction(checkBody);
    fx.runAllTests();
    if (fx.getFailureCount() == 0) return ":n";
    std::string out = fx.getOutput().asCharString();
    const char* g = "Expected allocation number ";
    const char* l = "Expected failing alloc at ";
    const char* tail = " was never done";
    size_t e = out.find(tail);
    size_t p = out.find(g);
    if (p != std::string::npos && e != std::string::npos && e > p) {
        long long n = atoll(out.substr(p + strlen(g), e - p - strlen(g)).c_str());
        return ":G " + hz(n);
    }
    p = out.find(l);
    if (p != std::string::npos && e != std::string::npos && e > p) {
        std::string fl = out.substr(p + strlen(l), e - p - strlen(l));
        size_t c = fl.rfind(':');
        if (c != std::string::npos)
            return ":L " + hbytes(fl.data(), c) + " " + hz(atoll(fl.c_str() + c + 1));
    }
    return ":X";   // a failure that names nothing
}

// one allocation request of the given family at file:line; 0 = block, 1 = NULL, 2 = bad_alloc
static int request(int fam, const char* file, size_t line)
{
    volatile int res = 0;
    if (sigsetjmp(crashJmp, 1)) { restoreAllocators(); return 3; }
    inRequest = 1;
    switch (fam) {
    case 0: { char* p = fa->alloc_memory(8, file, line); if (p) fa->free_memory(p, 8, file, line); else res = 1; break; }
    case 1: case 2: case 3: case 4: {
        setCurrentMallocAllocator(fa);
        void* p = fam == 1 ? cpputest_malloc_location(8, file, line)
                : fam == 2 ? cpputest_calloc_location(2, 4, file, line)
                : fam == 3 ? (void*) cpputest_strdup_location("hello", file, line)
                           : (void*) cpputest_strndup_location("hello", 3, file, line);
        if (p) cpputest_free_location(p, file, line); else res = 1;
        setCurrentMallocAllocatorToDefault();
        break; }
    case 5: {
        setCurrentNewAllocator(fa);
        try { char* p = new (file, line) char; if (p) delete p; else res = 1; } catch (const std::bad_alloc&) { res = 2; }
        setCurrentNewAllocatorToDefault();
        break; }
    case 6: {
        setCurrentNewArrayAllocator(fa);
        try { char* p = new (file, line) char[8]; if (p) delete[] p; else res = 1; } catch (const std::bad_alloc&) { res = 2; }
        setCurrentNewArrayAllocatorToDefault();
        break; }
    case 7: {
        setCurrentNewAllocator(fa);
        try { char* p = new (std::nothrow) char; if (p) delete p; else res = 1; } catch (const std::bad_alloc&) { res = 2; }
        setCurrentNewAllocatorToDefault();
        break; }
    default: {
        setCurrentNewArrayAllocator(fa);
        try { char* p = new (std::nothrow) char[8]; if (p) delete[] p; else res = 1; } catch (const std::bad_alloc&) { res = 2; }
        setCurrentNewArrayAllocatorToDefault();
        break; }
    }
    inRequest = 0;
    return res;
}

static void failScenario(Toks& t, Out& o)
{
    std::deque<std::string> keepD, keepA;   // designations and requests use different copies of the file names
    fa = new FailableMemoryAllocator("Failable Allocator", "alloc", "free");
    bool any = false;
    while (!t.end()) {
        std::string k = t.next();
        if (k == ":g") fa->failAllocNumber((int) t.z());
        else if (k == ":l") { int n = (int) t.z(); std::string f; t.bytes(f); size_t line = (size_t) t.u(); keepD.push_back(f); fa->failNthAllocAt(n, keepD.back().c_str(), line); }
        else if (k == ":a") { int fam = t.n(); std::string f; t.bytes(f); size_t line = (size_t) t.u(); keepA.push_back(f); o << hx((unsigned) request(fam, keepA.back().c_str(), line)); any = true; }
        else if (k == ":k") { o << checkItem(); any = true; }
        else if (k == ":c") fa->clearFailedAllocs();
        else { fprintf(stderr, "bad op %s\n", k.c_str()); exit(3); }
    }
    fa->clearFailedAllocs();
    delete fa; fa = nullptr;
    if (!any) o << ":-";
}

static TestMemoryAllocator customAlloc("Custom Malloc Allocator", "malloc", "free");

static void countScenario(Toks& t, Out& o)
{
    bool custom = t.u() != 0;
    cpputest_malloc_set_not_out_of_memory();          // known initial state of the file-static variables
    if (custom) setCurrentMallocAllocator(&customAlloc); else setCurrentMallocAllocatorToDefault();
    bool any = false;
    while (!t.end()) {
        std::string k = t.next();
        if (k == ":o") cpputest_malloc_set_out_of_memory();
        else if (k == ":d") cpputest_malloc_set_out_of_memory_countdown((int) t.z());
        else if (k == ":r") {
            cpputest_malloc_set_not_out_of_memory();
            TestMemoryAllocator* c = getCurrentMallocAllocator();
            o << std::string(c == defaultMallocAllocator() ? ":A 0" : c == &customAlloc ? ":A 1" : c == NullUnknownAllocator::defaultAllocator() ? ":A 2" : ":A 4");
            any = true;
        }
        else if (k == ":m") {
            int fam = t.n();
            any = true;
            if (sigsetjmp(crashJmp, 1)) { o << std::string("3"); continue; }
            inRequest = 1;
            void* p = fam == 0 ? cpputest_malloc(8) : fam == 1 ? cpputest_calloc(2, 4) : fam == 2 ? (void*) cpputest_strdup("hello") : (void*) cpputest_strndup("hello", 3);
            inRequest = 0;
            o << std::string(p ? "0" : "1");
            if (p && getCurrentMallocAllocator() != NullUnknownAllocator::defaultAllocator()) cpputest_free(p);
        }
        else { fprintf(stderr, "bad cop %s\n", k.c_str()); exit(3); }
    }
    cpputest_malloc_set_not_out_of_memory();
    setCurrentMallocAllocatorToDefault();
    if (!any) o << ":-";
}


// ------------------------------------------------------------------------------------------------ :R scenarios
// what the real allocator (the C library behind the PlatformSpecific seams) has handed out and not got back
struct Region { char* base; size_t size; };
static Region regions[4096]; static int nregions = 0;
static bool seamOverflow = false;
static char* watched = NULL; static bool watchedFreed = false;     // the block whose way back is being observed
static void* (*origMalloc)(size_t); static void* (*origRealloc)(void*, size_t); static void (*origFree)(void*);
static void addRegion(void* p, size_t n) { if (!p) return; if (nregions < 4096) { regions[nregions].base = (char*) p; regions[nregions].size = n; nregions++; } else seamOverflow = true; }
static void dropRegion(void* p)
{
    for (int i = 0; i < nregions; i++)
        if (regions[i].base == (char*) p) {
            if (watched && watched >= regions[i].base && watched < regions[i].base + (regions[i].size ? regions[i].size : 1)) watchedFreed = true;
            regions[i] = regions[--nregions]; return;
        }
}
static void* seamMalloc(size_t n) { void* p = origMalloc(n); addRegion(p, n); return p; }
static void* seamRealloc(void* q, size_t n) { void* p = origRealloc(q, n); if (p) { if (q) dropRegion(q); addRegion(p, n); } return p; }
static void seamFree(void* p) { if (p) dropRegion(p); origFree(p); }

static bool allocatorSaw = false;              // the test's own allocator was handed the watched block
template <class Base> class Rec : public Base
{
public:
    Rec(const char* n, const char* a, const char* f) : Base(n, a, f) {}
    void free_memory(char* memory, size_t size, const char* file, size_t line) CPPUTEST_OVERRIDE
    {
        if (watched && memory == watched) allocatorSaw = true;
        Base::free_memory(memory, size, file, line);
    }
};
static Rec<TestMemoryAllocator> recCustom("Custom Malloc Allocator", "malloc", "free");

class RecFailure : public MemoryLeakFailure
{
public:
    int count;
    RecFailure() : count(0) {}
    void fail(char*) CPPUTEST_OVERRIDE { count++; }
};
static RecFailure relReporter;
static MemoryLeakDetector* relDetector = NULL;

struct Slot { char* p; size_t n; bool freed; };
static void fillPattern(const Slot& b, int idx) { for (size_t k = 0; k + 1 < b.n; k++) b.p[k] = (char) ('A' + (idx * 7 + (int) k) % 26); if (b.n) b.p[b.n - 1] = 0; }
static bool hasPattern(const Slot& b, int idx, size_t upto)
{
    for (size_t k = 0; k < upto && k + 1 < b.n; k++) if (b.p[k] != (char) ('A' + (idx * 7 + (int) k) % 26)) return false;
    return upto < b.n || b.n == 0 || b.p[b.n - 1] == 0;
}

struct ROp { char k; long long a; unsigned long long b; };

static void relScenario(Toks& t, Out& o)
{
    int backing = t.n();
    std::vector<ROp> ops;
    while (!t.end()) {
        std::string k = t.next(); ROp r; r.k = 0; r.a = 0; r.b = 0;
        if (k == ":o" || k == ":r" || k == ":c") r.k = k[1];
        else if (k == ":d" || k == ":g") { r.k = k[1]; r.a = t.z(); }
        else if (k == ":m" || k == ":f") { r.k = k[1]; r.a = (long long) t.u(); }
        else if (k == ":s" || k == ":y") { r.k = k[1]; r.a = (long long) t.u(); r.b = t.u(); }
        else { fprintf(stderr, "bad rop %s\n", k.c_str()); exit(3); }
        ops.push_back(r);
    }
    static Slot slots[1024]; static int nslots; nslots = 0;
    static char out[65536]; static size_t on; on = 0; out[0] = 0;
    Rec<FailableMemoryAllocator>* fail = backing == 3 ? new Rec<FailableMemoryAllocator>("Failable Allocator", "malloc", "free") : NULL;
    if (!relDetector) { relDetector = new MemoryLeakDetector(&relReporter); relDetector->enable(); }

    // ---- from here to the restore below the harness itself allocates nothing
    cpputest_malloc_set_not_out_of_memory();          // known initial state of the file-static variables
    if (backing == 1) setCurrentMallocAllocator(&recCustom); else if (backing == 3) setCurrentMallocAllocator(fail); else setCurrentMallocAllocatorToDefault();
    TestMemoryAllocator* start = getCurrentMallocAllocator();
    MemoryLeakDetector* origDetector = MemoryLeakWarningPlugin::getGlobalDetector();
    MemoryLeakFailure* origReporter = MemoryLeakWarningPlugin::getGlobalFailureReporter();
    MemoryLeakWarningPlugin::setGlobalDetector(relDetector, &relReporter);
    size_t tracked0 = relDetector->totalMemoryLeaks(mem_leak_period_all);
    origMalloc = PlatformSpecificMalloc; origRealloc = PlatformSpecificRealloc; origFree = PlatformSpecificFree;
    PlatformSpecificMalloc = seamMalloc; PlatformSpecificRealloc = seamRealloc; PlatformSpecificFree = seamFree;
    nregions = 0; seamOverflow = false; watched = NULL;
    volatile bool crashed = false;
    volatile size_t at = 0;
#define EMIT(...) do { if (on < sizeof out - 64) on += (size_t) snprintf(out + on, sizeof out - on, __VA_ARGS__); } while (0)
    if (sigsetjmp(crashJmp, 1)) { crashed = true; EMIT("3 "); }
    for (; !crashed && at < ops.size(); at++) {
        const ROp r = ops[at];
        int f0 = relReporter.count;
        inRequest = 1;
        switch (r.k) {
        case 'o': cpputest_malloc_set_out_of_memory(); break;
        case 'd': cpputest_malloc_set_out_of_memory_countdown((int) r.a); break;
        case 'r': {
            cpputest_malloc_set_not_out_of_memory();
            TestMemoryAllocator* c = getCurrentMallocAllocator();
            EMIT(":A %d ", c == defaultMallocAllocator() ? 0 : c == &recCustom ? 1 : (fail && c == fail) ? 3 : c == start ? backing : 4);
            break; }
        case 'g': if (fail) fail->failAllocNumber((int) r.a); break;
        case 'c': if (fail) fail->clearFailedAllocs(); break;
        case 'm': case 's': {
            if (nslots >= 1024) break;
            Slot nb; nb.p = NULL; nb.n = 0; nb.freed = false;
            bool intact = true; int src = (int) r.b;
            if (r.k == 'm') {
                int fam = (int) r.a;
                nb.p = fam == 0 ? (char*) cpputest_malloc(8) : fam == 1 ? (char*) cpputest_calloc(2, 4) : fam == 2 ? cpputest_strdup("hello") : cpputest_strndup("hello", 3);
                nb.n = fam == 0 || fam == 1 ? 8 : fam == 2 ? 6 : 4;
            } else {
                if (src < 0 || src >= nslots || !slots[src].p || slots[src].freed) { EMIT(":P 3 0 "); break; }
                size_t len = strlen(slots[src].p);
                if ((int) r.a == 2) { nb.p = cpputest_strdup(slots[src].p); nb.n = len + 1; }
                else { nb.p = cpputest_strndup(slots[src].p, 3); nb.n = (len < 3 ? len : 3) + 1; }
                intact = hasPattern(slots[src], src, slots[src].n) && (!nb.p || (strncmp(nb.p, slots[src].p, nb.n - 1) == 0 && nb.p[nb.n - 1] == 0));
            }
            if (nb.p) fillPattern(nb, nslots);
            if (r.k == 'm') EMIT("%d ", nb.p ? 0 : 1); else EMIT(":P %d %d ", nb.p ? 0 : 1, intact ? 1 : 0);
            slots[nslots++] = nb;
            break; }
        case 'f': {
            int i = (int) r.a;
            if (i < 0 || i >= nslots || slots[i].freed) { EMIT(":Q 1 0 "); break; }
            watched = slots[i].p; watchedFreed = false; allocatorSaw = false;
            cpputest_free(slots[i].p);
            bool given = watched && watchedFreed && (backing == 0 || allocatorSaw);
            watched = NULL;
            if (slots[i].p) slots[i].freed = true;
            EMIT(":Q %d %d ", relReporter.count != f0 ? 1 : 0, given ? 1 : 0);
            break; }
        case 'y': {
            int i = (int) r.a; size_t n = (size_t) r.b;
            if (i < 0 || i >= nslots || slots[i].freed) { EMIT(":Y 3 1 0 "); break; }
            char* q = (char*) cpputest_realloc(slots[i].p, n);
            bool intact;
            if (q) {
                Slot moved; moved.p = q; moved.n = slots[i].n; moved.freed = false;
                size_t keep = slots[i].p ? (slots[i].n < n ? slots[i].n : n) : 0;
                intact = keep == 0 || hasPattern(moved, i, keep);
                slots[i].p = q; slots[i].n = n; fillPattern(slots[i], i);
            } else intact = !slots[i].p || hasPattern(slots[i], i, slots[i].n);
            EMIT(":Y %d %d %d ", q ? 0 : 1, relReporter.count != f0 ? 1 : 0, intact ? 1 : 0);
            break; }
        }
        inRequest = 0;
    }
    inRequest = 0;
    size_t tracked = relDetector->totalMemoryLeaks(mem_leak_period_all) - tracked0;
    // give everything back, then nothing the real allocator handed out may be outstanding
    cpputest_malloc_set_not_out_of_memory();
    setCurrentMallocAllocator(start);
    if (!crashed) {
        for (int i = 0; i < nslots; i++) if (slots[i].p && !slots[i].freed) { cpputest_free(slots[i].p); slots[i].freed = true; }
        if (fail) fail->clearFailedAllocs();
    }
    bool clean = nregions == 0 && !seamOverflow;
    PlatformSpecificMalloc = origMalloc; PlatformSpecificRealloc = origRealloc; PlatformSpecificFree = origFree;
    MemoryLeakWarningPlugin::setGlobalDetector(origDetector, origReporter);
    setCurrentMallocAllocatorToDefault();
    // ---- the harness may allocate again
    if (!crashed) EMIT(":E %lx %d", (unsigned long) tracked, clean ? 1 : 0);
#undef EMIT
    delete fail;
    o << std::string(out);
}

// ------------------------------------------------------------------------------------------------ :T scenarios
struct TEv { char k; long long n; int fam; std::string file; size_t line; };
static std::vector<TEv> tPhase[3];
static size_t tStarted[3];
static std::string tItems[3];
static TestTestingFixture* tFx = NULL;
static struct { bool on; int phase; size_t before; size_t outLen; } tAsk;   // a check that has been asked and has not come back yet

static std::string reportItem(const std::string& out)
{
    const char* g = "Expected allocation number ";
    const char* l = "Expected failing alloc at ";
    const char* tail = " was never done";
    size_t e = out.find(tail);
    size_t p = out.find(g);
    if (p != std::string::npos && e != std::string::npos && e > p)
        return ":G " + hz(atoll(out.substr(p + strlen(g), e - p - strlen(g)).c_str()));
    p = out.find(l);
    if (p != std::string::npos && e != std::string::npos && e > p) {
        std::string fl = out.substr(p + strlen(l), e - p - strlen(l));
        size_t c = fl.rfind(':');
        if (c != std::string::npos) return ":L " + hbytes(fl.data(), c) + " " + hz(atoll(fl.c_str() + c + 1));
    }
    return ":X";
}
// the check came back (or the test function it was asked from has been left): what happened to the test meanwhile
static void settleAsk()
{
    if (!tAsk.on) return;
    tAsk.on = false;
    size_t after = tFx->getFailureCount();
    std::string all = tFx->getOutput().asCharString();
    std::string delta = all.size() >= tAsk.outLen ? all.substr(tAsk.outLen) : std::string();
    std::string rep = after == tAsk.before && delta.find(" was never done") == std::string::npos ? std::string(":n") : reportItem(delta);
    tItems[tAsk.phase] += ":K " + hz((long long) tAsk.before) + " " + hz((long long) after) + " " + rep + " ";
}
static void runTestFunction(int ph)
{
    settleAsk();
    for (size_t i = 0; i < tPhase[ph].size(); i++) {
        const TEv& e = tPhase[ph][i];
        tStarted[ph] = i + 1;
        switch (e.k) {
        case 'g': fa->failAllocNumber((int) e.n); break;
        case 'l': fa->failNthAllocAt((int) e.n, e.file.c_str(), e.line); break;
        case 'a': tItems[ph] += hx((unsigned) request(e.fam, e.file.c_str(), e.line)) + " "; break;
        case 'c': fa->clearFailedAllocs(); break;
        case 'k':
            tAsk.on = true; tAsk.phase = ph; tAsk.before = tFx->getFailureCount(); tAsk.outLen = strlen(tFx->getOutput().asCharString());
            fa->checkAllFailedAllocsWereDone();
            settleAsk();
            break;
        case '+': {
            UtestShell* cur = UtestShell::getCurrent();
            cur->addFailure(FailFailure(cur, "other.cpp", 11, "a failure recorded while the test goes on"));
            break; }
        case '!': FAIL("an unrelated failed check"); break;
        }
    }
}
static void tSetup() { runTestFunction(0); }
static void tBody() { runTestFunction(1); }
static void tTeardown() { runTestFunction(2); }

class EarlierFailuresPlugin : public TestPlugin
{
public:
    int count;
    EarlierFailuresPlugin() : TestPlugin("EarlierFailuresPlugin"), count(0) {}
    void preTestAction(UtestShell& test, TestResult& result) CPPUTEST_OVERRIDE
    {
        for (int i = 0; i < count; i++) result.addFailure(FailFailure(&test, "plugin.cpp", 7, "reported by a plugin before the test"));
    }
};

static void testScenario(Toks& t, Out& o)
{
    long long pre = t.z();
    int ph = 0;
    for (int i = 0; i < 3; i++) { tPhase[i].clear(); tStarted[i] = 0; tItems[i].clear(); }
    while (!t.end()) {
        std::string k = t.next();
        if (k == ":|") { if (++ph > 2) { fprintf(stderr, "more than three test functions\n"); exit(3); } continue; }
        TEv e; e.k = k.size() > 1 ? k[1] : 0; e.n = 0; e.fam = 0; e.line = 0;
        if (k == ":g") e.n = t.z();
        else if (k == ":l") { e.n = t.z(); t.bytes(e.file); e.line = (size_t) t.u(); }
        else if (k == ":a") { e.fam = t.n(); t.bytes(e.file); e.line = (size_t) t.u(); }
        else if (k == ":k" || k == ":c" || k == ":+" || k == ":!") {}
        else { fprintf(stderr, "bad tev %s\n", k.c_str()); exit(3); }
        tPhase[ph].push_back(e);
    }
    fa = new FailableMemoryAllocator("Failable Allocator", "alloc", "free");
    {
        TestTestingFixture fx;
        EarlierFailuresPlugin plugin;
        plugin.count = (int) pre;
        fx.installPlugin(&plugin);
        fx.setSetup(tSetup); fx.setTestFunction(tBody); fx.setTeardown(tTeardown);
        tFx = &fx; tAsk.on = false;
        fx.runAllTests();
        settleAsk();
        tFx = NULL;
    }
    fa->clearFailedAllocs();
    delete fa; fa = nullptr;
    for (int i = 0; i < 3; i++) o << (tItems[i] + ":p " + hx((unsigned) tStarted[i]));
}

int main()
{
    setvbuf(stdout, NULL, _IONBF, 0);
    // a runaway recursion in the code under test must die at once (the runner lifts the stack limit): 64 MB of stack, and the
    // handler runs on its own stack so that it can still report the request as crashed
    struct rlimit rl;
    if (getrlimit(RLIMIT_STACK, &rl) == 0) { rl.rlim_cur = 64ul << 20; setrlimit(RLIMIT_STACK, &rl); }
    static char altStack[1 << 16];
    stack_t ss; ss.ss_sp = altStack; ss.ss_size = sizeof altStack; ss.ss_flags = 0; sigaltstack(&ss, NULL);
    struct sigaction sa; memset(&sa, 0, sizeof sa); sa.sa_handler = onSegv; sigemptyset(&sa.sa_mask); sa.sa_flags = SA_ONSTACK | SA_NODEFER;
    sigaction(SIGSEGV, &sa, NULL);
    Toks t; Out o;
    while (readline(t)) {
        std::string kind = t.next();
        if (kind == ":F") failScenario(t, o);
        else if (kind == ":C") countScenario(t, o);
        else if (kind == ":R") relScenario(t, o);
        else if (kind == ":T") testScenario(t, o);
        else { fprintf(stderr, "bad scenario kind %s\n", kind.c_str()); exit(3); }
        o.flush();
    }
    return 0;
}
