// C15 harness: scripted workloads against the real FailableMemoryAllocator (installed as current malloc / new / new[]
// allocator only around each request) and against the C-level out-of-memory simulation of TestHarness_c.cpp.
// Scenario grammar: checks/C15.py.  One observation item per allocation / check / reset.
#include <new>
#include <deque>
#include <csetjmp>
#include <csignal>
#include "CppUTest/TestHarness.h"
#include "CppUTest/TestHarness_c.h"
#include "CppUTest/TestMemoryAllocator.h"
#include "CppUTest/TestTestingFixture.h"
#include "hlib.h"
using namespace hl;

// TestHarness.h brings the location-carrying operator new family (MemoryLeakDetectorNewMacros.h) and its `#define new`
#undef new

static FailableMemoryAllocator* fa;

// A request that dies with SIGSEGV (e.g. a wrapper copying into the NULL it got) is observed as item 3 instead of
// killing the harness: the scenario stays replayable and a systematic crash does not exhaust the runner's restarts.
static sigjmp_buf crashJmp;
static volatile sig_atomic_t inRequest = 0;
static void onSegv(int sig)
{
    if (inRequest) { inRequest = 0; siglongjmp(crashJmp, 1); }
    signal(sig, SIG_DFL); raise(sig);
}
static void restoreAllocators()
{
    setCurrentMallocAllocatorToDefault(); setCurrentNewAllocatorToDefault(); setCurrentNewArrayAllocatorToDefault();
}
static void checkBody() { fa->checkAllFailedAllocsWereDone(); }

static std::string checkItem()
{
    TestTestingFixture fx;
    fx.setTestFunction(checkBody);
    fx.runAllTests();
    if (fx.getFailureCount() == 0) return ":n";
    std::string out = fx.getOutput().asCharString();
    const char* g = "Expected allocation number ";
    const char* l = "Expected failing alloc at ";
    const char* tail = " was never done";
    size_t e = out.find(tail);
    size_t p = out.find(g);
    if (p != std::string::npos && e != std::string::npos && e > p) {
        long long n = atoll(out.substr(p + strlen(g), e - p - strlen(g)).c_str());
        return ":G " + hz(n);
    }
    p = out.find(l);
    if (p != std::string::npos && e != std::string::npos && e > p) {
        std::string fl = out.substr(p + strlen(l), e - p - strlen(l));
        size_t c = fl.rfind(':');
        if (c != std::string::npos)
            return ":L " + hbytes(fl.data(), c) + " " + hz(atoll(fl.c_str() + c + 1));
    }
    return ":X";   // a failure that names nothing
}

// one allocation request of the given family at file:line; 0 = block, 1 = NULL, 2 = bad_alloc
static int request(int fam, const char* file, size_t line)
{
    volatile int res = 0;
    if (sigsetjmp(crashJmp, 1)) { restoreAllocators(); return 3; }
    inRequest = 1;
    switch (fam) {
    case 0: { char* p = fa->alloc_memory(8, file, line); if (p) fa->free_memory(p, 8, file, line); else res = 1; break; }
    case 1: case 2: case 3: case 4: {
        setCurrentMallocAllocator(fa);
        void* p = fam == 1 ? cpputest_malloc_location(8, file, line)
                : fam == 2 ? cpputest_calloc_location(2, 4, file, line)
                : fam == 3 ? (void*) cpputest_strdup_location("hello", file, line)
                           : (void*) cpputest_strndup_location("hello", 3, file, line);
        if (p) cpputest_free_location(p, file, line); else res = 1;
        setCurrentMallocAllocatorToDefault();
        break; }
    case 5: {
        setCurrentNewAllocator(fa);
        try { char* p = new (file, line) char; if (p) delete p; else res = 1; } catch (const std::bad_alloc&) { res = 2; }
        setCurrentNewAllocatorToDefault();
        break; }
    case 6: {
        setCurrentNewArrayAllocator(fa);
        try { char* p = new (file, line) char[8]; if (p) delete[] p; else res = 1; } catch (const std::bad_alloc&) { res = 2; }
        setCurrentNewArrayAllocatorToDefault();
        break; }
    case 7: {
        setCurrentNewAllocator(fa);
        try { char* p = new (std::nothrow) char; if (p) delete p; else res = 1; } catch (const std::bad_alloc&) { res = 2; }
        setCurrentNewAllocatorToDefault();
        break; }
    default: {
        setCurrentNewArrayAllocator(fa);
        try { char* p = new (std::nothrow) char[8]; if (p) delete[] p; else res = 1; } catch (const std::bad_alloc&) { res = 2; }
        setCurrentNewArrayAllocatorToDefault();
        break; }
    }
    inRequest = 0;
    return res;
}

static void failScenario(Toks& t, Out& o)
{
    std::deque<std::string> keepD, keepA;   // designations and requests use different copies of the file names
    fa = new FailableMemoryAllocator("Failable Allocator", "alloc", "free");
    bool any = false;
    while (!t.end()) {
        std::string k = t.next();
        if (k == ":g") fa->failAllocNumber((int) t.z());
        else if (k == ":l") { int n = (int) t.z(); std::string f; t.bytes(f); size_t line = (size_t) t.u(); keepD.push_back(f); fa->failNthAllocAt(n, keepD.back().c_str(), line); }
        else if (k == ":a") { int fam = t.n(); std::string f; t.bytes(f); size_t line = (size_t) t.u(); keepA.push_back(f); o << hx((unsigned) request(fam, keepA.back().c_str(), line)); any = true; }
        else if (k == ":k") { o << checkItem(); any = true; }
        else if (k == ":c") fa->clearFailedAllocs();
        else { fprintf(stderr, "bad op %s\n", k.c_str()); exit(3); }
    }
    fa->clearFailedAllocs();
    delete fa; fa = nullptr;
    if (!any) o << ":-";
}

static TestMemoryAllocator customAlloc("Custom Malloc Allocator", "malloc", "free");

static void countScenario(Toks& t, Out& o)
{
    bool custom = t.u() != 0;
    cpputest_malloc_set_not_out_of_memory();          // known initial state of the file-static variables
    if (custom) setCurrentMallocAllocator(&customAlloc); else setCurrentMallocAllocatorToDefault();
    bool any = false;
    while (!t.end()) {
        std::string k = t.next();
        if (k == ":o") cpputest_malloc_set_out_of_memory();
        else if (k == ":d") cpputest_malloc_set_out_of_memory_countdown((int) t.z());
        else if (k == ":r") {
            cpputest_malloc_set_not_out_of_memory();
            TestMemoryAllocator* c = getCurrentMallocAllocator();
            o << std::string(c == defaultMallocAllocator() ? ":A 0" : c == &customAlloc ? ":A 1" : c == NullUnknownAllocator::defaultAllocator() ? ":A 2" : ":A 3");
            any = true;
        }
        else if (k == ":m") {
            int fam = t.n();
            any = true;
            if (sigsetjmp(crashJmp, 1)) { o << std::string("3"); continue; }
            inRequest = 1;
            void* p = fam == 0 ? cpputest_malloc(8) : fam == 1 ? cpputest_calloc(2, 4) : fam == 2 ? (void*) cpputest_strdup("hello") : (void*) cpputest_strndup("hello", 3);
            inRequest = 0;
            o << std::string(p ? "0" : "1");
            if (p && getCurrentMallocAllocator() != NullUnknownAllocator::defaultAllocator()) cpputest_free(p);
        }
        else { fprintf(stderr, "bad cop %s\n", k.c_str()); exit(3); }
    }
    cpputest_malloc_set_not_out_of_memory();
    setCurrentMallocAllocatorToDefault();
    if (!any) o << ":-";
}

int main()
{
    setvbuf(stdout, NULL, _IONBF, 0);
    signal(SIGSEGV, onSegv);
    Toks t; Out o;
    while (readline(t)) {
        std::string kind = t.next();
        if (kind == ":F") failScenario(t, o);
        else if (kind == ":C") countScenario(t, o);
        else { fprintf(stderr, "bad scenario kind %s\n", kind.c_str()); exit(3); }
        o.flush();
    }
    return 0;
}
