/* C03: scenario shared between the C++ harness (C03.cpp) and the C translation unit (C03_c.c) */
#ifndef C03_SHARED_H
#define C03_SHARED_H
#include <stddef.h>
#ifdef __cplusplus
extern "C" {
#endif
struct c03_scn {
    int text;                       /* 1 = use the _TEXT variant of the macro */
    int op;                         /* relational operator / thrower behaviour */
    int ta, tb, tc;                 /* operand types 0..9: schar uchar short ushort int uint long ulong llong ullong */
    unsigned long long za, zb, zc;  /* operand bit patterns */
    const char* e; const char* a;   /* strings / memory blocks (NULL allowed) */
    size_t n;
    double d1, d2, d3;
    int after;                      /* set by the C code when the statement after the check executed */
};
extern struct c03_scn c03;
void c03_c_body(const char* kind);
#ifdef __cplusplus
}
#endif
#endif
