// C05 harness: drives the real tracked allocation entry points (cpputest_malloc/calloc/realloc/strdup/strndup/free and the
// global operator new/new[] variants) on a private MemoryLeakDetector, over recording allocators and recording
// PlatformSpecificMalloc/Realloc/Free seams.  The seams log every size requested from the "underlying allocator", return
// NULL at the call indices the scenario names and for every request above 1 MiB (huge sizes never reach libc).
//
// scenario :  <guard 0|1> <node_size> <nfail> <failing call index>*  [:wrap]  <op>*
//   :wrap  :  the scenario runs with memory accounting on: a GlobalMemoryAccountant is started, i.e. an AccountingTestMemoryAllocator
//             is installed around each of the three recording allocators (malloc, new, new[]); the underlying call log then also
//             holds the wrappers' own bookkeeping requests
//   op     :  :m n | :dm n (detector level, inline record) | :c num size | :r id|~ n | :sd $str | :sn $str n | :n n | :na n | :nt n | :nat n | :nd n | :nad n
//             | :f id | :w id off $bytes          (id = index of the op that created the block)
// observation: <guard> <sizeof node> <wrappers installed 0|1> <fault indices given 0|1> then per op
//   | kind ncalls (ckind size ok)* amod overlap off req nodekind nodeval digest total reports
//   (overlap = 1 when the user bytes + guard or the record of the new block intersect those of another live block, or each other)
//   and finally  | :end nlive (id digest)* total reports leak : the blocks still live (newest first) with their content, read before
//   the harness releases them; total and reports after every remaining block has been released; leak = regions of the underlying
//   allocator still allocated after that and, with wrappers, after the accountant has been stopped and destroyed.
#include <new>
#include <string>
#include <vector>
#include <cstdlib>
#include <cstring>
#define private public
#define protected public
#include "CppUTest/TestHarness.h"
#include "CppUTest/MemoryLeakDetector.h"
#include "CppUTest/MemoryLeakWarningPlugin.h"
#include "CppUTest/TestMemoryAllocator.h"
#include "CppUTest/PlatformSpecificFunctions.h"
#include "CppUTest/TestHarness_c.h"
#undef private
#undef protected
#undef new
#undef malloc
#undef calloc
#undef realloc
#undef free
#undef strdup
#undef strndup
#include "hlib.h"
using namespace hl;

static const size_t LIMIT = 1u << 20;
enum { K_SKIP = 0, K_NULL = 1, K_BADALLOC = 2, K_PTR = 3, K_VOID = 4 };

// ---- the seam: no std allocation in here
struct Call { int kind; size_t size; bool ok; };
static Call calls[256]; static int ncalls;
static unsigned long callIndex;
static const int MAXFAIL = 4096;
static bool failAt[MAXFAIL];
static bool recording;
struct Region { char* base; size_t size; };
static Region regions[4096]; static int nregions;

static void logCall(int kind, size_t size, bool ok) { if (ncalls < 256) { calls[ncalls].kind = kind; calls[ncalls].size = size; calls[ncalls].ok = ok; ncalls++; } }
static int findRegion(const char* p) { for (int i = 0; i < nregions; i++) if (p == regions[i].base || (p > regions[i].base && p < regions[i].base + regions[i].size)) return i; return -1; }
static int findBase(const char* p) { for (int i = 0; i < nregions; i++) if (regions[i].base == p) return i; return -1; }
static void dropRegion(int i) { regions[i] = regions[--nregions]; }
static bool decideFail(size_t size) { bool f = (callIndex < (unsigned long)MAXFAIL && failAt[callIndex]) || size > LIMIT; callIndex++; return f; }

static void* seam_malloc(size_t size)
{
    if (!recording) return malloc(size);
    bool fail = decideFail(size);
    logCall(0, size, !fail);
    if (fail) return NULL;
    char* p = (char*)malloc(size);
    if (!p) { fprintf(stderr, "harness: libc malloc failed\n"); exit(3); }
    memset(p, 0xEE, size);
    if (nregions < 4096) { regions[nregions].base = p; regions[nregions].size = size; nregions++; }
    return p;
}
static void* seam_realloc(void* mem, size_t size)
{
    if (!recording) return realloc(mem, size);
    bool fail = decideFail(size);
    logCall(1, size, !fail);
    if (fail) return NULL;
    size_t old = 0; int r = mem ? findBase((char*)mem) : -1;
    if (r >= 0) { old = regions[r].size; dropRegion(r); }
    char* p = (char*)realloc(mem, size ? size : 1);   // realloc(p,0) would free: keep the contract "returns a block"
    if (!p) { fprintf(stderr, "harness: libc realloc failed\n"); exit(3); }
    if (size > old) memset(p + old, 0xEE, size - old);
    if (nregions < 4096) { regions[nregions].base = p; regions[nregions].size = size; nregions++; }
    return p;
}
static void seam_free(void* mem)
{
    if (recording && mem) { logCall(2, 0, true); int r = findBase((char*)mem); if (r >= 0) dropRegion(r); }
    free(mem);
}

class RecAlloc : public TestMemoryAllocator
{
public:
    RecAlloc(const char* n, const char* a, const char* f) : TestMemoryAllocator(n, a, f) {}
    char* alloc_memory(size_t size, const char*, size_t) override { return (char*)seam_malloc(size); }
    void free_memory(char* memory, size_t, const char*, size_t) override { seam_free(memory); }
};

class RecFailure : public MemoryLeakFailure
{
public:
    int count = 0;
    void fail(char*) override { count++; }
};

// ---- blocks of the scenario
struct Block { char* p; size_t n; int fam; bool live; bool det; bool readable; char* node; };   // fam 0 malloc, 1 new, 2 new[]; det: allocated at detector level with an inline record
static TestMemoryAllocator* gMalloc;
static std::vector<Block> blocks;
static MemoryLeakDetector* det; static RecFailure rep;

static void on() { recording = true; MemoryLeakWarningPlugin::turnOnDefaultNotThreadSafeNewDeleteOverloads(); }
static void off() { MemoryLeakWarningPlugin::turnOffNewDeleteOverloads(); recording = false; }

static bool meet(const char* a, size_t la, const char* b, size_t lb) { return la > 0 && lb > 0 && a < b + lb && b < a + la; }
// user bytes + guard and record of [x] against those of every other live block, and against each other
static bool overlaps(const Block& x, size_t self)
{
    const size_t G = MemoryLeakDetector::memory_corruption_buffer_size, ns = sizeof(MemoryLeakDetectorNode);
    if (x.node && meet(x.p, x.n + G, x.node, ns)) return true;
    for (size_t i = 0; i < blocks.size(); i++) {
        const Block& b = blocks[i];
        if (i == self || !b.live || !b.readable) continue;
        if (meet(x.p, x.n + G, b.p, b.n + G)) return true;
        if (b.node && meet(x.p, x.n + G, b.node, ns)) return true;
        if (x.node && meet(x.node, ns, b.p, b.n + G)) return true;
        if (x.node && b.node && meet(x.node, ns, b.node, ns)) return true;
    }
    return false;
}

static std::string digest(const char* p, size_t n)
{
    if (n <= 64) return hbytes(p, n);
    std::string a = hbytes(p, 32), b = hbytes(p + n - 32, 32);
    return a + b.substr(1);
}

static void release(Block& b)
{
    on();
    if (b.fam == 0 && b.det) { det->invalidateMemory(b.p); det->deallocMemory(gMalloc, b.p, "det.c", 3, false); }
    else if (b.fam == 0) cpputest_free(b.p);
    else if (b.fam == 1) ::operator delete(b.p);
    else ::operator delete[](b.p);
    off();
    b.live = false;
}

int main()
{
    setvbuf(stdout, NULL, _IONBF, 0);
    MemoryLeakWarningPlugin::turnOffNewDeleteOverloads();
    PlatformSpecificMalloc = seam_malloc; PlatformSpecificRealloc = seam_realloc; PlatformSpecificFree = seam_free;
    static RecAlloc aMalloc("Standard Malloc Allocator", "malloc", "free");
    static RecAlloc aNew("Standard New Allocator", "new", "delete");
    static RecAlloc aNewArr("Standard New [] Allocator", "new []", "delete []");
    gMalloc = &aMalloc;
    setCurrentMallocAllocator(&aMalloc); setCurrentNewAllocator(&aNew); setCurrentNewArrayAllocator(&aNewArr);
    Toks t;
    while (readline(t)) {
        std::string out;
        t.u();                                   // guard flag: selects the flavour on the python side
        t.u();                                   // node size assumed by the model (we print the measured one)
        memset(failAt, 0, sizeof failAt);
        int nf = t.n(); for (int i = 0; i < nf; i++) { unsigned long k = t.u(); if (k < (unsigned long)MAXFAIL) failAt[k] = true; }
        bool wrap = false;
        if (t.peek() == ":wrap") { t.next(); wrap = true; }
        callIndex = 0; nregions = 0; rep.count = 0;
        det = new MemoryLeakDetector(&rep);
        MemoryLeakWarningPlugin::setGlobalDetector(det, &rep);
        det->enable();
        blocks.clear();
        GlobalMemoryAccountant* accountant = NULL;
        if (wrap) {                              // memory accounting on: the three current allocators become AccountingTestMemoryAllocators
            accountant = new GlobalMemoryAccountant;
            accountant->start();
            gMalloc = getCurrentMallocAllocator();
        }
        bool wrapped = getCurrentMallocAllocator() != &aMalloc && getCurrentNewAllocator() != &aNew && getCurrentNewArrayAllocator() != &aNewArr;
        out = hx((unsigned long long)MemoryLeakDetector::memory_corruption_buffer_size ? 1 : 0) + " " + hx(sizeof(MemoryLeakDetectorNode)) + " " + hx(wrapped ? 1 : 0) + " " + hx(nf > 0 ? 1 : 0);
        while (!t.end()) {
            std::string op = t.sym();
            Block nb; nb.p = NULL; nb.n = 0; nb.fam = 0; nb.live = false; nb.det = false; nb.readable = false; nb.node = NULL;
            int kind = K_SKIP; ncalls = 0; int rep0 = rep.count;
            const char* shown = NULL; size_t shownN = 0;     // block whose content is shown
            bool isAlloc = false, skip = false; unsigned char fill = 0xA5; bool doFill = false; size_t fillFrom = 0;
            if (op == "m") { size_t n = t.u(); on(); nb.p = (char*)cpputest_malloc(n); off(); nb.n = n; isAlloc = true; doFill = true; }
            else if (op == "dm") { size_t n = t.u(); on(); nb.p = det->allocMemory(gMalloc, n, "det.c", 3, false); off(); nb.n = n; nb.det = true; isAlloc = true; doFill = true; }
            else if (op == "c") { size_t a = t.u(), b = t.u(); on(); nb.p = (char*)cpputest_calloc(a, b); off(); nb.n = a * b; isAlloc = true;
                                  if (nb.p && (b != 0 && a > (size_t)-1 / b)) nb.n = (size_t)-1; }
            else if (op == "sd") { std::string s; t.bytes(s); on(); nb.p = cpputest_strdup(s.c_str()); off(); nb.n = strlen(s.c_str()) + 1; isAlloc = true; }
            else if (op == "sn") { std::string s; t.bytes(s); size_t k = t.u(); on(); nb.p = cpputest_strndup(s.c_str(), k); off();
                                   size_t l = strlen(s.c_str()); nb.n = (l < k ? l : k) + 1; isAlloc = true; }
            else if (op == "n" || op == "na" || op == "nd" || op == "nad") {
                size_t n = t.u(); nb.fam = (op == "n" || op == "nd") ? 1 : 2; nb.n = n; isAlloc = true; doFill = true;
                on();
                try {
                    if (op == "n") nb.p = (char*)::operator new(n);
                    else if (op == "na") nb.p = (char*)::operator new[](n);
                    else if (op == "nd") nb.p = (char*)::operator new(n, "file.cpp", (size_t)7);
                    else nb.p = (char*)::operator new[](n, "file.cpp", (size_t)7);
                } catch (const std::bad_alloc&) { kind = K_BADALLOC; }
                off();
            }
            else if (op == "nt" || op == "nat") {
                size_t n = t.u(); nb.fam = op == "nt" ? 1 : 2; nb.n = n; isAlloc = true; doFill = true;
                on();
                if (op == "nt") nb.p = (char*)::operator new(n, std::nothrow); else nb.p = (char*)::operator new[](n, std::nothrow);
                off();
            }
            else if (op == "r") {
                std::string idt = t.next(); size_t n = t.u();
                Block* ob = NULL;
                if (idt != "~") { size_t id = strtoull(idt.c_str(), NULL, 16); if (id < blocks.size() && blocks[id].live && blocks[id].fam == 0) ob = &blocks[id]; else skip = true; }
                if (!skip) {
                on();
                if (ob && ob->det) { nb.p = det->reallocMemory(gMalloc, ob->p, n, "det.c", 3, false); nb.det = true; }
                else nb.p = (char*)cpputest_realloc(ob ? ob->p : NULL, n);
                off();
                nb.n = n; isAlloc = true; doFill = true; fill = 0x5A;
                if (nb.p) { fillFrom = ob ? (ob->n < n ? ob->n : n) : 0; if (ob) ob->live = false; }
                else if (ob) { shown = ob->p; shownN = ob->n; }
                }
            }
            else if (op == "f") {
                size_t id = t.u();
                if (id < blocks.size() && blocks[id].live) { release(blocks[id]); kind = K_VOID; }
            }
            else if (op == "w") {
                size_t id = t.u(), o2 = t.u(); std::string s; t.bytes(s);
                if (id < blocks.size() && blocks[id].live && o2 <= blocks[id].n && s.size() <= blocks[id].n - o2) { memcpy(blocks[id].p + o2, s.data(), s.size()); kind = K_VOID; }
            }
            else { fprintf(stderr, "harness: bad op %s\n", op.c_str()); exit(3); }

            size_t amod = 0, ovl = 0, offv = 0, req = 0, nodekind = 0, nodeval = 0;
            if (isAlloc) {
                if (kind != K_BADALLOC) kind = nb.p ? K_PTR : K_NULL;
                if (nb.p) {
                    nb.live = true;
                    amod = (size_t)((uintptr_t)nb.p % 16);
                    int r = findRegion(nb.p);
                    if (r < 0) { nodekind = 9; }
                    else {
                        offv = (size_t)(nb.p - regions[r].base); req = regions[r].size;
                        char* node = (char*)det->memoryTable_.retrieveNode(nb.p);
                        nb.node = node;
                        if (!node) nodekind = 9;
                        else if (node >= regions[r].base && node < regions[r].base + regions[r].size) { nodekind = 1; nodeval = (size_t)(node - regions[r].base); }
                        else { int q = findRegion(node); if (q < 0) nodekind = 9; else { nodekind = 2; nodeval = regions[q].size - (size_t)(node - regions[q].base); } }   // bytes from the record to the end of its region
                    }
                    // usable bytes: touch every requested byte (ASan judges), unless the layout is already known to be unsound
                    size_t usable = (r >= 0 && offv <= req) ? req - offv : 0;
                    if (doFill && nb.n <= usable) memset(nb.p + fillFrom, fill, nb.n - fillFrom);
                    if (nb.n <= usable) { shown = nb.p; shownN = nb.n; nb.readable = true; ovl = overlaps(nb, blocks.size()) ? 1 : 0; }
                }
            }
            std::string line = " | " + hx(kind) + " " + hx(ncalls);
            for (int i = 0; i < ncalls; i++) line += " " + hx(calls[i].kind) + " " + hx(calls[i].size) + " " + hx(calls[i].ok);
            line += " " + hx(amod) + " " + hx(ovl) + " " + hx(offv) + " " + hx(req) + " " + hx(nodekind) + " " + hx(nodeval);
            line += " " + (shown ? digest(shown, shownN) : std::string("$"));
            line += " " + hx(det->totalMemoryLeaks(mem_leak_period_all)) + " " + hx(rep.count - rep0);
            out += line;
            blocks.push_back(nb);
        }
        int rep0 = rep.count;
        size_t nlive = 0; std::string lives;
        for (size_t i = blocks.size(); i-- > 0; ) if (blocks[i].live) {
            nlive++; lives += " " + hx(i) + " " + (blocks[i].readable ? digest(blocks[i].p, blocks[i].n) : std::string("$"));
        }
        for (size_t i = 0; i < blocks.size(); i++) if (blocks[i].live) release(blocks[i]);
        out += " | :end " + hx(nlive) + lives + " " + hx(det->totalMemoryLeaks(mem_leak_period_all)) + " " + hx(rep.count - rep0);
        if (accountant) {                        // the accountant gives its statistics nodes back through the recording allocator: seen by the seam
            recording = true; ncalls = 0;
            accountant->stop(); delete accountant; gMalloc = &aMalloc;
            recording = false;
        }
        out += " " + hx(nregions);               // whatever the seam handed out and never got back
        delete det;
        for (int i = 0; i < nregions; i++) free(regions[i].base);
        nregions = 0;
        puts(out.c_str()); fflush(stdout);
    }
    return 0;
}
