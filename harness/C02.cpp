// C02 harness: a private TestRegistry of N scripted shells (normal and IGNORE_TEST shells, generated group/name strings, a
// per-test execution counter), configured either through the API (TestFilter lists, setRunIgnored, reverseTests,
// shuffleTests -- route 0) or by CommandLineTestRunner(ac, av, &registry).runAllTestsMain() (routes 1 and 2; route 2 pairs
// group/name filters into -t/-st/-xt/-xst where the syntax allows).  PlatformSpecificSrand/Rand are either scripted from the
// scenario or wrapped around the platform's functions; either way every call is recorded.  A recording TestOutput gives the
// callback word, the counters when testsEnded is printed, and the list order when a repetition starts.
// A scenario is a SESSION: the first run and any number of further runs (`:r` items) on the SAME registry and the same shells,
// each with its own route, filters, flags, seed, rand script and repeat count; a run may be a listing run (-lg / -ln / -ll, or
// listTestGroupNames / listTestGroupAndCaseNames / listTestLocations through the API).  Nothing is reset on the registry between
// the runs (the runner objects and the API filter lists stay alive until the session ends, so a filter list that a later run
// fails to replace is still valid memory and shows as a wrong selection, not as a use-after-free).
// Scenario:    ri rev shuffle seed repeat route real  nT (group name ignored)*  nG (pat strict invert)*  nN (pat strict invert)*  nR rand*
//              (:r ri rev shuffle seed repeat route real list  nG (pat strict invert)*  nN (pat strict invert)*  nR rand*)*
// Observation: (:run (:rep nOrd id* nS seed* nR rand* nW event* tests run ignored filtered)*)*  :tot nT count*
#include "hlib.h"
#include <map>
#include <unistd.h>
#define private public
#define protected public
#include "CppUTest/TestHarness.h"
#include "CppUTest/TestRegistry.h"
#include "CppUTest/TestOutput.h"
#include "CppUTest/TestPlugin.h"
#include "CppUTest/TestFilter.h"
#include "CppUTest/CommandLineTestRunner.h"
#include "CppUTest/PlatformSpecificFunctions.h"
#undef private
#undef protected
using namespace hl;

struct TestDef { int id; std::string group, name; bool ignored; unsigned long long executions; };
struct FilterDef { std::string pat; bool strict, invert; };
struct RunDef {
    bool ri, rev, shuffle; unsigned long long seed, repeat; int route; bool real; int list;
    std::vector<FilterDef> gf, nf; std::vector<unsigned long long> script;
};
struct Rep {
    std::vector<int> order; std::vector<unsigned long long> seeds, rands;
    std::string word; size_t nword; std::string counters; bool ended;
    Rep() : nword(0), counters("0 0 0 0"), ended(false) {}
};

static std::map<const UtestShell*, TestDef*> gDefOf;
static std::vector<Rep> gReps;
static Rep gCur;
static bool gOpen;
static std::vector<unsigned long long> gSeedLog, gRandLog;
static std::vector<unsigned long long> gScript; static size_t gScriptPos;
static TestRegistry* gReg; static size_t gCount;
struct BrokenList {};

static void scriptedSrand(unsigned int s) { gSeedLog.push_back(s); gScriptPos = 0; }
static int scriptedRand() { unsigned long long v = gScriptPos < gScript.size() ? gScript[gScriptPos] : 0; gScriptPos++; gRandLog.push_back(v); return (int)v; }
static void (*gRealSrand)(unsigned int); static int (*gRealRand)(void);
static void wrappedSrand(unsigned int s) { gSeedLog.push_back(s); gRealSrand(s); }
static int wrappedRand() { int v = gRealRand(); gRandLog.push_back((unsigned long long)(unsigned int)v); return v; }

static int idOf(const UtestShell* t) { std::map<const UtestShell*, TestDef*>::iterator it = gDefOf.find(t); return it == gDefOf.end() ? 0xffff : it->second->id; }
static void event(const std::string& e) { if (!gCur.word.empty()) gCur.word += ' '; gCur.word += e; gCur.nword++; }

// the list order now; false when the list has more nodes than tests were registered (a cycle or a duplicate)
static bool snapshotOrder(std::vector<int>& order)
{
    size_t n = 0;
    for (UtestShell* t = gReg->getFirstTest(); t != NULLPTR; t = t->getNext()) {
        order.push_back(idOf(t));
        if (++n > gCount) return false;
    }
    return true;
}
// reverse or shuffle left a list with a cycle or a duplicate: stop before the library walks it for ever
static void checkList()
{
    std::vector<int> order;
    if (!snapshotOrder(order)) { Rep r; r.order = order; gReps.push_back(r); gOpen = false; throw BrokenList(); }
}
static void beginRep()
{
    gCur = Rep(); gOpen = true;
    gCur.seeds.swap(gSeedLog); gCur.rands.swap(gRandLog);
    if (!snapshotOrder(gCur.order)) { gReps.push_back(gCur); gOpen = false; throw BrokenList(); }
}

class ScriptedUtest : public Utest {
public:
    explicit ScriptedUtest(TestDef* d) : d_(d) {}
    void testBody() CPPUTEST_OVERRIDE { d_->executions++; event(":b " + hx((unsigned long long)d_->id)); }
private:
    TestDef* d_;
};
class ScriptedShell : public UtestShell {
public:
    ScriptedShell(TestDef* d) : UtestShell(d->group.c_str(), d->name.c_str(), "tst.cpp", 1), d_(d) {}
    Utest* createTest() CPPUTEST_OVERRIDE { return new ScriptedUtest(d_); }
private:
    TestDef* d_;
};
class ScriptedIgnoredShell : public IgnoredUtestShell {
public:
    ScriptedIgnoredShell(TestDef* d) : IgnoredUtestShell(d->group.c_str(), d->name.c_str(), "tst.cpp", 1), d_(d) {}
    Utest* createTest() CPPUTEST_OVERRIDE { return new ScriptedUtest(d_); }
private:
    TestDef* d_;
};

class RecordingOutput : public TestOutput {
public:
    explicit RecordingOutput(bool cli) : cli_(cli) {}
    void printBuffer(const char*) CPPUTEST_OVERRIDE {}
    void flush() CPPUTEST_OVERRIDE {}
    void printTestRun(size_t, size_t) CPPUTEST_OVERRIDE { if (cli_) beginRep(); }
    // the runner announces shuffling after reversing and before the first shuffle: the only point in between
    void print(const char* s) CPPUTEST_OVERRIDE { if (cli_ && strncmp(s, "Test order shuffling", 20) == 0) checkList(); }
    void print(long) CPPUTEST_OVERRIDE {}
    void print(size_t) CPPUTEST_OVERRIDE {}
    void printTestsStarted() CPPUTEST_OVERRIDE { event(":S"); }
    void printTestsEnded(const TestResult& r) CPPUTEST_OVERRIDE
    {
        event(":E");
        gCur.counters = hx(r.getTestCount()) + " " + hx(r.getRunCount()) + " " + hx(r.getIgnoredCount()) + " " + hx(r.getFilteredOutCount());
        gCur.ended = true; gReps.push_back(gCur); gCur = Rep(); gOpen = false;
    }
    void printCurrentTestStarted(const UtestShell& t) CPPUTEST_OVERRIDE { event(":s " + hx((unsigned long long)idOf(&t))); }
    void printCurrentTestEnded(const TestResult&) CPPUTEST_OVERRIDE { event(":e"); }
    void printCurrentGroupStarted(const UtestShell& t) CPPUTEST_OVERRIDE { event(":G " + hx((unsigned long long)idOf(&t))); }
    void printCurrentGroupEnded(const TestResult&) CPPUTEST_OVERRIDE { event(":g"); }
private:
    bool cli_;
};
class Runner : public CommandLineTestRunner {
public:
    Runner(int ac, const char* const* av, TestRegistry* r) : CommandLineTestRunner(ac, av, r) {}
    TestOutput* createConsoleOutput() CPPUTEST_OVERRIDE { return new RecordingOutput(true); }
};

static TestFilter* buildFilters(const std::vector<FilterDef>& defs, std::vector<TestFilter*>& owned)
{
    TestFilter* head = NULLPTR;
    for (size_t k = defs.size(); k-- > 0;) {
        TestFilter* f = new TestFilter(defs[k].pat.c_str());
        if (defs[k].strict) f->strictMatching();
        if (defs[k].invert) f->invertMatching();
        head = f->add(head); owned.push_back(f);
    }
    return head;
}
static const char* flagOf(const FilterDef& f, const char* plain, const char* s, const char* x, const char* xs)
{
    return f.strict ? (f.invert ? xs : s) : (f.invert ? x : plain);
}
static bool pairable(const FilterDef& g, const FilterDef& n)
{
    return g.strict == n.strict && g.invert == n.invert && !n.pat.empty() && g.pat.find('.') == std::string::npos && n.pat.find('.') == std::string::npos;
}

static void readFilters(Toks& t, std::vector<FilterDef>& fl)
{
    fl.resize((size_t)t.n());
    for (size_t k = 0; k < fl.size(); k++) { t.bytes(fl[k].pat); fl[k].strict = t.u() != 0; fl[k].invert = t.u() != 0; }
}
static void readScript(Toks& t, std::vector<unsigned long long>& s)
{
    int nr = t.n(); s.clear(); for (int k = 0; k < nr; k++) s.push_back(t.u());
}

// one run of the session on the registry as the earlier runs left it
static void oneRun(TestRegistry& reg, const RunDef& d, std::vector<TestFilter*>& owned, std::vector<Runner*>& runners)
{
    gScript = d.script; gScriptPos = 0;
    if (d.real) { PlatformSpecificSrand = wrappedSrand; PlatformSpecificRand = wrappedRand; }
    else { PlatformSpecificSrand = scriptedSrand; PlatformSpecificRand = scriptedRand; }
    if (d.route == 0) {
        reg.setGroupFilters(buildFilters(d.gf, owned));
        reg.setNameFilters(buildFilters(d.nf, owned));
        if (d.ri) reg.setRunIgnored();
        RecordingOutput out(false);
        if (d.list != 0) {
            TestResult tr(out);
            if (d.list == 1) reg.listTestGroupNames(tr); else if (d.list == 2) reg.listTestGroupAndCaseNames(tr); else reg.listTestLocations(tr);
            return;
        }
        if (d.rev) { reg.reverseTests(); checkList(); }
        for (unsigned long long r = 0; r < d.repeat; r++) {
            if (d.shuffle) reg.shuffleTests((size_t)d.seed);
            beginRep();
            TestResult tr(out);
            reg.runAllTests(tr);
        }
    } else {
        std::vector<std::string> args; args.push_back("prog"); args.push_back("-e");
        if (d.ri) args.push_back("-ri");
        if (d.rev) args.push_back("-b");
        if (d.list != 0) args.push_back(d.list == 1 ? "-lg" : d.list == 2 ? "-ln" : "-ll");
        const std::vector<FilterDef>& gf = d.gf; const std::vector<FilterDef>& nf = d.nf;
        std::vector<bool> gUsed(gf.size(), false), nUsed(nf.size(), false);
        if (d.route == 2)
            for (size_t k = 0; k < gf.size() && k < nf.size(); k++)
                if (pairable(gf[k], nf[k])) {
                    args.push_back(flagOf(gf[k], "-t", "-st", "-xt", "-xst")); args.push_back(gf[k].pat + "." + nf[k].pat);
                    gUsed[k] = nUsed[k] = true;
                }
        for (size_t k = gf.size(); k-- > 0;) if (!gUsed[k]) { args.push_back(flagOf(gf[k], "-g", "-sg", "-xg", "-xsg")); args.push_back(gf[k].pat); }
        for (size_t k = nf.size(); k-- > 0;) if (!nUsed[k]) { args.push_back(flagOf(nf[k], "-n", "-sn", "-xn", "-xsn")); args.push_back(nf[k].pat); }
        char b[40];
        if (d.shuffle) { snprintf(b, sizeof b, "-s%llu", d.seed); args.push_back(b); }
        snprintf(b, sizeof b, "-r%llu", d.repeat); args.push_back(b);
        std::vector<const char*> av; for (size_t k = 0; k < args.size(); k++) av.push_back(args[k].c_str());
        Runner* runner = new Runner((int)av.size(), av.data(), &reg);
        runners.push_back(runner);          // kept until the session ends: its filter objects stay valid memory
        try { runner->runAllTestsMain(); } catch (BrokenList&) { reg.resetPlugins(); throw; }
        UtestShell::setRethrowExceptions(false);
    }
}

int main()
{
    setvbuf(stdout, NULL, _IONBF, 0);
    Toks t; Out o;
    gRealSrand = PlatformSpecificSrand; gRealRand = PlatformSpecificRand;
    while (readline(t)) {
        std::vector<RunDef> runs(1);
        { RunDef& d = runs[0]; d.ri = t.u() != 0; d.rev = t.u() != 0; d.shuffle = t.u() != 0; d.seed = t.u(); d.repeat = t.u(); d.route = t.n(); d.real = t.u() != 0; d.list = 0; }
        int nt = t.n();
        std::vector<TestDef> defs(nt);
        for (int i = 0; i < nt; i++) { defs[i].id = i; t.bytes(defs[i].group); t.bytes(defs[i].name); defs[i].ignored = t.u() != 0; defs[i].executions = 0; }
        readFilters(t, runs[0].gf); readFilters(t, runs[0].nf); readScript(t, runs[0].script);
        while (!t.end() && t.peek() == ":r") {
            t.next();
            RunDef d; d.ri = t.u() != 0; d.rev = t.u() != 0; d.shuffle = t.u() != 0; d.seed = t.u(); d.repeat = t.u(); d.route = t.n(); d.real = t.u() != 0; d.list = t.n();
            readFilters(t, d.gf); readFilters(t, d.nf); readScript(t, d.script);
            runs.push_back(d);
        }

        gDefOf.clear(); gReps.clear(); gCur = Rep(); gOpen = false; gSeedLog.clear(); gRandLog.clear(); gScriptPos = 0;

        TestRegistry reg; gReg = &reg; gCount = (size_t)nt;
        std::vector<UtestShell*> shells(nt);
        for (int i = 0; i < nt; i++) {
            shells[i] = defs[i].ignored ? (UtestShell*)new ScriptedIgnoredShell(&defs[i]) : (UtestShell*)new ScriptedShell(&defs[i]);
            gDefOf[shells[i]] = &defs[i];
        }
        for (int i = 0; i < nt; i++) reg.addTest(shells[i]);      // registration order = id order

        std::vector<TestFilter*> owned; std::vector<Runner*> runners;
        std::vector<std::vector<Rep> > perRun;
        try {
            for (size_t k = 0; k < runs.size(); k++) {
                perRun.push_back(std::vector<Rep>());
                try { oneRun(reg, runs[k], owned, runners); }
                catch (BrokenList&) { if (gOpen) { gReps.push_back(gCur); gOpen = false; } perRun.back().swap(gReps); throw; }
                if (gOpen) { gReps.push_back(gCur); gOpen = false; }      // a repetition that never printed testsEnded
                perRun.back().swap(gReps); gReps.clear();
                gSeedLog.clear(); gRandLog.clear();                        // srand / rand calls outside a repetition belong to no run
            }
        } catch (BrokenList&) {}
        reg.setGroupFilters(NULLPTR); reg.setNameFilters(NULLPTR);
        for (size_t k = 0; k < runners.size(); k++) delete runners[k];
        UtestShell::setRethrowExceptions(false);
        PlatformSpecificSrand = gRealSrand; PlatformSpecificRand = gRealRand;

        for (size_t u = 0; u < perRun.size(); u++) {
            o << ":run";
            for (size_t r = 0; r < perRun[u].size(); r++) {
                const Rep& p = perRun[u][r];
                o << ":rep" << hx(p.order.size()); for (size_t k = 0; k < p.order.size(); k++) o << hx((unsigned long long)p.order[k]);
                o << hx(p.seeds.size()); for (size_t k = 0; k < p.seeds.size(); k++) o << hx(p.seeds[k]);
                o << hx(p.rands.size()); for (size_t k = 0; k < p.rands.size(); k++) o << hx(p.rands[k]);
                o << hx(p.nword); if (p.nword) o << p.word;
                o << p.counters;
            }
        }
        o << ":tot" << hx((unsigned long long)nt); for (int i = 0; i < nt; i++) o << hx(defs[i].executions);
        o.flush();
        for (size_t k = 0; k < owned.size(); k++) delete owned[k];
        for (int i = 0; i < nt; i++) delete shells[i];
    }
    fflush(stdout);
    _exit(0);
}
