// C16 harness: drives a real JUnitTestOutput through a private TestRegistry with scripted tests and captures every file
// written through the PlatformSpecificFOpen/FPuts/FClose seams.
// Scenario:  <ntests> { <nops> { op } <group> <name> <file> <line> <ignored> <nstmts> { :p <text> | :f <file> <line> <msg> | :x <file> <line> <msg> } } <npost> { op }
//            :p = TestResult::print(text), :f = addFailure (test continues), :x = fail() (test terminates)
//            op = :k <package> = setPackageName(package) | :n <group> = createFileName(group), the answer is recorded.  The ops in front of a
//            test are made on the output object just before its printCurrentTestStarted callback (a subclass forwards the callback after
//            making them), the trailing ones after runAllTests returned.  No op = the package is never set.
//            Optional tail  :F <run-ignored> <ngroupfilters> { <pattern> <strict> <invert> } <nnamefilters> { <pattern> <strict> <invert> }
//            = TestRegistry::setRunIgnored() / setGroupFilters / setNameFilters (TestFilter with strictMatching() / invertMatching(), chained with add()).
//            A test that is filtered out gets no callback, so the ops in front of it are never made.  An ignored test is an IgnoredUtestShell whose
//            createTest gives the scripted body (as IGNORE_TEST does): with -ri it runs like a plain test.
// Observation: the file system at the end: <nfiles> { <filename> <content> } in the order of the FIRST open of each name -- opening an existing name
//            for writing replaces its content, as fopen(name, "w") does --, <nnames> { <createFileName answer> } in call order.
#include "CppUTest/TestHarness.h"
#include "CppUTest/TestRegistry.h"
#include "CppUTest/TestResult.h"
#include "CppUTest/TestFailure.h"
#include "CppUTest/TestFilter.h"
#include "CppUTest/JUnitTestOutput.h"
#include "CppUTest/PlatformSpecificFunctions.h"
#include "hlib.h"
#include <memory>
using namespace hl;

struct Stmt { char kind; std::string text, file; size_t line; };
struct Op { char kind; std::string text; };
struct TestDef { std::string group, name, file; size_t line; bool ignored; std::vector<Stmt> body; std::vector<Op> ops; };

static TestResult* theResult = 0;
class ScriptTest : public Utest
{
public:
    UtestShell* sh; const TestDef* def;
    ScriptTest(UtestShell* s, const TestDef* d) : sh(s), def(d) {}
    void testBody() CPPUTEST_OVERRIDE
    {
        for (const Stmt& s : def->body) {
            if (s.kind == 'p') theResult->print(s.text.c_str());
            else if (s.kind == 'f') sh->addFailure(FailFailure(sh, s.file.c_str(), s.line, s.text.c_str()));
            else sh->fail(s.text.c_str(), s.file.c_str(), s.line);
        }
    }
};
class ScriptShell : public UtestShell
{
public:
    const TestDef* def;
    ScriptShell(const TestDef* d) : UtestShell(d->group.c_str(), d->name.c_str(), d->file.c_str(), d->line), def(d) {}
    Utest* createTest() CPPUTEST_OVERRIDE { return new ScriptTest(this, def); }
};
class IgnoredScriptShell : public IgnoredUtestShell
{
public:
    const TestDef* def;
    IgnoredScriptShell(const TestDef* d) : IgnoredUtestShell(d->group.c_str(), d->name.c_str(), d->file.c_str(), d->line), def(d) {}
    Utest* createTest() CPPUTEST_OVERRIDE { return new ScriptTest(this, def); }   // reached only with -ri
};

static std::vector<std::pair<std::string, std::string> > files;   // the file system: name -> content, in the order of the first opens
static PlatformSpecificFile myOpen(const char* name, const char*)
{
    for (size_t i = 0; i < files.size(); i++)
        if (files[i].first == name) { files[i].second.clear(); return (PlatformSpecificFile)(uintptr_t)(i + 1); }   // "w": truncate
    files.push_back(std::make_pair(std::string(name), std::string()));
    return (PlatformSpecificFile)(uintptr_t)files.size();
}
static void myPuts(const char* s, PlatformSpecificFile f) { size_t i = (size_t)(uintptr_t)f; if (i >= 1 && i <= files.size()) files[i - 1].second += s; }
static void myClose(PlatformSpecificFile) {}
static unsigned long myMillis() { return 0; }
static const char* myTimeString() { return "2000-01-01T00:00:00"; }

static std::vector<std::string> names;
static void doOps(JUnitTestOutput& out, const std::vector<Op>& ops)
{
    for (const Op& o : ops) {
        if (o.kind == 'k') out.setPackageName(o.text.c_str());
        else { SimpleString r = out.createFileName(o.text.c_str()); names.push_back(std::string(r.asCharString(), r.size())); }
    }
}
static void readOps(Toks& t, std::vector<Op>& ops)
{
    int m = t.n();
    for (int k = 0; k < m; k++) { Op o; std::string tag = t.sym(); o.kind = tag[0]; t.bytes(o.text); ops.push_back(o); }
}
// the output object under test: JUnitTestOutput itself; only the point in time of the outside calls is added
class OpsJUnitOutput : public JUnitTestOutput
{
public:
    const std::vector<TestDef>* defs; const std::vector<std::unique_ptr<UtestShell> >* shells;
    OpsJUnitOutput(const std::vector<TestDef>* d, const std::vector<std::unique_ptr<UtestShell> >* s) : defs(d), shells(s) {}
    void printCurrentTestStarted(const UtestShell& test) CPPUTEST_OVERRIDE
    {
        for (size_t i = 0; i < shells->size(); i++)
            if ((*shells)[i].get() == &test) doOps(*this, (*defs)[i].ops);
        JUnitTestOutput::printCurrentTestStarted(test);
    }
};

int main()
{
    PlatformSpecificFOpen = myOpen; PlatformSpecificFPuts = myPuts; PlatformSpecificFClose = myClose;
    GetPlatformSpecificTimeInMillis = myMillis; GetPlatformSpecificTimeString = myTimeString;
    Toks t; Out o;
    while (readline(t)) {
        int n = t.n();
        std::vector<TestDef> defs((size_t)n);
        for (int i = 0; i < n; i++) {
            TestDef& d = defs[(size_t)i];
            readOps(t, d.ops);
            t.bytes(d.group); t.bytes(d.name); t.bytes(d.file); d.line = (size_t)t.u(); d.ignored = t.u() != 0;
            int m = t.n();
            for (int k = 0; k < m; k++) {
                Stmt s; std::string tag = t.sym(); s.kind = tag[0]; s.line = 0;
                if (s.kind == 'p') t.bytes(s.text);
                else { t.bytes(s.file); s.line = (size_t)t.u(); t.bytes(s.text); }
                d.body.push_back(s);
            }
        }
        std::vector<Op> post; readOps(t, post);
        bool runIgnored = false;
        struct FilterDef { std::string pat; bool strict, invert; };
        std::vector<FilterDef> gfd, nfd;
        if (!t.end()) {
            std::string tag = t.sym();   // :F
            runIgnored = t.u() != 0;
            for (int which = 0; which < 2; which++) {
                int m = t.n();
                for (int k = 0; k < m; k++) { FilterDef f; t.bytes(f.pat); f.strict = t.u() != 0; f.invert = t.u() != 0; (which ? nfd : gfd).push_back(f); }
            }
        }
        files.clear(); names.clear();
        {
            std::vector<std::unique_ptr<UtestShell> > shells;
            TestRegistry reg;
            for (int i = 0; i < n; i++)
                shells.emplace_back(defs[(size_t)i].ignored ? (UtestShell*)new IgnoredScriptShell(&defs[(size_t)i]) : (UtestShell*)new ScriptShell(&defs[(size_t)i]));
            for (int i = n - 1; i >= 0; i--) reg.addTest(shells[(size_t)i].get());
            // the filter lists as the command line builds them: each new filter is put in front (new TestFilter(..)->add(old))
            std::vector<std::unique_ptr<TestFilter> > keep;
            TestFilter* heads[2] = { 0, 0 };
            for (int which = 0; which < 2; which++)
                for (const FilterDef& f : (which ? nfd : gfd)) {
                    TestFilter* nf = new TestFilter(f.pat.c_str());
                    if (f.strict) nf->strictMatching();
                    if (f.invert) nf->invertMatching();
                    keep.emplace_back(nf);
                    heads[which] = nf->add(heads[which]);
                }
            if (heads[0]) reg.setGroupFilters(heads[0]);
            if (heads[1]) reg.setNameFilters(heads[1]);
            if (runIgnored) reg.setRunIgnored();
            OpsJUnitOutput out(&defs, &shells);
            TestResult result(out);
            theResult = &result;
            reg.runAllTests(result);
            doOps(out, post);
        }
        o << hx(files.size());
        for (size_t i = 0; i < files.size(); i++) o << hbytes(files[i].first.data(), files[i].first.size()) << hbytes(files[i].second.data(), files[i].second.size());
        o << hx(names.size());
        for (size_t i = 0; i < names.size(); i++) o << hbytes(names[i].data(), names[i].size());
        o.flush();
    }
    return 0;
}
