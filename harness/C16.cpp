// C16 harness: drives a real JUnitTestOutput through a private TestRegistry with scripted tests and captures every file
// written through the PlatformSpecificFOpen/FPuts/FClose seams.
// Scenario:  <ntests> { <nops> { op } <group> <name> <file> <line> <ignored> <nstmts> { :p <text> | :f <file> <line> <msg> | :x <file> <line> <msg> } } <npost> { op }
//            :p = TestResult::print(text), :f = addFailure (test continues), :x = fail() (test terminates)
//            op = :k <package> = setPackageName(package) | :n <group> = createFileName(group), the answer is recorded.  The ops in front of a
//            test are made on the output object just before its printCurrentTestStarted callback (a subclass forwards the callback after
//            making them), the trailing ones after runAllTests returned.  No op = the package is never set.
// Observation: <nfiles> { <filename> <content> } in the order the files were opened, <nnames> { <createFileName answer> } in call order.
#include "CppUTest/TestHarness.h"
#include "CppUTest/TestRegistry.h"
#include "CppUTest/TestResult.h"
#include "CppUTest/TestFailure.h"
#include "CppUTest/JUnitTestOutput.h"
#include "CppUTest/PlatformSpecificFunctions.h"
#include "hlib.h"
#include <memory>
using namespace hl;

struct Stmt { char kind; std::string text, file; size_t line; };
struct Op { char kind; std::string text; };
struct TestDef { std::string group, name, file; size_t line; bool ignored; std::vector<Stmt> body; std::vector<Op> ops; };

class ScriptShell : public UtestShell
{
public:
    const TestDef* def;
    ScriptShell(const TestDef* d) : UtestShell(d->group.c_str(), d->name.c_str(), d->file.c_str(), d->line), def(d) {}
    TestResult* res() { return getTestResult(); }
    Utest* createTest() CPPUTEST_OVERRIDE;
};
class ScriptTest : public Utest
{
public:
    ScriptShell* sh;
    explicit ScriptTest(ScriptShell* s) : sh(s) {}
    void testBody() CPPUTEST_OVERRIDE
    {
        for (const Stmt& s : sh->def->body) {
            if (s.kind == 'p') sh->res()->print(s.text.c_str());
            else if (s.kind == 'f') sh->addFailure(FailFailure(sh, s.file.c_str(), s.line, s.text.c_str()));
            else sh->fail(s.text.c_str(), s.file.c_str(), s.line);
        }
    }
};
Utest* ScriptShell::createTest() { return new ScriptTest(this); }
class IgnoredScriptShell : public IgnoredUtestShell
{
public:
    IgnoredScriptShell(const TestDef* d) : IgnoredUtestShell(d->group.c_str(), d->name.c_str(), d->file.c_str(), d->line) {}
};

static std::vector<std::pair<std::string, std::string> > files;
static PlatformSpecificFile myOpen(const char* name, const char*) { files.push_back(std::make_pair(std::string(name), std::string())); return (PlatformSpecificFile)(uintptr_t)files.size(); }
static void myPuts(const char* s, PlatformSpecificFile f) { size_t i = (size_t)(uintptr_t)f; if (i >= 1 && i <= files.size()) files[i - 1].second += s; }
static void myClose(PlatformSpecificFile) {}
static unsigned long myMillis() { return 0; }
static const char* myTimeString() { return "2000-01-01T00:00:00"; }

static std::vector<std::string> names;
static void doOps(JUnitTestOutput& out, const std::vector<Op>& ops)
{
    for (const Op& o : ops) {
        if (o.kind == 'k') out.setPackageName(o.text.c_str());
        else { SimpleString r = out.createFileName(o.text.c_str()); names.push_back(std::string(r.asCharString(), r.size())); }
    }
}
static void readOps(Toks& t, std::vector<Op>& ops)
{
    int m = t.n();
    for (int k = 0; k < m; k++) { Op o; std::string tag = t.sym(); o.kind = tag[0]; t.bytes(o.text); ops.push_back(o); }
}
// the output object under test: JUnitTestOutput itself; only the point in time of the outside calls is added
class OpsJUnitOutput : public JUnitTestOutput
{
public:
    const std::vector<TestDef>* defs; size_t next;
    explicit OpsJUnitOutput(const std::vector<TestDef>* d) : defs(d), next(0) {}
    void printCurrentTestStarted(const UtestShell& test) CPPUTEST_OVERRIDE
    {
        if (next < defs->size()) doOps(*this, (*defs)[next].ops);
        next++;
        JUnitTestOutput::printCurrentTestStarted(test);
    }
};

int main()
{
    PlatformSpecificFOpen = myOpen; PlatformSpecificFPuts = myPuts; PlatformSpecificFClose = myClose;
    GetPlatformSpecificTimeInMillis = myMillis; GetPlatformSpecificTimeString = myTimeString;
    Toks t; Out o;
    while (readline(t)) {
        int n = t.n();
        std::vector<TestDef> defs((size_t)n);
        for (int i = 0; i < n; i++) {
            TestDef& d = defs[(size_t)i];
            readOps(t, d.ops);
            t.bytes(d.group); t.bytes(d.name); t.bytes(d.file); d.line = (size_t)t.u(); d.ignored = t.u() != 0;
            int m = t.n();
            for (int k = 0; k < m; k++) {
                Stmt s; std::string tag = t.sym(); s.kind = tag[0]; s.line = 0;
                if (s.kind == 'p') t.bytes(s.text);
                else { t.bytes(s.file); s.line = (size_t)t.u(); t.bytes(s.text); }
                d.body.push_back(s);
            }
        }
        std::vector<Op> post; readOps(t, post);
        files.clear(); names.clear();
        {
            std::vector<std::unique_ptr<UtestShell> > shells;
            TestRegistry reg;
            for (int i = 0; i < n; i++)
                shells.emplace_back(defs[(size_t)i].ignored ? (UtestShell*)new IgnoredScriptShell(&defs[(size_t)i]) : (UtestShell*)new ScriptShell(&defs[(size_t)i]));
            for (int i = n - 1; i >= 0; i--) reg.addTest(shells[(size_t)i].get());
            OpsJUnitOutput out(&defs);
            TestResult result(out);
            reg.runAllTests(result);
            doOps(out, post);
        }
        o << hx(files.size());
        for (size_t i = 0; i < files.size(); i++) o << hbytes(files[i].first.data(), files[i].first.size()) << hbytes(files[i].second.data(), files[i].second.size());
        o << hx(names.size());
        for (size_t i = 0; i < names.size(); i++) o << hbytes(names[i].data(), names[i].size());
        o.flush();
    }
    return 0;
}
