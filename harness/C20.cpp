// C20 harness: drives a real TeamCityTestOutput through a private TestRegistry with scripted tests and prints the byte stream that
// reached the sink and how often each test body was executed.
// Scenario:  [ :con <sink> <verbosity> ] [ :opt <run-ignored 0|1> <passes> ] [ :plug <mock 0|1> <leak 0|1> ] <dur> <nfilters> { <name> } <ntests> { <group> <name> <file> <line> <ignored> <nstmts> { <stmt> } }
//            stmt = :p <text> | :f <file> <line> <msg> | :x <file> <line> <msg>
//                 | :S <stage>      the statements that follow belong to stage 0 pre-test action of a plugin, 1 setup, 2 body (the default), 3 teardown, 4 post-test action
//                 | :sep <code>     the shell is run in a separate process (setRunInSeperateProcess); the fork / waitpid seams are scripted: the "child" 1 exits
//                                   with 0, 2 exits with 1, 3 is killed by signal 11 (no child exists; nothing of the test is executed in this process)
//                 | :k <kind> <copies> <stop> <file> <line> <msg>   a failure object built by 2 TestFailure(test, msg), 3 TestFailure(test, file, line),
//                                   4 TestFailure(test, file, line, msg), 5 a derived class on the 3-argument constructor that then sets the text (FailFailure),
//                                   6 a derived class on the 2-argument constructor that then sets the text; copied <copies> times by the copy constructor;
//                                   handed to UtestShell::addFailure (stop 0) / failWith (stop 1, leaves the stage) inside a test, to TestResult::addFailure in a plugin action
//                 | :e <std 0|1> <what>   throw std::runtime_error(what) / throw 42
//                 | :m <name>       mock().expectOneCall(name), never fulfilled      | :u <name>   mock().actualCall(name), not expected
//                 | :l <size>       a block of <size> bytes allocated on the leak plugin's detector and not released during the test
//            :plug = the real MockSupportPlugin / a real MemoryLeakWarningPlugin (on a private MemoryLeakDetector) installed after the harness' own plugin,
//            which performs the stage 0 / stage 4 statements of the current test in its preTestAction / postTestAction
//            sink = where the stream is observed: 0 (default) a subclass of TeamCityTestOutput that overrides printBuffer / flush (a test
//              double below the writer); 1 the REAL TeamCityTestOutput on the real ConsoleTestOutput::printBuffer / flush, with the
//              PlatformSpecificFPuts / PlatformSpecificFlush seams replaced by collectors (what is handed to the platform for stdout);
//              2 the real TeamCityTestOutput on the real platform functions (fputs / fflush on stdout) with file descriptor 1
//              redirected to a scratch file for the time the output object lives, the stdio buffer flushed at the end as exit() does;
//            verbosity = 0 quiet, 1 TestOutput::level_verbose (-v), 2 level_veryVerbose (-vv); without the prefix: 0 0;
//            run-ignored = TestRegistry::setRunIgnored() (-ri) before the first pass; passes = how often TestRegistry::runAllTests is
//            called on the same registry and the same output object, each time with a fresh TestResult (-r<n>, as
//            CommandLineTestRunner::runAllTests does); without the prefix: off, one pass;
//            an ignored test is an IgnoredUtestShell whose createTest() returns the scripted body (what IGNORE_TEST generates);
//            dur = milliseconds every test that runs takes (the clock seam is advanced by the test body);
//            filters = strict name filters (-sn): with at least one, only tests whose name equals one of them run;
//            :p = TestResult::print(text), :f = addFailure (test continues), :x = fail() (test terminates)
//            :raw <bytes> / :rawv <bytes>  -- parser differential only: answered by the same line (no library code involved)
// Observation: <stream> <n> { <count> } <k> { <ordinal> }   everything that reached the sink, in order; then for every pass, for every
//            registered test in order, how often testBody() of that test was entered during that pass (n = passes * ntests); then the ordinals
//            (0-based, over all calls of TestResult::addFailure of the run) of the failures whose text was produced by the library and not by a
//            statement of the scenario (unexpected exception, mock failure, leak report, separate process): checks/C20.py does not compare the
//            wording of those.
#include "CppUTest/TestHarness.h"
#include "CppUTest/TestRegistry.h"
#include "CppUTest/TestResult.h"
#include "CppUTest/TestFailure.h"
#include "CppUTest/TestFilter.h"
#include "CppUTest/TeamCityTestOutput.h"
#include "CppUTest/PlatformSpecificFunctions.h"
#include "CppUTest/TestPlugin.h"
#include "CppUTest/MemoryLeakDetector.h"
#include "CppUTest/MemoryLeakWarningPlugin.h"
#include "CppUTest/TestMemoryAllocator.h"
#include "CppUTestExt/MockSupport.h"
#include "CppUTestExt/MockSupportPlugin.h"
#include "hlib.h"
#include <memory>
#include <stdexcept>
#include <unistd.h>
#include <fcntl.h>
#include <sys/stat.h>
#include <sys/mman.h>
using namespace hl;

struct Stmt { char kind; std::string text, file; size_t line; int fkind, copies; bool stop; };
struct TestDef { std::string group, name, file; size_t line; bool ignored; int sep; std::vector<Stmt> stage[5]; };
enum { ST_PRE = 0, ST_SETUP = 1, ST_BODY = 2, ST_TEARDOWN = 3, ST_POST = 4 };

static unsigned long now_ms = 0;
static unsigned long dur_ms = 0;
static unsigned long myMillis() { return now_ms; }

static size_t cur_pass = 0, n_tests = 0;
static std::vector<unsigned long> exec_counts;      // [pass * n_tests + index]

struct HasResult { virtual TestResult* res() = 0; virtual const TestDef* definition() = 0; virtual ~HasResult() {} };

// a failure class of the kind the library's own derived classes are: built on the two-argument constructor, the text set afterwards
class ShortDerivedFailure : public TestFailure
{
public:
    ShortDerivedFailure(UtestShell* test, const SimpleString& text) : TestFailure(test, "text of the base class, replaced by the derived class") { message_ = text; }
};

// the addFailure seam: how many failures the next calls of TestResult::addFailure may attribute to a statement of the scenario
static unsigned long scripted_pending = 0;
static unsigned long failure_ordinal = 0;
static std::vector<unsigned long> library_made;
static const TestDef* current_def = NULLPTR;
static MemoryLeakDetector* leak_detector = NULLPTR;
static std::vector<char*> leaked_blocks;

// one statement; plugin_result != NULL: executed by a plugin's pre / post action (the failure goes to the TestResult directly)
static void exec_stmt(const Stmt& s, UtestShell* sh, TestResult* res, TestResult* plugin_result)
{
    switch (s.kind) {
    case 'p': res->print(s.text.c_str()); break;
    case 'f': scripted_pending++; sh->addFailure(FailFailure(sh, s.file.c_str(), s.line, s.text.c_str())); break;
    case 'x': scripted_pending++; sh->fail(s.text.c_str(), s.file.c_str(), s.line); break;
    case 'k': {
        std::unique_ptr<TestFailure> f;
        if (s.fkind == 2) f.reset(new TestFailure(sh, SimpleString(s.text.c_str())));
        else if (s.fkind == 3) f.reset(new TestFailure(sh, s.file.c_str(), s.line));
        else if (s.fkind == 4) f.reset(new TestFailure(sh, s.file.c_str(), s.line, SimpleString(s.text.c_str())));
        else if (s.fkind == 5) f.reset(new FailFailure(sh, s.file.c_str(), s.line, SimpleString(s.text.c_str())));
        else f.reset(new ShortDerivedFailure(sh, SimpleString(s.text.c_str())));
        for (int c = 0; c < s.copies; c++) { std::unique_ptr<TestFailure> g(new TestFailure(*f)); f.swap(g); }
        scripted_pending++;
        if (plugin_result) plugin_result->addFailure(*f);
        else if (s.stop) { TestFailure keep(*f); f.reset(); sh->failWith(keep); }     // failWith leaves by an exception: nothing of ours may stay allocated
        else sh->addFailure(*f);
        break; }
    case 'e':
        if (s.fkind) throw std::runtime_error(s.text);
        throw 42;
    case 'm': mock().expectOneCall(s.text.c_str()); break;
    case 'u': mock().actualCall(s.text.c_str()); break;
    case 'l':
        if (leak_detector) leaked_blocks.push_back(leak_detector->allocMemory(defaultNewAllocator(), s.line ? s.line : 1, "leak.cpp", 7));
        break;
    default: break;
    }
}

class ScriptTest : public Utest
{
public:
    UtestShell* sh; HasResult* hr; const TestDef* def; size_t index;
    ScriptTest(UtestShell* s, HasResult* h, const TestDef* d, size_t i) : sh(s), hr(h), def(d), index(i) {}
    void run_stage(int st) { for (const Stmt& s : def->stage[st]) exec_stmt(s, sh, hr->res(), NULLPTR); }
    void setup() CPPUTEST_OVERRIDE { run_stage(ST_SETUP); }
    void testBody() CPPUTEST_OVERRIDE
    {
        exec_counts[cur_pass * n_tests + index]++;
        now_ms += dur_ms;
        run_stage(ST_BODY);
    }
    void teardown() CPPUTEST_OVERRIDE { run_stage(ST_TEARDOWN); }
};
// the same scripted shell on top of UtestShell (TEST) and of IgnoredUtestShell (IGNORE_TEST): nothing but createTest is overridden,
// so willRun / runOneTest / setRunIgnored are the library's
template <class Base> class Scripted : public Base, public HasResult
{
public:
    const TestDef* def; size_t index;
    Scripted(const TestDef* d, size_t i) : Base(d->group.c_str(), d->name.c_str(), d->file.c_str(), d->line), def(d), index(i) {}
    TestResult* res() CPPUTEST_OVERRIDE { return this->getTestResult(); }
    const TestDef* definition() CPPUTEST_OVERRIDE { return def; }
    Utest* createTest() CPPUTEST_OVERRIDE { return new ScriptTest(this, this, def, index); }
};
typedef Scripted<UtestShell> ScriptShell;
typedef Scripted<IgnoredUtestShell> IgnoredScriptShell;

// the harness' own plugin: the stage 0 / stage 4 statements of the test at hand, reported the way MemoryLeakWarningPlugin reports
// (a TestFailure built from the shell, handed to TestResult::addFailure)
class ScriptPlugin : public TestPlugin
{
public:
    ScriptPlugin() : TestPlugin("ScriptPlugin") {}
    void act(int st, UtestShell& test, TestResult& result)
    {
        HasResult* h = dynamic_cast<HasResult*>(&test);
        if (!h) return;
        for (const Stmt& s : h->definition()->stage[st]) exec_stmt(s, &test, &result, &result);
    }
    void preTestAction(UtestShell& test, TestResult& result) CPPUTEST_OVERRIDE { act(ST_PRE, test, result); }
    void postTestAction(UtestShell& test, TestResult& result) CPPUTEST_OVERRIDE { act(ST_POST, test, result); }
};

class SilentLeakFailure : public MemoryLeakFailure
{
public:
    void fail(char*) CPPUTEST_OVERRIDE {}
};

// TestResult with the addFailure seam and a note of the test at hand (for the scripted fork / waitpid)
class SeamResult : public TestResult
{
public:
    SeamResult(TestOutput& o) : TestResult(o) {}
    void currentTestStarted(UtestShell* test) CPPUTEST_OVERRIDE
    {
        HasResult* h = dynamic_cast<HasResult*>(test);
        current_def = h ? h->definition() : NULLPTR;
        TestResult::currentTestStarted(test);
    }
    void addFailure(const TestFailure& failure) CPPUTEST_OVERRIDE
    {
        if (scripted_pending > 0) scripted_pending--; else library_made.push_back(failure_ordinal);
        failure_ordinal++;
        TestResult::addFailure(failure);
    }
};

// -p without a child: fork "succeeds" in the parent, waitpid reports the scripted end of the child
static int scriptedFork(void) { return 4242; }
static int scriptedWaitPid(int pid, int* status, int)
{
    int code = current_def ? current_def->sep : 1;
    *status = code == 2 ? (1 << 8) : code == 3 ? 11 : 0;       // exited with 1 / killed by signal 11 / exited with 0
    return pid;
}

class CapturingTeamCityOutput : public TeamCityTestOutput
{
public:
    std::string captured;
    void printBuffer(const char* s) CPPUTEST_OVERRIDE { captured += s; }
    void flush() CPPUTEST_OVERRIDE {}
};

// sink 1: what the library hands to the platform for standard output, chunk by chunk
static std::string seam_bytes;
static unsigned long seam_puts = 0, seam_flushes = 0;
static void seamFPuts(const char* str, PlatformSpecificFile file) { if (file == PlatformSpecificStdOut) { seam_bytes += str; seam_puts++; } }
static void seamFlush(void) { seam_flushes++; }
// sink 0: nothing of the library's may reach the harness' own standard output (the protocol channel) - e.g. the console output of the
// fallback TestResult that UtestShell::getTestResult() hands out outside a test
static void strayFPuts(const char*, PlatformSpecificFile) {}

// sink 2: file descriptor 1 goes to a scratch file while the output object lives
static int scratch_fd = -1, saved_fd1 = -1;
static void fd1_begin()
{
    if (scratch_fd < 0) {
        scratch_fd = memfd_create("c20-stdout", 0);
        if (scratch_fd < 0) { FILE* f = tmpfile(); scratch_fd = f ? dup(fileno(f)) : -1; }
        if (scratch_fd < 0) { perror("C20 harness: scratch file"); _exit(3); }
    }
    fflush(stdout);
    if (ftruncate(scratch_fd, 0) != 0 || lseek(scratch_fd, 0, SEEK_SET) < 0) { perror("C20 harness: ftruncate"); _exit(3); }
    saved_fd1 = dup(1);
    if (saved_fd1 < 0 || dup2(scratch_fd, 1) < 0) { perror("C20 harness: dup"); _exit(3); }
}
static std::string fd1_end()
{
    fflush(stdout);                                  // what exit() would still push out of the stdio buffer
    if (dup2(saved_fd1, 1) < 0) _exit(3);
    close(saved_fd1); saved_fd1 = -1;
    struct stat st; std::string data;
    if (fstat(scratch_fd, &st) != 0) _exit(3);
    data.resize((size_t)st.st_size);
    size_t got = 0;
    while (got < data.size()) {
        ssize_t k = pread(scratch_fd, &data[got], data.size() - got, (off_t)got);
        if (k <= 0) _exit(3);
        got += (size_t)k;
    }
    return data;
}

int main()
{
    void (*const realFPuts)(const char*, PlatformSpecificFile) = PlatformSpecificFPuts;
    void (*const realFlush)(void) = PlatformSpecificFlush;
    int (*const realFork)(void) = PlatformSpecificFork;
    int (*const realWaitPid)(int, int*, int) = PlatformSpecificWaitPid;
    GetPlatformSpecificTimeInMillis = myMillis;
    Toks t; Out o;
    while (readline(t)) {
        if (t.peek() == ":raw" || t.peek() == ":rawv") {
            std::string tag = t.peek(); t.next(); std::string b; t.bytes(b);
            o << tag << hbytes(b.data(), b.size()); o.flush();
            continue;
        }
        int sink = 0, verbosity = 0;
        if (t.peek() == ":con") { t.next(); sink = t.n(); verbosity = t.n(); if (sink < 0 || sink > 2) sink = 0; }
        bool ri = false; int passes = 1;
        if (t.peek() == ":opt") { t.next(); ri = t.u() != 0; passes = t.n(); if (passes < 0 || passes > 8) passes = 8; }
        bool with_mock = false, with_leak = false;
        if (t.peek() == ":plug") { t.next(); with_mock = t.u() != 0; with_leak = t.u() != 0; }
        dur_ms = (unsigned long)t.u(); now_ms = 0;
        int nf = t.n();
        std::vector<std::string> fnames((size_t)nf);
        for (int i = 0; i < nf; i++) t.bytes(fnames[(size_t)i]);
        int n = t.n();
        std::vector<TestDef> defs((size_t)n);
        for (int i = 0; i < n; i++) {
            TestDef& d = defs[(size_t)i];
            t.bytes(d.group); t.bytes(d.name); t.bytes(d.file); d.line = (size_t)t.u(); d.ignored = t.u() != 0;
            d.sep = 0;
            int m = t.n(), stage = ST_BODY;
            for (int k = 0; k < m; k++) {
                Stmt s; std::string tag = t.sym(); s.kind = tag[0]; s.line = 0; s.fkind = 0; s.copies = 0; s.stop = false;
                if (tag == "S") { stage = t.n(); if (stage < 0 || stage > 4) stage = ST_BODY; continue; }
                if (tag == "sep") { d.sep = t.n(); continue; }
                if (s.kind == 'p' || s.kind == 'm' || s.kind == 'u') t.bytes(s.text);
                else if (s.kind == 'e') { s.fkind = t.n(); t.bytes(s.text); }
                else if (s.kind == 'l') s.line = (size_t)t.u();
                else if (s.kind == 'k') { s.fkind = t.n(); s.copies = t.n(); s.stop = t.u() != 0; t.bytes(s.file); s.line = (size_t)t.u(); t.bytes(s.text); if (s.copies > 64) s.copies = 64; }
                else { t.bytes(s.file); s.line = (size_t)t.u(); t.bytes(s.text); }
                d.stage[stage].push_back(s);
            }
        }
        std::string stream;
        {
            std::vector<std::unique_ptr<UtestShell> > shells;
            SilentLeakFailure leak_reporter;
            MemoryLeakDetector detector(&leak_reporter);
            detector.enable();
            leak_detector = &detector; leaked_blocks.clear();
            ScriptPlugin own_plugin;
            MockSupportPlugin mock_plugin;
            MemoryLeakWarningPlugin leak_plugin("LeakPlugin", &detector);
            scripted_pending = 0; failure_ordinal = 0; library_made.clear(); current_def = NULLPTR;
            PlatformSpecificFork = scriptedFork; PlatformSpecificWaitPid = scriptedWaitPid;
            TestRegistry reg;
            reg.installPlugin(&own_plugin);                      // as a user's main() does: own plugins first ...
            if (with_mock) reg.installPlugin(&mock_plugin);
            if (with_leak) reg.installPlugin(&leak_plugin);      // ... the leak plugin last (CommandLineTestRunner): first before a test, last after it
            for (int i = 0; i < n; i++)
                shells.emplace_back(defs[(size_t)i].ignored ? (UtestShell*)new IgnoredScriptShell(&defs[(size_t)i], (size_t)i) : (UtestShell*)new ScriptShell(&defs[(size_t)i], (size_t)i));
            for (int i = 0; i < n; i++) if (defs[(size_t)i].sep) shells[(size_t)i]->setRunInSeperateProcess();
            for (int i = n - 1; i >= 0; i--) reg.addTest(shells[(size_t)i].get());
            std::vector<std::unique_ptr<TestFilter> > filters;
            TestFilter* chain = NULLPTR;
            for (int i = nf - 1; i >= 0; i--) {
                filters.emplace_back(new TestFilter(fnames[(size_t)i].c_str()));
                filters.back()->strictMatching();
                chain = filters.back()->add(chain);
            }
            reg.setNameFilters(chain);
            if (ri) reg.setRunIgnored();
            n_tests = (size_t)n; exec_counts.assign((size_t)passes * n_tests, 0);
            if (sink == 0) { PlatformSpecificFPuts = strayFPuts; PlatformSpecificFlush = seamFlush; }
            if (sink == 1) { seam_bytes.clear(); seam_puts = seam_flushes = 0; PlatformSpecificFPuts = seamFPuts; PlatformSpecificFlush = seamFlush; }
            if (sink == 2) fd1_begin();
            {
                std::unique_ptr<TeamCityTestOutput> outp(sink == 0 ? new CapturingTeamCityOutput : new TeamCityTestOutput);
                TeamCityTestOutput& out = *outp;
                if (verbosity == 1) out.verbose(TestOutput::level_verbose);
                if (verbosity >= 2) out.verbose(TestOutput::level_veryVerbose);
                for (cur_pass = 0; cur_pass < (size_t)passes; cur_pass++) {
                    out.printTestRun(cur_pass + 1, (size_t)passes);
                    SeamResult result(out);
                    reg.runAllTests(result);
                }
                if (sink == 0) stream = static_cast<CapturingTeamCityOutput&>(out).captured;
            }   // the output object is gone: whatever it still held has been written or is lost
            if (sink == 0) { PlatformSpecificFPuts = realFPuts; PlatformSpecificFlush = realFlush; }
            if (sink == 1) { PlatformSpecificFPuts = realFPuts; PlatformSpecificFlush = realFlush; stream = seam_bytes; }
            if (sink == 2) stream = fd1_end();
            PlatformSpecificFork = realFork; PlatformSpecificWaitPid = realWaitPid;
            mock().clear();
            for (char* b : leaked_blocks) detector.deallocMemory(defaultNewAllocator(), b);
            leaked_blocks.clear(); leak_detector = NULLPTR;
        }
        o << hbytes(stream.data(), stream.size()) << hx(exec_counts.size());
        for (unsigned long c : exec_counts) o << hx(c);
        o << hx(library_made.size());
        for (unsigned long c : library_made) o << hx(c);
        o.flush();
    }
    fflush(stdout);
    _exit(0);       // no static destructors: the harness' containers would be released through allocators the library has already destroyed
}
