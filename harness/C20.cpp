// C20 harness: drives a real TeamCityTestOutput (subclassed only to capture printBuffer) through a private TestRegistry with
// scripted tests and prints the captured byte stream.
// Scenario:  <dur> <nfilters> { <name> } <ntests> { <group> <name> <file> <line> <ignored> <nstmts> { :p <text> | :f <file> <line> <msg> | :x <file> <line> <msg> } }
//            dur = milliseconds every test that runs takes (the clock seam is advanced by the test body);
//            filters = strict name filters (-sn): with at least one, only tests whose name equals one of them run;
//            :p = TestResult::print(text), :f = addFailure (test continues), :x = fail() (test terminates)
//            :raw <bytes>   -- parser differential only: answered by  :raw <bytes>  (no library code involved)
// Observation: <stream>   everything the output object passed to printBuffer, in order.
#include "CppUTest/TestHarness.h"
#include "CppUTest/TestRegistry.h"
#include "CppUTest/TestResult.h"
#include "CppUTest/TestFailure.h"
#include "CppUTest/TestFilter.h"
#include "CppUTest/TeamCityTestOutput.h"
#include "CppUTest/PlatformSpecificFunctions.h"
#include "hlib.h"
#include <memory>
using namespace hl;

struct Stmt { char kind; std::string text, file; size_t line; };
struct TestDef { std::string group, name, file; size_t line; bool ignored; std::vector<Stmt> body; };

static unsigned long now_ms = 0;
static unsigned long dur_ms = 0;
static unsigned long myMillis() { return now_ms; }

class ScriptShell : public UtestShell
{
public:
    const TestDef* def;
    ScriptShell(const TestDef* d) : UtestShell(d->group.c_str(), d->name.c_str(), d->file.c_str(), d->line), def(d) {}
    TestResult* res() { return getTestResult(); }
    Utest* createTest() CPPUTEST_OVERRIDE;
};
class ScriptTest : public Utest
{
public:
    ScriptShell* sh;
    explicit ScriptTest(ScriptShell* s) : sh(s) {}
    void testBody() CPPUTEST_OVERRIDE
    {
        now_ms += dur_ms;
        for (const Stmt& s : sh->def->body) {
            if (s.kind == 'p') sh->res()->print(s.text.c_str());
            else if (s.kind == 'f') sh->addFailure(FailFailure(sh, s.file.c_str(), s.line, s.text.c_str()));
            else sh->fail(s.text.c_str(), s.file.c_str(), s.line);
        }
    }
};
Utest* ScriptShell::createTest() { return new ScriptTest(this); }
class IgnoredScriptShell : public IgnoredUtestShell
{
public:
    IgnoredScriptShell(const TestDef* d) : IgnoredUtestShell(d->group.c_str(), d->name.c_str(), d->file.c_str(), d->line) {}
};

class CapturingTeamCityOutput : public TeamCityTestOutput
{
public:
    std::string captured;
    void printBuffer(const char* s) CPPUTEST_OVERRIDE { captured += s; }
    void flush() CPPUTEST_OVERRIDE {}
};

int main()
{
    GetPlatformSpecificTimeInMillis = myMillis;
    Toks t; Out o;
    while (readline(t)) {
        if (t.peek() == ":raw") {
            t.next(); std::string b; t.bytes(b);
            o << std::string(":raw") << hbytes(b.data(), b.size()); o.flush();
            continue;
        }
        dur_ms = (unsigned long)t.u(); now_ms = 0;
        int nf = t.n();
        std::vector<std::string> fnames((size_t)nf);
        for (int i = 0; i < nf; i++) t.bytes(fnames[(size_t)i]);
        int n = t.n();
        std::vector<TestDef> defs((size_t)n);
        for (int i = 0; i < n; i++) {
            TestDef& d = defs[(size_t)i];
            t.bytes(d.group); t.bytes(d.name); t.bytes(d.file); d.line = (size_t)t.u(); d.ignored = t.u() != 0;
            int m = t.n();
            for (int k = 0; k < m; k++) {
                Stmt s; std::string tag = t.sym(); s.kind = tag[0]; s.line = 0;
                if (s.kind == 'p') t.bytes(s.text);
                else { t.bytes(s.file); s.line = (size_t)t.u(); t.bytes(s.text); }
                d.body.push_back(s);
            }
        }
        std::string stream;
        {
            std::vector<std::unique_ptr<UtestShell> > shells;
            TestRegistry reg;
            for (int i = 0; i < n; i++)
                shells.emplace_back(defs[(size_t)i].ignored ? (UtestShell*)new IgnoredScriptShell(&defs[(size_t)i]) : (UtestShell*)new ScriptShell(&defs[(size_t)i]));
            for (int i = n - 1; i >= 0; i--) reg.addTest(shells[(size_t)i].get());
            std::vector<std::unique_ptr<TestFilter> > filters;
            TestFilter* chain = NULLPTR;
            for (int i = nf - 1; i >= 0; i--) {
                filters.emplace_back(new TestFilter(fnames[(size_t)i].c_str()));
                filters.back()->strictMatching();
                chain = filters.back()->add(chain);
            }
            reg.setNameFilters(chain);
            CapturingTeamCityOutput out;
            TestResult result(out);
            reg.runAllTests(result);
            stream = out.captured;
        }
        o << hbytes(stream.data(), stream.size());
        o.flush();
    }
    return 0;
}
