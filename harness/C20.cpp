// C20 harness: drives a real TeamCityTestOutput through a private TestRegistry with scripted tests and prints the byte stream that
// reached the sink and how often each test body was executed.
// Scenario:  [ :con <sink> <verbosity> ] [ :opt <run-ignored 0|1> <passes> ] <dur> <nfilters> { <name> } <ntests> { <group> <name> <file> <line> <ignored> <nstmts> { :p <text> | :f <file> <line> <msg> | :x <file> <line> <msg> } }
//            sink = where the stream is observed: 0 (default) a subclass of TeamCityTestOutput that overrides printBuffer / flush (a test
//              double below the writer); 1 the REAL TeamCityTestOutput on the real ConsoleTestOutput::printBuffer / flush, with the
//              PlatformSpecificFPuts / PlatformSpecificFlush seams replaced by collectors (what is handed to the platform for stdout);
//              2 the real TeamCityTestOutput on the real platform functions (fputs / fflush on stdout) with file descriptor 1
//              redirected to a scratch file for the time the output object lives, the stdio buffer flushed at the end as exit() does;
//            verbosity = 0 quiet, 1 TestOutput::level_verbose (-v), 2 level_veryVerbose (-vv); without the prefix: 0 0;
//            run-ignored = TestRegistry::setRunIgnored() (-ri) before the first pass; passes = how often TestRegistry::runAllTests is
//            called on the same registry and the same output object, each time with a fresh TestResult (-r<n>, as
//            CommandLineTestRunner::runAllTests does); without the prefix: off, one pass;
//            an ignored test is an IgnoredUtestShell whose createTest() returns the scripted body (what IGNORE_TEST generates);
//            dur = milliseconds every test that runs takes (the clock seam is advanced by the test body);
//            filters = strict name filters (-sn): with at least one, only tests whose name equals one of them run;
//            :p = TestResult::print(text), :f = addFailure (test continues), :x = fail() (test terminates)
//            :raw <bytes> / :rawv <bytes>  -- parser differential only: answered by the same line (no library code involved)
// Observation: <stream> <n> { <count> }   everything that reached the sink, in order; then for every pass, for every
//            registered test in order, how often testBody() of that test was entered during that pass (n = passes * ntests).
#include "CppUTest/TestHarness.h"
#include "CppUTest/TestRegistry.h"
#include "CppUTest/TestResult.h"
#include "CppUTest/TestFailure.h"
#include "CppUTest/TestFilter.h"
#include "CppUTest/TeamCityTestOutput.h"
#include "CppUTest/PlatformSpecificFunctions.h"
#include "hlib.h"
#include <memory>
#include <unistd.h>
#include <fcntl.h>
#include <sys/stat.h>
#include <sys/mman.h>
using namespace hl;

struct Stmt { char kind; std::string text, file; size_t line; };
struct TestDef { std::string group, name, file; size_t line; bool ignored; std::vector<Stmt> body; };

static unsigned long now_ms = 0;
static unsigned long dur_ms = 0;
static unsigned long myMillis() { return now_ms; }

static size_t cur_pass = 0, n_tests = 0;
static std::vector<unsigned long> exec_counts;      // [pass * n_tests + index]

struct HasResult { virtual TestResult* res() = 0; virtual ~HasResult() {} };
class ScriptTest : public Utest
{
public:
    UtestShell* sh; HasResult* hr; const TestDef* def; size_t index;
    ScriptTest(UtestShell* s, HasResult* h, const TestDef* d, size_t i) : sh(s), hr(h), def(d), index(i) {}
    void testBody() CPPUTEST_OVERRIDE
    {
        exec_counts[cur_pass * n_tests + index]++;
        now_ms += dur_ms;
        for (const Stmt& s : def->body) {
            if (s.kind == 'p') hr->res()->print(s.text.c_str());
            else if (s.kind == 'f') sh->addFailure(FailFailure(sh, s.file.c_str(), s.line, s.text.c_str()));
            else sh->fail(s.text.c_str(), s.file.c_str(), s.line);
        }
    }
};
// the same scripted shell on top of UtestShell (TEST) and of IgnoredUtestShell (IGNORE_TEST): nothing but createTest is overridden,
// so willRun / runOneTest / setRunIgnored are the library's
template <class Base> class Scripted : public Base, public HasResult
{
public:
    const TestDef* def; size_t index;
    Scripted(const TestDef* d, size_t i) : Base(d->group.c_str(), d->name.c_str(), d->file.c_str(), d->line), def(d), index(i) {}
    TestResult* res() CPPUTEST_OVERRIDE { return this->getTestResult(); }
    Utest* createTest() CPPUTEST_OVERRIDE { return new ScriptTest(this, this, def, index); }
};
typedef Scripted<UtestShell> ScriptShell;
typedef Scripted<IgnoredUtestShell> IgnoredScriptShell;

class CapturingTeamCityOutput : public TeamCityTestOutput
{
public:
    std::string captured;
    void printBuffer(const char* s) CPPUTEST_OVERRIDE { captured += s; }
    void flush() CPPUTEST_OVERRIDE {}
};

// sink 1: what the library hands to the platform for standard output, chunk by chunk
static std::string seam_bytes;
static unsigned long seam_puts = 0, seam_flushes = 0;
static void seamFPuts(const char* str, PlatformSpecificFile file) { if (file == PlatformSpecificStdOut) { seam_bytes += str; seam_puts++; } }
static void seamFlush(void) { seam_flushes++; }

// sink 2: file descriptor 1 goes to a scratch file while the output object lives
static int scratch_fd = -1, saved_fd1 = -1;
static void fd1_begin()
{
    if (scratch_fd < 0) {
        scratch_fd = memfd_create("c20-stdout", 0);
        if (scratch_fd < 0) { FILE* f = tmpfile(); scratch_fd = f ? dup(fileno(f)) : -1; }
        if (scratch_fd < 0) { perror("C20 harness: scratch file"); _exit(3); }
    }
    fflush(stdout);
    if (ftruncate(scratch_fd, 0) != 0 || lseek(scratch_fd, 0, SEEK_SET) < 0) { perror("C20 harness: ftruncate"); _exit(3); }
    saved_fd1 = dup(1);
    if (saved_fd1 < 0 || dup2(scratch_fd, 1) < 0) { perror("C20 harness: dup"); _exit(3); }
}
static std::string fd1_end()
{
    fflush(stdout);                                  // what exit() would still push out of the stdio buffer
    if (dup2(saved_fd1, 1) < 0) _exit(3);
    close(saved_fd1); saved_fd1 = -1;
    struct stat st; std::string data;
    if (fstat(scratch_fd, &st) != 0) _exit(3);
    data.resize((size_t)st.st_size);
    size_t got = 0;
    while (got < data.size()) {
        ssize_t k = pread(scratch_fd, &data[got], data.size() - got, (off_t)got);
        if (k <= 0) _exit(3);
        got += (size_t)k;
    }
    return data;
}

int main()
{
    void (*const realFPuts)(const char*, PlatformSpecificFile) = PlatformSpecificFPuts;
    void (*const realFlush)(void) = PlatformSpecificFlush;
    GetPlatformSpecificTimeInMillis = myMillis;
    Toks t; Out o;
    while (readline(t)) {
        if (t.peek() == ":raw" || t.peek() == ":rawv") {
            std::string tag = t.peek(); t.next(); std::string b; t.bytes(b);
            o << tag << hbytes(b.data(), b.size()); o.flush();
            continue;
        }
        int sink = 0, verbosity = 0;
        if (t.peek() == ":con") { t.next(); sink = t.n(); verbosity = t.n(); if (sink < 0 || sink > 2) sink = 0; }
        bool ri = false; int passes = 1;
        if (t.peek() == ":opt") { t.next(); ri = t.u() != 0; passes = t.n(); if (passes < 0 || passes > 8) passes = 8; }
        dur_ms = (unsigned long)t.u(); now_ms = 0;
        int nf = t.n();
        std::vector<std::string> fnames((size_t)nf);
        for (int i = 0; i < nf; i++) t.bytes(fnames[(size_t)i]);
        int n = t.n();
        std::vector<TestDef> defs((size_t)n);
        for (int i = 0; i < n; i++) {
            TestDef& d = defs[(size_t)i];
            t.bytes(d.group); t.bytes(d.name); t.bytes(d.file); d.line = (size_t)t.u(); d.ignored = t.u() != 0;
            int m = t.n();
            for (int k = 0; k < m; k++) {
                Stmt s; std::string tag = t.sym(); s.kind = tag[0]; s.line = 0;
                if (s.kind == 'p') t.bytes(s.text);
                else { t.bytes(s.file); s.line = (size_t)t.u(); t.bytes(s.text); }
                d.body.push_back(s);
            }
        }
        std::string stream;
        {
            std::vector<std::unique_ptr<UtestShell> > shells;
            TestRegistry reg;
            for (int i = 0; i < n; i++)
                shells.emplace_back(defs[(size_t)i].ignored ? (UtestShell*)new IgnoredScriptShell(&defs[(size_t)i], (size_t)i) : (UtestShell*)new ScriptShell(&defs[(size_t)i], (size_t)i));
            for (int i = n - 1; i >= 0; i--) reg.addTest(shells[(size_t)i].get());
            std::vector<std::unique_ptr<TestFilter> > filters;
            TestFilter* chain = NULLPTR;
            for (int i = nf - 1; i >= 0; i--) {
                filters.emplace_back(new TestFilter(fnames[(size_t)i].c_str()));
                filters.back()->strictMatching();
                chain = filters.back()->add(chain);
            }
            reg.setNameFilters(chain);
            if (ri) reg.setRunIgnored();
            n_tests = (size_t)n; exec_counts.assign((size_t)passes * n_tests, 0);
            if (sink == 1) { seam_bytes.clear(); seam_puts = seam_flushes = 0; PlatformSpecificFPuts = seamFPuts; PlatformSpecificFlush = seamFlush; }
            if (sink == 2) fd1_begin();
            {
                std::unique_ptr<TeamCityTestOutput> outp(sink == 0 ? new CapturingTeamCityOutput : new TeamCityTestOutput);
                TeamCityTestOutput& out = *outp;
                if (verbosity == 1) out.verbose(TestOutput::level_verbose);
                if (verbosity >= 2) out.verbose(TestOutput::level_veryVerbose);
                for (cur_pass = 0; cur_pass < (size_t)passes; cur_pass++) {
                    out.printTestRun(cur_pass + 1, (size_t)passes);
                    TestResult result(out);
                    reg.runAllTests(result);
                }
                if (sink == 0) stream = static_cast<CapturingTeamCityOutput&>(out).captured;
            }   // the output object is gone: whatever it still held has been written or is lost
            if (sink == 1) { PlatformSpecificFPuts = realFPuts; PlatformSpecificFlush = realFlush; stream = seam_bytes; }
            if (sink == 2) stream = fd1_end();
        }
        o << hbytes(stream.data(), stream.size()) << hx(exec_counts.size());
        for (unsigned long c : exec_counts) o << hx(c);
        o.flush();
    }
    return 0;
}
