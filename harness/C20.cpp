// C20 harness: drives a real TeamCityTestOutput (subclassed only to capture printBuffer) through a private TestRegistry with
// scripted tests and prints the captured byte stream and how often each test body was executed.
// Scenario:  [ :opt <run-ignored 0|1> <passes> ] <dur> <nfilters> { <name> } <ntests> { <group> <name> <file> <line> <ignored> <nstmts> { :p <text> | :f <file> <line> <msg> | :x <file> <line> <msg> } }
//            run-ignored = TestRegistry::setRunIgnored() (-ri) before the first pass; passes = how often TestRegistry::runAllTests is
//            called on the same registry and the same output object, each time with a fresh TestResult (-r<n>, as
//            CommandLineTestRunner::runAllTests does); without the prefix: off, one pass;
//            an ignored test is an IgnoredUtestShell whose createTest() returns the scripted body (what IGNORE_TEST generates);
//            dur = milliseconds every test that runs takes (the clock seam is advanced by the test body);
//            filters = strict name filters (-sn): with at least one, only tests whose name equals one of them run;
//            :p = TestResult::print(text), :f = addFailure (test continues), :x = fail() (test terminates)
//            :raw <bytes>   -- parser differential only: answered by  :raw <bytes>  (no library code involved)
// Observation: <stream> <n> { <count> }   everything the output object passed to printBuffer, in order; then for every pass, for every
//            registered test in order, how often testBody() of that test was entered during that pass (n = passes * ntests).
#include "CppUTest/TestHarness.h"
#include "CppUTest/TestRegistry.h"
#include "CppUTest/TestResult.h"
#include "CppUTest/TestFailure.h"
#include "CppUTest/TestFilter.h"
#include "CppUTest/TeamCityTestOutput.h"
#include "CppUTest/PlatformSpecificFunctions.h"
#include "hlib.h"
#include <memory>
using namespace hl;

struct Stmt { char kind; std::string text, file; size_t line; };
struct TestDef { std::string group, name, file; size_t line; bool ignored; std::vector<Stmt> body; };

static unsigned long now_ms = 0;
static unsigned long dur_ms = 0;
static unsigned long myMillis() { return now_ms; }

static size_t cur_pass = 0, n_tests = 0;
static std::vector<unsigned long> exec_counts;      // [pass * n_tests + index]

struct HasResult { virtual TestResult* res() = 0; virtual ~HasResult() {} };
class ScriptTest : public Utest
{
public:
    UtestShell* sh; HasResult* hr; const TestDef* def; size_t index;
    ScriptTest(UtestShell* s, HasResult* h, const TestDef* d, size_t i) : sh(s), hr(h), def(d), index(i) {}
    void testBody() CPPUTEST_OVERRIDE
    {
        exec_counts[cur_pass * n_tests + index]++;
        now_ms += dur_ms;
        for (const Stmt& s : def->body) {
            if (s.kind == 'p') hr->res()->print(s.text.c_str());
            else if (s.kind == 'f') sh->addFailure(FailFailure(sh, s.file.c_str(), s.line, s.text.c_str()));
            else sh->fail(s.text.c_str(), s.file.c_str(), s.line);
        }
    }
};
// the same scripted shell on top of UtestShell (TEST) and of IgnoredUtestShell (IGNORE_TEST): nothing but createTest is overridden,
// so willRun / runOneTest / setRunIgnored are the library's
template <class Base> class Scripted : public Base, public HasResult
{
public:
    const TestDef* def; size_t index;
    Scripted(const TestDef* d, size_t i) : Base(d->group.c_str(), d->name.c_str(), d->file.c_str(), d->line), def(d), index(i) {}
    TestResult* res() CPPUTEST_OVERRIDE { return this->getTestResult(); }
    Utest* createTest() CPPUTEST_OVERRIDE { return new ScriptTest(this, this, def, index); }
};
typedef Scripted<UtestShell> ScriptShell;
typedef Scripted<IgnoredUtestShell> IgnoredScriptShell;

class CapturingTeamCityOutput : public TeamCityTestOutput
{
public:
    std::string captured;
    void printBuffer(const char* s) CPPUTEST_OVERRIDE { captured += s; }
    void flush() CPPUTEST_OVERRIDE {}
};

int main()
{
    GetPlatformSpecificTimeInMillis = myMillis;
    Toks t; Out o;
    while (readline(t)) {
        if (t.peek() == ":raw") {
            t.next(); std::string b; t.bytes(b);
            o << std::string(":raw") << hbytes(b.data(), b.size()); o.flush();
            continue;
        }
        bool ri = false; int passes = 1;
        if (t.peek() == ":opt") { t.next(); ri = t.u() != 0; passes = t.n(); if (passes < 0 || passes > 8) passes = 8; }
        dur_ms = (unsigned long)t.u(); now_ms = 0;
        int nf = t.n();
        std::vector<std::string> fnames((size_t)nf);
        for (int i = 0; i < nf; i++) t.bytes(fnames[(size_t)i]);
        int n = t.n();
        std::vector<TestDef> defs((size_t)n);
        for (int i = 0; i < n; i++) {
            TestDef& d = defs[(size_t)i];
            t.bytes(d.group); t.bytes(d.name); t.bytes(d.file); d.line = (size_t)t.u(); d.ignored = t.u() != 0;
            int m = t.n();
            for (int k = 0; k < m; k++) {
                Stmt s; std::string tag = t.sym(); s.kind = tag[0]; s.line = 0;
                if (s.kind == 'p') t.bytes(s.text);
                else { t.bytes(s.file); s.line = (size_t)t.u(); t.bytes(s.text); }
                d.body.push_back(s);
            }
        }
        std::string stream;
        {
            std::vector<std::unique_ptr<UtestShell> > shells;
            TestRegistry reg;
            for (int i = 0; i < n; i++)
                shells.emplace_back(defs[(size_t)i].ignored ? (UtestShell*)new IgnoredScriptShell(&defs[(size_t)i], (size_t)i) : (UtestShell*)new ScriptShell(&defs[(size_t)i], (size_t)i));
            for (int i = n - 1; i >= 0; i--) reg.addTest(shells[(size_t)i].get());
            std::vector<std::unique_ptr<TestFilter> > filters;
            TestFilter* chain = NULLPTR;
            for (int i = nf - 1; i >= 0; i--) {
                filters.emplace_back(new TestFilter(fnames[(size_t)i].c_str()));
                filters.back()->strictMatching();
                chain = filters.back()->add(chain);
            }
            reg.setNameFilters(chain);
            if (ri) reg.setRunIgnored();
            n_tests = (size_t)n; exec_counts.assign((size_t)passes * n_tests, 0);
            CapturingTeamCityOutput out;
            for (cur_pass = 0; cur_pass < (size_t)passes; cur_pass++) {
                out.printTestRun(cur_pass + 1, (size_t)passes);
                TestResult result(out);
                reg.runAllTests(result);
            }
            stream = out.captured;
        }
        o << hbytes(stream.data(), stream.size()) << hx(exec_counts.size());
        for (unsigned long c : exec_counts) o << hx(c);
        o.flush();
    }
    return 0;
}
