// C07 harness: a private TestRegistry of scripted tests (setup/body/teardown = statement lists that allocate/release blocks by
// id, declare expected leaks, ask to ignore leaks, fail on their own), run by TestRegistry::runAllTests with the real
// MemoryLeakWarningPlugin installed, new/delete overloads on.
//   mode 0: the plugin gets a LOCAL MemoryLeakDetector; blocks are obtained with detector->allocMemory / deallocMemory.
//   mode 1: a fresh detector is installed as the GLOBAL one (setGlobalDetector), the plugin uses it; blocks are obtained with
//           operator new / new [] / cpputest_malloc and released with the matching call.
// A plugin installed after the leak plugin (so its pre-action runs first) performs the <before> statements of each test; a
// plugin installed before the leak plugin performs <ipre> in its pre-action (after the leak plugin's) and <ipost> in its
// post-action (before the leak plugin's), a failing statement there being result.addFailure(...).  <pre> runs before the leak
// plugin is constructed (the detector is still disabled).
// While the overloads are on the harness itself allocates nothing (everything is sized before), so that every tracked block is
// one the scenario asked for -- or one CppUTest makes for itself.
// Further MemoryLeakWarningPlugin instances (:pn j shared / :pd j): constructed by the scenario's statements wherever they stand
// (placement new into static storage, so that the harness still allocates nothing), each on a private MemoryLeakDetector made
// before the overloads are switched on, or on the runner's detector (mode 0: handed over, mode 1: NULL = the global one).
// :pa/:pf/:pr go through the private detector, :pb/:pe call the instance's pre/postTestAction with a TestResult of its own,
// :pq its FinalReport(k).  firstPlugin_ is NULL when a scenario starts (a fresh process) and is then left to the code under test:
// EXPECT_N_LEAKS / IGNORE_ALL_LEAKS_IN_TEST reach whatever instance it points to.
// Scenario / observation grammar: ocaml/c07_driver.ml.
#include "hlib.h"
#include <algorithm>
#include <new>
#define private public
#define protected public
#include "CppUTest/TestHarness.h"
#include "CppUTest/TestRegistry.h"
#include "CppUTest/TestOutput.h"
#include "CppUTest/TestPlugin.h"
#include "CppUTest/MemoryLeakDetector.h"
#include "CppUTest/MemoryLeakWarningPlugin.h"
#include "CppUTest/TestMemoryAllocator.h"
#include "CppUTest/TestHarness_c.h"
#include "CppUTest/PlatformSpecificFunctions.h"
#undef private
#undef protected
#undef new                     // the scripted allocations name the operator (plain or with file/line) themselves
#include <unistd.h>
using namespace hl;

struct Stmt { char kind; unsigned id; size_t size; unsigned k; size_t n; unsigned j; };
struct TestDef { int idx; std::vector<Stmt> before, ipre, ph[3], ipost; char name[16]; };

static const unsigned MAXID = 4096, MAXALLOC = 1 << 16, MAXTESTS = 4096;
static int gMode;
static MemoryLeakDetector* gDet;
static void* gPtr[MAXID]; static unsigned gKind[MAXID];
static unsigned gNumOf[MAXALLOC]; static size_t gAllocs;          // detector allocation number of the k-th scripted allocation
static int gMisuse;                                                // reports of the local detector that are not leak reports
// failures seen by the output, per test
static unsigned gFail[MAXTESTS], gLeak[MAXTESTS]; static size_t gTextAt[MAXTESTS]; static int gNTests; static unsigned gStray;
static char* gArena; static size_t gArenaUsed; static const size_t ARENA = 8u << 20;

static TestMemoryAllocator* allocatorOf(unsigned k)
{
    return k == 0 ? getCurrentNewAllocator() : k == 1 ? getCurrentNewArrayAllocator() : getCurrentMallocAllocator();
}
static void doAlloc(const Stmt& s)
{
    if (gPtr[s.id] || gAllocs >= MAXALLOC) { fprintf(stderr, "harness: block id %x in use\n", s.id); exit(3); }
    gNumOf[gAllocs++] = gDet->getCurrentAllocationNumber();
    void* p;
    if (gMode == 0) p = gDet->allocMemory(allocatorOf(s.k), s.size, "scr.cpp", 7, s.k == 2);
    else if (s.k == 0) p = (s.id & 1) ? ::operator new(s.size, "scr.cpp", (size_t) 7) : ::operator new(s.size);
    else if (s.k == 1) p = (s.id & 1) ? new ("scr.cpp", (size_t) 7) char[s.size] : new char[s.size];
    else p = cpputest_malloc(s.size);
    if (!p) { fprintf(stderr, "harness: allocation failed\n"); exit(3); }
    memset(p, 'A', s.size);
    gPtr[s.id] = p; gKind[s.id] = s.k;
}
static void doFree(unsigned id)
{
    void* p = gPtr[id]; unsigned k = gKind[id];
    gPtr[id] = NULLPTR;
    if (gMode == 0) gDet->deallocMemory(allocatorOf(k), p, "scr.cpp", 8, k == 2);
    else if (!p) return;
    else if (k == 0) ::operator delete(p);
    else if (k == 1) delete [] (char*) p;
    else cpputest_free(p);
}
static void doRealloc(const Stmt& s)
{
    void* old = gPtr[s.id];
    if ((old && gKind[s.id] != 2) || gAllocs >= MAXALLOC) { fprintf(stderr, "harness: realloc of block id %x\n", s.id); exit(3); }
    gNumOf[gAllocs++] = gDet->getCurrentAllocationNumber();
    void* p;
    if (gMode == 0) p = gDet->reallocMemory(getCurrentMallocAllocator(), (char*) old, s.size, "scr.cpp", 9, true);
    else p = cpputest_realloc(old, s.size);
    if (!p) { fprintf(stderr, "harness: reallocation failed\n"); exit(3); }
    gPtr[s.id] = p; gKind[s.id] = 2;
}

// ---------------------------------------------------------------- further plugin instances
static const unsigned NSLOT = 8, MAXINC = 256, MAXEV = 4096;
class LocalReporter : public MemoryLeakFailure {
public:
    void fail(char*) CPPUTEST_OVERRIDE { gMisuse++; }
};
class SecOutput : public StringBufferTestOutput {                     // output of an instance's own TestResult
public:
    const char* last; unsigned seen;
    SecOutput() : last(NULLPTR), seen(0) {}
    void printFailure(const TestFailure& f) CPPUTEST_OVERRIDE
    {
        SimpleString msg = f.getMessage();
        const char* m = msg.asCharString();
        seen++;
        if (strstr(m, "Memory leak(s) found") || strstr(m, "No memory leaks were detected")) {
            size_t n = strlen(m) + 1;
            if (gArenaUsed + n > ARENA) { fprintf(stderr, "harness: text arena exhausted\n"); exit(3); }
            memcpy(gArena + gArenaUsed, m, n); last = gArena + gArenaUsed; gArenaUsed += n;
        }
    }
};
struct Inc {                                                          // one constructed instance with a private detector
    MemoryLeakDetector* det; SecOutput* out; TestResult* res;
    void** ptr; unsigned* numOf; size_t allocs;
};
struct Slot { MemoryLeakWarningPlugin* plug; Inc* inc; };
struct Event { int kind; unsigned j; unsigned nfail, nleak; const char* text; Inc* inc; };
static Inc gInc[MAXINC]; static unsigned gIncMade, gIncUsed;
static Slot gSlot[NSLOT];
alignas(64) static unsigned char gPlugMem[NSLOT][sizeof(MemoryLeakWarningPlugin)];
static Event gEv[MAXEV]; static unsigned gNEv;
static UtestShell* gSecShell;

static Slot& slotOf(unsigned j, bool wantAlive)
{
    if (j >= NSLOT || (gSlot[j].plug != NULLPTR) != wantAlive) { fprintf(stderr, "harness: plugin slot %x\n", j); exit(3); }
    return gSlot[j];
}
static Inc& incOf(unsigned j)
{
    Slot& s = slotOf(j, true);
    if (!s.inc) { fprintf(stderr, "harness: plugin slot %x shares the runner's detector\n", j); exit(3); }
    return *s.inc;
}
static const char* keep(const char* txt)
{
    size_t n = strlen(txt) + 1;
    if (gArenaUsed + n > ARENA) { fprintf(stderr, "harness: text arena exhausted\n"); exit(3); }
    memcpy(gArena + gArenaUsed, txt, n); gArenaUsed += n;
    return gArena + gArenaUsed - n;
}
static void doSec(const Stmt& s)
{
    switch (s.kind) {
    case 'N': {
        Slot& sl = slotOf(s.j, false);
        MemoryLeakDetector* d;
        if (s.k) { sl.inc = NULLPTR; d = gMode == 0 ? gDet : NULLPTR; }        // the runner's detector: handed over / "the global one"
        else {
            if (gIncUsed >= gIncMade) { fprintf(stderr, "harness: no private detector left\n"); exit(3); }
            sl.inc = &gInc[gIncUsed++]; d = sl.inc->det;
        }
        sl.plug = new (gPlugMem[s.j]) MemoryLeakWarningPlugin("VerifOther", d);
        break; }
    case 'D': { Slot& sl = slotOf(s.j, true); sl.plug->~MemoryLeakWarningPlugin(); sl.plug = NULLPTR; break; }   // the private detector outlives it
    case 'A': {
        Inc& in = incOf(s.j);
        if (in.ptr[s.id] || in.allocs >= MAXALLOC) { fprintf(stderr, "harness: private block id %x in use\n", s.id); exit(3); }
        in.numOf[in.allocs++] = in.det->getCurrentAllocationNumber();
        char* p = gSlot[s.j].plug->getMemoryLeakDetector()->allocMemory(getCurrentMallocAllocator(), s.size, "sec.cpp", 7, true);
        if (!p) { fprintf(stderr, "harness: allocation failed\n"); exit(3); }
        memset(p, 'B', s.size); in.ptr[s.id] = p;
        break; }
    case 'F': {
        Inc& in = incOf(s.j); void* p = in.ptr[s.id]; in.ptr[s.id] = NULLPTR;
        gSlot[s.j].plug->getMemoryLeakDetector()->deallocMemory(getCurrentMallocAllocator(), p, "sec.cpp", 8, true);
        break; }
    case 'R': {
        Inc& in = incOf(s.j);
        if (in.allocs >= MAXALLOC) { fprintf(stderr, "harness: too many private allocations\n"); exit(3); }
        in.numOf[in.allocs++] = in.det->getCurrentAllocationNumber();
        char* p = gSlot[s.j].plug->getMemoryLeakDetector()->reallocMemory(getCurrentMallocAllocator(), (char*) in.ptr[s.id], s.size, "sec.cpp", 9, true);
        if (!p) { fprintf(stderr, "harness: reallocation failed\n"); exit(3); }
        in.ptr[s.id] = p;
        break; }
    case 'B': { Inc& in = incOf(s.j); gSlot[s.j].plug->preTestAction(*gSecShell, *in.res); break; }
    case 'E': {
        Inc& in = incOf(s.j);
        if (gNEv >= MAXEV) { fprintf(stderr, "harness: too many events\n"); exit(3); }
        size_t f0 = in.res->getFailureCount(); in.out->last = NULLPTR;
        gSlot[s.j].plug->postTestAction(*gSecShell, *in.res);
        Event& e = gEv[gNEv++]; e.kind = 0; e.j = s.j; e.inc = &in;
        e.nfail = (unsigned) (in.res->getFailureCount() - f0); e.text = in.out->last; e.nleak = e.text ? 1 : 0;
        break; }
    case 'Q': {
        Inc& in = incOf(s.j);
        if (gNEv >= MAXEV) { fprintf(stderr, "harness: too many events\n"); exit(3); }
        // report() appends to the detector's text buffer, which only startChecking() empties: start from an empty buffer without
        // touching the period
        gSlot[s.j].plug->getMemoryLeakDetector()->outputBuffer_.clear();
        Event& e = gEv[gNEv++]; e.kind = 1; e.j = s.j; e.inc = &in; e.nfail = e.nleak = 0;
        e.text = keep(gSlot[s.j].plug->FinalReport(s.n));
        break; }
    default: fprintf(stderr, "harness: statement %c\n", s.kind); exit(3);
    }
}
static void execList(const std::vector<Stmt>& v, UtestShell* pluginTest = NULLPTR, TestResult* pluginResult = NULLPTR)
{
    for (size_t i = 0; i < v.size(); i++) {
        const Stmt& s = v[i];
        switch (s.kind) {
        case 'a': doAlloc(s); break;
        case 'f': doFree(s.id); break;
        case 'r': doRealloc(s); break;
        case 'x':
            if (pluginTest) pluginResult->addFailure(TestFailure(pluginTest, "plg.cpp", 3, "VPLUGIN"));   // as MockSupportPlugin does
            else FAIL("VOWN");
            break;
        case 'e': EXPECT_N_LEAKS(s.n); break;
        case 'i': IGNORE_ALL_LEAKS_IN_TEST(); break;
        default: doSec(s);
        }
    }
}

class ScriptedUtest : public Utest {
public:
    explicit ScriptedUtest(TestDef* d) : d_(d) {}
    void setup() CPPUTEST_OVERRIDE { execList(d_->ph[0]); }
    void testBody() CPPUTEST_OVERRIDE { execList(d_->ph[1]); }
    void teardown() CPPUTEST_OVERRIDE { execList(d_->ph[2]); }
private:
    TestDef* d_;
};
class ScriptedShell : public UtestShell {
public:
    ScriptedShell(TestDef* d) : UtestShell("G", d->name, "scr.cpp", 1), d_(d) {}
    Utest* createTest() CPPUTEST_OVERRIDE { return new ScriptedUtest(d_); }
    TestDef* d_;
};
class BeforePlugin : public TestPlugin {
public:
    BeforePlugin() : TestPlugin("VerifBefore") {}
    void preTestAction(UtestShell& t, TestResult&) CPPUTEST_OVERRIDE { execList(static_cast<ScriptedShell&>(t).d_->before); }
};
class InnerPlugin : public TestPlugin {
public:
    InnerPlugin() : TestPlugin("VerifInner") {}
    void preTestAction(UtestShell& t, TestResult& r) CPPUTEST_OVERRIDE { execList(static_cast<ScriptedShell&>(t).d_->ipre, &t, &r); }
    void postTestAction(UtestShell& t, TestResult& r) CPPUTEST_OVERRIDE { execList(static_cast<ScriptedShell&>(t).d_->ipost, &t, &r); }
};
class RecordingOutput : public StringBufferTestOutput {
public:
    void printFailure(const TestFailure& f) CPPUTEST_OVERRIDE
    {
        SimpleString name = f.getTestNameOnly(); SimpleString msg = f.getMessage();
        int idx = -1; unsigned v = 0;
        if (sscanf(name.asCharString(), "t%x", &v) == 1 && (int) v < gNTests) idx = (int) v;
        if (idx < 0) { gStray++; return; }
        gFail[idx]++;
        const char* m = msg.asCharString();
        if (strstr(m, "Memory leak(s) found") || strstr(m, "No memory leaks were detected")) {
            if (gLeak[idx]++ == 0) {
                size_t n = strlen(m) + 1;
                if (gArenaUsed + n > ARENA) { fprintf(stderr, "harness: text arena exhausted\n"); exit(3); }
                memcpy(gArena + gArenaUsed, m, n); gTextAt[idx] = gArenaUsed; gArenaUsed += n;
            }
        }
    }
};

struct Ent { unsigned long long num, size; };
static void parseReport(const char* txt, Out& o, const unsigned* numOf = gNumOf, size_t nAllocs = (size_t) -1)
{
    if (nAllocs == (size_t) -1) nAllocs = gAllocs;
    bool noleaks = strstr(txt, "No memory leaks were detected") != nullptr;
    bool many = strstr(txt, "Too many memory leaks to report") != nullptr;
    long total = 0;
    const char* ft = strstr(txt, "Total number of leaks:");
    if (ft) total = strtol(ft + strlen("Total number of leaks:"), nullptr, 10);
    std::vector<Ent> es;
    for (const char* p = strstr(txt, "Alloc num ("); p; p = strstr(p + 1, "Alloc num (")) {
        unsigned number; unsigned long size; int n = -1;
        if (sscanf(p, "Alloc num (%u) Leak size: %lu Allocated at:%n", &number, &size, &n) != 2 || n < 0) continue;
        Ent e; e.num = 0xfffff; e.size = size;
        for (size_t k = 0; k < nAllocs; k++) if (numOf[k] == number) { e.num = k + 1; break; }
        es.push_back(e);
    }
    std::sort(es.begin(), es.end(), [](const Ent& a, const Ent& b) { return a.num != b.num ? a.num < b.num : a.size < b.size; });
    o << (noleaks ? "1" : "0") << (many ? "1" : "0") << hx((unsigned long long) total) << hx(es.size());
    for (size_t k = 0; k < es.size(); k++) o << hx(es[k].num) << hx(es[k].size);
}

static unsigned gWantInc;
static void readStmts(Toks& t, std::vector<Stmt>& v)
{
    int n = t.n();
    for (int k = 0; k < n; k++) {
        Stmt s; std::string sy = t.sym(); s.kind = sy[0]; s.id = 0; s.size = 0; s.k = 0; s.n = 0; s.j = 0;
        if (s.kind == 'p') {
            char c = sy.size() > 1 ? sy[1] : '?';
            s.kind = c == 'n' ? 'N' : c == 'd' ? 'D' : c == 'a' ? 'A' : c == 'f' ? 'F' : c == 'r' ? 'R' : c == 'b' ? 'B' : c == 'e' ? 'E' : c == 'q' ? 'Q' : '?';
            s.j = (unsigned) t.u();
            if (s.kind == 'N') { s.k = t.u() ? 1 : 0; if (!s.k) gWantInc++; }
            else if (s.kind == 'A' || s.kind == 'R') { s.id = (unsigned) t.u(); s.size = (size_t) t.u(); }
            else if (s.kind == 'F') s.id = (unsigned) t.u();
            else if (s.kind == 'Q') s.n = (size_t) t.u();
            if (s.j >= NSLOT || s.id >= MAXID || s.size > 4096) { fprintf(stderr, "harness: statement out of range\n"); exit(3); }
            v.push_back(s); continue;
        }
        if (s.kind == 'a') { s.id = (unsigned) t.u(); s.size = (size_t) t.u(); s.k = (unsigned) t.u(); }
        else if (s.kind == 'f') s.id = (unsigned) t.u();
        else if (s.kind == 'r') { s.id = (unsigned) t.u(); s.size = (size_t) t.u(); }
        else if (s.kind == 'e') s.n = (size_t) t.u();
        if (s.id >= MAXID || s.k > 2 || s.size > 4096) { fprintf(stderr, "harness: statement out of range\n"); exit(3); }
        v.push_back(s);
    }
}

int main()
{
    setvbuf(stdout, NULL, _IONBF, 0);
    MemoryLeakWarningPlugin::turnOffNewDeleteOverloads();
    MemoryLeakDetector* origDet = MemoryLeakWarningPlugin::getGlobalDetector();
    MemoryLeakFailure* origRep = MemoryLeakWarningPlugin::getGlobalFailureReporter();
    gArena = (char*) malloc(ARENA);
    Toks t; Out o;
    while (readline(t)) {
        gMode = t.n(); size_t tbd = (size_t) t.u(); gWantInc = 0;
        std::vector<Stmt> pre; readStmts(t, pre);
        int nt = t.n();
        if (nt < 0 || nt >= (int) MAXTESTS) { fprintf(stderr, "harness: too many tests\n"); exit(3); }
        std::vector<TestDef> defs(nt);
        for (int i = 0; i < nt; i++) {
            TestDef& d = defs[i]; d.idx = i; snprintf(d.name, sizeof d.name, "t%x", i);
            readStmts(t, d.before); readStmts(t, d.ipre);
            for (int p = 0; p < 3; p++) readStmts(t, d.ph[p]);
            readStmts(t, d.ipost);
        }
        std::vector<Stmt> tail; readStmts(t, tail);

        UtestShell::currentTest_ = NULLPTR; UtestShell::testResult_ = NULLPTR;
        memset(gPtr, 0, sizeof gPtr); gAllocs = 0; gMisuse = 0; gStray = 0; gNTests = nt; gArenaUsed = 0;
        memset(gFail, 0, sizeof gFail); memset(gLeak, 0, sizeof gLeak);

        LocalReporter localRep;
        // everything the further instances need is made now, while the overloads are off
        if (gWantInc > MAXINC) { fprintf(stderr, "harness: too many plugin instances\n"); exit(3); }
        for (gIncMade = 0; gIncMade < gWantInc; gIncMade++) {
            Inc& in = gInc[gIncMade];
            in.det = new MemoryLeakDetector(&localRep); in.out = new SecOutput; in.res = new TestResult(*in.out);
            in.ptr = (void**) calloc(MAXID, sizeof(void*)); in.numOf = (unsigned*) calloc(MAXALLOC, sizeof(unsigned)); in.allocs = 0;
        }
        gIncUsed = 0; gNEv = 0; memset(gSlot, 0, sizeof gSlot);
        if (!gSecShell) gSecShell = new UtestShell("SG", "other", "sec.cpp", 1);
        MemoryLeakWarningPlugin::firstPlugin_ = NULLPTR;                       // a fresh process
        gDet = new MemoryLeakDetector(gMode == 0 ? (MemoryLeakFailure*) &localRep : origRep);
        if (gMode != 0) MemoryLeakWarningPlugin::setGlobalDetector(gDet, origRep);
        size_t failures = 0; const char* finalText = "";
        {
            TestRegistry reg;
            BeforePlugin before; InnerPlugin inner;
            std::vector<UtestShell*> shells(nt);
            for (int i = 0; i < nt; i++) shells[i] = new ScriptedShell(&defs[i]);
            for (int i = nt - 1; i >= 0; i--) reg.addTest(shells[i]);
            RecordingOutput out; TestResult result(out);

            MemoryLeakWarningPlugin::turnOnDefaultNotThreadSafeNewDeleteOverloads();
            execList(pre);                                                     // the detector is still in period `disabled`
            MemoryLeakWarningPlugin leak("VerifLeak", gMode == 0 ? gDet : NULLPTR);   // the runner's plugin: the first one of the process
            reg.installPlugin(&inner); reg.installPlugin(&leak); reg.installPlugin(&before);   // chain: before -> leak -> inner
            reg.runAllTests(result);
            execList(tail);
            failures = result.getFailureCount();
            // CommandLineTestRunner::RunAllTests prints the final report only after a run without failures.  After a run with
            // failures the detector's text buffer still holds the last leak report (only startChecking() empties it): empty it
            // through the public API (the period is `enabled` again afterwards, as it was)
            if (failures != 0) { gDet->startChecking(); gDet->stopChecking(); }
            finalText = leak.FinalReport(tbd);
            size_t n = strlen(finalText) + 1;
            if (gArenaUsed + n > ARENA) { fprintf(stderr, "harness: text arena exhausted\n"); exit(3); }
            memcpy(gArena + gArenaUsed, finalText, n); finalText = gArena + gArenaUsed; gArenaUsed += n;
            for (unsigned id = 0; id < MAXID; id++) if (gPtr[id]) doFree(id);       // nothing stays behind for the next scenario
            MemoryLeakWarningPlugin::turnOffNewDeleteOverloads();

            size_t counted = 0;
            o << "0" << hx((unsigned long long) nt);
            for (int i = 0; i < nt; i++) {
                counted += gFail[i];
                o << hx(gFail[i]) << hx(gLeak[i]);
                if (gLeak[i]) parseReport(gArena + gTextAt[i], o); else o << "0" << "0" << "0" << "0";
            }
            // failures that reached the result without being printed for one of the tests, and misuse reports, are stray
            unsigned long long stray = gStray + (unsigned long long) gMisuse + (failures >= counted + gStray ? failures - counted - gStray : 1);
            o << hx(stray);
            if (finalText[0] == 0) o << "1" << "0" << "0" << "0" << "0";
            else { o << "0"; parseReport(finalText, o); }
            // the further instances: what their postTestAction added / what their FinalReport said, in the order it happened
            o << hx(gNEv);
            for (unsigned k = 0; k < gNEv; k++) {
                const Event& e = gEv[k];
                o << (e.kind ? "1" : "0") << hx(e.j);
                if (e.kind == 0) {
                    o << hx(e.nfail) << hx(e.nleak);
                    if (e.text) parseReport(e.text, o, e.inc->numOf, e.inc->allocs); else o << "0" << "0" << "0" << "0";
                } else if (e.text[0] == 0) o << "1" << "0" << "0" << "0" << "0";
                else { o << "0"; parseReport(e.text, o, e.inc->numOf, e.inc->allocs); }
            }
            for (unsigned j = 0; j < NSLOT; j++) if (gSlot[j].plug) { gSlot[j].plug->~MemoryLeakWarningPlugin(); gSlot[j].plug = NULLPTR; }
            MemoryLeakWarningPlugin::firstPlugin_ = NULLPTR;
            reg.resetPlugins();
            for (int i = 0; i < nt; i++) delete shells[i];
        }
        if (gMode != 0) MemoryLeakWarningPlugin::setGlobalDetector(origDet, origRep);
        delete gDet; gDet = NULLPTR;
        for (unsigned k = 0; k < gIncMade; k++) {
            Inc& in = gInc[k];
            for (unsigned id = 0; id < MAXID; id++)
                if (in.ptr[id]) in.det->deallocMemory(getCurrentMallocAllocator(), (char*) in.ptr[id], "sec.cpp", 8, true);
            delete in.res; delete in.out; delete in.det; free(in.ptr); free(in.numOf);
        }
        o.flush();
    }
    fflush(stdout);
    _exit(0);
}
