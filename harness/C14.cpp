// C14 harness.  Two scenario families (see checks/C14.py for the grammar):
//  :buf  a private MemoryLeakDetector with a recording, non-exiting MemoryLeakFailure is driven through a history of
//        startChecking / misuse reports / leak reports; after every operation the fixed text buffer is inspected
//        (length, terminator, canary hook, fill position and write limit) and every report is parsed (footer total,
//        "too many" notice, number of complete leak entries).
//  :fail every *Failure class is constructed on the given operands (exactly-sized heap copies, so AddressSanitizer
//        sees any read beyond the operands' own bytes); the message and the parsed "difference starts at position" are printed.
#include <string>
#include <vector>
#include <map>
#include <memory>
#include <new>
#include <cstdarg>
#include <cstddef>
#include <cstdio>
#include <cstdlib>
#include <cstring>
#include <cstdint>
#include <iostream>
#include <sstream>
#include <typeinfo>
#include <exception>
#include <sys/mman.h>
#include <unistd.h>
#include "hlib.h"
#define private public
#define protected public
#include "CppUTest/TestHarness.h"
#include "CppUTest/MemoryLeakDetector.h"
#include "CppUTest/TestMemoryAllocator.h"
#include "CppUTest/TestFailure.h"
#undef private
#undef protected
using namespace hl;

// ------------------------------------------------------------------ arena at a fixed low address: "%p" is always 10 characters
static char* const ARENA = (char*)0x10000000UL;
static const size_t ARENA_LEN = 0x0c000000UL;   // 192 MB, 0x10000000 .. 0x1bffffff
static size_t arenaUsed = 64;
static void arenaInit()
{
    void* p = mmap(ARENA, ARENA_LEN, PROT_READ | PROT_WRITE, MAP_PRIVATE | MAP_ANONYMOUS | MAP_NORESERVE | MAP_FIXED_NOREPLACE, -1, 0);
    if (p != (void*)ARENA) { fprintf(stderr, "harness: cannot map the arena at %p\n", (void*)ARENA); exit(3); }
}
struct ArenaAllocator : TestMemoryAllocator {
    std::string n, an, fn;
    ArenaAllocator(const std::string& n_, const std::string& an_, const std::string& fn_) : n(n_), an(an_), fn(fn_)
    { name_ = n.c_str(); alloc_name_ = an.c_str(); free_name_ = fn.c_str(); }
    char* alloc_memory(size_t size, const char*, size_t) override
    {
        size_t a = (arenaUsed + 15) & ~(size_t)15;
        if (a + size + 64 > ARENA_LEN) { fprintf(stderr, "harness: arena exhausted\n"); exit(3); }
        arenaUsed = a + size;
        return ARENA + a;
    }
    void free_memory(char*, size_t, const char*, size_t) override {}
};
struct Rec : MemoryLeakFailure { unsigned long n = 0; void fail(char*) override { n++; } };

static std::string patt(size_t len, const char* alphabet)
{
    std::string s; s.reserve(len); size_t k = strlen(alphabet);
    for (size_t i = 0; i < len; i++) s.push_back(alphabet[i % k]);
    return s;
}
static std::map<size_t, std::string> fileNames;           // node addresses are stable
static const char* fileOfLen(size_t len)
{
    auto it = fileNames.find(len);
    if (it == fileNames.end()) it = fileNames.emplace(len, patt(len, "src/%s%d_%n%%.c")).first;
    return it->second.c_str();
}
static std::string allocName(size_t len) { return patt(len, "q%sn") ; }   // never equal to "malloc"

static size_t countOcc(const std::string& s, const char* pat)
{
    size_t n = 0, p = 0, L = strlen(pat);
    while ((p = s.find(pat, p)) != std::string::npos) { n++; p += L; }
    return n;
}

static void runBuffer(Toks& t, Out& o)
{
    size_t plen = t.u();
    int nops = t.n();
    arenaUsed = 64;
    Rec rec;
    std::vector<std::unique_ptr<ArenaAllocator>> allocs;
    auto mk = [&](const std::string& n, const std::string& an, const std::string& fn) { allocs.emplace_back(new ArenaAllocator(n, an, fn)); return allocs.back().get(); };
    MemoryLeakDetector* det = new MemoryLeakDetector(&rec);
    SimpleStringBuffer& sb = det->outputBuffer_.outputBuffer_;
    char probe[64]; snprintf(probe, sizeof probe, "%p", (void*)(ARENA + 64));
    if (strlen(probe) != plen) { o << "badplen" << hx(strlen(probe)); o.flush(); delete det; return; }
    auto state = [&](const char* tag) {
        size_t len = strnlen(sb.buffer_, SimpleStringBuffer::SIMPLE_STRING_BUFFER_LEN);
        o << tag << hx(len) << (sb.verifCanaryIntact() ? "1" : "0");
    };
    auto mstate = [&]() { o << hx(sb.positions_filled_) << hx(sb.write_limit_); };
    for (int k = 0; k < nops; k++) {
        std::string op = t.sym();
        if (op == "clr") {
            det->startChecking();
            state("c"); mstate();
        }
        else if (op == "mis") {
            int kind = t.n();
            size_t afl = t.u(), aline = t.u(), asize = t.u(), anl = t.u(), ffl = t.u(), fline = t.u(), fnl = t.u();
            if (kind == 0) {
                ArenaAllocator* F = mk("F", "alloc", allocName(fnl));
                det->deallocMemory(F, ARENA + 8, fileOfLen(ffl), fline);
            } else if (kind == 1) {
                ArenaAllocator* A = mk("A", allocName(anl), "free");
                ArenaAllocator* B = mk("B", "alloc", allocName(fnl));
                char* p = det->allocMemory(A, asize, fileOfLen(afl), aline);
                memset(p, 0x41, asize);
                det->deallocMemory(B, p, fileOfLen(ffl), fline);
            } else {
                ArenaAllocator* A = mk("A", allocName(anl), allocName(fnl));
                char* p = det->allocMemory(A, asize, fileOfLen(afl), aline);
                memset(p, 0x41, asize);
                p[asize] ^= 0x55;
                det->deallocMemory(A, p, fileOfLen(ffl), fline);
            }
            state("m"); mstate();
        }
        else if (op == "rep") {
            int ng = t.n();
            unsigned long long nleaks = 0;
            for (int g = 0; g < ng; g++) {
                size_t count = t.u(), size = t.u(), fl = t.u(), line = t.u(), anl = t.u(); int m = t.n();
                ArenaAllocator* A = mk("L", m ? std::string("malloc") : allocName(anl), "free");
                const char* f = fileOfLen(fl);
                for (size_t c = 0; c < count; c++) {
                    char* p = det->allocMemory(A, size, f, line);
                    for (size_t i = 0; i < size; i++) p[i] = (char)((i * 37 + size + c) & 0xff);
                    nleaks++;
                }
            }
            size_t before = strnlen(sb.buffer_, SimpleStringBuffer::SIMPLE_STRING_BUFFER_LEN);
            det->report(mem_leak_period_all);
            size_t after = strnlen(sb.buffer_, SimpleStringBuffer::SIMPLE_STRING_BUFFER_LEN);
            std::string region = after >= before ? std::string(sb.buffer_ + before, after - before) : std::string();
            // footer total
            std::string total = "~";
            size_t fp = region.rfind("Total number of leaks:");
            if (fp != std::string::npos) {
                size_t q = fp + strlen("Total number of leaks:");
                while (q < region.size() && region[q] == ' ') q++;
                size_t d0 = q; bool neg = false;
                if (q < region.size() && region[q] == '-') { neg = true; q++; }
                size_t d1 = q;
                while (q < region.size() && region[q] >= '0' && region[q] <= '9') q++;
                if (q > d1 && q < region.size() && region[q] == '\n') {
                    unsigned long long v = strtoull(region.substr(d1, q - d1).c_str(), nullptr, 10);
                    total = neg ? "-" + hx(v) : hx(v);
                }
                (void)d0;
            }
            // the notice counts as given when its whole text was stored (what the model's `notice` says); a notice cut off by the end of
            // the buffer may still hold the words "Too many memory leaks" (cut after 45..67 of its 68 characters)
            size_t np = region.find("\netc etc etc etc. !!!! Too many memory leaks to report. Bailing out\n");
            bool notice = np != std::string::npos;
            // complete entries: header line up to "Content:\n" and ceil(size/16) dump lines
            size_t endEntries = notice ? region.rfind('\n', np) : (fp != std::string::npos ? fp : region.size());
            if (endEntries == std::string::npos) endEntries = 0;
            std::string entries = region.substr(0, endEntries);
            unsigned long long complete = 0;
            size_t e = entries.find("Alloc num (");
            while (e != std::string::npos) {
                size_t nx = entries.find("Alloc num (", e + 1);
                std::string chunk = entries.substr(e, nx == std::string::npos ? std::string::npos : nx - e);
                size_t ls = chunk.find("Leak size: "), cn = chunk.find("Content:\n");
                if (ls != std::string::npos && cn != std::string::npos) {
                    unsigned long long sz = strtoull(chunk.c_str() + ls + strlen("Leak size: "), nullptr, 10);
                    if (countOcc(chunk.substr(cn), "|\n") == (sz + 15) / 16) complete++;
                }
                e = nx;
            }
            det->clearAllAccounting(mem_leak_period_all);
            state("r"); o << total << (notice ? "1" : "0") << hx(complete); mstate();
            (void)nleaks;
        }
        else { fprintf(stderr, "harness: bad op %s\n", op.c_str()); exit(3); }
    }
    o.flush();
    delete det;
}

// ------------------------------------------------------------------ failure messages
static char* heapCopy(const std::string& s, bool nul)      // exactly-sized, so ASan sees any read beyond the operand
{
    char* p = (char*)malloc(s.size() + (nul ? 1 : 0) + ((s.empty() && !nul) ? 1 : 0));
    memcpy(p, s.data(), s.size());
    if (nul) p[s.size()] = 0;
    return p;
}
struct CStr {
    char* p = nullptr;
    CStr(Toks& t, bool nul = true) { std::string s; if (t.bytes(s)) p = heapCopy(s, nul); }
    ~CStr() { free(p); }
};
static double dbl(unsigned long long b) { double d; memcpy(&d, &b, 8); return d; }

static void runFailure(Toks& t, Out& o)
{
    std::string kind = t.sym();
    UtestShell shell("grp", "name", "file.cpp", 7);
    const char* file = "other.cpp"; size_t line = 42;
    SimpleString msg;
    if (kind == "ce") { CStr e(t), a(t), x(t); CheckEqualFailure f(&shell, file, line, SimpleString(e.p), SimpleString(a.p), SimpleString(x.p)); msg = f.getMessage(); }
    else if (kind == "se") { CStr e(t), a(t), x(t); StringEqualFailure f(&shell, file, line, e.p, a.p, SimpleString(x.p)); msg = f.getMessage(); }
    else if (kind == "sn") { CStr e(t), a(t), x(t); StringEqualNoCaseFailure f(&shell, file, line, e.p, a.p, SimpleString(x.p)); msg = f.getMessage(); }
    else if (kind == "be") {
        CStr e(t, false), a(t, false); size_t size = t.u(); CStr x(t);
        BinaryEqualFailure f(&shell, file, line, (const unsigned char*)e.p, (const unsigned char*)a.p, size, SimpleString(x.p)); msg = f.getMessage();
    }
    else if (kind == "eq") { CStr e(t), a(t), x(t); EqualsFailure f(&shell, file, line, (const char*)e.p, (const char*)a.p, SimpleString(x.p)); msg = f.getMessage(); }
    else if (kind == "co") { CStr e(t), a(t), x(t); ContainsFailure f(&shell, file, line, SimpleString(e.p), SimpleString(a.p), SimpleString(x.p)); msg = f.getMessage(); }
    else if (kind == "le") { long e = (long)t.z(), a = (long)t.z(); CStr x(t); LongsEqualFailure f(&shell, file, line, e, a, SimpleString(x.p)); msg = f.getMessage(); }
    else if (kind == "ul") { unsigned long e = t.u(), a = t.u(); CStr x(t); UnsignedLongsEqualFailure f(&shell, file, line, e, a, SimpleString(x.p)); msg = f.getMessage(); }
    else if (kind == "ll") { long long e = t.z(), a = t.z(); CStr x(t); LongLongsEqualFailure f(&shell, file, line, e, a, SimpleString(x.p)); msg = f.getMessage(); }
    else if (kind == "ull") { unsigned long long e = t.u(), a = t.u(); CStr x(t); UnsignedLongLongsEqualFailure f(&shell, file, line, e, a, SimpleString(x.p)); msg = f.getMessage(); }
    else if (kind == "sb") { signed char e = (signed char)t.z(), a = (signed char)t.z(); CStr x(t); SignedBytesEqualFailure f(&shell, file, line, e, a, SimpleString(x.p)); msg = f.getMessage(); }
    else if (kind == "de") { double e = dbl(t.u()), a = dbl(t.u()), th = dbl(t.u()); CStr x(t); DoublesEqualFailure f(&shell, file, line, e, a, th, SimpleString(x.p)); msg = f.getMessage(); }
    else if (kind == "bi") { unsigned long e = t.u(), a = t.u(), m = t.u(); size_t bc = t.u(); CStr x(t); BitsEqualFailure f(&shell, file, line, e, a, m, bc, SimpleString(x.p)); msg = f.getMessage(); }
    else if (kind == "cmp") { CStr c(t), d(t), x(t); ComparisonFailure f(&shell, file, line, SimpleString(c.p), SimpleString(d.p), SimpleString(x.p)); msg = f.getMessage(); }
    else if (kind == "chk") { CStr c(t), d(t), x(t); CheckFailure f(&shell, file, line, SimpleString(c.p), SimpleString(d.p), SimpleString(x.p)); msg = f.getMessage(); }
    else if (kind == "ff") { CStr x(t); FailFailure f(&shell, file, line, SimpleString(x.p)); msg = f.getMessage(); }
    else if (kind == "fu") { CStr c(t), x(t); FeatureUnsupportedFailure f(&shell, file, line, SimpleString(c.p), SimpleString(x.p)); msg = f.getMessage(); }
    else { fprintf(stderr, "harness: bad failure kind %s\n", kind.c_str()); exit(3); }
    std::string m(msg.asCharString());
    std::string pos = "~";
    const char* marker = "difference starts at position ";
    size_t mp = m.rfind(marker);
    if (mp != std::string::npos) {
        size_t q = mp + strlen(marker), d0 = q;
        while (q < m.size() && m[q] >= '0' && m[q] <= '9') q++;
        // the real marker line is the last thing in the message: "<digits> at: <window>\n\t   ...   ^"
        size_t tail = m.rfind(">\n\t");
        bool caret = !m.empty() && m.back() == '^' && tail != std::string::npos && tail > q
                     && m.find_first_not_of(' ', tail + 3) == m.size() - 1;
        if (q > d0 && m.compare(q, 6, " at: <") == 0 && caret) pos = hx(strtoull(m.substr(d0, q - d0).c_str(), nullptr, 10));
    }
    o << pos << hbytes(m.data(), m.size());
    o.flush();
}

int main()
{
    setvbuf(stdout, NULL, _IONBF, 0);
    arenaInit();
    Toks t; Out o;
    while (readline(t)) {
        std::string fam = t.sym();
        if (fam == "buf") runBuffer(t, o);
        else if (fam == "fail") runFailure(t, o);
        else { fprintf(stderr, "harness: bad family %s\n", fam.c_str()); exit(3); }
    }
    fflush(stdout);
    _exit(0);     // skip static destruction (the library's operator delete would consult already destroyed allocators)
}
