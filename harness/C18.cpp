// C18 harness: a real SimpleStringInternalCache over a recording underlying allocator.
// Scenario (checks/C18.py):  <via> op*   op ::= :a <n> | :d <k> <n> | :f <k> <n> | :cc | :ca
//   via 0: cache.alloc/dealloc directly; via 1: through SimpleStringCacheAllocator::alloc_memory/free_memory.
//   :d k n releases the pointer returned by the k-th :a of the scenario with size n; :f k n releases foreign buffer k.
// Observation: one item for construction, one per op, one for destruction:
//   :i <nev> (:A <id> <sz> | :F <id> <sz>)* (~ | :r <id> <off>) <warn>
//   events = calls on the underlying allocator in order (id = allocation ordinal of the block), returned pointer as
//   (block id, offset), warn = something was printed during the call.
// The recording allocator never really frees before the end of the scenario (addresses stay unique); blocks given back
// are poisoned for ASan, so any later access by the cache is reported.  A release of a dangling pointer is made with
// the block temporarily readable (the one-time warning prints the released buffer with %s by design).
//
// INSTALLED mode (first token 2):  2 gop*  gop ::= :a n | :s n | :d k n | :f k n | :cc | :ca | :gi | :go   (coq/C18_ModelG.v)
//   The recording allocator is the SimpleString allocator the scenario starts with.  :gi constructs a GlobalSimpleStringCache
//   (placement new) on top of whatever is installed, :go destroys the most recent one; objects still alive at the end of the
//   line are destroyed innermost first (one item each).  :a / :d / :f call alloc_memory / free_memory of the string allocator
//   in force, :s n creates a SimpleString with a buffer of n bytes (released by deleting it when :d names its own size),
//   :cc / :ca call clearCache / clearAllIncludingCurrentlyUsedMemory of the innermost object's cache.
//   Between an object and the allocator it found installed sits a forwarding recorder (Fwd): it counts the pointers the
//   object's cache obtained from its underlying allocator and has not returned (out) and returns of pointers that were not
//   outstanding (dbl).  Observation item:  :j <nev> events (~ | :r id off) <warn> <out> <dbl>   (events = calls seen by the
//   recording allocator, ids = its allocation ordinals).
//   The strings the one-time warning builds for itself (StringFromFormat, UtestShell::print: sizes depend on wording and
//   on the path of the source file) are served by the harness outside the cache: the user side goes through a shim that
//   answers re-entrant requests from malloc, and so does the forwarding recorder while a destructor runs.
#include "hlib.h"
#include <set>
#define private public
#include "CppUTest/TestHarness.h"
#include "CppUTest/SimpleStringInternalCache.h"
#undef private
#include "CppUTest/TestMemoryAllocator.h"
#include "CppUTest/PlatformSpecificFunctions.h"
#undef new
#include <new>
#if defined(__SANITIZE_ADDRESS__)
#include <sanitizer/asan_interface.h>
#define POISON(p, n) ASAN_POISON_MEMORY_REGION(p, n)
#define UNPOISON(p, n) ASAN_UNPOISON_MEMORY_REGION(p, n)
#else
#define POISON(p, n) ((void)0)
#define UNPOISON(p, n) ((void)0)
#endif
using namespace hl;

enum { MAXB = 1 << 16, MAXE = 1 << 17 };
struct Blk { char* p; size_t sz; bool freed; };
static Blk gB[MAXB]; static size_t gNB;
struct Ev { int kind; unsigned long long id, sz; };     // 0 alloc, 1 free
static Ev gE[MAXE]; static size_t gNE;
static bool gPrinted;
static const unsigned long long NOID = 0xffffffffULL;

static size_t real(size_t sz) { return sz ? sz : 1; }
static void logEv(int kind, unsigned long long id, unsigned long long sz)
{
    if (gNE >= MAXE) { fprintf(stderr, "harness: event log full\n"); exit(3); }
    gE[gNE].kind = kind; gE[gNE].id = id; gE[gNE].sz = sz; gNE++;
}
static bool findBlock(const char* p, unsigned long long& id, unsigned long long& off)
{
    for (size_t i = 0; i < gNB; i++)
        if (p >= gB[i].p && p < gB[i].p + real(gB[i].sz)) { id = i; off = (unsigned long long)(p - gB[i].p); return true; }
    return false;
}
static char* recAlloc(size_t sz)
{
    if (gNB >= MAXB) { fprintf(stderr, "harness: too many blocks\n"); exit(3); }
    char* p = (char*)malloc(real(sz));
    if (!p) { fprintf(stderr, "harness: out of memory\n"); exit(3); }
    memset(p, 0, real(sz));
    gB[gNB].p = p; gB[gNB].sz = sz; gB[gNB].freed = false;
    logEv(0, gNB, sz);
    gNB++;
    return p;
}
static void recFree(char* p, size_t sz)
{
    unsigned long long id, off;
    if (!p) return;
    if (!findBlock(p, id, off) || off != 0) { logEv(1, NOID, sz); return; }      // not the start of a block we handed to the cache
    logEv(1, id, sz);
    if (!gB[id].freed) { gB[id].freed = true; memset(gB[id].p, 0, real(gB[id].sz)); POISON(gB[id].p, real(gB[id].sz)); }
}
static void recReset()
{
    for (size_t i = 0; i < gNB; i++) { UNPOISON(gB[i].p, real(gB[i].sz)); free(gB[i].p); }
    gNB = 0; gNE = 0;
}

class RecAllocator : public TestMemoryAllocator
{
public:
    RecAllocator() : TestMemoryAllocator("recording allocator", "rec_alloc", "rec_free") {}
    char* alloc_memory(size_t size, const char*, size_t) CPPUTEST_OVERRIDE { return recAlloc(size); }
    void free_memory(char* memory, size_t size, const char*, size_t) CPPUTEST_OVERRIDE { recFree(memory, size); }
};

// seams: defaultMallocAllocator() (used by the constructor and the destructor of the cache) ends in PlatformSpecificMalloc/Free
static void* hookMalloc(size_t sz) { return recAlloc(sz); }
static void hookFree(void* p) { recFree((char*)p, NOID); }           // size unknown at this seam: printed as the block's own size below
static void hookFPuts(const char* s, PlatformSpecificFile) { if (s && *s) gPrinted = true; }
static void hookFlush() {}

static void emit(Out& o, bool hasRet, const char* ret)
{
    o << ":i" << hx(gNE);
    for (size_t i = 0; i < gNE; i++) {
        unsigned long long sz = gE[i].sz;
        if (gE[i].kind == 1 && sz == NOID) sz = gE[i].id < gNB ? gB[gE[i].id].sz : 0;
        o << (gE[i].kind == 0 ? ":A" : ":F") << hx(gE[i].id) << hx(sz);
    }
    if (hasRet) {
        unsigned long long id = NOID, off = 0;
        if (!ret || !findBlock(ret, id, off)) { id = NOID; off = 0; }
        o << ":r" << hx(id) << hx(off);
    }
    else o << "~";
    o << (gPrinted ? "1" : "0");
    gNE = 0; gPrinted = false;
}

static char gForeign[8][16];

// ---------------------------------------------------------------------------------------------- installed mode
static std::set<char*> gTemps;
static char* tempAlloc(size_t n) { char* p = (char*)malloc(real(n)); memset(p, 0, real(n)); gTemps.insert(p); return p; }
static bool tempFree(char* p) { std::set<char*>::iterator it = gTemps.find(p); if (it == gTemps.end()) return false; gTemps.erase(it); free(p); return true; }
static bool gDtorWindow;

class Fwd : public TestMemoryAllocator
{
public:
    TestMemoryAllocator* target; std::vector<char*> out; unsigned long long dbl;
    Fwd(TestMemoryAllocator* t) : TestMemoryAllocator("forwarding recorder", "fwd_alloc", "fwd_free"), target(t), dbl(0) {}
    char* alloc_memory(size_t size, const char* f, size_t l) CPPUTEST_OVERRIDE
    {
        if (gDtorWindow) return tempAlloc(size);          // a destructor never requests memory: this is the warning's own string
        char* p = target->alloc_memory(size, f, l);
        out.push_back(p);
        return p;
    }
    void free_memory(char* memory, size_t size, const char* f, size_t l) CPPUTEST_OVERRIDE
    {
        if (tempFree(memory)) return;
        size_t i = out.size();
        while (i > 0 && out[i - 1] != memory) i--;
        if (i > 0) out.erase(out.begin() + (long)(i - 1)); else dbl++;
        target->free_memory(memory, size, f, l);
    }
};
class Shim : public TestMemoryAllocator
{
public:
    TestMemoryAllocator* target; bool inTarget;
    Shim() : TestMemoryAllocator("user side", "shim_alloc", "shim_free"), target(0), inTarget(false) {}
    char* alloc_memory(size_t size, const char* f, size_t l) CPPUTEST_OVERRIDE
    {
        if (inTarget) return tempAlloc(size);
        inTarget = true; char* p = target->alloc_memory(size, f, l); inTarget = false;
        return p;
    }
    void free_memory(char* memory, size_t size, const char* f, size_t l) CPPUTEST_OVERRIDE
    {
        if (tempFree(memory)) return;
        bool was = inTarget;
        inTarget = true; target->free_memory(memory, size, f, l); inTarget = was;
    }
};
struct Level { Fwd* fwd; GlobalSimpleStringCache* g; TestMemoryAllocator* galloc; };
enum { MAXDEPTH = 16 };
alignas(16) static char gGlobalMem[MAXDEPTH][sizeof(GlobalSimpleStringCache)];
struct Handed { char* p; SimpleString* str; size_t size; };

static void emitG(Out& o, bool hasRet, const char* ret, unsigned long long out, unsigned long long dbl)
{
    o << ":j" << hx(gNE);
    for (size_t i = 0; i < gNE; i++) o << (gE[i].kind == 0 ? ":A" : ":F") << hx(gE[i].id) << hx(gE[i].sz);
    if (hasRet) {
        unsigned long long id = NOID, off = 0;
        if (!ret || !findBlock(ret, id, off)) { id = NOID; off = 0; }
        o << ":r" << hx(id) << hx(off);
    }
    else o << "~";
    o << (gPrinted ? "1" : "0") << hx(out) << hx(dbl);
    gNE = 0; gPrinted = false;
}

static void runInstalled(Toks& t, Out& o, RecAllocator& rec)
{
    static Shim shim;
    std::vector<Level> lv;
    std::vector<Handed> handed;
    TestMemoryAllocator* before = SimpleString::stringAllocator_;
    shim.target = &rec; shim.inTarget = false;
    SimpleString::setStringAllocator(&shim);
    gNE = 0; gPrinted = false;
    bool ended = false;
    while (true) {
        std::string k;
        if (!t.end()) k = t.sym();
        else { ended = true; if (lv.empty()) break; k = "go"; }      // objects still alive are destroyed, innermost first
        if (k == "a" || k == "s") {
            size_t n = (size_t)t.u();
            Handed h; h.str = 0; h.size = n;
            if (k == "s") {
                if (n == 0) { fprintf(stderr, "harness: a string has at least one byte\n"); exit(3); }
                std::string txt(n - 1, 's');
                h.str = new SimpleString(txt.c_str());
                h.p = h.str->buffer_;
            }
            else {
                h.p = shim.alloc_memory(n, __FILE__, __LINE__);
                unsigned long long id, off;
                if (h.p && findBlock(h.p, id, off) && !gB[id].freed && n > 0) { memset(h.p, 'a', n - 1); h.p[n - 1] = 0; }
            }
            handed.push_back(h);
            emitG(o, true, h.p, lv.empty() ? 0 : lv.back().fwd->out.size(), lv.empty() ? 0 : lv.back().fwd->dbl);
        }
        else if (k == "d" || k == "f") {
            size_t idx = (size_t)t.u(); size_t n = (size_t)t.u();
            char* p; SimpleString* str = 0;
            if (k == "f") p = gForeign[idx % 8];
            else {
                if (idx >= handed.size()) { fprintf(stderr, "harness: release of a request that has not happened\n"); exit(3); }
                p = handed[idx].p;
                if (handed[idx].str && handed[idx].size == n) { str = handed[idx].str; handed[idx].str = 0; }
            }
            unsigned long long id = 0, off; bool dangling = false;
            if (k == "d" && p && findBlock(p, id, off) && gB[id].freed && !getenv("C18_STRICT_DANGLING")) { dangling = true; UNPOISON(gB[id].p, real(gB[id].sz)); }
            if (str) delete str;                         // ~SimpleString: free_memory(buffer_, bufferSize_) of the allocator in force
            else shim.free_memory(p, n, __FILE__, __LINE__);
            if (dangling) POISON(gB[id].p, real(gB[id].sz));
            emitG(o, false, 0, lv.empty() ? 0 : lv.back().fwd->out.size(), lv.empty() ? 0 : lv.back().fwd->dbl);
        }
        else if (k == "cc" || k == "ca") {
            if (lv.empty()) { fprintf(stderr, "harness: nothing is installed\n"); exit(3); }
            shim.inTarget = true;
            SimpleStringInternalCache& cache = static_cast<SimpleStringCacheAllocator*>(lv.back().g->getAllocator())->cache_;    // the object's own cache
            if (k == "cc") cache.clearCache(); else cache.clearAllIncludingCurrentlyUsedMemory();
            shim.inTarget = false;
            emitG(o, false, 0, lv.back().fwd->out.size(), lv.back().fwd->dbl);
        }
        else if (k == "gi") {
            if (lv.size() >= MAXDEPTH) { fprintf(stderr, "harness: too many nested objects\n"); exit(3); }
            Level l;
            l.fwd = new Fwd(shim.target);
            SimpleString::setStringAllocator(l.fwd);
            l.g = new (gGlobalMem[lv.size()]) GlobalSimpleStringCache;
            l.galloc = SimpleString::getStringAllocator();
            lv.push_back(l);
            shim.target = l.galloc;
            SimpleString::setStringAllocator(&shim);
            emitG(o, false, 0, l.fwd->out.size(), l.fwd->dbl);
        }
        else if (k == "go") {
            if (lv.empty()) { fprintf(stderr, "harness: nothing is installed\n"); exit(3); }
            Level l = lv.back(); lv.pop_back();
            SimpleString::setStringAllocator(l.galloc);             // the state the constructor left
            gDtorWindow = true; shim.inTarget = true;
            l.g->~GlobalSimpleStringCache();
            gDtorWindow = false; shim.inTarget = false;
            TestMemoryAllocator* now = SimpleString::getStringAllocator();
            shim.target = (now == l.fwd) ? l.fwd->target : now;      // whatever the destructor put back is what is used from here on
            SimpleString::setStringAllocator(&shim);
            emitG(o, false, 0, l.fwd->out.size(), l.fwd->dbl);
            delete l.fwd;
        }
        else { fprintf(stderr, "harness: bad op %s\n", k.c_str()); exit(3); }
        if (ended && lv.empty()) break;
    }
    // strings that outlived their cache: their buffers are gone already
    for (size_t i = 0; i < handed.size(); i++)
        if (handed[i].str) { handed[i].str->buffer_ = 0; handed[i].str->bufferSize_ = 0; delete handed[i].str; }
    SimpleString::setStringAllocator(before);
    for (std::set<char*>::iterator it = gTemps.begin(); it != gTemps.end(); ++it) free(*it);
    gTemps.clear();
}

// ---------------------------------------------------------------------------------------------- environment mode
// ENVIRONMENT mode (first token 3):  3 <rf|~> <ra|~> eop*   (coq/C18_ModelE.v)
//   eop ::= :mi k | :gi | :ci | :go | :ti | :tr | :a n | :s n | :d k
//   Five recording allocators with their own books, block ids = ordinals over all of them: D (0) = defaultMallocAllocator(), seen at the
//   PlatformSpecificMalloc/Free seams while a constructor / destructor runs (operator new/delete are routed to a plain allocator for that
//   time); M1, M2 (1, 2) = malloc allocators made current by :mi; U (3) = the string allocator the scenario starts with; T (4) = a string
//   allocator :ti installs on top of what is in force (:tr takes it out if it is still current).  U RE-ENTERS the string allocator: inside
//   free_memory it builds a SimpleString with an rf-byte buffer, inside alloc_memory one with an ra-byte buffer (not while it is already
//   doing so), through whatever SimpleString::getStringAllocator() is at that moment, and reports where that buffer lies (:R id off n).
//   :gi = GlobalSimpleStringCache, :ci = SimpleStringInternalCache + SimpleStringCacheAllocator wired and taken down by hand in the same
//   order; :go destroys the object; an object alive at the end is destroyed.  No block is ever really freed or poisoned before the end of
//   the scenario, so a buffer handed out inside memory already given back is observed, not undefined.
//   Observation item:  :k <nev> (:A who id sz | :F who id sz | :R id off n)* (~ | :r id off) <warn>
struct EEv { int kind; unsigned long long who, id, sz, off; };      // 0 alloc, 1 free, 2 report string
static EEv gX[MAXE]; static size_t gNX;
static int gWho[MAXB];
static void logX(int kind, unsigned long long who, unsigned long long id, unsigned long long sz, unsigned long long off)
{
    if (gNX >= MAXE) { fprintf(stderr, "harness: event log full\n"); exit(3); }
    gX[gNX].kind = kind; gX[gNX].who = who; gX[gNX].id = id; gX[gNX].sz = sz; gX[gNX].off = off; gNX++;
}
static char* envAlloc(int who, size_t sz)
{
    if (gNB >= MAXB) { fprintf(stderr, "harness: too many blocks\n"); exit(3); }
    char* p = (char*)malloc(real(sz));
    if (!p) { fprintf(stderr, "harness: out of memory\n"); exit(3); }
    memset(p, 0, real(sz));
    gB[gNB].p = p; gB[gNB].sz = sz; gB[gNB].freed = false; gWho[gNB] = who;
    logX(0, (unsigned long long)who, gNB, sz, 0);
    gNB++;
    return p;
}
static void envFree(int who, char* p, size_t sz)
{
    unsigned long long id, off;
    if (!p) return;
    if (!findBlock(p, id, off) || off != 0) { logX(1, (unsigned long long)who, NOID, sz, 0); return; }
    if (sz == NOID) sz = gB[id].sz;                       // the seam does not tell the size
    logX(1, (unsigned long long)who, id, sz, 0);
    gB[id].freed = true;                                  // kept as it is: never reused, never poisoned
}
class EnvAllocator : public TestMemoryAllocator
{
public:
    int who; bool reenter; bool reporting; bool hasRf, hasRa; size_t rf, ra;
    EnvAllocator(int w, const char* n) : TestMemoryAllocator(n, "env_alloc", "env_free"), who(w), reenter(false), reporting(false), hasRf(false), hasRa(false), rf(0), ra(0) {}
    void report(size_t r)
    {
        static char txt[1 << 12];
        reporting = true;
        if (r == 0 || r > sizeof txt) {                   // no string has an empty buffer: the bare calls
            TestMemoryAllocator* a = SimpleString::getStringAllocator();
            char* p = a->alloc_memory(r, __FILE__, __LINE__);
            unsigned long long id = NOID, off = 0;
            if (!p || !findBlock(p, id, off)) { id = NOID; off = 0; }
            logX(2, 0, id, r, off);
            a->free_memory(p, r, __FILE__, __LINE__);
        }
        else {
            memset(txt, 'r', r - 1); txt[r - 1] = 0;
            SimpleString line(txt);                        // what a report formatter does: a line of text
            unsigned long long id = NOID, off = 0;
            if (!line.buffer_ || !findBlock(line.buffer_, id, off)) { id = NOID; off = 0; }
            logX(2, 0, id, line.bufferSize_, off);
        }
        reporting = false;
    }
    char* alloc_memory(size_t size, const char*, size_t) CPPUTEST_OVERRIDE
    {
        char* p = envAlloc(who, size);
        if (reenter && hasRa && !reporting) report(ra);
        return p;
    }
    void free_memory(char* memory, size_t size, const char*, size_t) CPPUTEST_OVERRIDE
    {
        envFree(who, memory, size);
        if (reenter && hasRf && !reporting) report(rf);
    }
};
class PlainNew : public TestMemoryAllocator
{
public:
    PlainNew(const char* n) : TestMemoryAllocator(n, "new", "delete") {}
    char* alloc_memory(size_t size, const char*, size_t) CPPUTEST_OVERRIDE { return (char*)malloc(real(size)); }
    void free_memory(char* memory, size_t, const char*, size_t) CPPUTEST_OVERRIDE { free(memory); }
};
static void* envHookMalloc(size_t sz) { return envAlloc(0, sz); }
static void envHookFree(void* p) { envFree(0, (char*)p, NOID); }

static void emitE(Out& o, bool hasRet, const char* ret)
{
    o << ":k" << hx(gNX);
    for (size_t i = 0; i < gNX; i++) {
        if (gX[i].kind == 2) o << ":R" << hx(gX[i].id) << hx(gX[i].off) << hx(gX[i].sz);
        else o << (gX[i].kind == 0 ? ":A" : ":F") << hx(gX[i].who) << hx(gX[i].id) << hx(gX[i].sz);
    }
    if (hasRet) {
        unsigned long long id = NOID, off = 0;
        if (!ret || !findBlock(ret, id, off)) { id = NOID; off = 0; }
        o << ":r" << hx(id) << hx(off);
    }
    else o << "~";
    o << (gPrinted ? "1" : "0");
    gNX = 0; gPrinted = false;
}

static void runEnvironment(Toks& t, Out& o)
{
    static EnvAllocator U(3, "base string allocator"), T(4, "string allocator on top"), M1(1, "malloc allocator 1"), M2(2, "malloc allocator 2");
    static PlainNew plainNew("plain new"), plainNewArray("plain new array");
    alignas(16) static char objMem[sizeof(GlobalSimpleStringCache)];
    alignas(16) static char cacheMem2[sizeof(SimpleStringInternalCache)];
    U.reenter = true; U.reporting = false;
    if (t.peek() == "~") { t.next(); U.hasRf = false; } else { U.hasRf = true; U.rf = (size_t)t.u(); }
    if (t.peek() == "~") { t.next(); U.hasRa = false; } else { U.hasRa = true; U.ra = (size_t)t.u(); }
    TestMemoryAllocator* before = SimpleString::stringAllocator_;
    TestMemoryAllocator* mallocBefore = getCurrentMallocAllocator();
    SimpleString::setStringAllocator(&U);
    gNX = 0; gPrinted = false;
    int kind = -1;                                         // -1 no object, 0 global, 1 by hand
    GlobalSimpleStringCache* g = 0; SimpleStringInternalCache* cache = 0; SimpleStringCacheAllocator* adaptor = 0;
    TestMemoryAllocator* deadAdaptor = 0; TestMemoryAllocator* tSaved = 0;
    std::vector<Handed> handed;
    void* (*savedMalloc)(size_t) = PlatformSpecificMalloc;
    void (*savedFree)(void*) = PlatformSpecificFree;
    bool ended = false;
    while (true) {
        std::string k;
        if (!t.end()) k = t.sym();
        else { ended = true; if (kind < 0) break; k = "go"; }
        if (k == "mi") {
            int m = t.n();
            if (m == 0) setCurrentMallocAllocatorToDefault(); else setCurrentMallocAllocator(m == 1 ? &M1 : &M2);
            emitE(o, false, 0);
        }
        else if (k == "gi" || k == "ci") {
            if (kind >= 0) { fprintf(stderr, "harness: one object at a time\n"); exit(3); }
            TestMemoryAllocator* n1 = getCurrentNewAllocator(); TestMemoryAllocator* n2 = getCurrentNewArrayAllocator();
            setCurrentNewAllocator(&plainNew); setCurrentNewArrayAllocator(&plainNewArray);
            PlatformSpecificMalloc = envHookMalloc; PlatformSpecificFree = envHookFree;
            if (k == "gi") { g = new (objMem) GlobalSimpleStringCache; kind = 0; }
            else {
                cache = new (cacheMem2) SimpleStringInternalCache;
                adaptor = new SimpleStringCacheAllocator(*cache, SimpleString::getStringAllocator());
                SimpleString::setStringAllocator(adaptor);
                kind = 1;
            }
            PlatformSpecificMalloc = savedMalloc; PlatformSpecificFree = savedFree;
            setCurrentNewAllocator(n1); setCurrentNewArrayAllocator(n2);
            emitE(o, false, 0);
        }
        else if (k == "go") {
            if (kind < 0) { fprintf(stderr, "harness: no object\n"); exit(3); }
            TestMemoryAllocator* n1 = getCurrentNewAllocator(); TestMemoryAllocator* n2 = getCurrentNewArrayAllocator();
            setCurrentNewAllocator(&plainNew); setCurrentNewArrayAllocator(&plainNewArray);
            PlatformSpecificMalloc = envHookMalloc; PlatformSpecificFree = envHookFree;
            if (kind == 0) { deadAdaptor = g->getAllocator(); g->~GlobalSimpleStringCache(); g = 0; }
            else {
                deadAdaptor = adaptor;
                SimpleString::setStringAllocator(adaptor->originalAllocator());
                cache->clearAllIncludingCurrentlyUsedMemory();
                delete adaptor; adaptor = 0;
                cache->~SimpleStringInternalCache(); cache = 0;
            }
            PlatformSpecificMalloc = savedMalloc; PlatformSpecificFree = savedFree;
            setCurrentNewAllocator(n1); setCurrentNewArrayAllocator(n2);
            kind = -1;
            emitE(o, false, 0);
        }
        else if (k == "ti") {
            tSaved = SimpleString::getStringAllocator();
            SimpleString::setStringAllocator(&T);
            emitE(o, false, 0);
        }
        else if (k == "tr") {
            if (SimpleString::getStringAllocator() == &T)
                SimpleString::setStringAllocator(tSaved == deadAdaptor && kind < 0 ? &U : tSaved);   // never back to an adaptor that is gone
            emitE(o, false, 0);
        }
        else if (k == "a" || k == "s") {
            size_t n = (size_t)t.u();
            Handed h; h.str = 0; h.size = n;
            if (k == "s") {
                if (n == 0) { fprintf(stderr, "harness: a string has at least one byte\n"); exit(3); }
                std::string txt(n - 1, 's');
                h.str = new SimpleString(txt.c_str());
                h.p = h.str->buffer_;
            }
            else {
                h.p = SimpleString::getStringAllocator()->alloc_memory(n, __FILE__, __LINE__);
                unsigned long long id, off;
                if (h.p && findBlock(h.p, id, off) && n > 0 && off + n <= real(gB[id].sz)) { memset(h.p, 'a', n - 1); h.p[n - 1] = 0; }
            }
            handed.push_back(h);
            emitE(o, true, h.p);
        }
        else if (k == "d") {
            size_t idx = (size_t)t.u();
            if (idx >= handed.size()) { fprintf(stderr, "harness: release of a request that has not happened\n"); exit(3); }
            if (handed[idx].str) { SimpleString* str = handed[idx].str; handed[idx].str = 0; delete str; }
            else SimpleString::getStringAllocator()->free_memory(handed[idx].p, handed[idx].size, __FILE__, __LINE__);
            emitE(o, false, 0);
        }
        else { fprintf(stderr, "harness: bad op %s\n", k.c_str()); exit(3); }
        if (ended && kind < 0) break;
    }
    U.reenter = false;
    for (size_t i = 0; i < handed.size(); i++)
        if (handed[i].str) { handed[i].str->buffer_ = 0; handed[i].str->bufferSize_ = 0; delete handed[i].str; }
    SimpleString::setStringAllocator(before);
    setCurrentMallocAllocator(mallocBefore);
    gNX = 0;
}

// ---------------------------------------------------------------------------------------------- warning mode
// WARNING mode (first token 4):  4 <pre> <c0> <g> wop*   wop ::= :a n | :d k | :f j n | :p   (coq/C18_ModelW.v)
//   A real cache behind its SimpleStringCacheAllocator over the recording allocator; the CURRENT TEST's output (UtestShell::
//   currentTest_ / testResult_ set as the runner does) is a TestOutput whose printBuffer does what StringBufferTestOutput's
//   `output += text` does on the string allocator -- request a buffer g bytes larger, release the old one, make the new one
//   current -- with sizes fixed by the scenario instead of the wording of the text, on the cache's adaptor.  pre = 1: the
//   output's first buffer (c0 bytes) is not one of the cache (allocated before it came); pre = 0: requested from the cache.
//   The strings the warning builds for itself are served by the default string allocator (not in the books).
//   One :i item per call made on the cache, in the order the calls BEGIN (the print is the last thing a release does:
//   the item of the enclosing call is written when the output is entered from inside it); :f j n releases foreign buffer j,
//   :d k releases the k-th :a with its size, :p prints through UtestShell::getCurrent()->print.  At the end the output gives
//   its buffer back if it is the cache's, clearAll, destruction.  Last: :x <deepest nesting of printBuffer> <entries of it>.
//   At nesting depth 3 the scenario is abandoned (unbounded recursion) and reported as it stands.
struct WarnAbort {};
static SimpleStringCacheAllocator* gWWrap; static Out* gWOut;
static char* gWCur; static size_t gWCurSize, gWGrow;
static int gWDepth, gWMaxDepth, gWPrints; static bool gWInCall, gWCallEmitted;
static char gWForeignOut[2048];
static char* wAlloc(size_t n)
{
    bool savedIn = gWInCall, savedEm = gWCallEmitted;
    gWInCall = true; gWCallEmitted = false;
    char* p = gWWrap->alloc_memory(n, __FILE__, __LINE__);
    unsigned long long id, off;
    if (p && findBlock(p, id, off) && !gB[id].freed && n > 0) { memset(p, 'a', n - 1); p[n - 1] = 0; }
    if (!gWCallEmitted) emit(*gWOut, true, p);
    else if (gNE) emit(*gWOut, true, p);                 // something happened after the print: an item of its own
    gWInCall = savedIn; gWCallEmitted = savedEm;
    return p;
}
static void wFree(char* p, size_t n)
{
    bool savedIn = gWInCall, savedEm = gWCallEmitted;
    gWInCall = true; gWCallEmitted = false;
    gWWrap->free_memory(p, n, __FILE__, __LINE__);
    if (!gWCallEmitted) emit(*gWOut, false, 0);
    else if (gNE) emit(*gWOut, false, 0);
    gWInCall = savedIn; gWCallEmitted = savedEm;
}
class GrowingOutput : public TestOutput
{
public:
    void printBuffer(const char*) CPPUTEST_OVERRIDE
    {
        if (gWInCall && !gWCallEmitted) { gPrinted = true; emit(*gWOut, false, 0); gWCallEmitted = true; }   // the call that prints ends here
        gWDepth++; gWPrints++;
        if (gWDepth > gWMaxDepth) gWMaxDepth = gWDepth;
        if (gWDepth >= 3) throw WarnAbort();
        size_t newSize = gWCurSize + gWGrow;
        char* fresh = wAlloc(newSize);
        wFree(gWCur, gWCurSize);                         // SimpleString::deallocateInternalBuffer: the member still points to the old buffer
        gWCur = fresh; gWCurSize = newSize;              // setInternalBufferTo
        gWDepth--;
    }
    void flush() CPPUTEST_OVERRIDE {}
};
static void runWarn(Toks& t, Out& o, RecAllocator& rec, void* cacheMem)
{
    bool pre = t.u() != 0; size_t c0 = (size_t)t.u(); gWGrow = (size_t)t.u();
    gWOut = &o; gWDepth = gWMaxDepth = gWPrints = 0; gWInCall = gWCallEmitted = false;
    void* (*savedMalloc)(size_t) = PlatformSpecificMalloc;
    PlatformSpecificMalloc = hookMalloc;
    SimpleStringInternalCache* cache = new (cacheMem) SimpleStringInternalCache;
    PlatformSpecificMalloc = savedMalloc;
    emit(o, false, 0);
    gWWrap = new SimpleStringCacheAllocator(*cache, &rec);
    gNE = 0;
    static GrowingOutput out;
    TestResult result(out);
    UtestShell shell("harness", "warning", __FILE__, __LINE__);
    TestResult* savedResult = UtestShell::testResult_; UtestShell* savedTest = UtestShell::currentTest_;
    UtestShell::testResult_ = &result; UtestShell::currentTest_ = &shell;
    memset(gWForeignOut, 'o', sizeof gWForeignOut - 1);
    std::vector<char*> ptrs; std::vector<size_t> sizes;
    try {
        if (pre) { gWCur = gWForeignOut; gWCurSize = c0; } else { gWCur = wAlloc(c0); gWCurSize = c0; }
        while (!t.end()) {
            std::string k = t.sym();
            if (k == "a") { size_t n = (size_t)t.u(); ptrs.push_back(wAlloc(n)); sizes.push_back(n); }
            else if (k == "d") {
                size_t idx = (size_t)t.u();
                if (idx >= ptrs.size()) { fprintf(stderr, "harness: release of an alloc that has not happened\n"); exit(3); }
                wFree(ptrs[idx], sizes[idx]);
            }
            else if (k == "f") { size_t j = (size_t)t.u(); size_t n = (size_t)t.u(); wFree(gForeign[j % 8], n); }
            else if (k == "p") UtestShell::getCurrent()->print("the test prints", __FILE__, __LINE__);
            else { fprintf(stderr, "harness: bad op %s\n", k.c_str()); exit(3); }
        }
        if (gWCur != gWForeignOut) wFree(gWCur, gWCurSize);
        gWInCall = true; gWCallEmitted = false;
        cache->clearAllIncludingCurrentlyUsedMemory();
        if (!gWCallEmitted || gNE) emit(o, false, 0);
        gWInCall = false;
        UtestShell::testResult_ = savedResult; UtestShell::currentTest_ = savedTest;
        void (*savedFree)(void*) = PlatformSpecificFree;
        delete gWWrap;
        gNE = 0;
        PlatformSpecificFree = hookFree;
        cache->~SimpleStringInternalCache();
        PlatformSpecificFree = savedFree;
        emit(o, false, 0);
    }
    catch (const WarnAbort&) {
        while (!t.end()) t.sym();                        // (tokens of the abandoned rest)
        UtestShell::testResult_ = savedResult; UtestShell::currentTest_ = savedTest;
        gNE = 0; gPrinted = false;
        cache->clearAllIncludingCurrentlyUsedMemory();
        delete gWWrap;
        void (*savedFree)(void*) = PlatformSpecificFree;
        PlatformSpecificFree = hookFree;
        cache->~SimpleStringInternalCache();
        PlatformSpecificFree = savedFree;
        gNE = 0; gPrinted = false;
    }
    o << ":x" << hx((unsigned long long)gWMaxDepth) << hx((unsigned long long)gWPrints);
}

int main()
{
    Toks t; Out o;
    static RecAllocator rec;
    alignas(16) static char cacheMem[sizeof(SimpleStringInternalCache)];
    void (*savedFPuts)(const char*, PlatformSpecificFile) = PlatformSpecificFPuts;
    void (*savedFlush)() = PlatformSpecificFlush;
    for (int i = 0; i < 8; i++) snprintf(gForeign[i], sizeof gForeign[i], "foreign%d", i);
    while (readline(t)) {
        int via = t.n();
        gNE = 0; gPrinted = false;
        PlatformSpecificFPuts = hookFPuts; PlatformSpecificFlush = hookFlush;
        if (via == 4) {
            runWarn(t, o, rec, cacheMem);
            PlatformSpecificFPuts = savedFPuts; PlatformSpecificFlush = savedFlush;
            recReset();
            o.flush();
            continue;
        }
        if (via == 3) {
            runEnvironment(t, o);
            PlatformSpecificFPuts = savedFPuts; PlatformSpecificFlush = savedFlush;
            recReset();
            o.flush();
            continue;
        }
        if (via == 2) {
            runInstalled(t, o, rec);
            PlatformSpecificFPuts = savedFPuts; PlatformSpecificFlush = savedFlush;
            recReset();
            o.flush();
            continue;
        }
        // construction
        void* (*savedMalloc)(size_t) = PlatformSpecificMalloc;
        PlatformSpecificMalloc = hookMalloc;
        SimpleStringInternalCache* cache = new (cacheMem) SimpleStringInternalCache;
        PlatformSpecificMalloc = savedMalloc;
        emit(o, false, 0);
        SimpleStringCacheAllocator* wrap = 0;
        if (via) wrap = new SimpleStringCacheAllocator(*cache, &rec); else cache->setAllocator(&rec);
        gNE = 0;
        std::vector<char*> ptrs;
        while (!t.end()) {
            std::string k = t.sym();
            if (k == "a") {
                size_t n = (size_t)t.u();
                char* p = via ? wrap->alloc_memory(n, __FILE__, __LINE__) : cache->alloc(n);
                unsigned long long id, off;
                if (p && findBlock(p, id, off) && !gB[id].freed && n > 0) { memset(p, 'a', n - 1); p[n - 1] = 0; }   // use the buffer: n bytes, a string
                ptrs.push_back(p);
                emit(o, true, p);
            }
            else if (k == "d" || k == "f") {
                size_t idx = (size_t)t.u(); size_t n = (size_t)t.u();
                char* p;
                if (k == "f") p = gForeign[idx % 8];
                else { if (idx >= ptrs.size()) { fprintf(stderr, "harness: release of an alloc that has not happened\n"); exit(3); } p = ptrs[idx]; }
                unsigned long long id = 0, off; bool dangling = false;
                if (k == "d" && p && findBlock(p, id, off) && gB[id].freed && !getenv("C18_STRICT_DANGLING")) { dangling = true; UNPOISON(gB[id].p, real(gB[id].sz)); }
                if (via) wrap->free_memory(p, n, __FILE__, __LINE__); else cache->dealloc(p, n);
                if (dangling) POISON(gB[id].p, real(gB[id].sz));
                emit(o, false, 0);
            }
            else if (k == "cc") { cache->clearCache(); emit(o, false, 0); }
            else if (k == "ca") { cache->clearAllIncludingCurrentlyUsedMemory(); emit(o, false, 0); }
            else { fprintf(stderr, "harness: bad op %s\n", k.c_str()); exit(3); }
        }
        // destruction (the wrapper first, as GlobalSimpleStringCache does)
        void (*savedFree)(void*) = PlatformSpecificFree;
        if (wrap) delete wrap;
        gNE = 0;
        PlatformSpecificFree = hookFree;
        cache->~SimpleStringInternalCache();
        PlatformSpecificFree = savedFree;
        emit(o, false, 0);
        PlatformSpecificFPuts = savedFPuts; PlatformSpecificFlush = savedFlush;
        recReset();
        o.flush();
    }
    return 0;
}
