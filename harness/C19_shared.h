/* C19: scenario shared between the C++ harness (C19.cpp: parser, recorder, C++ interpreter) and the C translation unit
   (C19_c.c: the same scenario through mock_c()/mock_scope_c(), compiled by a C compiler).
   An op is one entry point of one of the three function tables (or the selection of the mock support), with its arguments
   in the generic form "numbers + byte strings" (see checks/C19.py for which argument goes where). */
#ifndef C19_SHARED_H
#define C19_SHARED_H
#include <stddef.h>
#ifdef __cplusplus
extern "C" {
#endif
#define C19_OUTLEN 16
struct c19_bytes { const unsigned char* p; size_t n; };   /* p == NULL: the NULL pointer; otherwise NUL-terminated copy, n excludes the NUL */
struct c19_op {
    char table;                   /* 'M' select support, 'S' MockSupport_c, 'E' MockExpectedCall_c, 'A' MockActualCall_c */
    const char* field;            /* field name of the struct (for 'M': "") */
    unsigned long long z[3]; int nz;   /* numbers: integer bit patterns, double bits, pointer bits */
    struct c19_bytes b[3]; int nb;     /* names, strings, buffers, objects */
    unsigned char* out;           /* output buffer of C19_OUTLEN bytes owned by this op (withOutputParameter*) */
};
struct c19_scn { struct c19_op* ops; int n; };
extern struct c19_scn c19;

/* recorder (implemented in C19.cpp) */
void c19_at(int opidx);                                     /* the op about to be executed */
void c19_val(const char* kind, unsigned long long bits);    /* kinds: b i0 i1 i2 i3 i4 i5 d p cp fp mem obj */
void c19_str(const char* s);
void c19_unknown_field(void);

/* the custom type used for withParameterOfType / output parameters of type: 8 bytes, compared on the first 4, printed as
   "o:" + 8 hex digits, copied with every byte xor 0x5a (so that a plain memcpy or memcmp would be visible) */
int c19_obj_equal(const void* a, const void* b);
const char* c19_obj_to_string(const void* a);
void c19_obj_copy(void* dst, const void* src);

void c19_c_body(void);            /* the C interpreter, in C19_c.c */
#ifdef __cplusplus
}
#endif
#endif
