/* C19: scenario shared between the C++ harness (C19.cpp: parser, recorder, C++ interpreter) and the C translation unit
   (C19_c.c: the same scenario through mock_c()/mock_scope_c(), compiled by a C compiler).
   An op is one entry point of one of the three function tables (or the selection of the mock support), with its arguments
   in the generic form "numbers + byte strings" (see checks/C19.py for which argument goes where). */
#ifndef C19_SHARED_H
#define C19_SHARED_H
#include <stddef.h>
#ifdef __cplusplus
extern "C" {
#endif
#define C19_OUTLEN 16
struct c19_bytes { const unsigned char* p; size_t n; };   /* p == NULL: the NULL pointer; otherwise NUL-terminated copy, n excludes the NUL */
struct c19_op {
    char table;                   /* 'M' select support, 'S' MockSupport_c, 'E' MockExpectedCall_c, 'A' MockActualCall_c, 'T' a new test begins */
    const char* field;            /* field name of the struct (for 'M': "") */
    unsigned long long z[3]; int nz;   /* numbers: integer bit patterns, double bits, pointer bits */
    struct c19_bytes b[3]; int nb;     /* names, strings, buffers, objects */
    unsigned char* out;           /* output buffer of C19_OUTLEN bytes owned by this op (withOutputParameter*) */
};
struct c19_scn { struct c19_op* ops; int n; int lo, hi; };   /* [lo, hi): the ops of the test being run (tests are separated by 'T') */
extern struct c19_scn c19;

/* recorder (implemented in C19.cpp) */
void c19_at(int opidx);                                     /* the op about to be executed */
void c19_val(const char* kind, unsigned long long bits);    /* kinds: b i0 i1 i2 i3 i4 i5 d p cp fp mem obj */
void c19_str(const char* s);
void c19_unknown_field(void);

/* custom types used for withParameterOfType / output parameters of type: an object is 8 bytes.  A scenario installs comparators and
   copiers for several type names and takes their functions, by index, from this pool -- so that two types can share one function
   and differ in another (one generic equality function with a to-string function per type, one copier for all types, ...):
     equality   0: the first 4 bytes are equal                1: the last 4 bytes are equal   (neither implies the other)
     to-string  0: "o:" + 8 hex digits (bytes 0..3)           1: "Point(x=<byte 3>, y=<byte 7>)"     2: "Size(<byte 3> x <byte 7>)"
     copier     0: every byte xor 0x5a                         1: the bytes in reverse order, each + 1
   (so that a plain memcmp / memcpy, or the function of another type, would be visible).  C: the functions themselves;
   C++ (C19.cpp): one MockNamedValueComparator object per (equality, to-string) pair, one MockNamedValueCopier object per copier. */
#define C19_NEQ 2
#define C19_NSTR 3
#define C19_NCOPY 2
typedef int (*c19_eq_fn)(const void* a, const void* b);
typedef const char* (*c19_str_fn)(const void* a);
typedef void (*c19_copy_fn)(void* dst, const void* src);
extern const c19_eq_fn c19_eq_pool[C19_NEQ];
extern const c19_str_fn c19_str_pool[C19_NSTR];
extern const c19_copy_fn c19_copy_pool[C19_NCOPY];

void c19_c_body(void);            /* the C interpreter, in C19_c.c: runs the ops [c19.lo, c19.hi) */
void c19_c_reset(void);           /* forget the table pointers held by the C interpreter (start of a scenario) */
#ifdef __cplusplus
}
#endif
#endif
