/* C19: the scenario through the C interface, compiled as C: every entry point is reached the way a C user reaches it,
   through the function-pointer fields of the three structs returned by mock_c() / mock_scope_c(). */
#include <string.h>
#include "CppUTestExt/MockSupport_c.h"
#include "C19_shared.h"

typedef void (*fptr)(void);
static double dbl(unsigned long long bits) { double d; memcpy(&d, &bits, sizeof d); return d; }
static unsigned long long dbits(double d) { unsigned long long b; memcpy(&b, &d, sizeof b); return b; }

static void rec_value(MockValue_c v)
{
    switch (v.type) {
    case MOCKVALUETYPE_BOOL: c19_val("b", v.value.boolValue != 0); break;
    case MOCKVALUETYPE_INTEGER: c19_val("i0", (unsigned long long)(long long)v.value.intValue); break;
    case MOCKVALUETYPE_UNSIGNED_INTEGER: c19_val("i1", v.value.unsignedIntValue); break;
    case MOCKVALUETYPE_LONG_INTEGER: c19_val("i2", (unsigned long long)(long long)v.value.longIntValue); break;
    case MOCKVALUETYPE_UNSIGNED_LONG_INTEGER: c19_val("i3", v.value.unsignedLongIntValue); break;
    case MOCKVALUETYPE_LONG_LONG_INTEGER: c19_val("i4", (unsigned long long)v.value.longLongIntValue); break;
    case MOCKVALUETYPE_UNSIGNED_LONG_LONG_INTEGER: c19_val("i5", v.value.unsignedLongLongIntValue); break;
    case MOCKVALUETYPE_DOUBLE: c19_val("d", dbits(v.value.doubleValue)); break;
    case MOCKVALUETYPE_STRING: c19_str(v.value.stringValue); break;
    case MOCKVALUETYPE_POINTER: c19_val("p", (unsigned long long)(size_t)v.value.pointerValue); break;
    case MOCKVALUETYPE_CONST_POINTER: c19_val("cp", (unsigned long long)(size_t)v.value.constPointerValue); break;
    case MOCKVALUETYPE_FUNCTIONPOINTER: c19_val("fp", (unsigned long long)(size_t)v.value.functionPointerValue); break;
    case MOCKVALUETYPE_MEMORYBUFFER: c19_val("mem", (unsigned long long)(size_t)v.value.memoryBufferValue); break;
    case MOCKVALUETYPE_OBJECT: c19_val("obj", (unsigned long long)(size_t)v.value.objectValue); break;
    default: c19_val("badtag", (unsigned long long)v.type); break;
    }
}

#define IS(n) (strcmp(f, n) == 0)
#define NAME ((const char*)o->b[0].p)
#define STR1 ((const char*)o->b[1].p)
#define Z0 (o->z[0])
#define PTR0 ((void*)(size_t)o->z[0])
#define FP0 ((fptr)(size_t)o->z[0])

/* the return-value readers have the same names and signatures in MockActualCall_c and MockSupport_c */
#define READERS(t) \
    if (IS("hasReturnValue")) { c19_val("b", t->hasReturnValue() != 0); return 1; } \
    if (IS("returnValue")) { rec_value(t->returnValue()); return 1; } \
    if (IS("boolReturnValue")) { c19_val("b", t->boolReturnValue() != 0); return 1; } \
    if (IS("returnBoolValueOrDefault")) { c19_val("b", t->returnBoolValueOrDefault((int)Z0) != 0); return 1; } \
    if (IS("intReturnValue")) { c19_val("i0", (unsigned long long)(long long)t->intReturnValue()); return 1; } \
    if (IS("returnIntValueOrDefault")) { c19_val("i0", (unsigned long long)(long long)t->returnIntValueOrDefault((int)Z0)); return 1; } \
    if (IS("unsignedIntReturnValue")) { c19_val("i1", t->unsignedIntReturnValue()); return 1; } \
    if (IS("returnUnsignedIntValueOrDefault")) { c19_val("i1", t->returnUnsignedIntValueOrDefault((unsigned int)Z0)); return 1; } \
    if (IS("longIntReturnValue")) { c19_val("i2", (unsigned long long)(long long)t->longIntReturnValue()); return 1; } \
    if (IS("returnLongIntValueOrDefault")) { c19_val("i2", (unsigned long long)(long long)t->returnLongIntValueOrDefault((long int)Z0)); return 1; } \
    if (IS("unsignedLongIntReturnValue")) { c19_val("i3", t->unsignedLongIntReturnValue()); return 1; } \
    if (IS("returnUnsignedLongIntValueOrDefault")) { c19_val("i3", t->returnUnsignedLongIntValueOrDefault((unsigned long int)Z0)); return 1; } \
    if (IS("longLongIntReturnValue")) { c19_val("i4", (unsigned long long)t->longLongIntReturnValue()); return 1; } \
    if (IS("returnLongLongIntValueOrDefault")) { c19_val("i4", (unsigned long long)t->returnLongLongIntValueOrDefault((long long)Z0)); return 1; } \
    if (IS("unsignedLongLongIntReturnValue")) { c19_val("i5", t->unsignedLongLongIntReturnValue()); return 1; } \
    if (IS("returnUnsignedLongLongIntValueOrDefault")) { c19_val("i5", t->returnUnsignedLongLongIntValueOrDefault((unsigned long long)Z0)); return 1; } \
    if (IS("stringReturnValue")) { c19_str(t->stringReturnValue()); return 1; } \
    if (IS("returnStringValueOrDefault")) { c19_str(t->returnStringValueOrDefault(NAME)); return 1; } \
    if (IS("doubleReturnValue")) { c19_val("d", dbits(t->doubleReturnValue())); return 1; } \
    if (IS("returnDoubleValueOrDefault")) { c19_val("d", dbits(t->returnDoubleValueOrDefault(dbl(Z0)))); return 1; } \
    if (IS("pointerReturnValue")) { c19_val("p", (unsigned long long)(size_t)t->pointerReturnValue()); return 1; } \
    if (IS("returnPointerValueOrDefault")) { c19_val("p", (unsigned long long)(size_t)t->returnPointerValueOrDefault(PTR0)); return 1; } \
    if (IS("constPointerReturnValue")) { c19_val("cp", (unsigned long long)(size_t)t->constPointerReturnValue()); return 1; } \
    if (IS("returnConstPointerValueOrDefault")) { c19_val("cp", (unsigned long long)(size_t)t->returnConstPointerValueOrDefault(PTR0)); return 1; } \
    if (IS("functionPointerReturnValue")) { c19_val("fp", (unsigned long long)(size_t)t->functionPointerReturnValue()); return 1; } \
    if (IS("returnFunctionPointerValueOrDefault")) { c19_val("fp", (unsigned long long)(size_t)t->returnFunctionPointerValueOrDefault(FP0)); return 1; }

/* input parameters common to expected and actual calls */
#define PARAMS(t) \
    if (IS("withBoolParameters")) { t = t->withBoolParameters(NAME, (int)Z0); return 1; } \
    if (IS("withIntParameters")) { t = t->withIntParameters(NAME, (int)Z0); return 1; } \
    if (IS("withUnsignedIntParameters")) { t = t->withUnsignedIntParameters(NAME, (unsigned int)Z0); return 1; } \
    if (IS("withLongIntParameters")) { t = t->withLongIntParameters(NAME, (long int)Z0); return 1; } \
    if (IS("withUnsignedLongIntParameters")) { t = t->withUnsignedLongIntParameters(NAME, (unsigned long int)Z0); return 1; } \
    if (IS("withLongLongIntParameters")) { t = t->withLongLongIntParameters(NAME, (long long)Z0); return 1; } \
    if (IS("withUnsignedLongLongIntParameters")) { t = t->withUnsignedLongLongIntParameters(NAME, (unsigned long long)Z0); return 1; } \
    if (IS("withDoubleParameters")) { t = t->withDoubleParameters(NAME, dbl(Z0)); return 1; } \
    if (IS("withStringParameters")) { t = t->withStringParameters(NAME, STR1); return 1; } \
    if (IS("withPointerParameters")) { t = t->withPointerParameters(NAME, PTR0); return 1; } \
    if (IS("withConstPointerParameters")) { t = t->withConstPointerParameters(NAME, PTR0); return 1; } \
    if (IS("withFunctionPointerParameters")) { t = t->withFunctionPointerParameters(NAME, FP0); return 1; } \
    if (IS("withMemoryBufferParameter")) { t = t->withMemoryBufferParameter(NAME, o->b[1].p, o->b[1].n); return 1; } \
    if (IS("withParameterOfType")) { t = t->withParameterOfType(NAME, STR1, o->b[2].p); return 1; }

static MockSupport_c* m;
static MockExpectedCall_c* e;
static MockActualCall_c* a;

static int do_expected(const struct c19_op* o, const char* f)
{
    PARAMS(e)
    if (IS("withDoubleParametersAndTolerance")) { e = e->withDoubleParametersAndTolerance(NAME, dbl(Z0), dbl(o->z[1])); return 1; }
    if (IS("withOutputParameterReturning")) { e = e->withOutputParameterReturning(NAME, o->b[1].p, o->b[1].n); return 1; }
    if (IS("withOutputParameterOfTypeReturning")) { e = e->withOutputParameterOfTypeReturning(NAME, STR1, o->b[2].p); return 1; }
    if (IS("withUnmodifiedOutputParameter")) { e = e->withUnmodifiedOutputParameter(NAME); return 1; }
    if (IS("ignoreOtherParameters")) { e = e->ignoreOtherParameters(); return 1; }
    if (IS("andReturnBoolValue")) { e = e->andReturnBoolValue((int)Z0); return 1; }
    if (IS("andReturnUnsignedIntValue")) { e = e->andReturnUnsignedIntValue((unsigned int)Z0); return 1; }
    if (IS("andReturnIntValue")) { e = e->andReturnIntValue((int)Z0); return 1; }
    if (IS("andReturnLongIntValue")) { e = e->andReturnLongIntValue((long int)Z0); return 1; }
    if (IS("andReturnUnsignedLongIntValue")) { e = e->andReturnUnsignedLongIntValue((unsigned long int)Z0); return 1; }
    if (IS("andReturnLongLongIntValue")) { e = e->andReturnLongLongIntValue((long long)Z0); return 1; }
    if (IS("andReturnUnsignedLongLongIntValue")) { e = e->andReturnUnsignedLongLongIntValue((unsigned long long)Z0); return 1; }
    if (IS("andReturnDoubleValue")) { e = e->andReturnDoubleValue(dbl(Z0)); return 1; }
    if (IS("andReturnStringValue")) { e = e->andReturnStringValue(NAME); return 1; }
    if (IS("andReturnPointerValue")) { e = e->andReturnPointerValue(PTR0); return 1; }
    if (IS("andReturnConstPointerValue")) { e = e->andReturnConstPointerValue(PTR0); return 1; }
    if (IS("andReturnFunctionPointerValue")) { e = e->andReturnFunctionPointerValue(FP0); return 1; }
    return 0;
}

static int do_actual(const struct c19_op* o, const char* f)
{
    PARAMS(a)
    if (IS("withOutputParameter")) { a = a->withOutputParameter(NAME, o->out); return 1; }
    if (IS("withOutputParameterOfType")) { a = a->withOutputParameterOfType(NAME, STR1, o->out); return 1; }
    READERS(a)
    return 0;
}

static int do_support(const struct c19_op* o, const char* f)
{
    if (IS("strictOrder")) { m->strictOrder(); return 1; }
    if (IS("expectOneCall")) { e = m->expectOneCall(NAME); return 1; }
    if (IS("expectNoCall")) { m->expectNoCall(NAME); return 1; }
    if (IS("expectNCalls")) { e = m->expectNCalls((unsigned int)Z0, NAME); return 1; }
    if (IS("actualCall")) { a = m->actualCall(NAME); return 1; }
    READERS(m)
    if (IS("setBoolData")) { m->setBoolData(NAME, (int)Z0); return 1; }
    if (IS("setIntData")) { m->setIntData(NAME, (int)Z0); return 1; }
    if (IS("setUnsignedIntData")) { m->setUnsignedIntData(NAME, (unsigned int)Z0); return 1; }
    if (IS("setStringData")) { m->setStringData(NAME, STR1); return 1; }
    if (IS("setDoubleData")) { m->setDoubleData(NAME, dbl(Z0)); return 1; }
    if (IS("setPointerData")) { m->setPointerData(NAME, PTR0); return 1; }
    if (IS("setConstPointerData")) { m->setConstPointerData(NAME, PTR0); return 1; }
    if (IS("setFunctionPointerData")) { m->setFunctionPointerData(NAME, FP0); return 1; }
    if (IS("setDataObject")) { m->setDataObject(NAME, STR1, PTR0); return 1; }
    if (IS("setDataConstObject")) { m->setDataConstObject(NAME, STR1, PTR0); return 1; }
    if (IS("getData")) { rec_value(m->getData(NAME)); return 1; }
    if (IS("disable")) { m->disable(); return 1; }
    if (IS("enable")) { m->enable(); return 1; }
    if (IS("ignoreOtherCalls")) { m->ignoreOtherCalls(); return 1; }
    if (IS("checkExpectations")) { m->checkExpectations(); return 1; }
    if (IS("expectedCallsLeft")) { c19_val("b", m->expectedCallsLeft() != 0); return 1; }
    if (IS("clear")) { m->clear(); return 1; }
    if (IS("crashOnFailure")) { m->crashOnFailure((unsigned)Z0); return 1; }
    if (IS("installComparator")) {
        if (o->nz != 2 || Z0 >= C19_NEQ || o->z[1] >= C19_NSTR) return 0;
        m->installComparator(NAME, c19_eq_pool[Z0], c19_str_pool[o->z[1]]); return 1;
    }
    if (IS("installCopier")) {
        if (o->nz != 1 || Z0 >= C19_NCOPY) return 0;
        m->installCopier(NAME, c19_copy_pool[Z0]); return 1;
    }
    if (IS("removeAllComparatorsAndCopiers")) { m->removeAllComparatorsAndCopiers(); return 1; }
    return 0;
}

/* the pointers a C user keeps (file statics of his test file) survive from one test to the next */
void c19_c_reset(void) { m = 0; e = 0; a = 0; }
void c19_c_body(void)
{
    int i;
    for (i = c19.lo; i < c19.hi; i++) {
        const struct c19_op* o = &c19.ops[i];
        int ok = 0;
        c19_at(i);
        switch (o->table) {
        case 'M': m = o->b[0].p ? mock_scope_c((const char*)o->b[0].p) : mock_c(); ok = 1; break;
        case 'S': ok = do_support(o, o->field); break;
        case 'E': ok = do_expected(o, o->field); break;
        case 'A': ok = do_actual(o, o->field); break;
        default: break;
        }
        if (!ok) c19_unknown_field();
    }
    c19_at(c19.hi);
}
