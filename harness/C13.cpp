// C13 harness: one string operation (or one operation sequence) per scenario line, executed on the real SimpleString with
//  * every C-string argument in a heap block of exactly strlen+1 bytes (ASan sees any read past it),
//  * a recording string allocator (exact-size malloc blocks; checks that each buffer comes back once, with its size),
//  * an independent reference (std::string / libc) evaluated next to it.
// Everything a scenario constructs -- arguments, results, temporaries, the collection of split, the four objects of an
// operation sequence (three named ones and the result object, which is the object an operation returned) -- is a local of its branch in one(), i.e. it is DESTROYED before rec.paired() closes the recorded window:
// the buffers still owned by result objects when the scenario ends are part of the pairing observation.
// `:col`: ONE SimpleStringCollection through a history of split (delimiter of any length) / allocate / col[i] = s / size() / col[i].
// `:als`: ONE object through statements whose argument is a pointer into its own buffer (s = s.asCharString() + k, s += s, s.replace(own, own) ...).
// Observation: <value tokens> <reference agrees 0|1> <allocator pairing 0|1>
#include <string>
#include <memory>
#include <vector>
#include <map>
#include <algorithm>
#include <cctype>
#include "CppUTest/TestHarness.h"
#include "CppUTest/SimpleString.h"
#include "CppUTest/TestMemoryAllocator.h"
#include "hlib.h"
using namespace hl;

struct RecAlloc : public TestMemoryAllocator {
    std::map<char*, size_t> live; bool bad = false; size_t allocs = 0;
    RecAlloc() : TestMemoryAllocator("rec", "alloc", "free") {}
    char* alloc_memory(size_t size, const char*, size_t) override { char* p = (char*)malloc(size ? size : 1); memset(p, 0xCD, size); live[p] = size; allocs++; return p; }
    void free_memory(char* m, size_t size, const char*, size_t) override {
        auto it = live.find(m);
        if (it == live.end() || it->second != size) { bad = true; if (it == live.end()) return; }
        live.erase(it); free(m);
    }
    bool paired() { bool ok = !bad && live.empty(); for (auto& kv : live) free(kv.first); live.clear(); bad = false; return ok; }
};
static RecAlloc rec;

// exact-size heap copy of a byte string, NUL-terminated
struct Cs { char* p; size_t n; explicit Cs(const std::string& s) : n(s.size()) { p = (char*)malloc(n + 1); memcpy(p, s.data(), n); p[n] = 0; } ~Cs() { free(p); } };
// exact-size raw block (no terminator)
struct Raw { unsigned char* p; size_t n; explicit Raw(const std::string& s) : n(s.size()) { p = (unsigned char*)malloc(n ? n : 1); memcpy(p, s.data(), n); } ~Raw() { free(p); } };

static int sgn(int v) { return v < 0 ? -1 : (v > 0 ? 1 : 0); }
static std::string hs(const SimpleString& s) { return hstr(s.asCharString()); }
static std::string lowered(std::string s) { for (auto& c : s) if (c >= 'A' && c <= 'Z') c = (char)(c + 32); return s; }
static std::string refReplace(const std::string& a, const std::string& to, const std::string& w)
{
    if (to.empty()) return a;
    std::string r; size_t pos = 0;
    for (;;) { size_t f = a.find(to, pos); if (f == std::string::npos) { r.append(a, pos, std::string::npos); break; } r.append(a, pos, f - pos); r += w; pos = f + to.size(); }
    return r;
}
static std::string refPrintable(const std::string& a)
{
    std::string r; char b[8];
    for (unsigned char c : a) {
        switch (c) {
        case 7: r += "\\a"; break; case 8: r += "\\b"; break; case 9: r += "\\t"; break; case 10: r += "\\n"; break;
        case 11: r += "\\v"; break; case 12: r += "\\f"; break; case 13: r += "\\r"; break;
        default: if (c < 32 || c >= 127) { snprintf(b, sizeof b, "\\x%02X", (unsigned)c); r += b; } else r += (char)c;
        }
    }
    return r;
}
static std::string refOrdinal(unsigned n) { char b[32]; unsigned two = n % 100, d = n % 10; const char* sf = (two >= 11 && two <= 13) ? "th" : d == 1 ? "st" : d == 2 ? "nd" : d == 3 ? "rd" : "th"; snprintf(b, sizeof b, "%u%s", n, sf); return b; }
static std::string refMasked(unsigned long v, unsigned long m, size_t bc) { size_t bits = bc > 8 ? 64 : bc * 8; std::string e; for (size_t i = 0; i < bits; i++) { size_t k = bits - 1 - i; e += ((m >> k) & 1) ? (((v >> k) & 1) ? '1' : '0') : 'x'; if (i % 8 == 7 && i != bits - 1) e += ' '; } return e; }
static std::string refBinary(const unsigned char* p, size_t n) { std::string e; char b[8]; for (size_t i = 0; i < n; i++) { snprintf(b, sizeof b, i ? " %02X" : "%02X", p[i]); e += b; } return e; }
static std::vector<std::string> refSplit(const std::string& A, char dc) { std::vector<std::string> e; size_t pos = 0; for (;;) { size_t f = A.find(dc, pos); if (f == std::string::npos) { if (pos < A.size()) e.push_back(A.substr(pos)); break; } e.push_back(A.substr(pos, f + 1 - pos)); pos = f + 1; } if (A.empty()) e.push_back(std::string()); return e; }
// split with a delimiter of any length, written from the statement (not from the code): a token ends one byte behind the START of an occurrence of D
// (occurrences may overlap; the empty delimiter occurs at every byte), the rest is the last token unless A ends with D
static std::vector<std::string> refSplitStr(const std::string& A, const std::string& D)
{
    std::vector<std::string> e; size_t pos = 0;
    while (pos < A.size()) { size_t f = A.find(D, pos); if (f == std::string::npos || f >= A.size()) break; e.push_back(A.substr(pos, f + 1 - pos)); pos = f + 1; }
    bool ends = A.size() >= D.size() && A.compare(A.size() - D.size(), D.size(), D) == 0;
    if (!ends) e.push_back(A.substr(pos));
    return e;
}
static std::string le8(size_t n) { std::string r; for (int k = 0; k < 8; k++) r += (char)((n >> (8 * k)) & 0xff); return r; }
// an object constructed DIRECTLY from the value f returns (C++17: the returned prvalue initialises the member, no copy)
struct Holder { SimpleString s; template <class F> explicit Holder(F f) : s(f()) {} };
static std::string listTok(const std::vector<std::string>& v) { std::string r = ":l " + hx(v.size()); for (auto& s : v) r += " " + hbytes(s.data(), s.size()); return r; }

static void one(Toks& t, Out& o)
{
    std::string op = t.next();
    std::string A, B, C;
    bool ref = true;
    std::string val;
    if (op == ":strlen") { t.bytes(A); Cs a(A); size_t r = SimpleString::StrLen(a.p); val = hx(r); ref = r == strlen(a.p); }
    else if (op == ":strcmp") { t.bytes(A); t.bytes(B); Cs a(A), b(B); int r = sgn(SimpleString::StrCmp(a.p, b.p)); val = hz(r); ref = r == sgn(strcmp(a.p, b.p)); }
    else if (op == ":strncmp") { t.bytes(A); t.bytes(B); size_t n = t.u(); Cs a(A), b(B); int r = sgn(SimpleString::StrNCmp(a.p, b.p, n)); val = hz(r); ref = r == sgn(strncmp(a.p, b.p, n)); }
    else if (op == ":strstr") { t.bytes(A); t.bytes(B); Cs a(A), b(B); const char* r = SimpleString::StrStr(a.p, b.p); val = r ? hx((size_t)(r - a.p)) : "~"; ref = r == strstr(a.p, b.p); }
    else if (op == ":memcmp") { t.bytes(A); t.bytes(B); size_t n = t.u(); Raw a(A), b(B); int r = sgn(SimpleString::MemCmp(a.p, b.p, n)); val = hz(r); ref = r == sgn(memcmp(a.p, b.p, n)); }
    else if (op == ":contains" || op == ":containsnc" || op == ":starts" || op == ":ends" || op == ":eq" || op == ":eqnc" || op == ":count") {
        t.bytes(A); t.bytes(B); Cs a(A), b(B); SimpleString s(a.p), u(b.p);
        std::string ra = A, rb = B;
        if (op == ":containsnc" || op == ":eqnc") { ra = lowered(A); rb = lowered(B); }
        if (op == ":contains" || op == ":containsnc") { bool r = op == ":contains" ? s.contains(u) : s.containsNoCase(u); val = r ? "1" : "0"; ref = r == (ra.find(rb) != std::string::npos); }
        else if (op == ":starts") { bool r = s.startsWith(u); val = r ? "1" : "0"; ref = r == (ra.size() >= rb.size() && ra.compare(0, rb.size(), rb) == 0); }
        else if (op == ":ends") { bool r = s.endsWith(u); val = r ? "1" : "0"; ref = r == (ra.size() >= rb.size() && ra.compare(ra.size() - rb.size(), rb.size(), rb) == 0); }
        else if (op == ":eq" || op == ":eqnc") { bool r = op == ":eq" ? (s == u) : s.equalsNoCase(u); val = r ? "1" : "0"; ref = r == (ra == rb) && ((s != u) == !(s == u)); }
        else { size_t r = s.count(u); val = hx(r); size_t n = 0; size_t pos = ra.find(rb, 0); while (pos != std::string::npos && pos < ra.size()) { n++; pos = ra.find(rb, pos + 1); } ref = r == n; }
    }
    else if (op == ":find") { t.bytes(A); unsigned ch = (unsigned)t.u(); Cs a(A); SimpleString s(a.p); size_t r = s.find((char)ch); val = r == SimpleString::npos ? "~" : hx(r); size_t e = ch ? A.find((char)ch) : std::string::npos; ref = r == e; }
    else if (op == ":findfrom") { t.bytes(A); size_t st = t.u(); unsigned ch = (unsigned)t.u(); Cs a(A); SimpleString s(a.p); size_t r = s.findFrom(st, (char)ch); val = r == SimpleString::npos ? "~" : hx(r); size_t e = (ch && st < A.size()) ? A.find((char)ch, st) : std::string::npos; ref = r == e; }
    else if (op == ":substr") { t.bytes(A); size_t b = t.u(), n = t.u(); Cs a(A); SimpleString s(a.p); SimpleString r = s.subString(b, n); val = hs(r); ref = std::string(r.asCharString()) == (b >= A.size() ? std::string() : A.substr(b, n)); }
    else if (op == ":substr1") { t.bytes(A); size_t b = t.u(); Cs a(A); SimpleString s(a.p); SimpleString r = s.subString(b); val = hs(r); ref = std::string(r.asCharString()) == (b >= A.size() ? std::string() : A.substr(b)); }
    else if (op == ":lower") { t.bytes(A); Cs a(A); SimpleString s(a.p); SimpleString r = s.lowerCase(); val = hs(r); std::string e = A; for (auto& c : e) c = (char)tolower((unsigned char)c); ref = e == r.asCharString() && s == SimpleString(a.p); }
    else if (op == ":replc") { t.bytes(A); unsigned c1 = (unsigned)t.u(), c2 = (unsigned)t.u(); Cs a(A); SimpleString s(a.p); s.replace((char)c1, (char)c2); val = hs(s); std::string e = A; std::replace(e.begin(), e.end(), (char)c1, (char)c2); ref = std::string(e.c_str()) == s.asCharString(); }
    else if (op == ":ordinal") { unsigned n = (unsigned)t.u(); SimpleString r = StringFromOrdinalNumber(n); val = hs(r); char b[32]; unsigned two = n % 100, d = n % 10; const char* sf = (two >= 11 && two <= 13) ? "th" : d == 1 ? "st" : d == 2 ? "nd" : d == 3 ? "rd" : "th"; snprintf(b, sizeof b, "%u%s", n, sf); ref = std::string(b) == r.asCharString(); }
    // ---- second group
    else if (op == ":strncpy") { t.bytes(A); size_t n = t.u(), dn = t.u(); Cs a(A); unsigned char* d = (unsigned char*)malloc(dn ? dn : 1); memset(d, 0xCD, dn); char* r = SimpleString::StrNCpy((char*)d, a.p, n); val = hbytes(d, dn); size_t k = std::min(n, A.size() + 1); ref = r == (char*)d && memcmp(d, a.p, k) == 0; for (size_t i = k; i < dn; i++) ref = ref && d[i] == 0xCD; free(d); }
    else if (op == ":copybuf") { t.bytes(A); size_t dn = t.u(); Cs a(A); SimpleString s(a.p); unsigned char* d = (unsigned char*)malloc(dn ? dn : 1); memset(d, 0xCD, dn); s.copyToBuffer((char*)d, dn); val = hbytes(d, dn); if (dn) { size_t k = std::min(dn - 1, A.size()); ref = memcmp(d, A.data(), k) == 0 && d[k] == 0; for (size_t i = k + 1; i < dn; i++) ref = ref && d[i] == 0xCD; } s.copyToBuffer(nullptr, 5); free(d); }
    else if (op == ":append") { t.bytes(A); t.bytes(B); Cs a(A), b(B); SimpleString s(a.p); s += b.p; val = hs(s); ref = A + B == s.asCharString(); }
    else if (op == ":plus") { t.bytes(A); t.bytes(B); Cs a(A), b(B); SimpleString s(a.p), u(b.p); SimpleString r = s + u; val = hs(r); ref = A + B == r.asCharString() && A == s.asCharString(); }
    else if (op == ":repeat") { t.bytes(A); size_t k = t.u(); Cs a(A); SimpleString r(a.p, k); val = hs(r); std::string e; for (size_t i = 0; i < k; i++) e += A; ref = e == r.asCharString(); }
    else if (op == ":pad") { t.bytes(A); t.bytes(B); unsigned ch = (unsigned)t.u(); Cs a(A), b(B); SimpleString s(a.p), u(b.p); SimpleString::padStringsToSameLength(s, u, (char)ch); std::vector<std::string> v{ s.asCharString(), u.asCharString() }; val = listTok(v);
        std::string ea = A, eb = B; if (ea.size() < eb.size()) ea = std::string(eb.size() - ea.size(), (char)ch) + ea; else eb = std::string(ea.size() - eb.size(), (char)ch) + eb; ref = ea == v[0] && eb == v[1]; }
    else if (op == ":repls") { t.bytes(A); t.bytes(B); t.bytes(C); Cs a(A), b(B), c(C); SimpleString s(a.p); s.replace(b.p, c.p); val = hs(s); ref = refReplace(A, B, C) == s.asCharString(); }
    else if (op == ":printable") { t.bytes(A); Cs a(A); SimpleString s(a.p); SimpleString r = s.printable(); val = hs(r); ref = refPrintable(A) == r.asCharString(); }
    else if (op == ":split") { t.bytes(A); unsigned dc = (unsigned)t.u(); char ds[2] = { (char)dc, 0 }; Cs a(A); SimpleString s(a.p), d(ds); std::vector<std::string> v; bool again = true; { SimpleStringCollection col; s.split(d, col); for (size_t i = 0; i < col.size(); i++) v.push_back(col[i].asCharString());
            // the same collection filled a second time (its first array of strings is released), and the out-of-range element
            s.split(d, col); again = col.size() == v.size(); for (size_t i = 0; again && i < col.size(); i++) again = v[i] == col[i].asCharString(); again = again && std::string(col[col.size()].asCharString()).empty(); } val = listTok(v);
        { std::vector<std::string> e; size_t pos = 0; for (;;) { size_t f = A.find((char)dc, pos); if (f == std::string::npos) { if (pos < A.size()) e.push_back(A.substr(pos)); break; } e.push_back(A.substr(pos, f + 1 - pos)); pos = f + 1; } if (A.empty()) e.push_back(std::string()); ref = e == v && again; } }
    else if (op == ":fromtill") { t.bytes(A); unsigned c1 = (unsigned)t.u(), c2 = (unsigned)t.u(); Cs a(A); SimpleString s(a.p); SimpleString r = s.subStringFromTill((char)c1, (char)c2); val = hs(r); std::string e; size_t b = c1 ? A.find((char)c1) : std::string::npos; if (b != std::string::npos) { size_t en = c2 ? A.find((char)c2, b) : std::string::npos; e = en == std::string::npos ? A.substr(b) : A.substr(b, en - b); } ref = e == r.asCharString(); }
    else if (op == ":atoi") { t.bytes(A); Cs a(A); int r = SimpleString::AtoI(a.p); val = hz(r); ref = r == (int)strtol(a.p, nullptr, 10); }
    else if (op == ":atou") { t.bytes(A); Cs a(A); unsigned r = SimpleString::AtoU(a.p); val = hx(r); const char* q = a.p; while (*q == ' ' || (*q >= 9 && *q <= 13)) q++; unsigned e = (*q == '+' || *q == '-') ? 0u : (unsigned)strtoull(q, nullptr, 10); ref = r == e; }
    else if (op == ":masked") { unsigned long v = t.u(), m = t.u(); size_t bc = t.u(); SimpleString r = StringFromMaskedBits(v, m, bc); val = hs(r); size_t bits = bc > 8 ? 64 : bc * 8; std::string e; for (size_t i = 0; i < bits; i++) { size_t k = bits - 1 - i; e += ((m >> k) & 1) ? (((v >> k) & 1) ? '1' : '0') : 'x'; if (i % 8 == 7 && i != bits - 1) e += ' '; } ref = e == r.asCharString(); }
    else if (op == ":binary") { t.bytes(A); Raw a(A); SimpleString r = StringFromBinary(a.p, a.n); val = hs(r); std::string e; char b[8]; for (size_t i = 0; i < a.n; i++) { snprintf(b, sizeof b, i ? " %02X" : "%02X", a.p[i]); e += b; } ref = e == r.asCharString(); }
    else if (op == ":fmt") { t.bytes(A); t.bytes(B); Cs a(A), b(B); SimpleString r = StringFromFormat("%s%s", a.p, b.p); val = hs(r); ref = A + B == r.asCharString(); }
    else if (op == ":seq") {
        // operation sequence on three named objects obj[0..2] and the RESULT OBJECT obj[3] (= *R): <nops> then ops.
        // R is the very object an operation returned: it is constructed directly from the returned value (Holder's member
        // initialiser / the element of a live split collection -- no copy, no assignment in between), so whatever state the
        // operation left in it (buffer size, slack behind the terminator) is what the next step works on.
        int n = t.n();
        std::vector<std::string> refv(4), log;
        {
            SimpleString obj[3];
            std::unique_ptr<Holder> own = std::make_unique<Holder>([] { return SimpleString(); });
            std::unique_ptr<SimpleStringCollection> col;
            SimpleString* R = &own->s;
            auto O = [&](int i) -> SimpleString& { return i == 3 ? *R : obj[i]; };
            // the new R is built while the old one is still alive (it may be an argument), then the old one is destroyed
            auto setR = [&](auto f) { std::unique_ptr<Holder> nw = std::make_unique<Holder>(f); own = std::move(nw); col.reset(); R = &own->s; };
            for (int k = 0; k < n; k++) {
                std::string w = t.next();
                if (w == ":set") { int i = t.n(); t.bytes(A); Cs a(A); O(i) = SimpleString(a.p); refv[i] = A; }
                else if (w == ":asg") { int i = t.n(), j = t.n(); O(i) = O(j); refv[i] = refv[j]; }
                else if (w == ":app") { int i = t.n(), j = t.n(); O(i) += O(j); refv[i] = refv[i] + refv[j]; }
                else if (w == ":appc") { int i = t.n(); t.bytes(A); Cs a(A); O(i) += a.p; refv[i] += A; }
                else if (w == ":low") { int i = t.n(), j = t.n(); O(i) = O(j).lowerCase(); refv[i] = lowered(refv[j]); }
                else if (w == ":sub") { int i = t.n(), j = t.n(); size_t b = t.u(), m = t.u(); O(i) = O(j).subString(b, m); refv[i] = b >= refv[j].size() ? std::string() : refv[j].substr(b, m); }
                else if (w == ":rc") { int i = t.n(); unsigned c1 = (unsigned)t.u(), c2 = (unsigned)t.u(); O(i).replace((char)c1, (char)c2); std::replace(refv[i].begin(), refv[i].end(), (char)c1, (char)c2); refv[i] = refv[i].c_str(); }
                else if (w == ":rs") { int i = t.n(); t.bytes(A); t.bytes(B); Cs a(A), b(B); O(i).replace(a.p, b.p); refv[i] = refReplace(refv[i], A, B); }
                else if (w == ":prt") { int i = t.n(), j = t.n(); O(i) = O(j).printable(); refv[i] = refPrintable(refv[j]); }
                else if (w == ":pad") { int i = t.n(), j = t.n(); unsigned ch = (unsigned)t.u(); if (i != j) { SimpleString::padStringsToSameLength(O(i), O(j), (char)ch); std::string& x = refv[i]; std::string& y = refv[j]; if (x.size() < y.size()) x = std::string(y.size() - x.size(), (char)ch) + x; else y = std::string(x.size() - y.size(), (char)ch) + y; } }
                else if (w == ":fmt") { int i = t.n(); t.bytes(A); t.bytes(B); Cs a(A), b(B); O(i) = StringFromFormat("%s%s", a.p, b.p); refv[i] = A + B; }
                else if (w == ":rep") { int i = t.n(); t.bytes(A); size_t m = t.u(); Cs a(A); O(i) = SimpleString(a.p, m); std::string e; for (size_t q = 0; q < m; q++) e += A; refv[i] = e; }
                else if (w == ":plus") { int i = t.n(), j = t.n(), l = t.n(); O(i) = O(j) + O(l); refv[i] = refv[j] + refv[l]; }
                // ---- producers of the result object
                else if (w == ":rnew") { t.bytes(A); Cs a(A); setR([&] { return SimpleString(a.p); }); refv[3] = A; }
                else if (w == ":rcopy") { int j = t.n(); std::string e = refv[j]; setR([&] { return SimpleString(O(j)); }); refv[3] = e; }
                else if (w == ":rsub") { int j = t.n(); size_t b = t.u(), m = t.u(); std::string e = b >= refv[j].size() ? std::string() : refv[j].substr(b, m); setR([&] { return O(j).subString(b, m); }); refv[3] = e; }
                else if (w == ":rsub1") { int j = t.n(); size_t b = t.u(); std::string e = b >= refv[j].size() ? std::string() : refv[j].substr(b); setR([&] { return O(j).subString(b); }); refv[3] = e; }
                else if (w == ":rft") { int j = t.n(); unsigned c1 = (unsigned)t.u(), c2 = (unsigned)t.u(); const std::string& S = refv[j]; std::string e; size_t b = c1 ? S.find((char)c1) : std::string::npos; if (b != std::string::npos) { size_t en = c2 ? S.find((char)c2, b) : std::string::npos; e = en == std::string::npos ? S.substr(b) : S.substr(b, en - b); }
                    setR([&] { return O(j).subStringFromTill((char)c1, (char)c2); }); refv[3] = e; }
                else if (w == ":rlow") { int j = t.n(); std::string e = lowered(refv[j]); setR([&] { return O(j).lowerCase(); }); refv[3] = e; }
                else if (w == ":rprt") { int j = t.n(); std::string e = refPrintable(refv[j]); setR([&] { return O(j).printable(); }); refv[3] = e; }
                else if (w == ":rplus") { int j = t.n(), l = t.n(); std::string e = refv[j] + refv[l]; setR([&] { return O(j) + O(l); }); refv[3] = e; }
                else if (w == ":rfmt") { t.bytes(A); t.bytes(B); Cs a(A), b(B); setR([&] { return StringFromFormat("%s%s", a.p, b.p); }); refv[3] = A + B; }
                else if (w == ":rrep") { t.bytes(A); size_t m = t.u(); Cs a(A); setR([&] { return SimpleString(a.p, m); }); std::string e; for (size_t q = 0; q < m; q++) e += A; refv[3] = e; }
                else if (w == ":rord") { unsigned v = (unsigned)t.u(); setR([&] { return StringFromOrdinalNumber(v); }); refv[3] = refOrdinal(v); }
                else if (w == ":rmask") { unsigned long v = t.u(), m = t.u(); size_t bc = t.u(); setR([&] { return StringFromMaskedBits(v, m, bc); }); refv[3] = refMasked(v, m, bc); }
                else if (w == ":rbin") { t.bytes(A); Raw a(A); setR([&] { return StringFromBinary(a.p, a.n); }); refv[3] = refBinary(a.p, a.n); }
                else if (w == ":rsplit") { int j = t.n(); unsigned dc = (unsigned)t.u(); size_t el = t.u(); char ds[2] = { (char)dc, 0 };
                    std::vector<std::string> e = refSplit(refv[j], (char)dc);
                    std::unique_ptr<SimpleStringCollection> nc = std::make_unique<SimpleStringCollection>(); O(j).split(ds, *nc);
                    col = std::move(nc); own.reset(); R = &(*col)[el];         // the element itself (the collection's out-of-range element when el >= size)
                    refv[3] = el < e.size() ? e[el] : std::string(); }
                // ---- observers: one log entry each
                else if (w == ":size") { int i = t.n(); size_t sz = O(i).size(); bool em = O(i).isEmpty(); std::string e = le8(sz); e += (char)(em ? 1 : 0); log.push_back(e); ref = ref && sz == refv[i].size() && em == refv[i].empty(); }
                else if (w == ":at") { int i = t.n(); size_t pos = t.u(); size_t q = pos % (refv[i].size() + 1); char c = O(i).at(q); log.push_back(std::string(1, c)); ref = ref && c == (q < refv[i].size() ? refv[i][q] : '\0'); }
                else if (w == ":cmp") { int i = t.n(), j = t.n(); const SimpleString& x = O(i); const SimpleString& y = O(j); const std::string& ra = refv[i]; const std::string& rb = refv[j];
                    bool eq = x == y, co = x.contains(y), st = x.startsWith(y), en = x.endsWith(y); size_t cn = x.count(y);
                    std::string e; e += (char)eq; e += (char)co; e += (char)st; e += (char)en; e += le8(cn); log.push_back(e);
                    size_t rn = 0; size_t pos = ra.find(rb, 0); while (pos != std::string::npos && pos < ra.size()) { rn++; pos = ra.find(rb, pos + 1); }
                    ref = ref && eq == (ra == rb) && (x != y) == !eq && co == (ra.find(rb) != std::string::npos) && st == (ra.size() >= rb.size() && ra.compare(0, rb.size(), rb) == 0)
                          && en == (ra.size() >= rb.size() && ra.compare(ra.size() - rb.size(), rb.size(), rb) == 0) && cn == rn; }
                else if (w == ":cpb") { int i = t.n(); size_t dn = t.u(); unsigned char* d = (unsigned char*)malloc(dn ? dn : 1); memset(d, 0xCD, dn); O(i).copyToBuffer((char*)d, dn); log.push_back(std::string((char*)d, dn));
                    if (dn) { size_t q = std::min(dn - 1, refv[i].size()); ref = ref && memcmp(d, refv[i].data(), q) == 0 && d[q] == 0; for (size_t z = q + 1; z < dn; z++) ref = ref && d[z] == 0xCD; } free(d); }
                else if (w == ":find") { int i = t.n(); size_t st = t.u(); unsigned ch = (unsigned)t.u(); size_t r = O(i).findFrom(st, (char)ch); log.push_back(le8(r)); size_t e = (ch && st < refv[i].size()) ? refv[i].find((char)ch, st) : std::string::npos; ref = ref && r == e; }
                else { fprintf(stderr, "bad seq op %s\n", w.c_str()); exit(3); }
            }
            std::vector<std::string> v; for (int i = 0; i < 4; i++) { v.push_back(O(i).asCharString()); ref = ref && v[i] == refv[i]; }
            for (auto& e : log) v.push_back(e);
            val = listTok(v);
        }
    }
    else if (op == ":col") {
        // ONE SimpleStringCollection through a history of steps: <nops> then :sp text delimiter | :al n | :put i text | :sz | :get i | :snap.
        // value = the log of the observers, then the collection as it is at the end (size, every element, the element behind the last).
        // After EVERY step the whole collection is also compared with the reference list (size, every element, three reads outside the range).
        int n = t.n();
        std::vector<std::string> items, log;
        {
            SimpleStringCollection col;
            auto snap = [&](std::vector<std::string>& out) { size_t sz = col.size(); out.push_back(le8(sz)); if (sz > 70000) { out.push_back("size?"); return; }
                for (size_t i = 0; i < sz; i++) out.push_back(col[i].asCharString()); out.push_back(col[sz].asCharString()); };
            auto same = [&]() { bool ok = col.size() == items.size(); for (size_t i = 0; ok && i < items.size(); i++) ok = items[i] == col[i].asCharString();
                return ok && std::string(col[items.size()].asCharString()).empty() && std::string(col[items.size() + 7].asCharString()).empty() && std::string(col[SimpleString::npos].asCharString()).empty(); };
            ref = ref && same();
            for (int k = 0; k < n; k++) {
                std::string w = t.next();
                if (w == ":sp") { t.bytes(A); t.bytes(B); Cs a(A), d(B); SimpleString s(a.p), dd(d.p); s.split(dd, col); items = refSplitStr(A, B); ref = ref && s == SimpleString(a.p) && dd == SimpleString(d.p); }
                else if (w == ":al") { size_t m = t.u(); col.allocate(m); items.assign(m, std::string()); }
                else if (w == ":put") { size_t i = t.u(); t.bytes(A); Cs a(A); col[i] = SimpleString(a.p); if (i < items.size()) items[i] = A; }
                else if (w == ":sz") { log.push_back(le8(col.size())); }
                else if (w == ":get") { size_t i = t.u(); log.push_back(col[i].asCharString()); }
                else if (w == ":snap") { snap(log); }
                else { fprintf(stderr, "bad col op %s\n", w.c_str()); exit(3); }
                ref = ref && same();
            }
            snap(log);
            val = listTok(log);
        }
    }
    else if (op == ":als") {
        // ALIASING: ONE object s through a history of statements whose argument points into s's OWN buffer, written exactly as user code
        // writes them (overload resolution picks whatever the class offers): <text> <nops> then
        // :asgp k | :asgs | :ctor k | :appp k | :apps | :repl k1 k2 | observers :cmpp k | :cmps | :sstr k1 k2 | :scmp k1 k2.
        // The recording allocator really frees a released buffer (ASan: any read of it is a crash). value = s at the end, then the observers' log.
        t.bytes(A); int n = t.n();
        std::string R = A; std::vector<std::string> log;
        auto cnt = [](const std::string& ra, const std::string& rb) { size_t rn = 0; size_t pos = ra.find(rb, 0); while (pos != std::string::npos && pos < ra.size()) { rn++; pos = ra.find(rb, pos + 1); } return rn; };
        auto ends = [](const std::string& ra, const std::string& rb) { return ra.size() >= rb.size() && ra.compare(ra.size() - rb.size(), rb.size(), rb) == 0; };
        {
            Cs a(A); SimpleString s(a.p);
            for (int q = 0; q < n; q++) {
                std::string w = t.next();
                if (w == ":asgp") { size_t k = t.u(); s = s.asCharString() + k; R = R.substr(k); }
                else if (w == ":asgs") { s = s; }
                else if (w == ":ctor") { size_t k = t.u(); SimpleString u(s.asCharString() + k); s = u; R = R.substr(k); }
                else if (w == ":appp") { size_t k = t.u(); s += s.asCharString() + k; R = R + R.substr(k); }
                else if (w == ":apps") { s += s; R = R + R; }
                else if (w == ":repl") { size_t k1 = t.u(), k2 = t.u(); s.replace(s.asCharString() + k1, s.asCharString() + k2); R = refReplace(R, R.substr(k1), R.substr(k2)); }
                else if (w == ":cmpp") { size_t k = t.u(); const char* p = s.asCharString() + k; std::string rb = R.substr(k);
                    bool eq = s == p, co = s.contains(p), st = s.startsWith(p), en = s.endsWith(p); size_t cn = s.count(p);
                    std::string e; e += (char)eq; e += (char)co; e += (char)st; e += (char)en; e += le8(cn); log.push_back(e);
                    ref = ref && eq == (R == rb) && (s != p) == !eq && co == (R.find(rb) != std::string::npos) && st == (R.compare(0, rb.size(), rb) == 0) && en == ends(R, rb) && cn == cnt(R, rb); }
                else if (w == ":cmps") { bool eq = s == s, co = s.contains(s), st = s.startsWith(s), en = s.endsWith(s); size_t cn = s.count(s);
                    std::string e; e += (char)eq; e += (char)co; e += (char)st; e += (char)en; e += le8(cn); log.push_back(e);
                    ref = ref && eq && !(s != s) && co && st && en && cn == cnt(R, R); }
                else if (w == ":sstr") { size_t k1 = t.u(), k2 = t.u(); const char* p = s.asCharString(); const char* r = SimpleString::StrStr(p + k1, p + k2);
                    log.push_back(le8(r ? (size_t)(r - (p + k1)) : SimpleString::npos)); ref = ref && r == strstr(p + k1, p + k2); }
                else if (w == ":scmp") { size_t k1 = t.u(), k2 = t.u(); const char* p = s.asCharString(); int r = sgn(SimpleString::StrCmp(p + k1, p + k2));
                    log.push_back(std::string(1, (char)(r + 1))); ref = ref && r == sgn(strcmp(p + k1, p + k2)); }
                else { fprintf(stderr, "bad alias op %s\n", w.c_str()); exit(3); }
                ref = ref && R == s.asCharString() && s.size() == R.size();
            }
            std::vector<std::string> v; v.push_back(s.asCharString()); for (auto& e : log) v.push_back(e);
            val = listTok(v);
        }
    }
    else { fprintf(stderr, "bad op %s\n", op.c_str()); exit(3); }
    bool paired = rec.paired();
    o << val << (ref ? "1" : "0") << (paired ? "1" : "0");
    o.flush();
}

int main()
{
    setvbuf(stdout, NULL, _IONBF, 0);
    SimpleString::setStringAllocator(&rec);
    Toks t; Out o;
    while (readline(t)) one(t, o);
    SimpleString::setStringAllocator(NULLPTR);
    return 0;
}
