// C08 harness: interprets a mock scenario through the public C++ API (mock().expectNCalls / actualCall / checkExpectations ...)
// with a recording reporter that leaves the scenario at the first failure (as the real reporter leaves the test), then
// mock().clear().  Observation: failing operation + failure category (first line of the message mapped to an enum, with the
// names it mentions) + the (expected, called) counters of the expectations the message lists, then the returned values, the
// caller's output buffers after every completed actual call and the answers of expectedCallsLeft().
// Every operation is made on mock() or, after ":s <n>", on the named scope mock("s<n>").  Scenario grammar: see checks/C08.py.
// ":post" is the end-of-test check of a test that did not fail: on mock() it is the real MockSupportPlugin::postTestAction (its
// reporter adds the failure to the TestResult and returns; then clear()), and every failure that reaches the TestResult is
// observed (category + counters, in order); on a named scope the same is done by hand (recording reporter, checkExpectations(),
// clear()).
#include "CppUTest/TestHarness.h"
#include "CppUTest/TestOutput.h"
#include "CppUTest/TestResult.h"
#include "CppUTest/TestRegistry.h"
#include "CppUTest/TestPlugin.h"
#include "CppUTestExt/MockSupport.h"
#include "CppUTestExt/MockSupportPlugin.h"
#include "CppUTestExt/MockFailure.h"
#include "hlib.h"
#include <deque>
using namespace hl;

struct Stop {};
struct Recorder : MockFailureReporter {
    UtestShell shell; std::string msg; int count = 0;
    Recorder() : shell("verif", "scenario", "scenario.cpp", 1) {}
    void failTest(const MockFailure& f) override { if (count++ == 0) msg = f.getMessage().asCharString(); throw Stop(); }
    UtestShell* getTestToFail() override { return &shell; }
};

// receives what MockSupportPlugin's reporter hands to TestResult::addFailure
struct PostOutput : TestOutput {
    std::vector<std::string> msgs;
    void printBuffer(const char*) override {}
    void flush() override {}
    void printFailure(const TestFailure& f) override { msgs.push_back(f.getMessage().asCharString()); }
};
// a reporter that records and returns, as the plugin's does
struct Collector : MockFailureReporter {
    UtestShell& shell; std::vector<std::string> msgs;
    explicit Collector(UtestShell& s) : shell(s) {}
    void failTest(const MockFailure& f) override { msgs.push_back(f.getMessage().asCharString()); }
    UtestShell* getTestToFail() override { return &shell; }
};

static std::deque<std::string> keep;
struct Val { std::string tag; int ty = 0; long long z = 0; unsigned long long u = 0; const char* s = nullptr; };
static Val readVal(Toks& t)
{
    Val v; v.tag = t.next();
    if (v.tag == ":b") v.u = t.u();
    else if (v.tag == ":i") { v.ty = t.n(); v.z = t.z(); }
    else if (v.tag == ":s") { std::string b; t.bytes(b); keep.push_back(b); v.s = keep.back().c_str(); }
    else if (v.tag == ":p") v.u = t.u();
    else { fprintf(stderr, "bad value tag %s\n", v.tag.c_str()); exit(3); }
    return v;
}
static std::string fname(unsigned long long id) { return "f" + hx(id); }
static std::string pname(unsigned long long id) { return "p" + hx(id); }
static std::string oname(unsigned long long id) { return "o" + hx(id); }
static const size_t OUT_MAX = 8;                      // size of every caller buffer (C08_Model.out_max)
static std::deque<std::vector<unsigned char>> bufs;   // caller buffers and expected output data, alive until the scenario ends

template <class Call> static void withParam(Call& c, const std::string& n, const Val& v)
{
    if (v.tag == ":b") c.withParameter(n.c_str(), v.u != 0);
    else if (v.tag == ":i") switch (v.ty) {
        case 0: c.withParameter(n.c_str(), (int)v.z); break;
        case 1: c.withParameter(n.c_str(), (unsigned int)v.z); break;
        case 2: c.withParameter(n.c_str(), (long int)v.z); break;
        case 3: c.withParameter(n.c_str(), (unsigned long int)v.z); break;
        case 4: c.withParameter(n.c_str(), (long long)v.z); break;
        default: c.withParameter(n.c_str(), (unsigned long long)v.z); break;
    }
    else if (v.tag == ":s") c.withParameter(n.c_str(), v.s);
    else c.withParameter(n.c_str(), (void*)(uintptr_t)v.u);
}
static void andReturn(MockExpectedCall& e, const Val& v)
{
    if (v.tag == ":b") e.andReturnValue(v.u != 0);
    else if (v.tag == ":i") switch (v.ty) {
        case 0: e.andReturnValue((int)v.z); break;
        case 1: e.andReturnValue((unsigned int)v.z); break;
        case 2: e.andReturnValue((long int)v.z); break;
        case 3: e.andReturnValue((unsigned long int)v.z); break;
        case 4: e.andReturnValue((long long)v.z); break;
        default: e.andReturnValue((unsigned long long)v.z); break;
    }
    else if (v.tag == ":s") e.andReturnValue(v.s);
    else e.andReturnValue((void*)(uintptr_t)v.u);
}
static std::string showValue(const MockNamedValue& v)
{
    std::string ty = v.getType().asCharString();
    if (ty == "bool") return std::string(":b ") + (v.getBoolValue() ? "1" : "0");
    if (ty == "int") return ":i 0 " + hz(v.getIntValue());
    if (ty == "unsigned int") return ":i 1 " + hx(v.getUnsignedIntValue());
    if (ty == "long int") return ":i 2 " + hz(v.getLongIntValue());
    if (ty == "unsigned long int") return ":i 3 " + hx(v.getUnsignedLongIntValue());
    if (ty == "long long int") return ":i 4 " + hz(v.getLongLongIntValue());
    if (ty == "unsigned long long int") return ":i 5 " + hx(v.getUnsignedLongLongIntValue());
    if (ty == "const char*") return ":s " + hstr(v.getStringValue());
    if (ty == "void*") return ":p " + hx((unsigned long long)(uintptr_t)v.getPointerValue());
    return ":unknown-type";
}

// "f1a" -> 1a ; anything else -> "?" (makes the observation differ)
static unsigned long long curScope = 0;   // scope of the operation in progress: failure texts name functions "s<scope>::f<id>"
static std::string idOf(std::string s, char prefix)
{
    if (prefix == 'f' && curScope != 0) {
        std::string sc = "s" + hx(curScope) + "::";
        if (s.compare(0, sc.size(), sc) != 0) return "?";
        s = s.substr(sc.size());
    }
    else if (prefix == 'f' && s.size() > 1 && s[0] == 's') {
        // an operation on mock() finishes the scopes' last calls too: their failures name "s<n>::f<id>"
        size_t k = s.find("::"); if (k == std::string::npos) return "?";
        s = s.substr(k + 2);
    }
    if (s.size() < 2 || s[0] != prefix) return "?";
    for (size_t i = 1; i < s.size(); i++) if (!isxdigit((unsigned char)s[i])) return "?";
    return s.substr(1);
}
static bool starts(const std::string& s, const char* p) { return s.compare(0, strlen(p), p) == 0; }
static std::string between(const std::string& s, const std::string& a, const std::string& b)
{
    size_t i = s.find(a); if (i == std::string::npos) return "";
    i += a.size(); size_t j = b.empty() ? std::string::npos : s.find(b, i);
    return s.substr(i, j == std::string::npos ? std::string::npos : j - i);
}
// the (expected, called) pairs of the lines of one section of the message
static std::string section(const std::vector<std::string>& lines, size_t from, size_t to)
{
    std::string r; int n = 0;
    for (size_t i = from; i < to; i++) {
        size_t k = lines[i].rfind("(expected ");
        if (k == std::string::npos) continue;
        unsigned e = 0, a = 0;
        if (sscanf(lines[i].c_str() + k, "(expected %u call%*[s,] called %u", &e, &a) != 2) { r += " ? ?"; n++; continue; }
        r += " " + hx(e) + " " + hx(a); n++;
    }
    return hx((unsigned)n) + r;
}
static std::string classify(const std::string& msg)
{
    std::vector<std::string> lines; { std::istringstream is(msg); std::string l; while (std::getline(is, l)) lines.push_back(l); }
    if (lines.empty()) return ":empty 0 0 0 0";
    const std::string& l0 = lines[0];
    std::string k;
    if (starts(l0, "Mock Failure: Unexpected call to function: ")) k = ":unexpected " + idOf(l0.substr(strlen("Mock Failure: Unexpected call to function: ")), 'f') + " 0";
    else if (starts(l0, "Mock Failure: Unexpected additional (")) {
        unsigned n = 0; sscanf(l0.c_str(), "Mock Failure: Unexpected additional (%u", &n);
        k = ":additional " + idOf(between(l0, "call to function: ", ""), 'f') + " " + hx(n);
    }
    else if (starts(l0, "Mock Failure: Unexpected parameter name to function \"")) k = ":pname " + idOf(between(l0, "to function \"", "\""), 'f') + " " + idOf(between(l0, "\": ", ""), 'p');
    else if (starts(l0, "Mock Failure: Unexpected parameter value to parameter \"")) k = ":pvalue " + idOf(between(l0, "to function \"", "\""), 'f') + " " + idOf(between(l0, "to parameter \"", "\""), 'p');
    else if (starts(l0, "Mock Failure: Expected parameter for function \"")) {
        int listed = 0; for (auto& l : lines) if (l.find("MISSING parameters: ") != std::string::npos) listed++;
        k = ":pmissing " + idOf(between(l0, "for function \"", "\""), 'f') + " " + hx((unsigned)listed);
    }
    else if (starts(l0, "Mock Failure: Unexpected output parameter name to function \"")) k = ":oname " + idOf(between(l0, "to function \"", "\""), 'f') + " " + idOf(between(l0, "\": ", ""), 'o');
    else if (starts(l0, "Mock Failure: Unexpected parameter type \"")) k = ":otype " + idOf(between(l0, "to function \"", "\""), 'f') + " " + idOf(between(l0, "to output parameter \"", "\""), 'o');
    else if (starts(l0, "MockFailure: Function called on an unexpected object: ")) k = ":ounexpected " + idOf(l0.substr(strlen("MockFailure: Function called on an unexpected object: ")), 'f') + " 0";
    else if (starts(l0, "Mock Failure: Expected call on object for function \"")) k = ":omissing " + idOf(between(l0, "for function \"", "\""), 'f') + " 0";
    else if (starts(l0, "Mock Failure: Expected call WAS NOT fulfilled.")) k = ":unfulfilled 0 0";
    else if (starts(l0, "Mock Failure: Out of order calls")) k = ":order 0 0";
    else if (l0.find("This cannot happen") != std::string::npos) k = ":cannot 0 0";
    else k = ":other 0 0";
    size_t a = lines.size(), b = lines.size(), c = lines.size();
    for (size_t i = 0; i < lines.size(); i++) {
        if (a == lines.size() && lines[i].find("EXPECTED calls that WERE NOT fulfilled") != std::string::npos) a = i;
        else if (b == lines.size() && lines[i].find("EXPECTED calls that WERE fulfilled") != std::string::npos) b = i;
        else if (c == lines.size() && lines[i].find("ACTUAL unexpected") != std::string::npos) c = i;
    }
    return k + " " + section(lines, a, b) + " " + section(lines, b, c);
}

static unsigned char* newBuf(const std::string& content, size_t size)
{
    bufs.emplace_back(content.begin(), content.end());
    if (bufs.back().size() < size) bufs.back().resize(size, 0xEE);
    return bufs.back().data();
}

// what one interpreter session (a whole single scenario, or the body of one test of a run) hands back
struct Session {
    std::vector<std::string> rets, outs, lefts, posts;
    long idx = 0;                       // index of the mock operation in progress
    MockFailureReporter* reporter;      // the reporter mock() has while the operations run (NULL = the library's default one)
    UtestShell* shell;                  // the test an explicit ":post" names
    Session(MockFailureReporter* r, UtestShell* s) : reporter(r), shell(s) {}
};

// interprets operations until the tokens end.  Single scenario: the recording reporter throws Stop at the first failure.  Test of a
// run: the library's own reporter fails the current test and leaves it (exception / longjmp through this frame).
static void execOps(Toks& t, Session& S)
{
    std::vector<std::string>& rets = S.rets; std::vector<std::string>& outs = S.outs;
    std::vector<std::string>& lefts = S.lefts; std::vector<std::string>& posts = S.posts;
    for (; !t.end(); ) {
        std::string op = t.next();
        if (op == ":ok") { CHECK(true); continue; }                 // a check of the test's own (run mode only)
        if (op == ":bad") { FAIL("own check"); continue; }
        curScope = 0;
        if (op == ":s") { curScope = t.u(); op = t.next(); }
        MockSupport& ms = curScope ? mock(("s" + hx(curScope)).c_str()) : mock();
        if (op == ":e" || op == ":E") {
            unsigned n = (unsigned)t.u(); std::string f = fname(t.u()); int k = t.n();
            MockExpectedCall& e = ms.expectNCalls(n, f.c_str());
            for (int i = 0; i < k; i++) { std::string pn = pname(t.u()); Val v = readVal(t); withParam(e, pn, v); }
            if (op == ":E") {
                int ko = t.n();
                for (int i = 0; i < ko; i++) {
                    std::string on = oname(t.u()); std::string b; t.bytes(b);
                    e.withOutputParameterReturning(on.c_str(), newBuf(b, 1), b.size());
                }
                if (t.peek() == "~") t.next(); else e.onObject((void*)(uintptr_t)t.u());     // "0" = onObject(NULLPTR): the null object
            }
            if (t.peek() == "~") t.next(); else { Val v = readVal(t); andReturn(e, v); }
            if (t.u()) e.ignoreOtherParameters();
        }
        else if (op == ":c" || op == ":C") {
            std::string f = fname(t.u()); int k = t.n();
            struct It { char kind; std::string name; Val v; unsigned char* buf; void* obj; };
            std::vector<It> its;
            for (int i = 0; i < k; i++) {
                It it; it.kind = 'i'; it.buf = nullptr; it.obj = nullptr;
                if (op == ":C") {
                    std::string tag = t.next();
                    if (tag == ":in") { it.name = pname(t.u()); it.v = readVal(t); }
                    else if (tag == ":out") { it.kind = 'o'; it.name = oname(t.u()); std::string b; t.bytes(b); it.buf = newBuf(b, OUT_MAX); }
                    else if (tag == ":obj") { it.kind = 'j'; it.obj = (void*)(uintptr_t)t.u(); }
                    else { fprintf(stderr, "bad item %s\n", tag.c_str()); exit(3); }
                }
                else { it.name = pname(t.u()); it.v = readVal(t); }
                its.push_back(it);
            }
            bool want = t.u() != 0;
            MockActualCall& c = ms.actualCall(f.c_str());
            for (auto& it : its) {
                if (it.kind == 'i') withParam(c, it.name, it.v);
                else if (it.kind == 'o') c.withOutputParameter(it.name.c_str(), it.buf);
                else c.onObject(it.obj);
            }
            if (want) { if (c.hasReturnValue()) rets.push_back(showValue(c.returnValue())); else rets.push_back(":n"); }
            for (auto& it : its) if (it.kind == 'o') outs.push_back(hbytes(it.buf, OUT_MAX));
        }
        else if (op == ":chk") ms.checkExpectations();
        else if (op == ":clr") ms.clear();
        else if (op == ":strict") ms.strictOrder();
        else if (op == ":ign") ms.ignoreOtherCalls();
        else if (op == ":en") ms.enable();
        else if (op == ":dis") ms.disable();
        else if (op == ":left") lefts.push_back(ms.expectedCallsLeft() ? "1" : "0");
        else if (op == ":post") {
            std::vector<std::string> msgs; size_t counted = 0;
            if (curScope == 0) {
                PostOutput po; TestResult tr(po); MockSupportPlugin plugin;
                plugin.postTestAction(*S.shell, tr);
                msgs = po.msgs; counted = tr.getFailureCount();
            }
            else {
                Collector col(*S.shell);
                mock().setMockFailureStandardReporter(&col);
                MockSupport& sc = mock(("s" + hx(curScope)).c_str());
                sc.checkExpectations();
                sc.clear();
                msgs = col.msgs; counted = msgs.size();
            }
            mock().setMockFailureStandardReporter(S.reporter);
            for (auto& m : msgs) posts.push_back(classify(m));
            for (size_t i = msgs.size(); i < counted; i++) posts.push_back(":other 0 0 0 0");   // counted but not printed
        }
        else { fprintf(stderr, "bad op %s\n", op.c_str()); exit(3); }
        S.idx++;
    }
}

static void printObs(Out& o, long failedAt, const std::string& verdict, const Session& S)
{
    if (failedAt < 0) o << "~"; else { o << hx((unsigned long long)failedAt); o << verdict; }
    o << hx(S.rets.size());
    for (auto& r : S.rets) o << r;
    o << hx(S.outs.size());
    for (auto& r : S.outs) o << r;
    o << hx(S.lefts.size());
    for (auto& r : S.lefts) o << r;
    o << hx(S.posts.size());
    for (auto& r : S.posts) o << r;
}

// ---------------------------------------------------------------- a run of several tests with the MockSupportPlugin installed
// ":T step* [:D tdstep*]" per test (tdstep = [:s n] :chk | [:s n] :clr: the test's teardown).  The tests are UtestShells of a private TestRegistry that has the real MockSupportPlugin installed and are run
// by TestRegistry::runAllTests with ONE TestResult; the body of a test interprets its steps with the library's default mock
// failure reporter (it fails the current test and leaves it).  Observed per test: every failure that reaches the TestResult's
// output while the test runs (body: the failing operation / the test's own check; after the body: what the plugin's end-of-test
// check delivered), and TestResult::getFailureCount() when the test ended.
struct TestScript {
    Toks t; Session S; int phase = 0;            // 0 = not started / after the teardown, 1 = body, 2 = teardown
    Toks td; Session TD;                         // the teardown section (":D ...") and its interpreter session
    std::vector<std::string> bodyMsgs, tdMsgs, postMsgs; std::vector<unsigned long long> bodyScope, tdScope; std::vector<long> tdIdx;
    size_t total = 0; bool ended = false;
    TestScript() : S(nullptr, nullptr), TD(nullptr, nullptr) {}
};
static TestScript* gCur = nullptr;
class ScriptedUtest : public Utest {
public:
    explicit ScriptedUtest(TestScript* d) : d_(d) {}
    void testBody() CPPUTEST_OVERRIDE { d_->phase = 1; execOps(d_->t, d_->S); }
    // the teardown of the test: runs whether or not the body was left at a failure, with the same (default) mock failure reporter
    void teardown() CPPUTEST_OVERRIDE
    {
        d_->phase = 2;                            // ends when the post actions begin (PhasePlugin), however the teardown is left
        execOps(d_->td, d_->TD);
    }
private:
    TestScript* d_;
};
class ScriptedShell : public UtestShell {
public:
    ScriptedShell(TestScript* d, const char* name) : UtestShell("verif", name, "scenario.cpp", 1), d_(d) {}   // the name is not copied
    Utest* createTest() CPPUTEST_OVERRIDE { gCur = d_; d_->S.shell = this; d_->TD.shell = this; return new ScriptedUtest(d_); }
private:
    TestScript* d_;
};
// installed BEFORE the MockSupportPlugin, so that its post action runs first (post actions run from the end of the chain): whatever
// is delivered from now on was delivered by the plugins' post actions, not by the teardown
struct PhasePlugin : TestPlugin {
    PhasePlugin() : TestPlugin("VerifPhase") {}
    void postTestAction(UtestShell&, TestResult&) CPPUTEST_OVERRIDE { if (gCur) gCur->phase = 0; }
};
struct RunOutput : TestOutput {
    void printBuffer(const char*) CPPUTEST_OVERRIDE {}
    void flush() CPPUTEST_OVERRIDE {}
    void printFailure(const TestFailure& f) CPPUTEST_OVERRIDE
    {
        if (!gCur) return;
        if (gCur->phase == 1) { gCur->bodyMsgs.push_back(f.getMessage().asCharString()); gCur->bodyScope.push_back(curScope); }
        else if (gCur->phase == 2) { gCur->tdMsgs.push_back(f.getMessage().asCharString()); gCur->tdScope.push_back(curScope); gCur->tdIdx.push_back(gCur->TD.idx); }
        else gCur->postMsgs.push_back(f.getMessage().asCharString());
    }
    void printCurrentTestEnded(const TestResult& r) CPPUTEST_OVERRIDE { if (gCur) { gCur->total = r.getFailureCount(); gCur->ended = true; gCur->phase = 0; } }
};

static void runOfTests(Toks& t, Out& o)
{
    std::deque<TestScript> scripts;
    bool withTeardown = false;
    while (!t.end()) {
        if (t.next() != ":T") { fprintf(stderr, "expected :T\n"); exit(3); }
        scripts.emplace_back();
        while (!t.end() && t.peek() != ":T" && t.peek() != ":D") scripts.back().t.t.push_back(t.next());
        if (!t.end() && t.peek() == ":D") {
            withTeardown = true; t.next();
            while (!t.end() && t.peek() != ":T") scripts.back().td.t.push_back(t.next());
        }
    }
    mock().clear();
    mock().setMockFailureStandardReporter(nullptr);
    {
        TestRegistry registry;
        PhasePlugin phasePlugin;
        registry.installPlugin(&phasePlugin);
        MockSupportPlugin plugin("MockSupportPlugin");
        registry.installPlugin(&plugin);
        std::deque<std::string> names; std::deque<ScriptedShell> shells;
        for (size_t k = 0; k < scripts.size(); k++) { names.push_back("t" + hx(k)); shells.emplace_back(&scripts[k], names.back().c_str()); }
        for (size_t k = scripts.size(); k-- > 0;) registry.addTest(&shells[k]);      // addTest prepends: first added runs last
        RunOutput out; TestResult result(out);
        TestRegistry* previous = TestRegistry::getCurrentRegistry();
        registry.setCurrentRegistry(&registry);
        registry.runAllTests(result);
        registry.setCurrentRegistry(previous);
        gCur = nullptr;
    }
    mock().clear();
    mock().setMockFailureStandardReporter(nullptr);
    o << (withTeardown ? ":runt" : ":run"); o << hx(scripts.size());
    for (auto& sc : scripts) {
        // the first failure of the body: the test's own check, or the mock failure of the operation in progress; anything the body
        // delivered beyond it is shown with the end-of-test failures (and is one failure too many)
        bool own = false; long failedAt = -1; std::string verdict;
        size_t from = 0;
        if (!sc.bodyMsgs.empty()) {
            from = 1;
            if (sc.bodyMsgs[0] == "own check") own = true;
            else { failedAt = sc.S.idx; curScope = sc.bodyScope[0]; verdict = classify(sc.bodyMsgs[0]); }
        }
        for (size_t k = from; k < sc.bodyMsgs.size(); k++) { curScope = sc.bodyScope[k]; sc.S.posts.push_back(classify(sc.bodyMsgs[k])); }
        curScope = 0;
        for (auto& m : sc.postMsgs) sc.S.posts.push_back(classify(m));
        o << (own ? "1" : "0"); o << (sc.ended ? hx(sc.total) : std::string("?"));
        if (withTeardown) {
            // every failure delivered while the teardown ran: index of the teardown operation in progress + diagnosis
            o << hx(sc.tdMsgs.size());
            for (size_t k = 0; k < sc.tdMsgs.size(); k++) { curScope = sc.tdScope[k]; o << hx((unsigned long long)sc.tdIdx[k]); o << classify(sc.tdMsgs[k]); }
            curScope = 0;
        }
        printObs(o, failedAt, verdict, sc.S);
    }
    o.flush();
}

int main()
{
    Toks t; Out o;
    Recorder rec;
    while (readline(t)) {
        keep.clear(); bufs.clear();
        if (t.peek() == ":T") { runOfTests(t, o); continue; }
        rec.msg.clear(); rec.count = 0;
        mock().clear();
        mock().setMockFailureStandardReporter(&rec);
        Session S(&rec, &rec.shell);
        long failedAt = -1;
        curScope = 0;
        try { execOps(t, S); } catch (Stop&) { failedAt = S.idx; }
        std::string verdict = failedAt < 0 ? std::string() : classify(rec.msg);
        mock().clear();
        mock().setMockFailureStandardReporter(nullptr);
        printObs(o, failedAt, verdict, S);
        o.flush();
    }
    return 0;
}
