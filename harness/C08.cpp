// C08 harness: interprets a mock scenario through the public C++ API (mock().expectNCalls / actualCall / checkExpectations ...)
// with a recording reporter that leaves the scenario at the first failure (as the real reporter leaves the test), then
// mock().clear().  Observation: failing operation + failure category (first line of the message mapped to an enum, with the
// names it mentions) + the (expected, called) counters of the expectations the message lists, then the returned values.
// Scenario grammar: see checks/C08.py.
#include "CppUTest/TestHarness.h"
#include "CppUTestExt/MockSupport.h"
#include "CppUTestExt/MockFailure.h"
#include "hlib.h"
#include <deque>
using namespace hl;

struct Stop {};
struct Recorder : MockFailureReporter {
    UtestShell shell; std::string msg; int count = 0;
    Recorder() : shell("verif", "scenario", "scenario.cpp", 1) {}
    void failTest(const MockFailure& f) override { if (count++ == 0) msg = f.getMessage().asCharString(); throw Stop(); }
    UtestShell* getTestToFail() override { return &shell; }
};

static std::deque<std::string> keep;
struct Val { std::string tag; int ty = 0; long long z = 0; unsigned long long u = 0; const char* s = nullptr; };
static Val readVal(Toks& t)
{
    Val v; v.tag = t.next();
    if (v.tag == ":b") v.u = t.u();
    else if (v.tag == ":i") { v.ty = t.n(); v.z = t.z(); }
    else if (v.tag == ":s") { std::string b; t.bytes(b); keep.push_back(b); v.s = keep.back().c_str(); }
    else if (v.tag == ":p") v.u = t.u();
    else { fprintf(stderr, "bad value tag %s\n", v.tag.c_str()); exit(3); }
    return v;
}
static std::string fname(unsigned long long id) { return "f" + hx(id); }
static std::string pname(unsigned long long id) { return "p" + hx(id); }

template <class Call> static void withParam(Call& c, const std::string& n, const Val& v)
{
    if (v.tag == ":b") c.withParameter(n.c_str(), v.u != 0);
    else if (v.tag == ":i") switch (v.ty) {
        case 0: c.withParameter(n.c_str(), (int)v.z); break;
        case 1: c.withParameter(n.c_str(), (unsigned int)v.z); break;
        case 2: c.withParameter(n.c_str(), (long int)v.z); break;
        case 3: c.withParameter(n.c_str(), (unsigned long int)v.z); break;
        case 4: c.withParameter(n.c_str(), (long long)v.z); break;
        default: c.withParameter(n.c_str(), (unsigned long long)v.z); break;
    }
    else if (v.tag == ":s") c.withParameter(n.c_str(), v.s);
    else c.withParameter(n.c_str(), (void*)(uintptr_t)v.u);
}
static void andReturn(MockExpectedCall& e, const Val& v)
{
    if (v.tag == ":b") e.andReturnValue(v.u != 0);
    else if (v.tag == ":i") switch (v.ty) {
        case 0: e.andReturnValue((int)v.z); break;
        case 1: e.andReturnValue((unsigned int)v.z); break;
        case 2: e.andReturnValue((long int)v.z); break;
        case 3: e.andReturnValue((unsigned long int)v.z); break;
        case 4: e.andReturnValue((long long)v.z); break;
        default: e.andReturnValue((unsigned long long)v.z); break;
    }
    else if (v.tag == ":s") e.andReturnValue(v.s);
    else e.andReturnValue((void*)(uintptr_t)v.u);
}
static std::string showValue(const MockNamedValue& v)
{
    std::string ty = v.getType().asCharString();
    if (ty == "bool") return std::string(":b ") + (v.getBoolValue() ? "1" : "0");
    if (ty == "int") return ":i 0 " + hz(v.getIntValue());
    if (ty == "unsigned int") return ":i 1 " + hx(v.getUnsignedIntValue());
    if (ty == "long int") return ":i 2 " + hz(v.getLongIntValue());
    if (ty == "unsigned long int") return ":i 3 " + hx(v.getUnsignedLongIntValue());
    if (ty == "long long int") return ":i 4 " + hz(v.getLongLongIntValue());
    if (ty == "unsigned long long int") return ":i 5 " + hx(v.getUnsignedLongLongIntValue());
    if (ty == "const char*") return ":s " + hstr(v.getStringValue());
    if (ty == "void*") return ":p " + hx((unsigned long long)(uintptr_t)v.getPointerValue());
    return ":unknown-type";
}

// "f1a" -> 1a ; anything else -> "?" (makes the observation differ)
static std::string idOf(const std::string& s, char prefix)
{
    if (s.size() < 2 || s[0] != prefix) return "?";
    for (size_t i = 1; i < s.size(); i++) if (!isxdigit((unsigned char)s[i])) return "?";
    return s.substr(1);
}
static bool starts(const std::string& s, const char* p) { return s.compare(0, strlen(p), p) == 0; }
static std::string between(const std::string& s, const std::string& a, const std::string& b)
{
    size_t i = s.find(a); if (i == std::string::npos) return "";
    i += a.size(); size_t j = b.empty() ? std::string::npos : s.find(b, i);
    return s.substr(i, j == std::string::npos ? std::string::npos : j - i);
}
// the (expected, called) pairs of the lines of one section of the message
static std::string section(const std::vector<std::string>& lines, size_t from, size_t to)
{
    std::string r; int n = 0;
    for (size_t i = from; i < to; i++) {
        size_t k = lines[i].rfind("(expected ");
        if (k == std::string::npos) continue;
        unsigned e = 0, a = 0;
        if (sscanf(lines[i].c_str() + k, "(expected %u call%*[s,] called %u", &e, &a) != 2) { r += " ? ?"; n++; continue; }
        r += " " + hx(e) + " " + hx(a); n++;
    }
    return hx((unsigned)n) + r;
}
static std::string classify(const std::string& msg)
{
    std::vector<std::string> lines; { std::istringstream is(msg); std::string l; while (std::getline(is, l)) lines.push_back(l); }
    if (lines.empty()) return ":empty 0 0 0 0";
    const std::string& l0 = lines[0];
    std::string k;
    if (starts(l0, "Mock Failure: Unexpected call to function: ")) k = ":unexpected " + idOf(l0.substr(strlen("Mock Failure: Unexpected call to function: ")), 'f') + " 0";
    else if (starts(l0, "Mock Failure: Unexpected additional (")) {
        unsigned n = 0; sscanf(l0.c_str(), "Mock Failure: Unexpected additional (%u", &n);
        k = ":additional " + idOf(between(l0, "call to function: ", ""), 'f') + " " + hx(n);
    }
    else if (starts(l0, "Mock Failure: Unexpected parameter name to function \"")) k = ":pname " + idOf(between(l0, "to function \"", "\""), 'f') + " " + idOf(between(l0, "\": ", ""), 'p');
    else if (starts(l0, "Mock Failure: Unexpected parameter value to parameter \"")) k = ":pvalue " + idOf(between(l0, "to function \"", "\""), 'f') + " " + idOf(between(l0, "to parameter \"", "\""), 'p');
    else if (starts(l0, "Mock Failure: Expected parameter for function \"")) {
        int listed = 0; for (auto& l : lines) if (l.find("MISSING parameters: ") != std::string::npos) listed++;
        k = ":pmissing " + idOf(between(l0, "for function \"", "\""), 'f') + " " + hx((unsigned)listed);
    }
    else if (starts(l0, "Mock Failure: Expected call on object for function \"")) k = ":omissing " + idOf(between(l0, "for function \"", "\""), 'f') + " 0";
    else if (starts(l0, "Mock Failure: Expected call WAS NOT fulfilled.")) k = ":unfulfilled 0 0";
    else if (starts(l0, "Mock Failure: Out of order calls")) k = ":order 0 0";
    else if (l0.find("This cannot happen") != std::string::npos) k = ":cannot 0 0";
    else k = ":other 0 0";
    size_t a = lines.size(), b = lines.size(), c = lines.size();
    for (size_t i = 0; i < lines.size(); i++) {
        if (a == lines.size() && lines[i].find("EXPECTED calls that WERE NOT fulfilled") != std::string::npos) a = i;
        else if (b == lines.size() && lines[i].find("EXPECTED calls that WERE fulfilled") != std::string::npos) b = i;
        else if (c == lines.size() && lines[i].find("ACTUAL unexpected") != std::string::npos) c = i;
    }
    return k + " " + section(lines, a, b) + " " + section(lines, b, c);
}

int main()
{
    Toks t; Out o;
    Recorder rec;
    while (readline(t)) {
        keep.clear();
        rec.msg.clear(); rec.count = 0;
        mock().clear();
        mock().setMockFailureStandardReporter(&rec);
        std::vector<std::string> rets;
        long failedAt = -1; long idx = 0;
        try {
            for (; !t.end(); idx++) {
                std::string op = t.next();
                if (op == ":e") {
                    unsigned n = (unsigned)t.u(); std::string f = fname(t.u()); int k = t.n();
                    MockExpectedCall& e = mock().expectNCalls(n, f.c_str());
                    for (int i = 0; i < k; i++) { std::string pn = pname(t.u()); Val v = readVal(t); withParam(e, pn, v); }
                    if (t.peek() == "~") t.next(); else { Val v = readVal(t); andReturn(e, v); }
                    if (t.u()) e.ignoreOtherParameters();
                }
                else if (op == ":c") {
                    std::string f = fname(t.u()); int k = t.n();
                    std::vector<std::pair<std::string, Val>> ps;
                    for (int i = 0; i < k; i++) { std::string pn = pname(t.u()); ps.push_back(std::make_pair(pn, readVal(t))); }
                    bool want = t.u() != 0;
                    MockActualCall& c = mock().actualCall(f.c_str());
                    for (auto& p : ps) withParam(c, p.first, p.second);
                    if (want) { if (c.hasReturnValue()) rets.push_back(showValue(c.returnValue())); else rets.push_back(":n"); }
                }
                else if (op == ":chk") mock().checkExpectations();
                else if (op == ":clr") mock().clear();
                else if (op == ":strict") mock().strictOrder();
                else if (op == ":ign") mock().ignoreOtherCalls();
                else { fprintf(stderr, "bad op %s\n", op.c_str()); exit(3); }
            }
        } catch (Stop&) { failedAt = idx; }
        mock().clear();
        mock().setMockFailureStandardReporter(nullptr);
        if (failedAt < 0) o << "~"; else { o << hx((unsigned long long)failedAt); o << classify(rec.msg); }
        o << hx(rets.size());
        for (auto& r : rets) o << r;
        o.flush();
    }
    return 0;
}
